// Planning artefact (not part of any check): concrete inputs that demonstrate the defects F1-F8 of
// DESIGN.md section 4 against the real code.  Run from a scratch module outside /repo and /verif:
//
//	go.mod:  module probe; go 1.20; require github.com/dave/jennifer v0.0.0
//	         replace github.com/dave/jennifer => /repo        (or a repaired copy)
//
// On the pinned tree: F2 prints two imports named pkg_d, F3 prints `import pkg_. "a/d"`, F1 uses
// `any` as an import name, every F4 line panics, F5 panics on the second render and drops the
// braces of the re-used block, F6 prints `f(): 2` twice, F7 reports 3 distinct outputs, F8 panics.
package main

import (
	"bytes"
	"fmt"

	. "github.com/dave/jennifer/jen"
)

func try(name string, fn func() string) {
	defer func() {
		if r := recover(); r != nil {
			fmt.Printf("== %s: PANIC %v\n", name, r)
		}
	}()
	fmt.Printf("== %s:\n%s\n", name, fn())
}

func main() {
	try("F1 reserved any", func() string {
		f := NewFile("a")
		f.Var().Id("x").Op("=").Qual("a/any", "X")
		return fmt.Sprintf("%#v", f)
	})
	try("F2 prefix after uniqueness", func() string {
		f := NewFile("a")
		f.PackagePrefix = "pkg"
		f.Var().Id("x").Op("=").Qual("a/d", "X")
		f.Var().Id("y").Op("=").Qual("b/d", "Y")
		return fmt.Sprintf("%#v", f)
	})
	try("F3 prefix on dot import", func() string {
		f := NewFile("a")
		f.PackagePrefix = "pkg"
		f.NoFormat = true
		f.ImportAlias("a/d", ".")
		f.Var().Id("x").Op("=").Qual("a/d", "X")
		return fmt.Sprintf("%#v", f)
	})
	try("F4 List(nil,x)", func() string { return fmt.Sprintf("%#v", Id("a").Op("=").List(nil, Id("x"))) })
	try("F4 Union(nil,x)", func() string {
		return fmt.Sprintf("%#v", Type().Id("C").Interface(Union(nil, Id("x"))))
	})
	try("F4 Types(nil)", func() string { return fmt.Sprintf("%#v", Id("a").Types(nil)) })
	try("F4 Params(Add(nil))", func() string { return fmt.Sprintf("%#v", Func().Id("a").Params(Add(nil), Id("x").Int())) })
	try("F4 typed-nil group before Block", func() string {
		var g *Group
		return fmt.Sprintf("%#v", Add(g).Block(Id("a")))
	})
	try("F4 Dict nil value", func() string {
		return fmt.Sprintf("%#v", Id("T").Values(Dict{Id("a"): nil, Id("b"): Lit(1)}))
	})
	try("F5 second render", func() string {
		s := Switch(Id("v")).Block(Case(Lit(1)).Block(nil))
		return fmt.Sprintf("%#v", s) + "\n--\n" + fmt.Sprintf("%#v", s)
	})
	try("F5 re-used block group", func() string {
		s := Case(Lit(1)).Block(Id("a").Call())
		a := fmt.Sprintf("%#v", Switch(Id("v")).Block(s))
		var buf bytes.Buffer
		err := Func().Id("f").Params().Add((*s)[1]).Render(&buf)
		return a + "\n--\n" + buf.String() + fmt.Sprint(" err=", err)
	})
	try("F6 equal key text", func() string {
		return fmt.Sprintf("%#v", Map(String()).Int().Values(Dict{Id("f").Call(): Lit(1), Id("f").Call(): Lit(2)}))
	})
	outs := map[string]int{}
	for i := 0; i < 200; i++ {
		f := NewFile("a")
		f.Var().Id("x").Op("=").Values(Dict{Qual("a/d", "X"): Lit(1), Qual("b/d", "X"): Lit(2), Qual("c/d", "X"): Lit(3)})
		outs[fmt.Sprintf("%#v", f)]++
	}
	fmt.Println("== F7 distinct outputs over 200 builds:", len(outs))
	try("F8 Values(Dict, x) through Render", func() string {
		var b bytes.Buffer
		err := Values(Dict{Id("a"): Lit(1)}, Lit(2)).Render(&b)
		return fmt.Sprint(err)
	})
}
