#!/usr/bin/env python3
"""Planning artefact (not part of any check): applies the repair sketches of DESIGN.md section 4
to a COPY of the repository so they can be tried out.  usage: planned_fixes.py <repo-copy-root>
Tried on 2026-10-04 against the pinned tree: builds, the 153-test suite passes, and every probe in
findings/probe/main.go stops failing.  The real repairs are made later as separate `fix:` commits."""
import sys, os
root = sys.argv[1]

def sub(path, old, new):
    p = os.path.join(root, path)
    s = open(p).read()
    assert old in s, (path, old[:50])
    open(p, 'w').write(s.replace(old, new, 1))

# F1 (C05): reserved words
sub('jen/reserved.go', '"real", "recover",', '"real", "recover", "any", "comparable",')

# F4 (C13): nil items behave like Null() in every null check
sub('jen/group.go', '''		if !c.isNull(f) {
			return false
		}''', '''		if c != nil && !c.isNull(f) {
			return false
		}''')
sub('jen/statement.go', '''		if !c.isNull(f) {
			return false
		}''', '''		if c != nil && !c.isNull(f) {
			return false
		}''')
sub('jen/dict.go', '''		if k.isNull(f) || v.isNull(f) {
			continue
		}''', '''		if k == nil || v == nil || k.isNull(f) || v.isNull(f) {
			continue
		}''')
sub('jen/dict.go', '''		if !k.isNull(f) && !v.isNull(f) {''',
    '''		if k != nil && v != nil && !k.isNull(f) && !v.isNull(f) {''')

# F5 (C08/C09) + typed-nil part of F4: do not mutate the block group while rendering
sub('jen/group.go', '''		if isGrp && grp.name == "case" || isTkn && tkn.content == "default" {
			g.open = ""
			g.close = ""
		}
	}
	if g.open != "" {
		if _, err := w.Write([]byte(g.open)); err != nil {''', '''		if isGrp && grp != nil && grp.name == "case" || isTkn && tkn.content == "default" {
			open = ""
			close = ""
		}
	}
	if open != "" {
		if _, err := w.Write([]byte(open)); err != nil {''')
sub('jen/group.go', '''	if g.name == "block" && s != nil {''', '''	open, close := g.open, g.close
	if g.name == "block" && s != nil {''')
sub('jen/group.go', '''	if !isNull && g.multi && g.close != "" {''', '''	if !isNull && g.multi && close != "" {''')
sub('jen/group.go', '''	if g.close != "" {
		if _, err := w.Write([]byte(g.close)); err != nil {''', '''	if close != "" {
		if _, err := w.Write([]byte(close)); err != nil {''')

# F8 (C02): misuse of Dict in Values is an error, not a panic
sub('jen/group.go', '''				panic("Error in Values: if Dict is used, must be one item only")''',
    '''				return false, errors.New("Error in Values: if Dict is used, must be one item only")''')
sub('jen/group.go', '''import (
	"bytes"
''', '''import (
	"bytes"
	"errors"
''')

# F2 + F3 (C05/C03/C06): the candidate that is tested is the candidate that is stored
sub('jen/file.go', '''	// If the name is invalid or has been registered already, make it unique by appending a number
	unique := name
	i := 0
	for !f.isValidAlias(unique) {
		i++
		unique = fmt.Sprintf("%s%d", name, i)
	}

	// If we've changed the name to make it unique, it should definitely be an alias
	if unique != name {
		alias = true
	}

	// Only add a prefix if the name is an alias
	if f.PackagePrefix != "" && alias {
		unique = f.PackagePrefix + "_" + unique
	}
''', '''	// Only add a prefix if the name is an alias (and never to a dot-import)
	prefix := ""
	if f.PackagePrefix != "" {
		prefix = f.PackagePrefix + "_"
	}
	unique := name
	if alias && name != "." {
		unique = prefix + name
	}

	// If the name is invalid or has been registered already, make it unique by appending a number.
	// If we've changed the name to make it unique, it should definitely be an alias.
	i := 0
	for !f.isValidAlias(unique) {
		i++
		alias = true
		unique = fmt.Sprintf("%s%s%d", prefix, name, i)
	}
''')

# F6 (C16): pairs whose keys render identically no longer collapse
sub('jen/dict.go', '''	type kv struct {
		k Code
		v Code
	}
	lookup := map[string]kv{}
	keys := []string{}
	for k, v := range d {''', '''	type kv struct {
		text string
		k    Code
		v    Code
	}
	keys := []kv{}
	for k, v := range d {''')
sub('jen/dict.go', '''		keys = append(keys, buf.String())
		lookup[buf.String()] = kv{k: k, v: v}
	}
	sort.Strings(keys)
	for _, key := range keys {
		k := lookup[key].k
		v := lookup[key].v
''', '''		keys = append(keys, kv{text: buf.String(), k: k, v: v})
	}
	sort.SliceStable(keys, func(i, j int) bool { return keys[i].text < keys[j].text })
	for _, key := range keys {
		k := key.k
		v := key.v
''')
print("applied")
