package jen_test

// Demonstration for property C15, violation 1.
//
// Copy into the jen/ directory of the repository and run
//
//	go test -vet=off -count=1 -run TestDemo1 ./jen
//
// A comment placed as an item of its own inside a Block / Struct / case body
// must keep its text. On the unchanged tree the text is rewritten (or the
// comment is dropped) because File.Render hands go/format a source in which
// every line starts in column 1; go/printer then takes every own-line comment
// that is directly followed by code for a top-level doc comment and runs the
// doc-comment reformatter (go/doc/comment) over it.
//
// gofmt itself never touches such comments when the source is indented (see
// the control at the end of the test), so the loss is caused by the shape of
// the text the library emits, not by the comment text.

import (
	"bytes"
	"go/format"
	"go/scanner"
	"go/token"
	"strings"
	"testing"

	. "github.com/dave/jennifer/jen"
)

func demo1Comments(t *testing.T, src []byte) (code []string, comments []string) {
	fset := token.NewFileSet()
	file := fset.AddFile("x.go", fset.Base(), len(src))
	var s scanner.Scanner
	s.Init(file, src, func(pos token.Position, msg string) { t.Errorf("scan: %s: %s", pos, msg) }, scanner.ScanComments)
	for {
		_, tok, lit := s.Scan()
		if tok == token.EOF {
			return
		}
		if tok == token.COMMENT {
			comments = append(comments, lit)
			continue
		}
		if tok == token.SEMICOLON {
			lit = ";"
		}
		code = append(code, tok.String()+" "+lit)
	}
}

// demo1Body returns the text of a comment token without its markers, with
// white space normalised line by line (gofmt is allowed to re-indent).
func demo1Body(c string) string {
	if strings.HasPrefix(c, "//") {
		c = c[2:]
	} else {
		c = c[2 : len(c)-2]
	}
	var lines []string
	for _, l := range strings.Split(c, "\n") {
		if l = strings.Join(strings.Fields(l), " "); l != "" {
			lines = append(lines, l)
		}
	}
	return strings.Join(lines, "\n")
}

func TestDemo1_OwnLineCommentTextSurvivesInsideBlocks(t *testing.T) {
	texts := []string{
		"s := ``",                         // looks like code: an empty raw string
		"name := ''  (two single quotes)", // quotes
		"was: fmt.Sprintf(``%s'', x)",
		"steps:\n  * one\n  + two", // list markers are rewritten to "-"
		"Intro.\n\nOld Style Heading\n\nBody text.", // "# " is inserted
		"see [a]\n\n[a]: http://x.y\n\nlast line",   // lines are re-ordered
		"", // the comment is dropped altogether
	}
	for _, txt := range texts {
		f := NewFile("p")
		f.Func().Id("f").Params(Id("x").Int()).Block(
			Comment(txt), // own item of a Block
			Switch(Id("x")).Block(
				Case(Lit(1)).Block(
					Comment(txt), // own item of a case body
					Return(),
				),
			),
		)
		f.Type().Id("S").Struct(
			Comment(txt), // own item of a Struct
			Id("A").Int(),
		)
		buf := &bytes.Buffer{}
		if err := f.Render(buf); err != nil {
			t.Fatalf("%q: %v", txt, err)
		}
		_, comments := demo1Comments(t, buf.Bytes())
		if len(comments) != 3 {
			t.Errorf("text %q: want 3 comments in the output, got %d:\n%s", txt, len(comments), buf.String())
		}
		want := demo1Body("//" + txt)
		for _, c := range comments {
			if got := demo1Body(c); got != want {
				t.Errorf("text %q does not survive: comment now reads %q", txt, got)
			}
		}
	}

	// Control: gofmt leaves the very same comments alone when they are indented,
	// i.e. this is not what gofmt does to comments inside function bodies.
	ctl := "package p\n\nfunc f() {\n\t// s := ``\n\treturn\n}\n\ntype S struct {\n\t//\n\tA int\n}\n"
	out, err := format.Source([]byte(ctl))
	if err != nil || string(out) != ctl {
		t.Fatalf("control changed: %v\n%s", err, out)
	}
}
