package jen_test

// Demo for C20 violation 1: a Block appended to a CLONE of a statement that ends in Case(...) or
// Default() is not rendered as the body of that case clause (as it is when appended to the
// original, or to a true copy), but keeps its braces - because the clone is a wrapper
// (&Statement{orig}) and Group.render only looks for the `case` group / `default` keyword among the
// direct items of the enclosing statement.
//
// Copy to jen/demo1_test.go and run:  go test -vet=off -count=1 -run TestC20Demo1 ./jen
// Fails on the unchanged tree; passes once tokens appended to a clone render as they do when
// appended to a copy of the original's token list.

import (
	"bytes"
	"go/ast"
	"go/importer"
	"go/parser"
	"go/token"
	"go/types"
	"testing"

	. "github.com/dave/jennifer/jen"
)

// build renders `func h(x int) { switch x { <caseClause> <defaultClause> } }` in a file.
func build(t *testing.T, clone bool) string {
	t.Helper()
	cs := Case(Lit(1))
	df := Default()
	if clone {
		// list model: a clone is a copy of the token list, so appending Block to it
		// must give the same text as appending Block to the original.
		cs = cs.Clone()
		df = df.Clone()
	}
	f := NewFile("p")
	f.Func().Id("h").Params(Id("x").Int()).Block(
		Switch(Id("x")).Block(
			cs.Block(Id("println").Call(Lit("one")), Fallthrough()),
			df.Block(Id("println").Call(Lit("other"))),
		),
	)
	buf := &bytes.Buffer{}
	if err := f.Render(buf); err != nil {
		t.Fatalf("render: %v", err)
	}
	return buf.String()
}

func TestC20Demo1_CloneThenBlockRendersLikeOriginalThenBlock(t *testing.T) {
	direct := build(t, false)
	cloned := build(t, true)
	if direct != cloned {
		t.Errorf("tokens appended to a clone render differently from the same tokens appended to the original\n--- Case(1).Block(...) / Default().Block(...):\n%s\n--- Case(1).Clone().Block(...) / Default().Clone().Block(...):\n%s", direct, cloned)
	}
}

func TestC20Demo1_ClonedCaseWithFallthroughTypeChecks(t *testing.T) {
	for _, clone := range []bool{false, true} {
		src := build(t, clone)
		fset := token.NewFileSet()
		af, err := parser.ParseFile(fset, "p.go", src, 0)
		if err != nil {
			t.Fatalf("clone=%v parse: %v\n%s", clone, err, src)
		}
		conf := types.Config{Importer: importer.Default()}
		if _, err := conf.Check("p", fset, []*ast.File{af}, nil); err != nil {
			t.Errorf("clone=%v: generated code does not type-check: %v\n%s", clone, err, src)
		}
	}
}

// The smallest form, on bare statements (no File, no gofmt involved in the difference).
func TestC20Demo1_Minimal(t *testing.T) {
	for _, tc := range []struct {
		name         string
		direct, viaC *Statement
	}{
		{"case", Switch().Block(Case(Id("c")).Block(Id("b").Call())), Switch().Block(Case(Id("c")).Clone().Block(Id("b").Call()))},
		{"default", Switch().Block(Default().Block(Id("b").Call())), Switch().Block(Default().Clone().Block(Id("b").Call()))},
		{"nested clone", Switch().Block(Case(Id("c")).Block(Id("b").Call())), Switch().Block(Case(Id("c")).Clone().Clone().Block(Id("b").Call()))},
	} {
		want := tc.direct.GoString()
		got := tc.viaC.GoString()
		if got != want {
			t.Errorf("%s: clone+Block renders\n%s\nwant (original+Block, list model)\n%s", tc.name, got, want)
		}
	}
}
