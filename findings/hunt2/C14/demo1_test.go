package jen_test

// Demonstration for C14 violation 1: the three forms of Block (package function, *Statement
// method, *Group method) do not render identically at a node that follows Case / Default.
//
// Copy to jen/demo1_test.go and run:  go test -vet=off -count=1 -run TestDemo1 ./jen
// It FAILS on the unchanged tree.

import (
	"bytes"
	"go/ast"
	"go/parser"
	"go/token"
	"go/types"
	"testing"

	. "github.com/dave/jennifer/jen"
)

func demo1Typecheck(src string) error {
	fset := token.NewFileSet()
	f, err := parser.ParseFile(fset, "x.go", src, 0)
	if err != nil {
		return err
	}
	_, err = (&types.Config{}).Check("x", fset, []*ast.File{f}, nil)
	return err
}

// TestDemo1 builds the same abstract program three times; only the FORM used for the Block node
// that follows each Case differs. The arguments of every construct are the same. A function-form
// or group-form node can only be attached to the preceding statement with Add; the method form
// is attached by chaining.
func TestDemo1(t *testing.T) {
	type variant struct {
		name string
		mk   func(cond Code, body ...Code) *Statement
	}
	scratch := NewFile("scratch") // File embeds *Group: gives access to the Group form
	variants := []variant{
		{"statement method  Case(c).Block(body...)", func(c Code, body ...Code) *Statement {
			return Case(c).Block(body...)
		}},
		{"package function  Case(c).Add(Block(body...))", func(c Code, body ...Code) *Statement {
			return Case(c).Add(Block(body...))
		}},
		{"group method      Case(c).Add(g.Block(body...))", func(c Code, body ...Code) *Statement {
			return Case(c).Add(scratch.Block(body...))
		}},
	}
	outs := make([]string, len(variants))
	for i, v := range variants {
		f := NewFile("x")
		f.Func().Id("f").Params(Id("v").Int()).Int().Block(
			Switch(Id("v")).Block(
				v.mk(Lit(1), Fallthrough()),
				v.mk(Lit(2), Return(Lit(2))),
			),
			Return(Lit(0)),
		)
		buf := &bytes.Buffer{}
		if err := f.Render(buf); err != nil {
			t.Fatalf("%s: render error: %v", v.name, err)
		}
		outs[i] = buf.String()
	}
	for i := 1; i < len(variants); i++ {
		if outs[i] != outs[0] {
			t.Errorf("forms of Block render differently.\n--- %s\n%s\n--- %s\n%s",
				variants[0].name, outs[0], variants[i].name, outs[i])
		}
	}
	for i, v := range variants {
		if err := demo1Typecheck(outs[i]); err != nil {
			t.Errorf("%s: generated program does not type-check: %v", v.name, err)
		}
	}

	// The same at the smallest scale, and for Default.
	for _, pair := range [][2]*Statement{
		{Case(Id("x")).Block(Id("y").Call()), Case(Id("x")).Add(Block(Id("y").Call()))},
		{Default().Block(Id("y").Call()), Default().Add(Block(Id("y").Call()))},
		{Default().Block(Id("y").Call()), Add(Default()).Block(Id("y").Call())},
	} {
		a, b := demo1Wrap(pair[0]), demo1Wrap(pair[1])
		if a != b {
			t.Errorf("method form vs function form differ:\n%s\n---\n%s", a, b)
		}
	}
}

func demo1Wrap(c Code) string {
	return Switch(Id("v")).Block(c).GoString()
}
