package jen_test

// Demo 1 (C01): "same imports under the same names" is violated when the source file imports one
// path under two names. Real files of GOROOT/src do this:
//
//	crypto/x509/x509.go      import ( "crypto/sha1"; _ "crypto/sha1" )
//	internal/godebug, reflect/badlinkname.go, runtime/rand.go   import ( "unsafe"; _ "unsafe" )
//	net/http/request.go      import ( "net/url"; urlpkg "net/url" )
//	cmd/go/internal/modfetch/proxy.go   import ( "path"; pathpkg "path" )
//
// File.imports is keyed by path and holds one name, so File.register overwrites the "_" entry that
// File.Anon made as soon as the path is used in a Qual.

import (
	"bytes"
	"go/parser"
	"go/token"
	"sort"
	"strconv"
	"strings"
	"testing"

	. "github.com/dave/jennifer/jen"
)

func importsOf(t *testing.T, src []byte) []string {
	t.Helper()
	f, err := parser.ParseFile(token.NewFileSet(), "x.go", src, parser.ImportsOnly)
	if err != nil {
		t.Fatalf("rendered file does not parse: %v\n%s", err, src)
	}
	var out []string
	for _, is := range f.Imports {
		p, _ := strconv.Unquote(is.Path.Value)
		n := ""
		if is.Name != nil {
			n = is.Name.Name
		}
		out = append(out, strings.TrimSpace(n+" "+p))
	}
	sort.Strings(out)
	return out
}

// The source being rebuilt (the shape of crypto/x509/x509.go):
//
//	package x509
//
//	import (
//		"crypto/sha1"
//		_ "crypto/sha1"
//	)
//
//	var h = sha1.New()
func TestDemo1_AnonAndNamedImportOfSamePath(t *testing.T) {
	f := NewFile("x509")
	f.Anon("crypto/sha1")                                         // documented element for `_ "path"`
	f.Var().Id("h").Op("=").Qual("crypto/sha1", "New").Call() // documented element for sha1.New
	buf := &bytes.Buffer{}
	if err := f.Render(buf); err != nil {
		t.Fatal(err)
	}
	got := importsOf(t, buf.Bytes())
	want := []string{"_ crypto/sha1", "crypto/sha1"}
	if strings.Join(got, ";") != strings.Join(want, ";") {
		t.Fatalf("imports of rendered file = %q, want %q\n%s", got, want, buf.String())
	}
}
