package jen_test

// Demo 4 (C01): "only comments, layout and redundant parentheses may differ" - two more things
// differ because File.Render pipes the text through go/format (jen/jen.go File.Render):
//
//  (a) explicit empty statements (";") are statements of the syntax tree (ast.EmptyStmt with
//      Implicit == false) and are dropped by go/printer.stmtList. Source files with them:
//      GOROOT/src/internal/types/testdata/check/stmt1.go, cmd/compile/internal/syntax/testdata/fallthrough.go.
//      The text jen itself produces is faithful (the test passes with NoFormat).
//  (b) `switch (x.(type)) {` (GOROOT/test/fixedbugs/issue4470.go) is an expression switch whose tag
//      is a parenthesised type-switch guard; gofmt strips the parentheses of a switch tag, which
//      turns the statement into a type switch: a different node type, and a program the compiler
//      rejects becomes one it accepts. These parentheses are not redundant.

import (
	"bytes"
	"go/ast"
	"go/parser"
	"go/token"
	"testing"

	. "github.com/dave/jennifer/jen"
)

func body(t *testing.T, f *File) []ast.Stmt {
	t.Helper()
	buf := &bytes.Buffer{}
	if err := f.Render(buf); err != nil {
		t.Fatal(err)
	}
	af, err := parser.ParseFile(token.NewFileSet(), "x.go", buf.Bytes(), 0)
	if err != nil {
		t.Fatal(err)
	}
	return af.Decls[0].(*ast.FuncDecl).Body.List
}

// source:  func f() { x := 1; ; _ = x }
func TestDemo4a_ExplicitEmptyStatement(t *testing.T) {
	f := NewFile("p")
	f.Func().Id("f").Params().Block(
		Id("x").Op(":=").Lit(1),
		Op(";"),
		Id("_").Op("=").Id("x"),
	)
	if got := len(body(t, f)); got != 3 {
		t.Fatalf("body has %d statements, the source has 3 (the empty statement is gone)", got)
	}
}

// source:  func f(x interface{}) { switch (x.(type)) { default: } }
func TestDemo4b_ParenthesisedTypeSwitchGuard(t *testing.T) {
	f := NewFile("p")
	f.Func().Id("f").Params(Id("x").Interface()).Block(
		Switch(Parens(Id("x").Assert(Type()))).Block(Default().Block()),
	)
	if _, ok := body(t, f)[0].(*ast.SwitchStmt); !ok {
		t.Fatalf("statement is a %T, the source has an *ast.SwitchStmt", body(t, f)[0])
	}
}
