package jen_test

// Demo 5 (C01): "declaration-by-declaration identical structure ... and literal values" is violated
// by the two elements the documentation gives for keyed composite literals and struct tags:
//
//  (a) Dict ("Use with Values for map or composite literals") is a Go map, and Dict.render sorts
//      the pairs by the text of their keys, so the order of the elements of the literal - which is
//      their order of evaluation - is that of the source only if the source happened to be sorted.
//      1,400+ of the 6,795 files of GOROOT/src re-parse differently when every keyed literal is
//      built with Dict. (A literal that mixes keyed and unkeyed elements, `[...]string{2: "a", "b"}`,
//      cannot be built with Dict at all: "if Dict is used, must be one item only".)
//  (b) Tag ("renders a struct tag") takes a map and sorts the keys, so the value of the tag string
//      changes: reflect/example_test.go `species:"gopher" color:"blue"`,
//      cmd/compile/internal/base/debug.go `help:"..." concurrent:"ok"`.

import (
	"bytes"
	"go/ast"
	"go/parser"
	"go/token"
	"strconv"
	"testing"

	. "github.com/dave/jennifer/jen"
)

// source:  var v = T{b: f(), a: g()}
func TestDemo5a_DictOrder(t *testing.T) {
	f := NewFile("p")
	f.Var().Id("v").Op("=").Id("T").Values(Dict{
		Id("b"): Id("f").Call(),
		Id("a"): Id("g").Call(),
	})
	buf := &bytes.Buffer{}
	if err := f.Render(buf); err != nil {
		t.Fatal(err)
	}
	af, err := parser.ParseFile(token.NewFileSet(), "x.go", buf.Bytes(), 0)
	if err != nil {
		t.Fatal(err)
	}
	lit := af.Decls[0].(*ast.GenDecl).Specs[0].(*ast.ValueSpec).Values[0].(*ast.CompositeLit)
	first := lit.Elts[0].(*ast.KeyValueExpr).Key.(*ast.Ident).Name
	if first != "b" {
		t.Fatalf("first element of the literal is %s:, the source has b: first\n%s", first, buf.String())
	}
}

// source:  type T struct { A int `species:"gopher" color:"blue"` }
func TestDemo5b_TagOrder(t *testing.T) {
	f := NewFile("p")
	f.Type().Id("T").Struct(Id("A").Int().Tag(map[string]string{"species": "gopher", "color": "blue"}))
	buf := &bytes.Buffer{}
	if err := f.Render(buf); err != nil {
		t.Fatal(err)
	}
	af, err := parser.ParseFile(token.NewFileSet(), "x.go", buf.Bytes(), 0)
	if err != nil {
		t.Fatal(err)
	}
	tag := af.Decls[0].(*ast.GenDecl).Specs[0].(*ast.TypeSpec).Type.(*ast.StructType).Fields.List[0].Tag
	got, _ := strconv.Unquote(tag.Value)
	if want := `species:"gopher" color:"blue"`; got != want {
		t.Fatalf("tag = %q, the source has %q", got, want)
	}
}
