package jen_test

// Demo 3 (C01): "identical ... literal values" is violated by Lit, the documented element for
// literals (token.render, case literalToken in jen/tokens.go).
//
//  (a) Lit(float64) prints the SHORTEST decimal that reads back as the same float64 (%#v). A Go
//      literal is an exact untyped constant, so the rendered literal is a different constant
//      whenever the float64 is not exactly that short decimal - even though the float64 that was
//      passed in holds the source literal exactly. GOROOT/src examples:
//        math/const.go        MaxFloat32 = 0x1p127 * (1 + (1 - 0x1p-23))
//        math/cmplx/sqrt.go   7.450580596923828125e-9
//        cmd/vendor/golang.org/x/telemetry/internal/upload/reports.go   0x1p-1000
//  (b) Lit(complex128) prints %#v = "(0+1i)": the imaginary literal 1i becomes a parenthesised
//      binary expression (40 files of GOROOT/src contain imaginary literals).

import (
	"bytes"
	"go/ast"
	"go/constant"
	"go/parser"
	"go/token"
	"testing"

	. "github.com/dave/jennifer/jen"
)

func renderedValue(t *testing.T, value Code) ast.Expr {
	t.Helper()
	f := NewFile("p")
	f.Const().Id("c").Op("=").Add(value)
	buf := &bytes.Buffer{}
	if err := f.Render(buf); err != nil {
		t.Fatal(err)
	}
	af, err := parser.ParseFile(token.NewFileSet(), "x.go", buf.Bytes(), 0)
	if err != nil {
		t.Fatal(err)
	}
	return af.Decls[0].(*ast.GenDecl).Specs[0].(*ast.ValueSpec).Values[0]
}

func TestDemo3a_FloatLiteralValue(t *testing.T) {
	for _, c := range []struct {
		src string
		v   float64
	}{
		{"0x1p127", 0x1p127},                                 // math/const.go
		{"7.450580596923828125e-9", 7.450580596923828125e-9}, // math/cmplx/sqrt.go (= 2^-27, exact)
		{"0x1p-1000", 0x1p-1000},                             // x/telemetry reports.go
	} {
		want := constant.MakeFromLiteral(c.src, token.FLOAT, 0)
		// the float64 holds the source literal exactly, nothing is lost before jen sees it
		if !constant.Compare(constant.MakeFloat64(c.v), token.EQL, want) {
			t.Fatalf("test is wrong: %s is not exact in float64", c.src)
		}
		e := renderedValue(t, Lit(c.v))
		lit, ok := e.(*ast.BasicLit)
		if !ok {
			t.Errorf("%s: rendered as %T, want a literal", c.src, e)
			continue
		}
		got := constant.MakeFromLiteral(lit.Value, lit.Kind, 0)
		if !constant.Compare(got, token.EQL, want) {
			f, _ := constant.Float64Val(constant.BinaryOp(constant.BinaryOp(got, token.SUB, want), token.QUO, want))
			t.Errorf("source literal %s rendered as %s: a different constant (relative difference %.3g)", c.src, lit.Value, f)
		}
	}
}

func TestDemo3b_ImaginaryLiteral(t *testing.T) {
	e := renderedValue(t, Lit(1i)) // source: const c = 1i
	lit, ok := e.(*ast.BasicLit)
	if !ok || lit.Kind != token.IMAG {
		t.Fatalf("imaginary literal 1i rendered as %T, want *ast.BasicLit of kind IMAG", e)
	}
}
