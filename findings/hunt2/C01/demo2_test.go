package jen_test

// Demo 2 (C01): "same imports under the same names" is violated when the name of an imported
// package is a predeclared identifier (or "err", or "C"). Go allows such import names; 84 files of
// the module cache import github.com/golang/protobuf/ptypes/any (package name "any") without an
// alias and refer to any.Any. File.isValidAlias rejects every name in jen's `reserved` list, so
// File.register renames the import to any1 - even though the name was given with ImportName /
// ImportAlias - and every reference becomes any1.Any.

import (
	"bytes"
	"go/ast"
	"go/parser"
	"go/token"
	"testing"

	. "github.com/dave/jennifer/jen"
)

// The source being rebuilt:
//
//	package p
//
//	import "github.com/golang/protobuf/ptypes/any"
//
//	var x *any.Any
func TestDemo2_ImportNamedLikePredeclaredIdentifier(t *testing.T) {
	const path = "github.com/golang/protobuf/ptypes/any"
	for _, how := range []string{"ImportName", "ImportAlias"} {
		f := NewFile("p")
		if how == "ImportName" {
			f.ImportName(path, "any")
		} else {
			f.ImportAlias(path, "any")
		}
		f.Var().Id("x").Op("*").Qual(path, "Any")
		buf := &bytes.Buffer{}
		if err := f.Render(buf); err != nil {
			t.Fatal(err)
		}
		af, err := parser.ParseFile(token.NewFileSet(), "x.go", buf.Bytes(), 0)
		if err != nil {
			t.Fatal(err)
		}
		if n := af.Imports[0].Name; n != nil && n.Name != "any" {
			t.Errorf("%s: import is named %q, want any\n%s", how, n.Name, buf.String())
		}
		sel := af.Decls[1].(*ast.GenDecl).Specs[0].(*ast.ValueSpec).Type.(*ast.StarExpr).X.(*ast.SelectorExpr)
		if got := sel.X.(*ast.Ident).Name; got != "any" {
			t.Errorf("%s: reference renders as %s.Any, want any.Any\n%s", how, got, buf.String())
		}
	}
}
