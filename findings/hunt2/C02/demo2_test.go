package jen_test

// Demo 2 (property C02): a fragment (Statement / Group) holding a build-constraint comment renders
// WITHOUT an error, but the bytes written contain pieces of the "package p; func _() {" wrapper
// that go/format puts around fragments, and have lost part of the fragment: they are not Go
// declarations or statements. (Root: go/printer hoists build lines to the top of the wrapped
// file, and go/format then cuts the wrapper off by byte count.)
//
// Run from the worktree:  cp demo2_test.go <worktree>/jen/ && go test -vet=off -count=1 -run TestDemo2 ./jen

import (
	"bytes"
	"go/parser"
	"go/token"
	"strings"
	"testing"

	. "github.com/dave/jennifer/jen"
)

// demo2Fragment reports whether b parses as a list of declarations or as a list of statements.
func demo2Fragment(b []byte) error {
	fset := token.NewFileSet()
	if _, err := parser.ParseFile(fset, "", append([]byte("package p\n"), b...), 0); err == nil {
		return nil
	}
	src := append(append([]byte("package p\nfunc _() {\n"), b...), []byte("\n}\n")...)
	_, err := parser.ParseFile(fset, "", src, 0)
	return err
}

func TestDemo2BuildLineInFragment(t *testing.T) {
	cases := []struct {
		name string
		s    *Statement
		keep string // text of the fragment that must survive
	}{
		{"comment alone", Comment("//go:build linux"), "//go:build linux"},
		{"+build comment alone", Comment("+build linux"), "+build linux"},
		{"comment, then a declaration", Comment("//go:build linux").Line().Var().Id("x").Int(), "var x int"},
		{"comment, then a statement", Comment("//go:build linux").Line().Id("x").Op("++"), "//go:build linux"},
		{"a statement, then the comment", Id("x").Op("++").Line().Comment("//go:build linux"), "//go:build linux"},
	}
	for _, c := range cases {
		buf := &bytes.Buffer{}
		if err := c.s.Render(buf); err != nil {
			t.Logf("%s: reported as an error (good): %.60q", c.name, err.Error())
			continue
		}
		out := buf.String()
		if err := demo2Fragment(buf.Bytes()); err != nil {
			t.Errorf("%s: render returned nil and wrote %q, which is not Go declarations or statements: %v", c.name, out, err)
		}
		if strings.Contains(out, "package p") || strings.Contains(out, "func _()") {
			t.Errorf("%s: the output %q contains go/format's wrapper", c.name, out)
		}
		if !strings.Contains(out, c.keep) {
			t.Errorf("%s: the output %q has lost %q", c.name, out, c.keep)
		}
	}
}
