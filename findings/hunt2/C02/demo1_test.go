package jen_test

// Demo 1 (property C02): a Statement / Group whose rendering closes the function body that
// go/format wraps around statement fragments ("}; func f() {") renders WITHOUT an error, and the
// bytes written ("}\nfunc f() {") are neither a list of declarations nor a list of statements.
//
// Run from the worktree:  cp demo1_test.go <worktree>/jen/ && go test -vet=off -count=1 -run TestDemo1 ./jen

import (
	"bytes"
	"fmt"
	"go/ast"
	"go/parser"
	"go/scanner"
	"go/token"
	"testing"

	. "github.com/dave/jennifer/jen"
)

// demo1Balanced reports whether every closing bracket in b closes a bracket opened in b, and
// nothing stays open: the least a self-contained list of declarations or statements must satisfy.
func demo1Balanced(b []byte) error {
	fset := token.NewFileSet()
	var s scanner.Scanner
	s.Init(fset.AddFile("", fset.Base(), len(b)), b, nil, 0)
	depth := 0
	for {
		pos, tok, _ := s.Scan()
		switch tok {
		case token.EOF:
			if depth != 0 {
				return fmt.Errorf("%d bracket(s) left open at the end", depth)
			}
			return nil
		case token.LBRACE, token.LPAREN, token.LBRACK:
			depth++
		case token.RBRACE, token.RPAREN, token.RBRACK:
			depth--
			if depth < 0 {
				return fmt.Errorf("offset %d: %s closes a bracket that the fragment never opened", fset.Position(pos).Offset, tok)
			}
		}
	}
}

// demo1Fragment reports whether b, on its own, is a list of declarations or a list of statements.
// Unlike go/format it insists that a statement list stays inside the one function it is put in.
func demo1Fragment(b []byte) error {
	fset := token.NewFileSet()
	if _, err := parser.ParseFile(fset, "", append([]byte("package p\n"), b...), 0); err == nil {
		return nil
	}
	src := append(append([]byte("package p\nfunc _() {\n"), b...), []byte("\n}\n")...)
	f, err := parser.ParseFile(fset, "", src, 0)
	if err != nil {
		return err
	}
	fd, ok := f.Decls[0].(*ast.FuncDecl)
	if len(f.Decls) != 1 || !ok || fset.Position(fd.Body.Rbrace).Offset != len(src)-2 {
		return fmt.Errorf("not a statement list: the text closes the enclosing function body and goes on (%d top-level declarations)", len(f.Decls))
	}
	return nil
}

func demo1Check(t *testing.T, name string, render func(*bytes.Buffer) error) {
	t.Helper()
	buf := &bytes.Buffer{}
	err := render(buf)
	if err != nil {
		t.Logf("%s: reported as an error (good): %.60q", name, err.Error())
		return
	}
	if e := demo1Balanced(buf.Bytes()); e != nil {
		t.Errorf("%s: render returned nil and wrote %q: %v", name, buf.String(), e)
	}
	if e := demo1Fragment(buf.Bytes()); e != nil {
		t.Errorf("%s: render returned nil and wrote %q, which is not Go declarations or statements: %v", name, buf.String(), e)
	}
}

func TestDemo1FragmentEscapesWrapper(t *testing.T) {
	// }; func f() {
	build := func() *Statement { return Op("}").Op(";").Func().Id("f").Params().Op("{") }

	demo1Check(t, "Statement.Render", func(b *bytes.Buffer) error { return build().Render(b) })
	demo1Check(t, "Statement.RenderWithFile", func(b *bytes.Buffer) error { return build().RenderWithFile(b, NewFilePath("a.b/c")) })

	// the same through a Group
	var grp *Group
	CustomFunc(Options{Separator: " "}, func(g *Group) {
		g.Op("}")
		g.Op(";")
		g.Func().Id("f").Params()
		g.Op("{")
		grp = g
	})
	demo1Check(t, "Group.Render", func(b *bytes.Buffer) error { return grp.Render(b) })

	// a "valid program with random damage": two functions, the first without its opening line
	// and the second without its closing brace
	demo1Check(t, "damaged program", func(b *bytes.Buffer) error {
		return Id("a").Op("++").Line().Op("}").Line().
			Func().Id("g").Params().Op("{").Line().Id("b").Op("++").Render(b)
	})

	// by way of contrast: the same items in a File are reported as an error, as the property says
	f := NewFile("p")
	f.Add(build())
	if err := f.Render(&bytes.Buffer{}); err == nil {
		t.Errorf("File.Render accepted the same text")
	}
}
