package jen_test

// Demo 1 (property C05): NewFilePath chooses the package name with guessAlias and never
// checks it against the reserved words, so a path whose last element is a Go keyword
// yields `package <keyword>`, which is not Go.
//
// Copy to jen/demo1_test.go and run:  go test -vet=off -count=1 -run TestDemo1 ./jen

import (
	"bytes"
	"go/parser"
	"go/token"
	"testing"

	. "github.com/dave/jennifer/jen"
)

func TestDemo1NewFilePathKeyword(t *testing.T) {
	var keywords []string
	for tok := token.Token(0); tok < 256; tok++ {
		if tok.IsKeyword() {
			keywords = append(keywords, tok.String())
		}
	}
	if len(keywords) != 25 {
		t.Fatalf("expected 25 keywords, got %d", len(keywords))
	}
	for _, kw := range keywords {
		for _, path := range []string{"example.com/gen/" + kw, "example.com/gen/" + kw + "/", kw} {
			// 1. the documented entry point: Render (go/format runs and rejects the file)
			f := NewFilePath(path)
			f.Var().Id("x").Op("=").Qual("fmt", "Sprint").Call()
			buf := &bytes.Buffer{}
			if err := f.Render(buf); err != nil {
				t.Errorf("NewFilePath(%q).Render failed: %.60s", path, err.Error())
			}

			// 2. with NoFormat the invalid package clause is emitted
			g := NewFilePath(path)
			g.NoFormat = true
			g.Var().Id("x").Op("=").Qual("fmt", "Sprint").Call()
			buf.Reset()
			if err := g.Render(buf); err != nil {
				t.Errorf("NewFilePath(%q) NoFormat render: %v", path, err)
				continue
			}
			af, err := parser.ParseFile(token.NewFileSet(), "x.go", buf.Bytes(), parser.PackageClauseOnly)
			if err != nil {
				t.Errorf("NewFilePath(%q) emitted an unparsable package clause: %v", path, err)
				continue
			}
			if token.IsKeyword(af.Name.Name) || !token.IsIdentifier(af.Name.Name) {
				t.Errorf("NewFilePath(%q) chose package name %q", path, af.Name.Name)
			}
		}
	}
}
