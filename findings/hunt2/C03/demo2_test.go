package jen_test

// Demo 2 (property C03): File.Render prints every path that any EARLIER render of the same File
// registered, not the paths the current render used. When the content changed between two renders
// (here: one pair is deleted from a Dict the caller owns), the second output still imports the
// package that is no longer referred to and fails to type-check: `"a/foo" imported and not used`.

import (
	"bytes"
	"fmt"
	"go/ast"
	"go/parser"
	"go/token"
	"go/types"
	"testing"

	. "github.com/dave/jennifer/jen"
)

type demo2Importer struct{}

func (demo2Importer) Import(path string) (*types.Package, error) {
	var name, sym string
	switch path {
	case "a/foo":
		name, sym = "realfooa", "A"
	case "b/foo":
		name, sym = "realfoob", "B"
	default:
		return nil, fmt.Errorf("unknown import path %q", path)
	}
	p := types.NewPackage(path, name)
	p.Scope().Insert(types.NewVar(token.NoPos, p, sym, types.Typ[types.Int]))
	p.MarkComplete()
	return p, nil
}

func demo2Check(src []byte) error {
	fset := token.NewFileSet()
	af, err := parser.ParseFile(fset, "out.go", src, 0)
	if err != nil {
		return err
	}
	conf := types.Config{Importer: demo2Importer{}}
	_, err = conf.Check("zz", fset, []*ast.File{af}, nil)
	return err
}

func TestDemo2StaleImportFromEarlierRender(t *testing.T) {
	f := NewFile("zz")
	d := Dict{
		Lit("a"): Qual("a/foo", "A"),
		Lit("b"): Qual("b/foo", "B"),
	}
	f.Var().Id("_").Op("=").Map(String()).Int().Values(d)

	first := &bytes.Buffer{}
	if err := f.Render(first); err != nil {
		t.Fatal(err)
	}
	if err := demo2Check(first.Bytes()); err != nil {
		t.Fatalf("first render: %v\n%s", err, first.String())
	}

	// the generator drops one entry and renders again
	for k := range d {
		if fmt.Sprintf("%#v", k) == `"a"` {
			delete(d, k)
		}
	}

	second := &bytes.Buffer{}
	if err := f.Render(second); err != nil {
		t.Fatal(err)
	}
	if err := demo2Check(second.Bytes()); err != nil {
		t.Fatalf("second render does not type-check with respect to imports: %v\n%s", err, second.String())
	}
}
