package jen_test

// Demo 1 (property C03): Statement.RenderWithFile / Group.RenderWithFile write into the import
// table of the File they are given. A snippet that is only rendered "with" the file (and is not
// part of it) leaves its imports behind, and the next File.Render prints them in the import block
// although nothing in the file refers to them: the file fails to type-check with
// `"a/foo" imported and not used`.

import (
	"bytes"
	"fmt"
	"go/ast"
	"go/parser"
	"go/token"
	"go/types"
	"testing"

	. "github.com/dave/jennifer/jen"
)

// demo1Importer fabricates the two packages; each one only has its own symbol, and its declared
// name differs from the last path element, so only a correct alias decision type-checks.
type demo1Importer struct{}

func (demo1Importer) Import(path string) (*types.Package, error) {
	var name, sym string
	switch path {
	case "a/foo":
		name, sym = "realfooa", "A"
	case "b/foo":
		name, sym = "realfoob", "B"
	default:
		return nil, fmt.Errorf("unknown import path %q", path)
	}
	p := types.NewPackage(path, name)
	p.Scope().Insert(types.NewVar(token.NoPos, p, sym, types.Typ[types.Int]))
	p.MarkComplete()
	return p, nil
}

func demo1Check(src []byte) error {
	fset := token.NewFileSet()
	af, err := parser.ParseFile(fset, "out.go", src, 0)
	if err != nil {
		return err
	}
	conf := types.Config{Importer: demo1Importer{}}
	_, err = conf.Check("zz", fset, []*ast.File{af}, nil)
	return err
}

func TestDemo1RenderWithFileLeavesUnusedImport(t *testing.T) {
	f := NewFile("zz")
	f.Var().Id("_").Op("=").Qual("b/foo", "B")

	// A snippet that is NOT part of the file, rendered with the file's import context (the
	// documented purpose of RenderWithFile: "using imports from the provided file").
	snippet := Qual("a/foo", "A")
	if err := snippet.RenderWithFile(&bytes.Buffer{}, f); err != nil {
		t.Fatal(err)
	}

	buf := &bytes.Buffer{}
	if err := f.Render(buf); err != nil {
		t.Fatal(err)
	}
	if err := demo1Check(buf.Bytes()); err != nil {
		t.Fatalf("rendered file does not type-check with respect to imports: %v\n%s", err, buf.String())
	}
}

// Same history through Group.RenderWithFile.
func TestDemo1GroupRenderWithFileLeavesUnusedImport(t *testing.T) {
	f := NewFile("zz")
	f.Var().Id("_").Op("=").Qual("b/foo", "B")

	g := &Group{}
	g.Qual("a/foo", "A")
	if err := g.RenderWithFile(&bytes.Buffer{}, f); err != nil {
		t.Fatal(err)
	}

	buf := &bytes.Buffer{}
	if err := f.Render(buf); err != nil {
		t.Fatal(err)
	}
	if err := demo1Check(buf.Bytes()); err != nil {
		t.Fatalf("rendered file does not type-check with respect to imports: %v\n%s", err, buf.String())
	}
}
