package jen_test

// Demo 2 (C19): a multi-line cgo preamble that itself contains a C block
// comment ("/* ... */") is wrapped in a Go /* */ comment without regard for
// the "*/" inside it. The Go comment ends at the first "*/": the rest of the
// preamble is emitted as Go source between the comment and `import "C"`.
// With NoFormat the broken file is written out; with formatting Render fails.
//
// Place this file in the jen/ directory and run:
//   go test -vet=off -count=1 -run TestDemo2 ./jen

import (
	"bytes"
	"go/ast"
	"go/parser"
	"go/token"
	"strings"
	"testing"

	. "github.com/dave/jennifer/jen"
)

func TestDemo2_BlockCommentInsidePreamble(t *testing.T) {
	const preamble = "#include <stdlib.h>\n/* helper used below */\nstatic int answer(void) { return 42; }\n"
	for _, noFormat := range []bool{true, false} {
		f := NewFile("main")
		f.NoFormat = noFormat
		f.CgoPreamble(preamble)
		f.Func().Id("main").Params().Block(
			Qual("fmt", "Println").Call(Qual("C", "answer").Call()),
		)
		buf := &bytes.Buffer{}
		if err := f.Render(buf); err != nil {
			t.Errorf("NoFormat=%v: render error: %v", noFormat, err)
			continue
		}
		out := buf.String()
		fset := token.NewFileSet()
		af, err := parser.ParseFile(fset, "out.go", out, parser.ParseComments)
		if err != nil {
			t.Errorf("NoFormat=%v: output is not Go: %v\n%s", noFormat, err, out)
			continue
		}
		found := false
		for _, d := range af.Decls {
			gd, ok := d.(*ast.GenDecl)
			if !ok || gd.Tok != token.IMPORT || len(gd.Specs) != 1 || gd.Specs[0].(*ast.ImportSpec).Path.Value != `"C"` {
				continue
			}
			found = true
			if gd.Doc == nil {
				t.Errorf("NoFormat=%v: import \"C\" has no preamble attached\n%s", noFormat, out)
				continue
			}
			var doc []string
			for _, c := range gd.Doc.List {
				doc = append(doc, c.Text)
			}
			txt := strings.Join(doc, "\n")
			for _, want := range []string{"#include <stdlib.h>", "helper used below", "static int answer(void) { return 42; }"} {
				if !strings.Contains(txt, want) {
					t.Errorf("NoFormat=%v: preamble above import \"C\" lacks %q:\n%s", noFormat, want, out)
				}
			}
		}
		if !found {
			t.Errorf("NoFormat=%v: no separate import \"C\" declaration\n%s", noFormat, out)
		}
	}
}
