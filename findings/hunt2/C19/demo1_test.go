package jen_test

// Demo 1 (C19): a form feed inside the last (multi-line or raw /* */) cgo
// preamble block makes File.Render emit `*/import "C"` - the preamble is no
// longer on the line above the import, so the Go parser (and therefore cgo)
// does not attach it to `import "C"` and the preamble is silently ignored.
//
// Place this file in the jen/ directory and run:
//   go test -vet=off -count=1 -run TestDemo1 ./jen

import (
	"bytes"
	"go/ast"
	"go/parser"
	"go/token"
	"strings"
	"testing"

	. "github.com/dave/jennifer/jen"
)

func demo1ImportC(t *testing.T, src string) (*token.FileSet, *ast.GenDecl) {
	t.Helper()
	fset := token.NewFileSet()
	af, err := parser.ParseFile(fset, "out.go", src, parser.ParseComments)
	if err != nil {
		t.Fatalf("output does not parse: %v\n%s", err, src)
	}
	for _, d := range af.Decls {
		gd, ok := d.(*ast.GenDecl)
		if !ok || gd.Tok != token.IMPORT {
			continue
		}
		for _, s := range gd.Specs {
			if s.(*ast.ImportSpec).Path.Value == `"C"` {
				return fset, gd
			}
		}
	}
	t.Fatalf("no import \"C\" in output:\n%s", src)
	return nil, nil
}

func TestDemo1_FormFeedDetachesPreamble(t *testing.T) {
	preambles := map[string][]string{
		"multi-line": {"#include <stdlib.h>\n\f static int unused;\nstatic int answer(void) { return 42; }\n"},
		"raw":        {"/* page\fbreak */"},
		"last-of-3":  {"#include <a.h>", "//#include <b.h>", "int x;\fint y;\nint z;"},
	}
	for name, blocks := range preambles {
		t.Run(name, func(t *testing.T) {
			f := NewFile("main")
			for _, b := range blocks {
				f.CgoPreamble(b)
			}
			f.Func().Id("main").Params().Block(
				Qual("fmt", "Println").Call(Qual("C", "answer").Call()),
			)
			buf := &bytes.Buffer{}
			if err := f.Render(buf); err != nil {
				t.Fatalf("render: %v", err)
			}
			out := buf.String()
			fset, gd := demo1ImportC(t, out)
			if len(gd.Specs) != 1 || gd.Lparen.IsValid() {
				t.Errorf("import \"C\" is not its own declaration:\n%s", out)
			}
			if gd.Doc == nil {
				t.Fatalf("import \"C\" has no doc comment: the preamble is not attached (cgo ignores it)\n%q", out)
			}
			if got, want := fset.Position(gd.Doc.End()).Line+1, fset.Position(gd.Pos()).Line; got != want {
				t.Errorf("preamble ends on line %d, import \"C\" is on line %d", got-1, want)
			}
			if strings.Contains(out, "*/import") {
				t.Errorf("preamble and import share a line:\n%q", out)
			}
		})
	}
}
