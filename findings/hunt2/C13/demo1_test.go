package jen_test

// Demo 1 (property C13): a nil item in a list must vanish. The library makes this work for an
// untyped nil and for nil *Statement / nil *Group (both have an explicit nil guard in isNull), but
// the third exported pointer type that is a Code, *File (it embeds *Group and so has render and
// isNull), has no guard: a nil *File in any list, statement or Dict panics with a nil-pointer
// dereference while the null-ness of the item is computed.
//
// Copy to jen/demo1_test.go and run: go test -vet=off -count=1 -run TestDemo1 ./jen

import (
	"fmt"
	"testing"

	. "github.com/dave/jennifer/jen"
)

func renderOrPanic(c *Statement) (out string, err error) {
	defer func() {
		if r := recover(); r != nil {
			err = fmt.Errorf("panic: %v", r)
		}
	}()
	return c.GoString(), nil
}

func TestDemo1NilFileItemVanishes(t *testing.T) {
	type build func(nilItem Code) *Statement
	cases := map[string]build{
		"Call":   func(n Code) *Statement { return Id("f").Call(n, Id("a"), n, Id("b"), n) },
		"Params": func(n Code) *Statement { return Func().Id("foo").Params(n, Id("s").String(), n).Block() },
		"List":   func(n Code) *Statement { return List(n, Id("a"), Id("b")).Op("=").List(Id("b"), n, Id("a")) },
		"Values": func(n Code) *Statement { return Index().Int().Values(n, Lit(1), n, Lit(2)) },
		"Block":  func(n Code) *Statement { return Block(n, Id("a").Call(), n) },
		"Return": func(n Code) *Statement { return Return(n, Id("a"), n) },
		"Union":  func(n Code) *Statement { return Type().Id("T").Interface(Union(n, Int(), n, String())) },
		"Custom": func(n Code) *Statement { return Custom(Options{Open: "(", Close: ")", Separator: ","}, n, Id("a")) },
	}
	var nilStatement *Statement
	var nilGroup *Group
	var nilFile *File
	for name, mk := range cases {
		want, err := renderOrPanic(mk(nil))
		if err != nil {
			t.Fatalf("%s: untyped nil: %v", name, err)
		}
		for typ, n := range map[string]Code{"*Statement": nilStatement, "*Group": nilGroup, "*File": nilFile} {
			got, err := renderOrPanic(mk(n))
			if err != nil {
				t.Errorf("%s with a nil %s item: %v (want %q, as with an untyped nil)", name, typ, err, want)
				continue
			}
			if got != want {
				t.Errorf("%s with a nil %s item: got %q, want %q", name, typ, got, want)
			}
		}
	}
}
