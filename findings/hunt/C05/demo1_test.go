package jen_test

// C05 demo 1: two distinct import paths share the name "C".
//
// Copy to jen/demo1_test.go and run:
//   go test -vet=off -count=1 -run TestC05Demo1 ./jen
//
// The cgo pseudo-package "C" is registered (or emitted) under the name "C" without the uniqueness
// check, so a path that obtained the name "C" earlier through ImportAlias / ImportName keeps it and
// the file has two imports called C ("C redeclared in this block").

import (
	"bytes"
	"go/ast"
	"go/parser"
	"go/token"
	"go/types"
	"strconv"
	"strings"
	"testing"

	. "github.com/dave/jennifer/jen"
)

type c05Importer struct{ names map[string]string }

func (i c05Importer) Import(path string) (*types.Package, error) {
	p := types.NewPackage(path, i.names[path])
	p.MarkComplete()
	return p, nil
}

// c05Check renders f and reports (a) import names shared by distinct paths, as read from the import
// specs (realNames gives the package name of the paths that are imported without an alias), and
// (b) go/types "redeclared" diagnostics on the import specs.
func c05Check(t *testing.T, f *File, realNames map[string]string) {
	t.Helper()
	buf := &bytes.Buffer{}
	if err := f.Render(buf); err != nil {
		t.Fatalf("render: %v", err)
	}
	src := buf.String()
	fset := token.NewFileSet()
	af, err := parser.ParseFile(fset, "x.go", src, 0)
	if err != nil {
		t.Fatalf("parse: %v\n%s", err, src)
	}
	seen := map[string]string{}
	for _, is := range af.Imports {
		path, _ := strconv.Unquote(is.Path.Value)
		name := realNames[path]
		if is.Name != nil {
			name = is.Name.Name
		}
		if name == "_" || name == "." {
			continue
		}
		if other, ok := seen[name]; ok {
			t.Errorf("import name %q is shared by the distinct paths %q and %q", name, other, path)
		}
		seen[name] = path
	}
	conf := types.Config{
		Importer:    c05Importer{realNames},
		FakeImportC: true,
		Error: func(err error) {
			if strings.Contains(err.Error(), "redeclared") {
				t.Errorf("go/types: %v", err)
			}
		},
	}
	conf.Check("p", fset, []*ast.File{af}, nil)
	if t.Failed() {
		t.Logf("rendered file:\n%s", src)
	}
}

func TestC05Demo1(t *testing.T) {
	// main case: the hinted path is rendered before the first reference to "C"
	t.Run("ImportAlias_C_then_Qual_C", func(t *testing.T) {
		f := NewFile("main")
		f.ImportAlias("example.com/a/b", "C")
		f.Var().Id("a").Op("=").Qual("example.com/a/b", "A")
		f.Var().Id("b").Qual("C", "int")
		c05Check(t, f, map[string]string{"C": "C"})
	})
	// the same with ImportName (the package really is called C; no alias is emitted)
	t.Run("ImportName_C_then_Qual_C", func(t *testing.T) {
		f := NewFile("main")
		f.ImportName("example.com/a/C", "C")
		f.Var().Id("a").Op("=").Qual("example.com/a/C", "A")
		f.Var().Id("b").Qual("C", "int")
		c05Check(t, f, map[string]string{"C": "C", "example.com/a/C": "C"})
	})
	// with PackagePrefix off and "C" imported through Anon: jennifer records the name "_" for it
	// but emits `import "C"`, so the name C is never seen as taken, whatever the order
	t.Run("Anon_C_and_ImportAlias_C", func(t *testing.T) {
		f := NewFile("main")
		f.Anon("C")
		f.ImportAlias("example.com/a/b", "C")
		f.Var().Id("a").Op("=").Qual("example.com/a/b", "A")
		c05Check(t, f, map[string]string{"C": "C"})
	})
	// `import "C"` emitted because of a cgo preamble only: "C" is not in f.imports at all
	t.Run("CgoPreamble_and_ImportAlias_C", func(t *testing.T) {
		f := NewFile("main")
		f.CgoPreamble("#include <stdio.h>")
		f.ImportAlias("example.com/a/b", "C")
		f.Var().Id("a").Op("=").Qual("example.com/a/b", "A")
		c05Check(t, f, map[string]string{"C": "C"})
	})
	// control: the opposite order is handled (C1 is chosen) - passes on the unchanged tree
	t.Run("control_Qual_C_then_ImportAlias_C", func(t *testing.T) {
		f := NewFile("main")
		f.ImportAlias("example.com/a/b", "C")
		f.Var().Id("b").Qual("C", "int")
		f.Var().Id("a").Op("=").Qual("example.com/a/b", "A")
		c05Check(t, f, map[string]string{"C": "C"})
	})
}
