package jen_test

// C13 finding 3 (borderline, see report): a nil / Null() item between Case(...) / Default() and
// the following Block(...) switches off the case-block format: the block keeps its braces, so
// the rendered code (and its syntax tree) changes.
//   go test -vet=off -count=1 -run TestC13Demo3 ./jen

import (
	"fmt"
	"testing"

	. "github.com/dave/jennifer/jen"
)

func TestC13Demo3(t *testing.T) {
	body := func() Code { return Id("a").Call() }
	want := fmt.Sprintf("%#v", Switch(Id("x")).Block(
		Case(Lit(1)).Block(body()),
		Default().Block(body()),
	))
	cases := map[string]*Statement{
		"Null()": Switch(Id("x")).Block(
			Case(Lit(1)).Null().Block(body()),
			Default().Null().Block(body()),
		),
		"Add(nil)": Switch(Id("x")).Block(
			Case(Lit(1)).Add(nil).Block(body()),
			Default().Add(nil).Block(body()),
		),
		"List()": Switch(Id("x")).Block(
			Case(Lit(1)).List().Block(body()),
			Default().List().Block(body()),
		),
	}
	for name, c := range cases {
		got := fmt.Sprintf("%#v", c)
		if got != want {
			t.Errorf("%s between Case/Default and Block:\n got %q\nwant %q", name, got, want)
		}
	}
}
