package jen_test

// C13 finding 2 (borderline, see report): Types(...) whose items are all nil / Null() renders
// nothing (Group.render special case) but Group.isNull says it is not null, so as a list item it
// still gets a separator / a line of its own - it behaves like Empty(), not like Null().
//   go test -vet=off -count=1 -run TestC13Demo2 ./jen

import (
	"fmt"
	"testing"

	. "github.com/dave/jennifer/jen"
)

func TestC13Demo2(t *testing.T) {
	gs := func(c *Statement) (out string) {
		defer func() {
			if r := recover(); r != nil {
				out = fmt.Sprintf("PANIC: %v", r)
			}
		}()
		return fmt.Sprintf("%#v", c)
	}
	type tc struct {
		name      string
		with, ref *Statement
	}
	cases := []tc{
		{"Call", Id("f").Call(Id("a"), Types(), Id("b")), Id("f").Call(Id("a"), Id("b"))},
		{"Call Types(nil,Null)", Id("f").Call(Id("a"), Types(nil, Null())), Id("f").Call(Id("a"))},
		{"List", List(Types(Null()), Id("a")).Op("=").Id("b"), List(Id("a")).Op("=").Id("b")},
		{"Params", Func().Id("f").Params(Id("x").Int(), Types()).Block(), Func().Id("f").Params(Id("x").Int()).Block()},
		{"Block", Func().Id("f").Params().Block(Types(), Id("a").Call()), Func().Id("f").Params().Block(Id("a").Call())},
		{"Block only", Func().Id("f").Params().Block(Types()), Func().Id("f").Params().Block()},
	}
	for _, c := range cases {
		got, want := gs(c.with), gs(c.ref)
		if got != want {
			t.Errorf("%s:\n got %q\nwant %q", c.name, got, want)
		}
	}
}
