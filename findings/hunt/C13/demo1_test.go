package jen_test

// C13 violation 1: a nil / Null() item next to a Dict in Values turns a program that renders
// into a render error. Drop this file into jen/ and run:
//   go test -vet=off -count=1 -run TestC13Demo1 ./jen

import (
	"bytes"
	"testing"

	. "github.com/dave/jennifer/jen"
)

func TestC13Demo1(t *testing.T) {
	dict := func() Dict { return Dict{Id("A"): Lit(1), Id("B"): Lit(2)} }
	render := func(c *Statement) (string, error) {
		buf := &bytes.Buffer{}
		err := c.Render(buf)
		return buf.String(), err
	}
	want, err := render(Id("T").Values(dict()))
	if err != nil {
		t.Fatalf("base program does not render: %v", err)
	}
	var typedNil *Statement
	cases := map[string]*Statement{
		"Values(dict, nil)":            Id("T").Values(dict(), nil),
		"Values(nil, dict)":            Id("T").Values(nil, dict()),
		"Values(dict, Null())":         Id("T").Values(dict(), Null()),
		"Values(Null(), dict, nil)":    Id("T").Values(Null(), dict(), nil),
		"Values(dict, List())":         Id("T").Values(dict(), List()),
		"Values(dict, (*Statement)0)":  Id("T").Values(dict(), typedNil),
		"Values(Dict{}, dict)":         Id("T").Values(Dict{}, dict()),
		"Values(Dict{k:Null()}, dict)": Id("T").Values(Dict{Id("k"): Null()}, dict()),
	}
	for name, c := range cases {
		got, err := render(c)
		if err != nil {
			t.Errorf("%s: null items must vanish, but render failed: %v", name, err)
			continue
		}
		if got != want {
			t.Errorf("%s:\n got %q\nwant %q", name, got, want)
		}
	}
}
