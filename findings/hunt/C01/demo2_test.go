package jen_test

// Demo 2 (C01): "same imports under the same names".
//  (a) a package whose name is a predeclared identifier (real world: package "any" of
//      github.com/golang/protobuf/ptypes/any, package "copy" of github.com/otiai10/copy) cannot
//      be imported under its own name: the name given with ImportName / ImportAlias is silently
//      replaced by name+"1" and an alias is added.
//  (b) a blank import of a path that is also used (GOROOT/src/crypto/x509/x509.go imports both
//      "crypto/sha1" and _ "crypto/sha1") is dropped.
//  (c) one path under two names (GOROOT/src/net/http/request.go imports "net/url" and
//      urlpkg "net/url") cannot be expressed: hints and imports are keyed by path.
//
// Place in jen/ and run:  go test -vet=off -count=1 -run TestDemo2 ./jen

import (
	"bytes"
	"go/parser"
	"go/token"
	"sort"
	"strconv"
	"strings"
	"testing"

	. "github.com/dave/jennifer/jen"
)

func importsOf(t *testing.T, src []byte) string {
	f, err := parser.ParseFile(token.NewFileSet(), "x.go", src, 0)
	if err != nil {
		t.Fatalf("%v\n%s", err, src)
	}
	var out []string
	for _, imp := range f.Imports {
		p, _ := strconv.Unquote(imp.Path.Value)
		n := ""
		if imp.Name != nil {
			n = imp.Name.Name + " "
		}
		out = append(out, n+p)
	}
	sort.Strings(out)
	return strings.Join(out, "; ")
}

func render(t *testing.T, f *File) []byte {
	buf := &bytes.Buffer{}
	if err := f.Render(buf); err != nil {
		t.Fatal(err)
	}
	return buf.Bytes()
}

func TestDemo2a_PackageNamedLikePredeclared(t *testing.T) {
	const original = `package p

import "github.com/golang/protobuf/ptypes/any"

var _ any.Any
`
	f := NewFile("p")
	f.ImportName("github.com/golang/protobuf/ptypes/any", "any")
	f.Var().Id("_").Qual("github.com/golang/protobuf/ptypes/any", "Any")
	got := render(t, f)
	if want, have := importsOf(t, []byte(original)), importsOf(t, got); want != have {
		t.Errorf("imports differ: original {%s}, rendered {%s}\n%s", want, have, got)
	}
}

func TestDemo2b_BlankAndNamedImportOfOnePath(t *testing.T) {
	const original = `package p

import (
	"crypto/sha1"
	_ "crypto/sha1"
)

var _ = sha1.Sum
`
	f := NewFile("p")
	f.Anon("crypto/sha1")
	f.Var().Id("_").Op("=").Qual("crypto/sha1", "Sum")
	got := render(t, f)
	if want, have := importsOf(t, []byte(original)), importsOf(t, got); want != have {
		t.Errorf("imports differ: original {%s}, rendered {%s}\n%s", want, have, got)
	}
}

func TestDemo2c_OnePathTwoNames(t *testing.T) {
	const original = `package p

import (
	"net/url"
	urlpkg "net/url"
)

var _ = url.Parse
var _ = urlpkg.Parse
`
	f := NewFile("p")
	f.ImportName("net/url", "url")
	f.ImportAlias("net/url", "urlpkg") // the only handle is the path: this replaces the line above
	f.Var().Id("_").Op("=").Qual("net/url", "Parse")
	f.Var().Id("_").Op("=").Qual("net/url", "Parse")
	got := render(t, f)
	if want, have := importsOf(t, []byte(original)), importsOf(t, got); want != have {
		t.Errorf("imports differ: original {%s}, rendered {%s}\n%s", want, have, got)
	}
}
