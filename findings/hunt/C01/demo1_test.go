package jen_test

// Demo 1 (C01): a generic type declaration whose only type parameter has a pointer (or
// parenthesised) constraint is rendered without the disambiguating trailing comma, so the
// output re-parses as an ARRAY type declaration. Render reports no error.
//
// Place in jen/ and run:  go test -vet=off -count=1 -run TestDemo1 ./jen

import (
	"bytes"
	"go/ast"
	"go/parser"
	"go/token"
	"testing"

	. "github.com/dave/jennifer/jen"
)

func TestDemo1_TypesPointerConstraint(t *testing.T) {
	// The original program (valid Go, e.g. GOROOT/src/internal/types/testdata/fixedbugs/issue49482.go):
	const original = "package p\n\ntype A[P *int,] struct{ p P }\n"
	of, err := parser.ParseFile(token.NewFileSet(), "o.go", original, 0)
	if err != nil {
		t.Fatal(err)
	}
	ots := of.Decls[0].(*ast.GenDecl).Specs[0].(*ast.TypeSpec)
	if ots.TypeParams == nil || len(ots.TypeParams.List) != 1 {
		t.Fatal("original should be a generic type with one type parameter")
	}

	// The same declaration through the documented elements: Type, Id, Types, Op("*"), Struct.
	for _, noFormat := range []bool{false, true} {
		f := NewFile("p")
		f.NoFormat = noFormat
		f.Type().Id("A").Types(Id("P").Op("*").Int()).Struct(Id("p").Id("P"))
		buf := &bytes.Buffer{}
		if err := f.Render(buf); err != nil {
			t.Fatalf("render: %v", err)
		}
		rf, err := parser.ParseFile(token.NewFileSet(), "r.go", buf.Bytes(), 0)
		if err != nil {
			t.Fatalf("rendered source does not parse: %v\n%s", err, buf.String())
		}
		rts := rf.Decls[0].(*ast.GenDecl).Specs[0].(*ast.TypeSpec)
		if rts.TypeParams == nil {
			t.Errorf("NoFormat=%v: rendered declaration lost its type parameter list; it is now %T:\n%s", noFormat, rts.Type, buf.String())
			continue
		}
		if _, isStruct := rts.Type.(*ast.StructType); !isStruct {
			t.Errorf("NoFormat=%v: rendered type is %T, want *ast.StructType:\n%s", noFormat, rts.Type, buf.String())
		}
	}
}
