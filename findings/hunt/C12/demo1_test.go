package jen_test

// Demo for C12, violation 1: the CONTENT of a string literal changes the code around it.
//
// Copy into <worktree>/jen/ and run:
//   go test -vet=off -count=1 -run TestC12Demo1 ./jen
//
// Lit("default") directly followed by Block(...) in the same Statement makes the block lose
// its braces, because Group.render (jen/group.go) recognises "the default keyword" by comparing
// the previous token's content with "default" without looking at the token's type. Every other
// string (e.g. "defaulx") renders the braces. So the literal is not inert: what the string says
// leaks into the shape of the surrounding code.

import (
	"bytes"
	"go/parser"
	"go/scanner"
	"go/token"
	"strings"
	"testing"

	. "github.com/dave/jennifer/jen"
)

func c12Braces(src string) (l, r int) {
	fset := token.NewFileSet()
	file := fset.AddFile("", fset.Base(), len(src))
	var s scanner.Scanner
	s.Init(file, []byte(src), nil, 0)
	for {
		_, tok, _ := s.Scan()
		switch tok {
		case token.EOF:
			return
		case token.LBRACE:
			l++
		case token.RBRACE:
			r++
		}
	}
}

func c12File(s string, noFormat bool) *File {
	f := NewFile("p")
	f.NoFormat = noFormat
	f.Func().Id("f").Params(Id("mode").String(), Id("next").Func().Params().String()).Block(
		// for mode != <s> { mode = next() }
		For().Id("mode").Op("!=").Lit(s).Block(
			Id("mode").Op("=").Id("next").Call(),
		),
	)
	return f
}

func TestC12Demo1(t *testing.T) {
	// (a) formatted render: the same program differs only in the literal's value.
	for _, s := range []string{"defaulx", "default"} {
		buf := &bytes.Buffer{}
		if err := c12File(s, false).Render(buf); err != nil {
			t.Errorf("Lit(%q): Render fails although only the literal's value changed: %v", s, firstLine(err.Error()))
			continue
		}
		if _, err := parser.ParseFile(token.NewFileSet(), "p.go", buf.Bytes(), 0); err != nil {
			t.Errorf("Lit(%q): output is not valid Go: %v", s, err)
		}
	}

	// (b) NoFormat render: no error is reported, the braces of the loop body are silently gone.
	var shape [2][2]int
	for i, s := range []string{"defaulx", "default"} {
		buf := &bytes.Buffer{}
		if err := c12File(s, true).Render(buf); err != nil {
			t.Fatalf("Lit(%q): %v", s, err)
		}
		l, r := c12Braces(buf.String())
		shape[i] = [2]int{l, r}
		if _, err := parser.ParseFile(token.NewFileSet(), "p.go", buf.Bytes(), 0); err != nil {
			t.Errorf("NoFormat, Lit(%q): output is not valid Go: %v\n%s", s, err, buf.String())
		}
	}
	if shape[0] != shape[1] {
		t.Errorf("the surrounding code depends on the literal's value: braces {/} = %v for \"defaulx\", %v for \"default\"", shape[0], shape[1])
	}

	// (c) smallest form, on a bare statement: switch <s> { case "a": }
	for _, s := range []string{"defaulx", "default"} {
		buf := &bytes.Buffer{}
		if err := Switch().Lit(s).Block(Case(Lit("a")).Block()).Render(buf); err != nil {
			t.Errorf("Switch().Lit(%q).Block(...): %v", s, firstLine(err.Error()))
		}
	}
}

func firstLine(s string) string {
	if i := strings.IndexByte(s, '\n'); i >= 0 {
		return s[:i]
	}
	return s
}
