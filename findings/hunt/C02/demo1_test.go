package jen_test

// Violation 1 (C02, clause "File.Render ... equal gofmt applied to what an identically built File
// renders with NoFormat set"): Dict renders in map-iteration order whenever that order matters, so
// two identically built Files do not render the same text.
//
// Run: copy into jen/ and `go test -vet=off -count=1 -run TestDemo1 ./jen`

import (
	"bytes"
	"go/format"
	"testing"

	. "github.com/dave/jennifer/jen"
)

// (a) Qual keys whose paths guess the same alias: the alias (v1 / v11) is handed out in the order the
// keys are first rendered, which is the map's iteration order.
func buildDemo1a() *File {
	f := NewFile("main")
	f.Var().Id("kinds").Op("=").Map(String()).String().Values(Dict{
		Qual("example.com/api/core/v1", "Kind"): Lit("core"),
		Qual("example.com/api/apps/v1", "Kind"): Lit("apps"),
	})
	return f
}

// (b) two distinct keys that render the same text: the sort is stable over map-iteration order.
func buildDemo1b() *File {
	f := NewFile("main")
	f.Var().Id("m").Op("=").Map(String()).Int().Values(Dict{
		Id("a"): Lit(1),
		Id("a"): Lit(2),
	})
	return f
}

func checkDemo1(t *testing.T, name string, build func() *File) {
	for i := 0; i < 200; i++ {
		formatted := &bytes.Buffer{}
		if err := build().Render(formatted); err != nil {
			t.Fatalf("%s: %v", name, err)
		}
		raw := build() // identically built
		raw.NoFormat = true
		rawBuf := &bytes.Buffer{}
		if err := raw.Render(rawBuf); err != nil {
			t.Fatalf("%s: %v", name, err)
		}
		want, err := format.Source(rawBuf.Bytes())
		if err != nil {
			t.Fatalf("%s: %v", name, err)
		}
		if !bytes.Equal(want, formatted.Bytes()) {
			t.Fatalf("%s: attempt %d: Render() != gofmt(NoFormat render of an identically built File)\n--- Render():\n%s\n--- gofmt(NoFormat):\n%s", name, i, formatted.String(), want)
		}
	}
}

func TestDemo1a_DictQualKeysAliasOrder(t *testing.T) { checkDemo1(t, "qual keys", buildDemo1a) }
func TestDemo1b_DictEqualKeyText(t *testing.T)      { checkDemo1(t, "equal key text", buildDemo1b) }
