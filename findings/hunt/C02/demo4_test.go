package jen_test

// Violation 4 (C02, clause "Whenever File.Render returns nil with formatting enabled, the bytes
// written parse as a Go source file" / "whenever a Statement ... render returns nil, the bytes parse
// as Go declarations or statements"): Render trusts the OUTPUT of go/format. go/printer (go1.23)
// turns several inputs that go/parser accepts -- some of them perfectly valid Go -- into text that
// no longer parses, and Render hands that text out with a nil error.

import (
	"bytes"
	"go/parser"
	"go/token"
	"testing"

	. "github.com/dave/jennifer/jen"
)

func TestDemo4_FormattedOutputDoesNotParse(t *testing.T) {
	cases := []struct {
		name string
		code Code
	}{
		// valid Go: if (x == T[int]{}) {}      -> printer drops the parentheses: if x == T[int]{} {
		{"generic composite literal in if", Func().Id("f").Params().Block(
			If(Parens(Id("x").Op("==").Id("T").Types(Int()).Values())).Block(),
		)},
		// valid Go: for range (T[int]{}) {}
		{"generic composite literal in range", Func().Id("f").Params().Block(
			For(Range().Parens(Id("T").Types(Int()).Values())).Block(),
		)},
		// valid Go: f(y,\n/* c */)              -> printer drops the comma: f(y\n/* c */)
		{"comment after last argument", Var().Id("x").Op("=").Id("f").Call(
			Id("y"),
			Line().Comment("/* c */"),
		)},
		// valid Go syntax: var s = []int{y,\n/* c */}
		{"comment after last element", Var().Id("s").Op("=").Index().Int().Values(
			Id("y"),
			Line().Comment("/* c */"),
		)},
		// nonsense accepted by go/parser: func f() (...int) {}   -> func f() ...int {}
		{"variadic result", Func().Id("f").Params().Params(Op("...").Int()).Block()},
		// nonsense accepted by go/parser: var f func() (x[1])    -> var f func() x[1]
		{"indexed result", Var().Id("f").Func().Params().Params(Id("x").Index(Lit(1)))},
	}
	for _, c := range cases {
		t.Run(c.name, func(t *testing.T) {
			f := NewFile("p")
			f.Add(c.code)
			buf := &bytes.Buffer{}
			if err := f.Render(buf); err != nil {
				return // an error would be conforming
			}
			if _, perr := parser.ParseFile(token.NewFileSet(), "out.go", buf.Bytes(), parser.ParseComments); perr != nil {
				t.Errorf("File.Render returned nil, but the bytes do not parse: %v\n---\n%s", perr, buf.String())
			}
			// the same through Statement.Render
			sb := &bytes.Buffer{}
			if err := Add(c.code).Render(sb); err != nil {
				return
			}
			if _, perr := parser.ParseFile(token.NewFileSet(), "out.go", append([]byte("package p\n"), sb.Bytes()...), parser.ParseComments); perr != nil {
				t.Errorf("Statement.Render returned nil, but the bytes do not parse as declarations: %v\n---\n%s", perr, sb.String())
			}
		})
	}
}
