package jen_test

// Violation 2 (C02, clause "Whenever File.Render returns nil with formatting enabled, the bytes
// written parse as a Go source file"): a header / package comment that opens a block comment and a
// later "*/" anywhere in the file swallow the package clause; go/format then silently falls back to
// "declaration list" mode and File.Render returns nil with bytes that are not a Go source file.

import (
	"bytes"
	"go/parser"
	"go/token"
	"testing"

	. "github.com/dave/jennifer/jen"
)

func checkDemo2(t *testing.T, f *File) {
	buf := &bytes.Buffer{}
	err := f.Render(buf)
	if err != nil {
		return // an error is the expected, conforming behaviour
	}
	if _, perr := parser.ParseFile(token.NewFileSet(), "out.go", buf.Bytes(), parser.ParseComments); perr != nil {
		t.Fatalf("File.Render returned nil, but the bytes are not a Go source file: %v\n---\n%s", perr, buf.String())
	}
}

func TestDemo2a_PackageCommentSwallowsPackageClause(t *testing.T) {
	f := NewFile("foo")
	f.PackageComment("/* Package foo does things") // forgot the closing */
	f.Comment("see also: a*/") // any later "*/" closes it
	f.Var().Id("x").Int()
	checkDemo2(t, f)
}

func TestDemo2b_HeaderCommentAndCgoPreamble(t *testing.T) {
	f := NewFile("foo")
	f.HeaderComment("/* generated")
	f.CgoPreamble("/* #include <stdio.h> */")
	checkDemo2(t, f)
}
