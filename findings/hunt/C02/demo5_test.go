package jen_test

// Violation 5 (C02, clause "whenever a Statement or Group render returns nil, the bytes parse as Go
// declarations or statements"): go/format's fragment modes accept (a) a complete source file and
// (b) text that closes the synthetic `func _() {` wrapper and opens another one. Statement.Render
// and Group.Render return nil for both.

import (
	"bytes"
	"fmt"
	"go/parser"
	"go/token"
	"testing"

	. "github.com/dave/jennifer/jen"
)

// parsesAsDeclsOrStmts is strict: the text must be a declaration list, or a statement list that
// stays inside one function body.
func parsesAsDeclsOrStmts(b []byte) error {
	fs := token.NewFileSet()
	_, err1 := parser.ParseFile(fs, "", append([]byte("package p\n"), b...), parser.ParseComments)
	if err1 == nil {
		return nil
	}
	src := append([]byte("package p\nfunc _() {\n"), b...)
	src = append(src, "\n}\n"...)
	f, err2 := parser.ParseFile(fs, "", src, parser.ParseComments)
	if err2 != nil {
		return fmt.Errorf("as declarations: %v; as statements: %v", err1, err2)
	}
	if len(f.Decls) != 1 {
		return fmt.Errorf("as declarations: %v; as statements: the text escapes the function body (%d top-level declarations)", err1, len(f.Decls))
	}
	return nil
}

func TestDemo5_FragmentIsNeitherDeclsNorStmts(t *testing.T) {
	for name, s := range map[string]*Statement{
		"escapes the wrapper": Op("}").Line().Func().Id("x").Params().Op("{"),
		"whole file":          Id("package").Id("x").Line().Var().Id("y").Int(),
	} {
		buf := &bytes.Buffer{}
		if err := s.Render(buf); err != nil {
			continue // conforming
		}
		if perr := parsesAsDeclsOrStmts(buf.Bytes()); perr != nil {
			t.Errorf("%s: Statement.Render returned nil, but the bytes are neither declarations nor statements: %v\n---\n%s", name, perr, buf.String())
		}
	}
}
