package jen_test

// Violation 3 (C02, clause "syntactically invalid [or nonsensical] compositions are reported as an
// error (never a panic ...)"): go/printer panics on a type parameter whose constraint is wrapped in
// two pairs of parentheses; Render / GoString / Save let the panic escape.

import (
	"bytes"
	"testing"

	. "github.com/dave/jennifer/jen"
)

func TestDemo3_RenderPanics(t *testing.T) {
	// type T[P ((chan int))] int
	decl := func() *Statement {
		return Type().Id("T").Types(Id("P").Parens(Parens(Chan().Int()))).Int()
	}
	t.Run("File.Render", func(t *testing.T) {
		defer func() {
			if r := recover(); r != nil {
				t.Fatalf("File.Render panicked instead of returning an error or valid Go: %v", r)
			}
		}()
		f := NewFile("p")
		f.Add(decl())
		_ = f.Render(&bytes.Buffer{})
	})
	t.Run("Statement.Render", func(t *testing.T) {
		defer func() {
			if r := recover(); r != nil {
				t.Fatalf("Statement.Render panicked instead of returning an error or valid Go: %v", r)
			}
		}()
		_ = decl().Render(&bytes.Buffer{})
	})
}
