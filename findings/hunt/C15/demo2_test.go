package jen_test

// Demo 2 (C15): "PackageComment text becomes the package doc comment" is false
// for a package comment whose text is "+build ..." : the line is taken out of
// the doc comment, a //go:build line is synthesised, and both are placed in
// front of the doc comment as a real build constraint.
//
// Drop this file into jen/ and run: go test -vet=off -count=1 -run TestDemo2 ./jen

import (
	"bytes"
	"go/build"
	"go/parser"
	"go/token"
	"os"
	"path/filepath"
	"strings"
	"testing"

	. "github.com/dave/jennifer/jen"
)

func TestDemo2PackageCommentLeavesDoc(t *testing.T) {
	f := NewFile("a")
	f.PackageComment("Package a is documented here. Its files used to carry")
	f.PackageComment("+build ignore")
	f.PackageComment("but do not any more.")
	f.Func().Id("f").Params().Block()

	var buf bytes.Buffer
	if err := f.Render(&buf); err != nil {
		t.Fatal(err)
	}
	af, err := parser.ParseFile(token.NewFileSet(), "a.go", buf.Bytes(), parser.ParseComments)
	if err != nil {
		t.Fatal(err)
	}
	if af.Doc == nil || !strings.Contains(af.Doc.Text(), "+build ignore") {
		t.Errorf("package comment text is not part of the package doc:\n%s", buf.String())
	}

	dir := t.TempDir()
	if err := os.WriteFile(filepath.Join(dir, "a.go"), buf.Bytes(), 0644); err != nil {
		t.Fatal(err)
	}
	ctxt := build.Default
	if match, err := ctxt.MatchFile(dir, "a.go"); err != nil || !match {
		t.Errorf("package comment text became a build constraint that excludes the file (match=%v err=%v)", match, err)
	}
}
