package jen_test

// Demo 1 (C15): a Comment whose one-line text is "+build ignore" (no comment
// marker at its start, no "*/"), placed at the END OF AN ITEM of a Block /
// Struct, alters the surrounding code's token sequence: the comment is removed
// from the item together with the newline that ends the item, so two items are
// fused on one line and the rendered file is not valid Go any more. Render
// reports no error.
//
// Drop this file into jen/ and run: go test -vet=off -count=1 -run TestDemo1 ./jen

import (
	"bytes"
	"fmt"
	"go/build"
	"go/parser"
	"go/scanner"
	"go/token"
	"os"
	"path/filepath"
	"testing"

	. "github.com/dave/jennifer/jen"
)

func demo1CodeTokens(src []byte) []string {
	fset := token.NewFileSet()
	file := fset.AddFile("x.go", -1, len(src))
	var s scanner.Scanner
	s.Init(file, src, nil, scanner.ScanComments)
	var out []string
	for {
		_, tok, lit := s.Scan()
		if tok == token.EOF {
			return out
		}
		if tok == token.COMMENT {
			continue
		}
		if tok == token.SEMICOLON {
			lit = ";"
		}
		out = append(out, tok.String()+":"+lit)
	}
}

func demo1File(text string, with bool) *File {
	c := func(s *Statement) *Statement {
		if with {
			return s.Comment(text)
		}
		return s
	}
	f := NewFile("a")
	f.Type().Id("S").Struct(
		c(Id("a").Int()),
		Id("b").String(),
	)
	f.Func().Id("f").Params().Block(
		c(Id("x").Op(":=").Lit(1)),
		Return(),
	)
	return f
}

func TestDemo1TokenSequence(t *testing.T) {
	for _, text := range []string{"+build ignore", "+build", " +build linux,amd64"} {
		var without, with bytes.Buffer
		if err := demo1File(text, false).Render(&without); err != nil {
			t.Fatal(err)
		}
		if err := demo1File(text, true).Render(&with); err != nil {
			t.Fatal(err)
		}
		if _, err := parser.ParseFile(token.NewFileSet(), "x.go", with.Bytes(), parser.ParseComments); err != nil {
			t.Errorf("text %q: Render succeeded but the output is not valid Go: %v\n%s", text, err, with.String())
		}
		a, b := demo1CodeTokens(without.Bytes()), demo1CodeTokens(with.Bytes())
		if fmt.Sprint(a) != fmt.Sprint(b) {
			t.Errorf("text %q: the comment altered the code token sequence\nwithout: %v\nwith:    %v", text, a, b)
		}
	}
}

// Even where the token sequence happens to survive (the comment ends the LAST
// item, so nothing is fused), the comment's text leaves the function body and
// becomes a real build constraint in front of the package clause: the comment
// "hides" the whole file from the build.
func TestDemo1CommentBecomesBuildConstraint(t *testing.T) {
	f := NewFile("a")
	f.Func().Id("f").Params().Block(
		Return().Comment("+build ignore"),
	)
	dir := t.TempDir()
	name := filepath.Join(dir, "a.go")
	if err := f.Save(name); err != nil {
		t.Fatal(err)
	}
	ctxt := build.Default
	match, err := ctxt.MatchFile(dir, "a.go")
	if err != nil {
		t.Fatal(err)
	}
	if !match {
		src, _ := os.ReadFile(name)
		t.Errorf("a comment inside a function body excluded the file from the build:\n%s", src)
	}
}

// The same through the fragment entry points (Statement.Render / GoString):
// the result is not even a fragment any more.
func TestDemo1Fragment(t *testing.T) {
	s := Func().Id("f").Params().Block(
		Id("x").Op(":=").Lit(1).Comment("+build ignore"),
		Return(),
	)
	var buf bytes.Buffer
	if err := s.Render(&buf); err != nil {
		t.Fatal(err)
	}
	want := "func f() {\n\tx := 1 // +build ignore\n\treturn\n}"
	if buf.String() != want {
		t.Errorf("got:\n%s\nwant:\n%s", buf.String(), want)
	}
}
