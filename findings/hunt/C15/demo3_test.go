package jen_test

// Demo 3 (C15, low severity): "its text survives inside a comment" is false for
// text that go/printer's doc-comment reformatter rewrites. A comment that is an
// item of its own (so it leads the next item) goes through go/doc/comment:
// ``x'' is rewritten to curly quotes. The same comment at the END of an item is
// left alone, and so is any comment when File.NoFormat is set.
//
// Drop this file into jen/ and run: go test -vet=off -count=1 -run TestDemo3 ./jen

import (
	"bytes"
	"strings"
	"testing"

	. "github.com/dave/jennifer/jen"
)

func TestDemo3TextRewritten(t *testing.T) {
	const text = "prints ``hello'' in TeX quotes"
	f := NewFile("a")
	f.PackageComment(text)
	f.Comment(text)
	f.Func().Id("f").Params().Block(
		Comment(text),
		Return(),
	)
	f.Type().Id("S").Struct(
		Comment(text),
		Id("a").Int(),
	)
	var buf bytes.Buffer
	if err := f.Render(&buf); err != nil {
		t.Fatal(err)
	}
	if got := strings.Count(buf.String(), "// "+text); got != 4 {
		t.Errorf("comment text survived in %d of 4 places:\n%s", got, buf.String())
	}
}
