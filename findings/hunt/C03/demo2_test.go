package jen_test

// C03 demo 2: a package whose name (ImportName) or alias (ImportAlias) is "C", referenced
// before the cgo pseudo-package "C", shares the qualifier C with it: both paths are bound to
// (and referred to by) the same q. The reverse reference order is handled (C1).
// Copy to jen/demo2_test.go and run: go test -vet=off -count=1 -run TestC03Demo2 ./jen

import (
	"bytes"
	"go/ast"
	"go/parser"
	"go/token"
	"go/types"
	"strconv"
	"strings"
	"testing"

	"github.com/dave/jennifer/jen"
)

type demo2Importer struct {
	names map[string]string
	pkgs  map[string]*types.Package
}

func (m *demo2Importer) Import(path string) (*types.Package, error) {
	if p, ok := m.pkgs[path]; ok {
		return p, nil
	}
	name := m.names[path]
	if name == "" {
		name = "declared_name_of_pkg"
	}
	p := types.NewPackage(path, name)
	p.Scope().Insert(types.NewVar(token.NoPos, p, "Sym", types.Typ[types.Int]))
	p.MarkComplete()
	m.pkgs[path] = p
	return p, nil
}

func demo2Check(t *testing.T, label string, f *jen.File, names map[string]string) {
	t.Helper()
	buf := &bytes.Buffer{}
	if err := f.Render(buf); err != nil {
		t.Fatalf("%s: render: %v", label, err)
	}
	src := buf.String()
	fset := token.NewFileSet()
	af, err := parser.ParseFile(fset, "x.go", src, parser.AllErrors)
	if err != nil {
		t.Fatalf("%s: parse: %v\n%s", label, err, src)
	}

	// (a) structural: no two import specs may bind the same qualifier
	bound := map[string]string{}
	for _, is := range af.Imports {
		path, _ := strconv.Unquote(is.Path.Value)
		q := ""
		switch {
		case is.Name != nil:
			q = is.Name.Name
		case path == "C":
			q = "C"
		default:
			q = names[path]
		}
		if q == "_" || q == "." {
			continue
		}
		if other, dup := bound[q]; dup {
			t.Errorf("%s: qualifier %q is bound to both %q and %q", label, q, other, path)
		}
		bound[q] = path
	}

	// (b) go/types agrees
	var errs []string
	conf := types.Config{
		Importer:    &demo2Importer{names: names, pkgs: map[string]*types.Package{}},
		FakeImportC: true,
		Error:       func(e error) { errs = append(errs, e.Error()) },
	}
	conf.Check("x", fset, []*ast.File{af}, nil)
	if len(errs) > 0 {
		t.Errorf("%s: the rendered file does not type-check:\n  %s", label, strings.Join(errs, "\n  "))
	}
	if t.Failed() {
		t.Logf("--- rendered (%s) ---\n%s", label, src)
	}
}

func TestC03Demo2CgoNameCollision(t *testing.T) {
	t.Run("ImportName", func(t *testing.T) {
		f := jen.NewFile("x")
		f.ImportName("example.com/consts", "C") // the package really is declared "package C"
		f.Var().Id("_").Op("=").Qual("example.com/consts", "Sym")
		f.Var().Id("_").Qual("C", "int")
		demo2Check(t, "ImportName", f, map[string]string{"example.com/consts": "C"})
	})
	t.Run("ImportAlias", func(t *testing.T) {
		f := jen.NewFile("x")
		f.ImportAlias("example.com/consts", "C")
		f.Var().Id("_").Op("=").Qual("example.com/consts", "Sym")
		f.Var().Id("_").Qual("C", "int")
		demo2Check(t, "ImportAlias", f, map[string]string{})
	})
	t.Run("ReverseOrderIsFine", func(t *testing.T) {
		f := jen.NewFile("x")
		f.ImportName("example.com/consts", "C")
		f.Var().Id("_").Qual("C", "int")
		f.Var().Id("_").Op("=").Qual("example.com/consts", "Sym")
		demo2Check(t, "reverse", f, map[string]string{"example.com/consts": "C"})
	})
}
