package jen_test

// C03 demo 1: a path whose last element is "init" is imported under the alias "init",
// which Go forbids ("cannot import package as init - init must be a func").
// Copy to jen/demo1_test.go and run: go test -vet=off -count=1 -run TestC03Demo1 ./jen

import (
	"bytes"
	"go/ast"
	"go/parser"
	"go/token"
	"go/types"
	"strings"
	"testing"

	"github.com/dave/jennifer/jen"
)

type demo1Importer map[string]*types.Package

func (m demo1Importer) Import(path string) (*types.Package, error) {
	if p, ok := m[path]; ok {
		return p, nil
	}
	// every fabricated package has a declared name that cannot be guessed, and exports var Sym int
	p := types.NewPackage(path, "declared_name_of_pkg")
	p.Scope().Insert(types.NewVar(token.NoPos, p, "Sym", types.Typ[types.Int]))
	p.MarkComplete()
	m[path] = p
	return p, nil
}

func TestC03Demo1InitAlias(t *testing.T) {
	for _, prefix := range []string{""} {
		f := jen.NewFile("x")
		f.PackagePrefix = prefix
		f.Var().Id("_").Op("=").Qual("example.com/app/init", "Sym")

		buf := &bytes.Buffer{}
		if err := f.Render(buf); err != nil {
			t.Fatalf("render: %v", err)
		}
		src := buf.String()

		fset := token.NewFileSet()
		af, err := parser.ParseFile(fset, "x.go", src, parser.AllErrors)
		if err != nil {
			t.Fatalf("parse: %v\n%s", err, src)
		}
		var errs []string
		conf := types.Config{Importer: demo1Importer{}, Error: func(e error) { errs = append(errs, e.Error()) }}
		conf.Check("x", fset, []*ast.File{af}, nil)
		if len(errs) > 0 {
			t.Fatalf("the rendered file does not type-check although example.com/app/init exports Sym:\n  %s\n--- rendered ---\n%s",
				strings.Join(errs, "\n  "), src)
		}
	}
}
