package jen_test

// C19 demo 1 - copy to jen/demo1_test.go and run
//   go test -vet=off -count=1 -run TestC19Demo1 ./jen
//
// A cgo preamble block given in raw comment form ("//..." or "/*...*/") that ends in a newline is
// written verbatim, and renderImports then adds its own "\n" - leaving a BLANK LINE between the
// preamble and `import "C"`. The comment is then no longer the doc comment of the import, so cgo
// ignores it (go build: "could not determine kind of name for C.puts").

import (
	"bytes"
	"go/ast"
	"go/parser"
	"go/token"
	"strings"
	"testing"

	. "github.com/dave/jennifer/jen"
)

func c19CImport(t *testing.T, src string) (*token.FileSet, *ast.GenDecl) {
	t.Helper()
	fset := token.NewFileSet()
	af, err := parser.ParseFile(fset, "x.go", src, parser.ParseComments)
	if err != nil {
		t.Fatalf("output does not parse: %v\n%s", err, src)
	}
	for _, d := range af.Decls {
		if gd, ok := d.(*ast.GenDecl); ok && gd.Tok == token.IMPORT {
			for _, s := range gd.Specs {
				if s.(*ast.ImportSpec).Path.Value == `"C"` {
					if len(gd.Specs) != 1 {
						t.Fatalf("import \"C\" is not its own declaration:\n%s", src)
					}
					return fset, gd
				}
			}
		}
	}
	t.Fatalf("no import \"C\":\n%s", src)
	return nil, nil
}

func TestC19Demo1(t *testing.T) {
	cases := []struct {
		name string
		pre  []string
		want []string // the text that must be found, in order, in the doc comment of import "C"
	}{
		{"raw block comment ending in newline", []string{"/*\n#include <stdio.h>\n#include <stdlib.h>\n*/\n"}, []string{"#include <stdio.h>", "#include <stdlib.h>"}},
		{"raw line comment ending in newline", []string{"// #include <stdio.h>\n"}, []string{"#include <stdio.h>"}},
		{"two raw blocks, the first ending in newline", []string{"// #include <stdio.h>\n", "// #include <stdlib.h>"}, []string{"#include <stdio.h>", "#include <stdlib.h>"}},
		// control: the same text in the non-raw form is handled (the documented example does this)
		{"control: non-raw multi-line ending in newline", []string{"#include <stdio.h>\n#include <stdlib.h>\n"}, []string{"#include <stdio.h>", "#include <stdlib.h>"}},
	}
	for _, noFormat := range []bool{false, true} {
		for _, c := range cases {
			f := NewFile("main")
			f.NoFormat = noFormat
			for _, p := range c.pre {
				f.CgoPreamble(p)
			}
			f.Func().Id("main").Params().Block(
				Qual("C", "puts").Call(Qual("C", "CString").Call(Lit("x"))),
			)
			buf := &bytes.Buffer{}
			if err := f.Render(buf); err != nil {
				t.Errorf("%s: %v", c.name, err)
				continue
			}
			src := buf.String()
			fset, decl := c19CImport(t, src)
			if decl.Doc == nil {
				t.Errorf("%s (NoFormat=%v): the preamble is not attached to import \"C\" (a blank line separates them; cgo will ignore it):\n%s", c.name, noFormat, src)
				continue
			}
			if fset.Position(decl.Doc.End()).Line+1 != fset.Position(decl.Pos()).Line {
				t.Errorf("%s (NoFormat=%v): preamble not on the line directly above import \"C\":\n%s", c.name, noFormat, src)
			}
			doc := ""
			for _, cm := range decl.Doc.List {
				doc += cm.Text + "\n"
			}
			at := 0
			for _, w := range c.want {
				i := strings.Index(doc[at:], w)
				if i < 0 {
					t.Errorf("%s (NoFormat=%v): %q is missing from the comment group directly above import \"C\" (or out of order):\n%s", c.name, noFormat, w, src)
					break
				}
				at += i + len(w)
			}
		}
	}
}
