package jen_test

// C19 demo 2 - copy to jen/demo2_test.go and run
//   go test -vet=off -count=1 -run TestC19Demo2 ./jen
//
// A multi-line (non-raw) preamble is wrapped in /* ... */ without looking at its content. C preambles
// routinely contain C block comments; the first "*/" inside the preamble closes the Go comment, the
// rest of the C text lands between the comment and `import "C"` as Go source. With formatting on,
// Render fails; with NoFormat the broken file is emitted silently.

import (
	"bytes"
	"go/ast"
	"go/parser"
	"go/token"
	"strings"
	"testing"

	. "github.com/dave/jennifer/jen"
)

func TestC19Demo2(t *testing.T) {
	pre := "#include <stdio.h>\n/* helper */\nstatic int one(void) { return 1; }"
	for _, noFormat := range []bool{false, true} {
		f := NewFile("main")
		f.NoFormat = noFormat
		f.CgoPreamble(pre)
		f.Func().Id("main").Params().Block(Qual("C", "one").Call())
		buf := &bytes.Buffer{}
		if err := f.Render(buf); err != nil {
			t.Errorf("NoFormat=%v: Render fails for a multi-line preamble holding a C block comment: %.80v ...", noFormat, err)
			continue
		}
		src := buf.String()
		fset := token.NewFileSet()
		af, err := parser.ParseFile(fset, "x.go", src, parser.ParseComments)
		if err != nil {
			t.Errorf("NoFormat=%v: emitted file is not Go (preamble text escaped its comment): %v\n%s", noFormat, err, src)
			continue
		}
		ok := false
		for _, d := range af.Decls {
			if gd, isGen := d.(*ast.GenDecl); isGen && gd.Tok == token.IMPORT && len(gd.Specs) == 1 &&
				gd.Specs[0].(*ast.ImportSpec).Path.Value == `"C"` && gd.Doc != nil {
				doc := ""
				for _, c := range gd.Doc.List {
					doc += c.Text + "\n"
				}
				ok = strings.Contains(doc, "#include <stdio.h>") && strings.Contains(doc, "static int one(void)") &&
					fset.Position(gd.Doc.End()).Line+1 == fset.Position(gd.Pos()).Line
			}
		}
		if !ok {
			t.Errorf("NoFormat=%v: whole preamble is not the comment directly above import \"C\":\n%s", noFormat, src)
		}
	}
}
