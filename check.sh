#!/bin/bash
# usage: check.sh <Cxx|all> <quick|thorough>
# Rebuilds jenlint if needed and decides the property on /repo's current working tree.
set -u
cd "$(dirname "$0")"
export GOFLAGS=-mod=mod GOPROXY=off GOSUMDB=off GOTOOLCHAIN=local
unset GOWORK
if [ ! -x bin/jenlint ] || [ -n "$(find jenlint -newer bin/jenlint -name '*.go' -print -quit 2>/dev/null)" ]; then
  (cd jenlint && go build -o ../bin/jenlint .) || { echo "BROKEN: jenlint does not build"; exit 2; }
fi
exec bin/jenlint check "$1" --tier "${2:-quick}"
