#!/usr/bin/env python3
"""mkpatch.py <out.patch> <file> <old> <new> [<file> <old> <new> ...]
Builds a unified diff (against /repo's working tree) replacing the first occurrence of old by new."""
import sys, subprocess, tempfile, os, shutil
out = sys.argv[1]
args = sys.argv[2:]
tmp = tempfile.mkdtemp(prefix='mkpatch')
try:
    diffs = []
    files = {}
    for i in range(0, len(args), 3):
        f, old, new = args[i], args[i+1], args[i+2]
        s = files.get(f) or open('/repo/' + f).read()
        if old not in s:
            sys.exit('old text not found in %s: %r' % (f, old[:60]))
        files[f] = s.replace(old, new, 1)
    for f, s in files.items():
        a = os.path.join(tmp, 'a', f); b = os.path.join(tmp, 'b', f)
        os.makedirs(os.path.dirname(a), exist_ok=True); os.makedirs(os.path.dirname(b), exist_ok=True)
        shutil.copy('/repo/' + f, a)
        open(b, 'w').write(s)
        p = subprocess.run(['diff', '-u', 'a/' + f, 'b/' + f], cwd=tmp, capture_output=True, text=True)
        diffs.append(p.stdout)
    open(out, 'w').write(''.join(diffs))
    print('wrote', out)
finally:
    shutil.rmtree(tmp)
