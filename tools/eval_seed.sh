#!/bin/bash
# usage: eval_seed.sh <dir with patchN.diff demoN*> <N> [property]
# Confirms a seeded change: (1) applies to a scratch copy of /repo, (2) builds, (3) the existing suite
# passes, (4) the demonstration fails with the change and passes without, (5) what jenlint reports.
set -u
export GOFLAGS=-mod=mod GOPROXY=off GOSUMDB=off GOTOOLCHAIN=local
src=$(readlink -f "$1"); n=$2; prop=${3:-all}
patch=$src/patch$n.diff
[ -f "$patch" ] || patch=$src/patch.diff
d=$(mktemp -d /tmp/jenseed.XXXXXX); trap 'rm -rf "$d"' EXIT
rsync -a --exclude .git /repo/ "$d/clean/"; rsync -a --exclude .git /repo/ "$d/mut/"
(cd "$d/mut" && patch -p1 --no-backup-if-mismatch -s < "$patch") || { echo "RESULT patch-failed"; exit 3; }
(cd "$d/mut" && go build ./... ) || { echo "RESULT build-failed"; exit 3; }
suite=$(cd "$d/mut" && go test -vet=off -count=1 ./... 2>&1 | grep -c "^ok")
echo "suite: $suite packages ok (want 2)"
(cd "$d/mut" && go test -vet=off -count=1 ./... 2>&1 | grep -i "fail" | head -3)
demo=$(ls $src/demo$n* $src/demo_test.go $src/demo 2>/dev/null | head -1)
rundemo() { # $1 tree
  if [ -d "$src/demo$n" ]; then
    mkdir -p "$1/zz_demo" && cp -r $src/demo$n/* "$1/zz_demo/" && (cd "$1" && go run ./zz_demo 2>&1 | tail -5; echo "exit=$?")
  else
    for f in $src/demo${n}*_test.go $src/demo${n}_*.go; do [ -f "$f" ] && cp "$f" "$1/jen/zz_$(basename $f)"; done
    (cd "$1" && go test -vet=off -count=1 ./jen/ 2>&1 | tail -4)
  fi
}
echo "--- demo on changed tree (must fail):"; rundemo "$d/mut" | cut -c1-200
echo "--- demo on clean tree (must pass):"; rundemo "$d/clean" | cut -c1-200
rm -rf "$d/mut/zz_demo" "$d"/mut/jen/zz_*
echo "--- jenlint on changed tree ($prop):"
if [ "$prop" = all ]; then
 JENLINT_REPO="$d/mut" /verif/bin/jenlint keys 2>&1 | grep -v "^discharged\|^info" | grep -v "P-MAPRANGE | (jen.Dict).[A-Za-z]* | range over recv: call invoke.render on the range key\|P-MAPRANGE | (jen.Dict).[A-Za-z]* | range over recv: slice collected across iterations ([A-Za-z]*) is sorted by a key two entries may share" | sed "s#$d/mut/##g" | cut -c1-${CUT:-420}
else
 JENLINT_REPO="$d/mut" JENLINT_VERIF=$d/ev /verif/bin/jenlint check $prop 2>&1 | sed "s#$d/mut/##g" | cut -c1-${CUT:-420}
fi
