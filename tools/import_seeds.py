#!/usr/bin/env python3
"""import_seeds.py <outdir-from-agents> : confirm each sub-agent change in scratch copies and store it
as /verif/seeded/<id>/ (patch.diff, demo, notes.md, meta.json)."""
import sys, os, subprocess, shutil, tempfile, json, glob, re
env = dict(os.environ, GOFLAGS='-mod=mod', GOPROXY='off', GOSUMDB='off', GOTOOLCHAIN='local')
src = sys.argv[1]
only = sys.argv[2:]  # optional ids like C03-s2
offset = int(os.environ.get('SEED_OFFSET', '0'))  # round 2 of sub-agent seeds: SEED_OFFSET=2 gives -s3 / -s4
def run(cmd, cwd=None, extra=None, inp=None):
    e = dict(env); e.update(extra or {})
    p = subprocess.run(cmd, cwd=cwd, env=e, capture_output=True, text=True, errors='replace', input=inp)
    return p.returncode, p.stdout + p.stderr
for pdir in sorted(glob.glob(os.path.join(src, 'C??'))):
    prop = os.path.basename(pdir)
    for n in (1, 2):
        patch = os.path.join(pdir, 'patch%d.diff' % n)
        if not os.path.exists(patch):
            continue
        sid = '%s-s%d' % (prop, n + offset)
        if only and sid not in only:
            continue
        tmp = tempfile.mkdtemp(prefix='jenseed.')
        try:
            for t in ('clean', 'mut'):
                subprocess.run(['rsync', '-a', '--exclude', '.git', '/repo/', os.path.join(tmp, t) + '/'], check=True)
            mut, clean = os.path.join(tmp, 'mut'), os.path.join(tmp, 'clean')
            rc, out = run(['patch', '-p1', '--no-backup-if-mismatch', '-s'], cwd=mut, inp=open(patch).read())
            if rc != 0:
                print(sid, 'PATCH FAILED'); continue
            rc, out = run(['go', 'build', './...'], cwd=mut)
            builds = rc == 0
            rc, out = run(['go', 'test', '-vet=off', '-count=1', './...'], cwd=mut)
            suite_ok = rc == 0
            demos = sorted(glob.glob(os.path.join(pdir, 'demo%d*' % n)))
            race = 'race' in open(os.path.join(pdir, 'notes%d.md' % n)).read().lower() and prop == 'C09'
            def demo(tree):
                for d in demos:
                    if os.path.isdir(d):
                        shutil.copytree(d, os.path.join(tree, 'zz_demo'))
                        return run(['go', 'run', './zz_demo'], cwd=tree)
                    shutil.copy(d, os.path.join(tree, 'jen', 'zz_' + os.path.basename(d)))
                cmd = ['go', 'test', '-vet=off', '-count=1'] + (['-race', '-run', 'TestDemo'] if race else []) + ['./jen/']
                return run(cmd, cwd=tree)
            rc_m, out_m = demo(mut)
            rc_c, out_c = demo(clean)
            for f in glob.glob(os.path.join(mut, 'jen', 'zz_*')): os.remove(f)
            shutil.rmtree(os.path.join(mut, 'zz_demo'), ignore_errors=True)
            # the property's own check on the changed tree
            rc_k, out_k = run(['/verif/bin/jenlint', 'check', prop, '--tier', 'quick'], extra={'JENLINT_REPO': mut, 'JENLINT_VERIF': os.path.join(tmp, 'ev'), 'JENLINT_KNOWN': '/verif/known_findings.json'})
            viol = [l for l in out_k.replace(mut + '/', '').splitlines() if ': violated: ' in l or ': undecided: ' in l]
            rules = sorted(set(re.findall(r'(?:violated|undecided): ([A-Z]-[A-Z-]+) ', '\n'.join(viol))))
            confirmed = builds and suite_ok and rc_m != 0 and rc_c == 0
            dst = os.path.join('/verif/seeded', sid)
            os.makedirs(dst, exist_ok=True)
            shutil.copy(patch, os.path.join(dst, 'patch.diff'))
            for d in demos:
                if os.path.isdir(d):
                    shutil.copytree(d, os.path.join(dst, 'demo'), dirs_exist_ok=True)
                else:
                    shutil.copy(d, os.path.join(dst, re.sub(r'^demo\d', 'demo', os.path.basename(d))))
            notes = os.path.join(pdir, 'notes%d.md' % n)
            if os.path.exists(notes): shutil.copy(notes, os.path.join(dst, 'notes.md'))
            needs = ''
            if os.path.exists(notes):
                txt = open(notes).read()
                needs = ' '.join(txt.split())[:600]
            meta = {
                'id': sid, 'property': prop, 'origin': 'independent sub-agent given only the property record and a scratch worktree',
                'breaks': prop, 'needs_to_manifest': needs,
                'confirmed': {'builds': builds, 'existing_suite_passes_with_change': suite_ok, 'demo_fails_with_change': rc_m != 0, 'demo_passes_without_change': rc_c == 0,
                              'how': 'scratch copies of /repo under $TMPDIR (removed afterwards): patch -p1 < patch.diff; go build ./...; go test -vet=off -count=1 ./...; demo copied into jen/ and run with go test%s on the changed and on the unchanged copy' % (' -race' if race else '')},
                'detected_by_check': rc_k == 1, 'check_exit': rc_k, 'reporting_rules': rules,
                'first_reports': viol[:4],
            }
            json.dump(meta, open(os.path.join(dst, 'meta.json'), 'w'), indent=1)
            print(sid, 'confirmed' if confirmed else 'NOT-CONFIRMED(build=%s suite=%s demo_mut=%s demo_clean=%s)' % (builds, suite_ok, rc_m, rc_c), 'check_exit=%d' % rc_k, ','.join(rules))
        finally:
            shutil.rmtree(tmp, ignore_errors=True)
