#!/bin/bash
# usage: regress.sh [breaking|benign|all]
# Runs the whole corpus against bin/jenlint in parallel scratch copies and prints one line per patch
# that does NOT behave as expected (breaking variants must make their property's check exit 1,
# benign variants must leave `check all` at exit 0), then a summary.
set -u
# every scratch copy compiles package jen under a path of its own, so the Go build cache grows by a few
# MB per variant (135 GB over the whole project once filled the disk): trim it when it gets large
gc=$(go env GOCACHE 2>/dev/null); if [ -n "$gc" ] && [ -d "$gc" ] && [ "$(du -sm "$gc" 2>/dev/null | cut -f1)" -gt 30000 ]; then go clean -cache; fi
export GOFLAGS=-mod=mod GOPROXY=off GOSUMDB=off GOTOOLCHAIN=local
what=${1:-all}
one() {
  kind=$1; patch=$2; prop=$3
  d=$(mktemp -d /tmp/jenreg.XXXXXX)
  rsync -a --exclude .git /repo/ "$d/r/"
  if ! (cd "$d/r" && patch -p1 -F0 --no-backup-if-mismatch -s < "$patch" >/dev/null 2>&1); then echo "SKIP(patch) $kind $patch"; rm -rf "$d"; return; fi
  out=$(JENLINT_REPO="$d/r" JENLINT_VERIF="$d/v" JENLINT_KNOWN=/verif/known_findings.json /verif/bin/jenlint check $prop --tier quick 2>&1); rc=$?
  rules=$(echo "$out" | grep -o ': \(violated\|undecided\): [A-Z]-[A-Z-]*' | awk '{print $3}' | sort -u | tr '\n' ',')
  if [ "$kind" = benign ]; then
    [ $rc -eq 0 ] && echo "OK benign $patch" || echo "FALSE-ALARM rc=$rc $patch $rules"
  else
    [ $rc -eq 1 ] && echo "OK breaking $patch $rules" || echo "MISSED rc=$rc $patch"
  fi
  rm -rf "$d"
}
export -f one
{
if [ "$what" != benign ]; then
  for p in /verif/selftest/mutants/*.patch; do b=$(basename $p); echo "breaking $p ${b%%-*}"; done
  for m in /verif/seeded/*/meta.json; do d=$(dirname $m); b=$(basename $d); echo "breaking $d/patch.diff ${b%%-*}"; done
fi
if [ "$what" != breaking ]; then
  for p in /verif/selftest/benign/*.patch /verif/selftest/benign-agents/*.patch; do echo "benign $p all"; done
fi
} | xargs -P 12 -L 1 bash -c 'one $0 $1 $2' | sort > /tmp/regress.out
grep -v "^OK" /tmp/regress.out | sed 's#/verif/selftest/##; s#/verif/##'
echo "summary: $(grep -c '^OK breaking' /tmp/regress.out) breaking detected, $(grep -c '^MISSED' /tmp/regress.out) missed, $(grep -c '^OK benign' /tmp/regress.out) benign silent, $(grep -c '^FALSE-ALARM' /tmp/regress.out) false alarms, $(grep -c '^SKIP' /tmp/regress.out) skipped"
