#!/bin/bash
# usage: eval_benign.sh <patch.diff> : suite must pass; jenlint (all properties) must add nothing
set -u
export GOFLAGS=-mod=mod GOPROXY=off GOSUMDB=off GOTOOLCHAIN=local
patch=$(readlink -f "$1")
d=$(mktemp -d /tmp/jenben.XXXXXX); trap 'rm -rf "$d"' EXIT
rsync -a --exclude .git /repo/ "$d/"
(cd "$d" && patch -p1 --no-backup-if-mismatch -s < "$patch") || { echo "PATCH-FAILED"; exit 3; }
(cd "$d" && go build ./... && go test -vet=off -count=1 ./... 2>&1 | grep -v "no test files" | tr '\n' ' '); echo
JENLINT_REPO="$d" /verif/bin/jenlint keys 2>&1 | grep -v "^discharged\|^info" | grep -v "P-MAPRANGE | (jen.Dict).[A-Za-z]* | range over recv: call invoke.render on the range key\|P-MAPRANGE | (jen.Dict).[A-Za-z]* | range over recv: slice collected across iterations ([A-Za-z]*) is sorted by a key two entries may share" | sed "s#$d/##g" | cut -c1-${CUT:-330} | awk '{k=$1" "$2; c[k]++; if (c[k]<=3) print} END {for (k in c) if (c[k]>3) print "   ... " k " x" c[k]}'
