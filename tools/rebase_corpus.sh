#!/bin/bash
# usage: rebase_corpus.sh <old-commit> <new-commit> [patch...]
# After a `fix:` commit in /repo: re-bases every corpus patch (default: seeded/*/patch.diff and
# selftest/*/*.patch) from <old-commit> onto <new-commit> with git cherry-pick in a scratch clone
# (removed afterwards). Patches that conflict are listed as CONFLICT and left untouched: port them by
# hand (benign ones keep the new behaviour, seeds keep their change), then run
# tools/reconfirm_seeds.sh, update selftest/AUTHORED_TREE and run tools/regress.sh all.
set -u
OLD=$1; NEW=$2; shift 2
d=$(mktemp -d /tmp/jenrebase.XXXXXX); trap 'rm -rf "$d"' EXIT
git clone -q /repo "$d/clone"; cd "$d/clone"; git config user.email b@b; git config user.name builder
[ $# -gt 0 ] || set -- /verif/seeded/*/patch.diff /verif/selftest/*/*.patch
for p in "$@"; do
  git checkout -q -f "$OLD"; git clean -fdq
  if ! git apply --index "$p" 2>/dev/null; then echo "NOAPPLY $p"; continue; fi
  git commit -qm x --allow-empty
  if git cherry-pick "$OLD..$NEW" >/dev/null 2>&1; then
    git diff "$NEW" HEAD > "$p.new"
    if [ -s "$p.new" ]; then mv "$p.new" "$p"; echo "OK $p"; else echo "EMPTY $p"; rm -f "$p.new"; fi
  else
    git cherry-pick --abort; echo "CONFLICT $p"
  fi
done
