#!/bin/bash
# usage: reconfirm_seeds.sh [seed-dir...]   (default: all of seeded/)
# Re-confirms every seeded change against /repo's current HEAD: the patch applies, builds, the existing
# suite passes with it, the demonstration fails with it and passes without it. Prints one line per seed.
export GOFLAGS=-mod=mod GOPROXY=off GOSUMDB=off GOTOOLCHAIN=local
one() {
  s=$1; d=$(mktemp -d /tmp/jenre.XXXXXX)
  rsync -a --exclude .git /repo/ $d/clean/; rsync -a --exclude .git /repo/ $d/mut/
  if ! (cd $d/mut && patch -p1 -s --no-backup-if-mismatch < $s/patch.diff >/dev/null 2>&1); then echo "PATCH-FAILED $s"; rm -rf $d; return; fi
  if ! (cd $d/mut && go build ./... >/dev/null 2>&1); then echo "BUILD-FAILED $s"; rm -rf $d; return; fi
  suite=$(cd $d/mut && go test -vet=off -count=1 ./... 2>&1 | grep -c "^ok")
  res=""
  for t in mut clean; do
    if [ -d $s/demo ]; then mkdir -p $d/$t/zz_demo; cp -r $s/demo/* $d/$t/zz_demo/; r=$(cd $d/$t && timeout 300 go run ./zz_demo >/dev/null 2>&1; echo $?)
    else for f in $s/demo*_test.go $s/demo*.go; do [ -f "$f" ] && cp $f $d/$t/jen/zz_$(basename $f); done; r=$(cd $d/$t && timeout 300 go test -vet=off -count=1 ./jen/ >/dev/null 2>&1; echo $?); fi
    res="$res $t=$r"
  done
  st=OK; [ "$suite" = 2 ] || st=SUITE-FAILS; case "$res" in " mut=0"*) st=DEMO-PASSES-WITH-CHANGE;; esac; case "$res" in *"clean=0") ;; *) st=DEMO-FAILS-ON-CLEAN;; esac
  echo "$st suite=$suite$res $s"; rm -rf $d
}
export -f one
if [ $# -gt 0 ]; then printf '%s\n' "$@"; else ls -d /verif/seeded/*/; fi | sed 's#/$##' | xargs -P 8 -I{} bash -c 'one {}'
