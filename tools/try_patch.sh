#!/bin/bash
# usage: try_patch.sh <patch.diff> [--test] [rule ...]
# Applies a patch to a scratch copy of /repo (outside /repo and /verif), optionally runs the
# repository's test suite on it, runs jenlint on the copy and prints every non-discharged
# obligation. The copy is removed afterwards.
set -u
export GOFLAGS=-mod=mod GOPROXY=off GOSUMDB=off GOTOOLCHAIN=local
patch=$(readlink -f "$1"); shift
runtest=0
if [ "${1:-}" = "--test" ]; then runtest=1; shift; fi
d=$(mktemp -d /tmp/jenmut.XXXXXX)
trap 'rm -rf "$d"' EXIT
rsync -a --exclude .git /repo/ "$d/"
if ! (cd "$d" && patch -p1 --no-backup-if-mismatch -s < "$patch"); then echo "PATCH-FAILED"; exit 3; fi
if [ $runtest = 1 ]; then
  (cd "$d" && go build ./... && go test -vet=off -count=1 ./... 2>&1 | tail -3) || echo "TESTS-FAILED"
fi
JENLINT_REPO="$d" /verif/bin/jenlint keys "$@" 2>&1 | grep -v "^discharged\|^info" | sed "s#$d/##g" | cut -c1-${CUT:-400}
