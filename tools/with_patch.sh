#!/bin/bash
# usage: with_patch.sh <patch.diff> <command...> : runs the command with JENLINT_REPO pointing at a
# scratch copy of /repo (outside /repo and /verif) with the patch applied; the copy is removed afterwards.
set -u
export GOFLAGS=-mod=mod GOPROXY=off GOSUMDB=off GOTOOLCHAIN=local
patch=$(readlink -f "$1"); shift
d=$(mktemp -d /tmp/jenwp.XXXXXX)
trap 'rm -rf "$d"' EXIT
rsync -a --exclude .git /repo/ "$d/"
(cd "$d" && patch -p1 --no-backup-if-mismatch -s < "$patch") || { echo "PATCH-FAILED"; exit 3; }
JENLINT_REPO="$d" "$@"
