#!/usr/bin/env python3
"""Refreshes detected_by_check / check_exit / reporting_rules in seeded/*/meta.json from a run of the
current checks against each seeded change (scratch copy of /repo + patch, removed afterwards). The
verdict recorded when the seed was imported is kept as first_contact_detected."""
import json, os, subprocess, sys, tempfile, shutil, re
from concurrent.futures import ThreadPoolExecutor
env = dict(os.environ, GOFLAGS='-mod=mod', GOPROXY='off', GOSUMDB='off', GOTOOLCHAIN='local')
def one(d):
    meta = json.load(open(d + '/meta.json'))
    prop = meta['property']
    tmp = tempfile.mkdtemp(prefix='jenmeta.')
    try:
        subprocess.run(['rsync', '-a', '--exclude', '.git', '/repo/', tmp + '/r/'], check=True)
        if subprocess.run(['patch', '-p1', '-s', '--no-backup-if-mismatch', '-i', d + '/patch.diff'], cwd=tmp + '/r').returncode != 0:
            return d, 'PATCH-FAILED'
        e = dict(env, JENLINT_REPO=tmp + '/r', JENLINT_VERIF=tmp + '/ev', JENLINT_KNOWN='/verif/known_findings.json')
        r = subprocess.run(['/verif/bin/jenlint', 'check', prop], env=e, capture_output=True, text=True)
        rules = sorted(set(re.findall(r'(?:violated|undecided): ([A-Z]-[A-Z0-9-]+) \|', r.stdout)))
        if 'first_contact_detected' not in meta:
            meta['first_contact_detected'] = meta.get('detected_by_check')
        meta['detected_by_check'] = r.returncode == 1 and 'VIOLATION' in r.stdout
        meta['check_exit'] = r.returncode
        meta['reporting_rules'] = rules
        json.dump(meta, open(d + '/meta.json', 'w'), indent=1, ensure_ascii=False)
        return d, ('detected ' + ','.join(rules)) if meta['detected_by_check'] else 'MISSED rc=%d' % r.returncode
    finally:
        shutil.rmtree(tmp, ignore_errors=True)
dirs = sys.argv[1:] or sorted('/verif/seeded/' + x for x in os.listdir('/verif/seeded'))
with ThreadPoolExecutor(6) as ex:
    for d, res in ex.map(one, dirs):
        if not res.startswith('detected'):
            print(os.path.basename(d), res)
print('done', len(dirs))
