package main

import (
	"fmt"
	"go/constant"
	"go/token"
	"go/types"
	"sort"
	"strconv"
	"strings"

	"golang.org/x/tools/go/ssa"
)

// FnA is the per-function analysis: value descriptors (P2), dominating-edge facts (P3),
// cut reachability (P4), sinks.
type FnA struct {
	c         *Ctx
	fn        *ssa.Function
	desc      map[ssa.Value]string
	stored    map[string]int // object descriptors that are stored to in this function (non-local)
	allocSt   map[*ssa.Alloc][]*ssa.Store
	allocFld  map[*ssa.Alloc]bool // alloc has stores through a FieldAddr/IndexAddr
	facts     map[*ssa.BasicBlock]Facts
	busy      map[ssa.Value]bool
	depthLits int
}

func (c *Ctx) FA(fn *ssa.Function) *FnA {
	if a, ok := c.fa[fn]; ok {
		return a
	}
	a := &FnA{c: c, fn: fn, desc: map[ssa.Value]string{}, stored: map[string]int{}, allocSt: map[*ssa.Alloc][]*ssa.Store{},
		allocFld: map[*ssa.Alloc]bool{}, facts: map[*ssa.BasicBlock]Facts{}, busy: map[ssa.Value]bool{}}
	c.fa[fn] = a
	// pass 1: stores to allocs
	for _, b := range fn.Blocks {
		for _, in := range b.Instrs {
			st, ok := in.(*ssa.Store)
			if !ok {
				continue
			}
			switch ad := st.Addr.(type) {
			case *ssa.Alloc:
				a.allocSt[ad] = append(a.allocSt[ad], st)
			default:
				if r := rootAlloc(st.Addr); r != nil {
					a.allocFld[r] = true
				}
			}
		}
	}
	// pass 2: non-local stored objects
	for _, b := range fn.Blocks {
		for _, in := range b.Instrs {
			switch st := in.(type) {
			case *ssa.Store:
				if _, ok := st.Addr.(*ssa.Alloc); ok {
					continue
				}
				a.stored[a.obj(st.Addr)]++
			case *ssa.MapUpdate:
				a.stored[a.Desc(st.Map)+"[·]"]++
			}
		}
	}
	return a
}

func rootAlloc(v ssa.Value) *ssa.Alloc {
	for {
		switch x := v.(type) {
		case *ssa.Alloc:
			return x
		case *ssa.FieldAddr:
			v = x.X
		case *ssa.IndexAddr:
			v = x.X
		default:
			return nil
		}
	}
}

func fieldName(t types.Type, i int) string {
	if p, ok := t.Underlying().(*types.Pointer); ok {
		t = p.Elem()
	}
	if s, ok := t.Underlying().(*types.Struct); ok && i < s.NumFields() {
		return s.Field(i).Name()
	}
	return fmt.Sprintf("f%d", i)
}

func constDesc(c *ssa.Const) string {
	if c.Value == nil {
		return "nil"
	}
	switch c.Value.Kind() {
	case constant.String:
		return strconv.Quote(constant.StringVal(c.Value))
	case constant.Bool:
		if constant.BoolVal(c.Value) {
			return "true"
		}
		return "false"
	}
	return c.Value.ExactString()
}

func constString(v ssa.Value) (string, bool) {
	v = stripConv(v)
	if c, ok := v.(*ssa.Const); ok && c.Value != nil && c.Value.Kind() == constant.String {
		return constant.StringVal(c.Value), true
	}
	return "", false
}

func constBool(v ssa.Value) (bool, bool) {
	if c, ok := v.(*ssa.Const); ok && c.Value != nil && c.Value.Kind() == constant.Bool {
		return constant.BoolVal(c.Value), true
	}
	return false, false
}

func constInt(v ssa.Value) (int64, bool) {
	if c, ok := v.(*ssa.Const); ok && c.Value != nil && c.Value.Kind() == constant.Int {
		return c.Int64(), true
	}
	return 0, false
}

func isNilConst(v ssa.Value) bool {
	c, ok := v.(*ssa.Const)
	return ok && c.Value == nil
}

// stripConv sees through value-preserving conversions.
func stripConv(v ssa.Value) ssa.Value {
	for {
		switch x := v.(type) {
		case *ssa.Convert:
			v = x.X
		case *ssa.ChangeType:
			v = x.X
		case *ssa.ChangeInterface:
			v = x.X
		case *ssa.MakeInterface:
			v = x.X
		default:
			return v
		}
	}
}

func (a *FnA) paramDesc(p *ssa.Parameter) string {
	for i, q := range a.fn.Params {
		if q == p {
			if a.fn.Signature.Recv() != nil {
				if i == 0 {
					return "recv"
				}
				return fmt.Sprintf("p%d", i-1)
			}
			return fmt.Sprintf("p%d", i)
		}
	}
	return "param:" + p.Name()
}

// singleStore returns the value stored by the only whole-object store to a local alloc that has no
// partial stores; nil otherwise.
func (a *FnA) singleStore(al *ssa.Alloc) ssa.Value {
	if a.allocFld[al] || len(a.allocSt[al]) != 1 {
		return nil
	}
	return a.allocSt[al][0].Val
}

// obj describes the object an address points to.
func (a *FnA) obj(addr ssa.Value) string {
	switch x := addr.(type) {
	case *ssa.Alloc:
		if v := a.singleStore(x); v != nil {
			return a.Desc(v)
		}
		return a.Desc(x)
	case *ssa.FieldAddr:
		return a.obj(x.X) + "." + fieldName(x.X.Type(), x.Field)
	case *ssa.IndexAddr:
		var base string
		if _, isPtr := x.X.Type().Underlying().(*types.Pointer); isPtr {
			base = a.obj(x.X)
		} else {
			base = a.Desc(x.X)
		}
		return base + "[" + a.Desc(x.Index) + "]"
	case *ssa.Global:
		return "global:" + x.Name()
	case *ssa.Parameter:
		return a.paramDesc(x)
	}
	d := a.Desc(addr)
	if strings.HasPrefix(d, "&") {
		return d[1:]
	}
	return "*" + d
}

func calleeName(cc *ssa.CallCommon) string {
	if cc.IsInvoke() {
		return "invoke." + cc.Method.Name()
	}
	if f := cc.StaticCallee(); f != nil {
		return fname(f)
	}
	if b, ok := cc.Value.(*ssa.Builtin); ok {
		return "builtin." + b.Name()
	}
	return "dynamic"
}

// Desc gives a normal-form descriptor of an SSA value (see DESIGN 1.2 P2).
func (a *FnA) Desc(v ssa.Value) string {
	if v == nil {
		return "nil"
	}
	if d, ok := a.desc[v]; ok {
		return d
	}
	if a.busy[v] {
		return "cycle:" + v.Name()
	}
	a.busy[v] = true
	d := a.desc0(v)
	delete(a.busy, v)
	a.desc[v] = d
	return d
}

func (a *FnA) desc0(v ssa.Value) string {
	switch x := v.(type) {
	case *ssa.Const:
		return constDesc(x)
	case *ssa.Parameter:
		return a.paramDesc(x)
	case *ssa.FreeVar:
		return "free:" + x.Name()
	case *ssa.Global:
		return "&global:" + x.Name()
	case *ssa.Function:
		return "func:" + fname(x)
	case *ssa.Builtin:
		return "builtin." + x.Name()
	case *ssa.Alloc:
		n := 0
		for _, b := range a.fn.Blocks {
			for _, in := range b.Instrs {
				if al, ok := in.(*ssa.Alloc); ok {
					if al == x {
						return fmt.Sprintf("alloc(%s)#%d", x.Comment, n)
					}
					if al.Comment == x.Comment {
						n++
					}
				}
			}
		}
		n = 0
		for _, l := range a.fn.Locals {
			if l == x {
				return fmt.Sprintf("local(%s)#%d", x.Comment, n)
			}
			if l.Comment == x.Comment {
				n++
			}
		}
		return "alloc:" + x.Name()
	case *ssa.FieldAddr, *ssa.IndexAddr:
		return "&" + a.obj(x)
	case *ssa.Field:
		return a.Desc(x.X) + "." + fieldName(x.X.Type(), x.Field)
	case *ssa.Index:
		return a.Desc(x.X) + "[" + a.Desc(x.Index) + "]"
	case *ssa.Lookup:
		return a.Desc(x.X) + "[" + a.Desc(x.Index) + "]"
	case *ssa.UnOp:
		switch x.Op {
		case token.MUL:
			o := a.obj(x.X)
			if a.stored[o] > 0 {
				// the location is written in this function: loads are not interchangeable
				return o + "@" + x.Name()
			}
			return o
		case token.NOT:
			return "!" + a.Desc(x.X)
		default:
			return x.Op.String() + a.Desc(x.X)
		}
	case *ssa.BinOp:
		l, r := a.Desc(x.X), a.Desc(x.Y)
		switch x.Op {
		case token.EQL, token.NEQ, token.AND, token.OR, token.XOR, token.MUL:
			if r < l {
				l, r = r, l
			}
		case token.ADD:
			if b, ok := x.X.Type().Underlying().(*types.Basic); ok && b.Info()&types.IsString == 0 && r < l {
				l, r = r, l
			}
		}
		return "(" + l + " " + x.Op.String() + " " + r + ")"
	case *ssa.Call:
		var args []string
		if x.Call.IsInvoke() {
			args = append(args, a.Desc(x.Call.Value))
		}
		for _, ar := range x.Call.Args {
			args = append(args, a.Desc(ar))
		}
		d := calleeName(&x.Call) + "(" + strings.Join(args, ", ") + ")"
		if !pureCall(&x.Call) {
			d += "@" + x.Name() // distinct impure calls are distinct values
		}
		return d
	case *ssa.Extract:
		return a.Desc(x.Tuple) + "#" + strconv.Itoa(x.Index)
	case *ssa.TypeAssert:
		return "assert<" + types.TypeString(x.AssertedType, shortQual) + ">(" + a.Desc(x.X) + ")"
	case *ssa.Convert:
		return a.Desc(x.X)
	case *ssa.ChangeType:
		return a.Desc(x.X)
	case *ssa.ChangeInterface:
		return a.Desc(x.X)
	case *ssa.MakeInterface:
		return a.Desc(x.X)
	case *ssa.Slice:
		return a.Desc(x.X) + "[" + a.Desc(x.Low) + ":" + a.Desc(x.High) + "]"
	case *ssa.Phi:
		return fmt.Sprintf("phi:%s@%d.%s", x.Comment, x.Block().Index, x.Name())
	case *ssa.Range:
		return "range(" + a.Desc(x.X) + ")"
	case *ssa.Next:
		return "next(" + a.Desc(x.Iter) + ")"
	case *ssa.MakeClosure:
		return "closure:" + fname(x.Fn.(*ssa.Function))
	case *ssa.MakeMap, *ssa.MakeSlice, *ssa.MakeChan:
		return "make:" + v.Name()
	}
	return "?" + v.Name()
}

func shortQual(p *types.Package) string { return p.Name() }

// pureCall: the call's value is a function of its arguments only (so equal descriptors mean equal
// values).
func pureCall(cc *ssa.CallCommon) bool {
	if cc.IsInvoke() {
		return false
	}
	if b, ok := cc.Value.(*ssa.Builtin); ok {
		switch b.Name() {
		case "len", "cap", "min", "max", "real", "imag", "complex":
			return true
		}
		return false
	}
	sc := cc.StaticCallee()
	if sc == nil {
		return false
	}
	n := sc.String()
	pk := ""
	pk = pkgPathOf(sc)
	if purePkgs[pk] || n == "fmt.Sprintf" || n == "fmt.Sprint" {
		return true
	}
	return false
}

// ---------------------------------------------------------------------------------------------
// Facts

// Facts maps an atom to its polarity.
type Facts map[string]bool

func (f Facts) String() string {
	var s []string
	for k, v := range f {
		if v {
			s = append(s, k)
		} else {
			s = append(s, "¬"+k)
		}
	}
	sort.Strings(s)
	return "{" + strings.Join(s, "; ") + "}"
}

func (f Facts) Has(atom string, pol bool) bool {
	v, ok := f[atom]
	return ok && v == pol
}

type Lit struct {
	Atom string
	Pol  bool
}

func isLenCall(v ssa.Value) (ssa.Value, bool) {
	if c, ok := v.(*ssa.Call); ok {
		if b, ok := c.Call.Value.(*ssa.Builtin); ok && b.Name() == "len" && len(c.Call.Args) == 1 {
			return c.Call.Args[0], true
		}
	}
	return nil, false
}

// lits decomposes a boolean SSA value assumed to have polarity pol into literals over atoms.
// Equivalent spellings are normalised to one atom (DESIGN 1.2).
func (a *FnA) lits(cond ssa.Value, pol bool) []Lit {
	switch x := cond.(type) {
	case *ssa.UnOp:
		if x.Op == token.NOT {
			return a.lits(x.X, !pol)
		}
	case *ssa.Const:
		return nil
	case *ssa.Extract:
		if ta, ok := x.Tuple.(*ssa.TypeAssert); ok && ta.CommaOk && x.Index == 1 {
			return []Lit{{"is<" + types.TypeString(ta.AssertedType, shortQual) + ">(" + a.Desc(ta.X) + ")", pol}}
		}
		if lk, ok := x.Tuple.(*ssa.Lookup); ok && lk.CommaOk && x.Index == 1 {
			return []Lit{{"has(" + a.Desc(lk.X) + "," + a.Desc(lk.Index) + ")", pol}}
		}
	case *ssa.BinOp:
		l, r := x.X, x.Y
		switch x.Op {
		case token.EQL, token.NEQ:
			p := pol
			if x.Op == token.NEQ {
				p = !p
			}
			// emptiness
			if s, ok := constString(r); ok && s == "" {
				return []Lit{{"empty(" + a.Desc(l) + ")", p}}
			}
			if s, ok := constString(l); ok && s == "" {
				return []Lit{{"empty(" + a.Desc(r) + ")", p}}
			}
			if n, ok := constInt(r); ok && n == 0 {
				if arg, ok := isLenCall(l); ok {
					return []Lit{{"empty(" + a.Desc(arg) + ")", p}}
				}
			}
			if n, ok := constInt(l); ok && n == 0 {
				if arg, ok := isLenCall(r); ok {
					return []Lit{{"empty(" + a.Desc(arg) + ")", p}}
				}
			}
			// boolean comparison with a constant
			if b, ok := constBool(r); ok {
				return a.lits(l, p == b)
			}
			if b, ok := constBool(l); ok {
				return a.lits(r, p == b)
			}
			ld, rd := a.Desc(l), a.Desc(r)
			if rd < ld {
				ld, rd = rd, ld
			}
			return []Lit{{"eq(" + ld + "," + rd + ")", p}}
		case token.LSS, token.GTR, token.LEQ, token.GEQ:
			// normalise to lt(a,b)
			p := pol
			switch x.Op {
			case token.GTR:
				l, r = r, l
			case token.LEQ: // l<=r == !(r<l)
				l, r = r, l
				p = !p
			case token.GEQ: // l>=r == !(l<r)
				p = !p
			}
			// lt(0,len(x)) == !empty ; lt(len(x),1) == empty
			if n, ok := constInt(l); ok && n == 0 {
				if arg, ok := isLenCall(r); ok {
					return []Lit{{"empty(" + a.Desc(arg) + ")", !p}}
				}
			}
			if n, ok := constInt(r); ok && n == 1 {
				if arg, ok := isLenCall(l); ok {
					return []Lit{{"empty(" + a.Desc(arg) + ")", p}}
				}
			}
			return []Lit{{"lt(" + a.Desc(l) + "," + a.Desc(r) + ")", p}}
		}
	}
	out := []Lit{{a.Desc(cond), pol}}
	// a && b known true / a || b known false: the operands are known too
	if phi, ok := cond.(*ssa.Phi); ok && a.depthLits < 3 {
		a.depthLits++
		defer func() { a.depthLits-- }()
		allConstAre := func(want bool) bool {
			n := 0
			for _, e := range phi.Edges {
				if b, ok := constBool(e); ok {
					if b != want {
						return false
					}
					n++
				}
			}
			return n > 0 && n < len(phi.Edges)
		}
		// && : constant operands are false ; value true means every test passed
		// || : constant operands are true  ; value false means every test failed
		if (pol && allConstAre(false)) || (!pol && allConstAre(true)) {
			for i, e := range phi.Edges {
				pred := phi.Block().Preds[i]
				if _, isConst := constBool(e); isConst {
					// sound only if every other way into the phi passed this test the other way
					si := succIndexOf(pred, phi.Block())
					okDom := len(pred.Succs) == 2
					if okDom {
						other := pred.Succs[1-si]
						for j, q := range phi.Block().Preds {
							if j == i {
								continue
							}
							if _, c2 := constBool(phi.Edges[j]); c2 && q != pred {
								// another short-circuit exit: it must itself lie behind this test
								if !(other == q || other.Dominates(q)) && !(q.Dominates(pred)) {
									okDom = false
								}
								continue
							}
							if !(other == q || other.Dominates(q)) {
								okDom = false
							}
						}
					}
					if okDom {
						for _, l := range a.edgeLits(pred, si) {
							out = append(out, Lit{l.Atom, !l.Pol})
						}
					}
					continue
				}
				out = append(out, a.lits(e, pol)...)
			}
		}
	}
	return out
}

func succIndexOf(p, s *ssa.BasicBlock) int {
	for i, x := range p.Succs {
		if x == s {
			return i
		}
	}
	return 0
}

// edgeLits returns the literals asserted by taking successor i of block d.
func (a *FnA) edgeLits(d *ssa.BasicBlock, i int) []Lit {
	if len(d.Instrs) == 0 {
		return nil
	}
	iff, ok := d.Instrs[len(d.Instrs)-1].(*ssa.If)
	if !ok || len(d.Succs) != 2 || d.Succs[0] == d.Succs[1] {
		return nil
	}
	return a.lits(iff.Cond, i == 0)
}

// edgeHolds: does taking edge d->Succs[i] imply its literals at block b?
func edgeHolds(d *ssa.BasicBlock, i int, b *ssa.BasicBlock) bool {
	s := d.Succs[i]
	if s != b && !s.Dominates(b) {
		return false
	}
	if s == d || s.Dominates(d) {
		return false
	}
	n := 0
	for _, p := range s.Preds {
		if p == d {
			n++
			continue
		}
		if !(s == p || s.Dominates(p)) {
			return false
		}
	}
	return n == 1
}

// FactsAt: conditions known on entry to block b from dominating branch edges.
func (a *FnA) FactsAt(b *ssa.BasicBlock) Facts {
	if f, ok := a.facts[b]; ok {
		return f
	}
	f := Facts{}
	for d := b.Idom(); d != nil; d = d.Idom() {
		if len(d.Succs) != 2 {
			continue
		}
		for i := 0; i < 2; i++ {
			if edgeHolds(d, i, b) {
				for _, l := range a.edgeLits(d, i) {
					if _, dup := f[l.Atom]; !dup {
						f[l.Atom] = l.Pol
					}
				}
			}
		}
	}
	a.facts[b] = f
	return f
}

func (a *FnA) FactsOf(in ssa.Instruction) Facts { return a.FactsAt(in.Block()) }

// ---------------------------------------------------------------------------------------------
// Cut reachability (P4)

type edge struct {
	from *ssa.BasicBlock
	idx  int
}

func instrIndex(in ssa.Instruction) int {
	for i, x := range in.Block().Instrs {
		if x == in {
			return i
		}
	}
	return -1
}

// reachableFrom returns blocks reachable from b (following all edges).
func reachableFrom(b *ssa.BasicBlock, stop *ssa.BasicBlock) map[*ssa.BasicBlock]bool {
	seen := map[*ssa.BasicBlock]bool{}
	var walk func(x *ssa.BasicBlock)
	walk = func(x *ssa.BasicBlock) {
		for _, s := range x.Succs {
			if s == stop || seen[s] {
				continue
			}
			seen[s] = true
			walk(s)
		}
	}
	walk(b)
	return seen
}

// inCycle: can the block reach itself?
func inCycle(b *ssa.BasicBlock) bool {
	return reachableFrom(b, nil)[b]
}

// ---------------------------------------------------------------------------------------------
// Sinks: writes to a writer

type Sink struct {
	Call   ssa.CallInstruction
	Writer ssa.Value
	Data   []ssa.Value // data operands (format first for Fprintf)
	Kind   string      // write | writestring | fprint | fprintf | fprintln | copy
}

// varargs recovers the elements of a variadic slice built at the call site.
func varargs(v ssa.Value) ([]ssa.Value, bool) {
	if c, ok := v.(*ssa.Const); ok && c.Value == nil {
		return nil, true
	}
	sl, ok := v.(*ssa.Slice)
	if !ok {
		return nil, false
	}
	al, ok := sl.X.(*ssa.Alloc)
	if !ok {
		return nil, false
	}
	arr, ok := al.Type().Underlying().(*types.Pointer).Elem().Underlying().(*types.Array)
	if !ok {
		return nil, false
	}
	out := make([]ssa.Value, arr.Len())
	for _, r := range *al.Referrers() {
		ia, ok := r.(*ssa.IndexAddr)
		if !ok {
			continue
		}
		idx, ok := constInt(ia.Index)
		if !ok || idx < 0 || idx >= arr.Len() {
			return nil, false
		}
		for _, rr := range *ia.Referrers() {
			if st, ok := rr.(*ssa.Store); ok && st.Addr == ia {
				out[idx] = st.Val
			}
		}
	}
	for _, o := range out {
		if o == nil {
			return nil, false
		}
	}
	return out, true
}

func isWriterType(t types.Type) bool {
	if n, ok := t.(*types.Named); ok && n.Obj().Pkg() != nil && n.Obj().Pkg().Path() == "io" && n.Obj().Name() == "Writer" {
		return true
	}
	// an in-memory buffer handed on by pointer plays the same role
	return isBufferPtr(t)
}

// sinkOf classifies a call as a write to some writer.
func sinkOf(ci ssa.CallInstruction) *Sink {
	cc := ci.Common()
	if cc.IsInvoke() {
		switch cc.Method.Name() {
		case "Write", "WriteString", "WriteByte", "WriteRune":
			if len(cc.Args) >= 1 {
				return &Sink{Call: ci, Writer: cc.Value, Data: cc.Args[:1], Kind: "write"}
			}
		}
		return nil
	}
	f := cc.StaticCallee()
	if f == nil {
		return nil
	}
	if wi, di, ok := writeWrapper(f); ok && wi < len(cc.Args) && di < len(cc.Args) {
		return &Sink{Call: ci, Writer: cc.Args[wi], Data: cc.Args[di : di+1], Kind: "write"}
	}
	name := f.String()
	switch name {
	case "(*bytes.Buffer).Write", "(*bytes.Buffer).WriteString", "(*bytes.Buffer).WriteByte", "(*bytes.Buffer).WriteRune",
		"(*strings.Builder).Write", "(*strings.Builder).WriteString", "(*strings.Builder).WriteByte", "(*strings.Builder).WriteRune",
		"(*bufio.Writer).Write", "(*bufio.Writer).WriteString", "(*os.File).Write", "(*os.File).WriteString":
		return &Sink{Call: ci, Writer: cc.Args[0], Data: cc.Args[1:2], Kind: "write"}
	case "io.WriteString":
		return &Sink{Call: ci, Writer: cc.Args[0], Data: cc.Args[1:2], Kind: "write"}
	case "io.Copy":
		return &Sink{Call: ci, Writer: cc.Args[0], Data: cc.Args[1:2], Kind: "copy"}
	case "fmt.Fprint", "fmt.Fprintln":
		va, ok := varargs(cc.Args[1])
		if !ok {
			va = []ssa.Value{cc.Args[1]}
		}
		k := "fprint"
		if name == "fmt.Fprintln" {
			k = "fprintln"
		}
		return &Sink{Call: ci, Writer: cc.Args[0], Data: va, Kind: k}
	case "fmt.Fprintf":
		va, ok := varargs(cc.Args[2])
		if !ok {
			va = []ssa.Value{cc.Args[2]}
		}
		return &Sink{Call: ci, Writer: cc.Args[0], Data: append([]ssa.Value{cc.Args[1]}, va...), Kind: "fprintf"}
	}
	return nil
}

// Sinks lists all writer sinks of the function in block order.
func (a *FnA) Sinks() []*Sink {
	var out []*Sink
	for _, b := range a.fn.Blocks {
		for _, in := range b.Instrs {
			if ci, ok := in.(ssa.CallInstruction); ok {
				if s := sinkOf(ci); s != nil {
					out = append(out, s)
				}
			}
		}
	}
	return out
}

// DataDesc: descriptor of what a sink writes.
func (a *FnA) DataDesc(s *Sink) string {
	var p []string
	for _, d := range s.Data {
		p = append(p, a.Desc(d))
	}
	pre := ""
	if s.Kind == "fprintf" {
		pre = "fmt:"
	}
	if s.Kind == "fprintln" {
		pre = "ln:"
	}
	return pre + strings.Join(p, ",")
}

// calls returns every call instruction (call, go, defer) of the function.
func (a *FnA) calls() []ssa.CallInstruction {
	var out []ssa.CallInstruction
	for _, b := range a.fn.Blocks {
		for _, in := range b.Instrs {
			if ci, ok := in.(ssa.CallInstruction); ok {
				out = append(out, ci)
			}
		}
	}
	return out
}

// callsTo returns call sites whose static callee is f.
func (a *FnA) callsTo(f *ssa.Function) []ssa.CallInstruction {
	var out []ssa.CallInstruction
	for _, ci := range a.calls() {
		if ci.Common().StaticCallee() == f && f != nil {
			out = append(out, ci)
		}
	}
	return out
}

// invokes returns interface method calls by method name.
func (a *FnA) invokes(method string) []ssa.CallInstruction {
	var out []ssa.CallInstruction
	for _, ci := range a.calls() {
		cc := ci.Common()
		if cc.IsInvoke() && cc.Method.Name() == method {
			out = append(out, ci)
		}
	}
	return out
}

func (a *FnA) returns() []*ssa.Return {
	var out []*ssa.Return
	for _, b := range a.fn.Blocks {
		if len(b.Instrs) == 0 {
			continue
		}
		if r, ok := b.Instrs[len(b.Instrs)-1].(*ssa.Return); ok {
			out = append(out, r)
		}
	}
	return out
}

func callValue(ci ssa.CallInstruction) ssa.Value {
	if v, ok := ci.(ssa.Value); ok {
		return v
	}
	return nil
}

// ---------------------------------------------------------------------------------------------
// Ways: path-sensitive facts. WaysTo(b) enumerates the distinct ways control can arrive at b
// (backwards over predecessor edges, ignoring back edges), each as the set of literals asserted
// along the way; contradictory ways are dropped. The enumeration is cut off at a dominator after
// maxDepth steps (then only the dominating facts are used, which is sound: fewer facts).

// writeWrapper recognises a module-local helper whose whole effect is one write of one of its
// parameters to its writer parameter, returning that write's error (e.g.
// `func put(w io.Writer, s string) error { _, err := w.Write([]byte(s)); return err }`).
// A call of it is then treated as the write itself.
var wrapperCache = map[*ssa.Function][3]int{}

func writeWrapper(f *ssa.Function) (writerIdx, dataIdx int, ok bool) {
	if f == nil || f.Blocks == nil || f.Pkg == nil || !strings.HasPrefix(f.Pkg.Pkg.Path(), modulePath) {
		return 0, 0, false
	}
	if r, seen := wrapperCache[f]; seen {
		return r[0], r[1], r[2] == 1
	}
	wrapperCache[f] = [3]int{0, 0, 0}
	if len(f.Blocks) > 4 || len(f.AnonFuncs) > 0 {
		return 0, 0, false
	}
	var sinks []*Sink
	for _, b := range f.Blocks {
		for _, in := range b.Instrs {
			switch x := in.(type) {
			case *ssa.Store, *ssa.MapUpdate, *ssa.Go, *ssa.Defer, *ssa.Panic, *ssa.Send:
				return 0, 0, false
			case ssa.CallInstruction:
				if _, isB := x.Common().Value.(*ssa.Builtin); isB {
					continue
				}
				s := sinkOf(x)
				if s == nil {
					return 0, 0, false
				}
				sinks = append(sinks, s)
			}
		}
	}
	if len(sinks) != 1 || sinks[0].Kind != "write" {
		return 0, 0, false
	}
	wi, di := -1, -1
	for i, p := range f.Params {
		if stripConv(sinks[0].Writer) == ssa.Value(p) {
			wi = i
		}
		if len(sinks[0].Data) == 1 && stripConv(sinks[0].Data[0]) == ssa.Value(p) {
			di = i
		}
	}
	if wi < 0 || di < 0 {
		return 0, 0, false
	}
	// every return carries the write's error (or nil only after testing it)
	res := f.Signature.Results()
	if res.Len() == 0 || res.Len() > 2 {
		return 0, 0, false
	}
	wrapperCache[f] = [3]int{wi, di, 1}
	return wi, di, true
}
