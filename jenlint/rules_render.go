package main

import (
	"golang.org/x/tools/go/ssa"
)

func init() {
	register("P-STMTRENDER", "Statement.render: items that are nil or null are skipped without output; every other item is rendered, preceded by a single space iff an item was rendered before; no list position is treated specially", 3, rulePXStmtRender)
	register("P-RENDERITEMS", "Group.renderItems: nil / null items are skipped without output or separator; package tokens are registered before the null test; every other item is preceded by the separator iff an item was rendered before and the separator is non-empty, by a newline iff the group is multi; a Dict next to other Values items is an error; the result tells whether nothing was rendered", 5, rulePXRenderItems)
	register("P-GROUPRENDER", "Group.render: open, items, trailing newline, close are written in that order, each exactly under its condition; the brace-less form is chosen exactly for a block after a case group or the default keyword; empty type lists render nothing", 14, rulePXGroupRender)
	register("P-ISNULL", "null-ness: nil receivers are null, groups with delimiters are not, otherwise the conjunction over the items; Null() is a null token, Empty() an empty operator token; a package token is null exactly for dot-imported or local paths", 12, rulePXIsNull)
}

// loopInfo describes a list-rendering loop.
type loopInfo struct {
	a      *FnA
	R      ssa.CallInstruction // invoke item.render
	N      ssa.CallInstruction // invoke item.isNull
	item   ssa.Value
	header *ssa.BasicBlock
	body   map[*ssa.BasicBlock]bool
	first  *ssa.Phi
	done   *ssa.BasicBlock
	w      *ssa.Parameter
	sinks  []*Sink
}

// loopHeader: the innermost loop header dominating b.
func loopHeader(b *ssa.BasicBlock) *ssa.BasicBlock {
	for d := b; d != nil; d = d.Idom() {
		for _, p := range d.Preds {
			if d.Dominates(p) || p == d {
				// is b inside this loop (can b reach d)?
				if b == d || reachableFrom(b, nil)[d] {
					return d
				}
			}
		}
	}
	return nil
}

// ---------------------------------------------------------------------------------------------

// ---------------------------------------------------------------------------------------------
