package main

import (
	"fmt"
	"go/token"
	"go/types"
	"strings"

	"golang.org/x/tools/go/ssa"
)

func init() {
	register("P-STMTRENDER", "Statement.render: items that are nil or null are skipped without output; every other item is rendered, preceded by a single space iff an item was rendered before; no list position is treated specially", 3, rulePXStmtRender)
	register("P-RENDERITEMS", "Group.renderItems: nil / null items are skipped without output or separator; package tokens are registered before the null test; every other item is preceded by the separator iff an item was rendered before and the separator is non-empty, by a newline iff the group is multi; a Dict next to other Values items is an error; the result tells whether nothing was rendered", 5, rulePXRenderItems)
	register("P-GROUPRENDER", "Group.render: open, items, trailing newline, close are written in that order, each exactly under its condition; the brace-less form is chosen exactly for a block after a case group or the default keyword; empty type lists render nothing", 14, rulePXGroupRender)
	register("P-ISNULL", "null-ness: nil receivers are null, groups with delimiters are not, otherwise the conjunction over the items; Null() is a null token, Empty() an empty operator token; a package token is null exactly for dot-imported or local paths", 12, rulePXIsNull)
}

// loopInfo describes a list-rendering loop.
type loopInfo struct {
	a      *FnA
	R      ssa.CallInstruction // invoke item.render
	N      ssa.CallInstruction // invoke item.isNull
	item   ssa.Value
	header *ssa.BasicBlock
	body   map[*ssa.BasicBlock]bool
	first  *ssa.Phi
	done   *ssa.BasicBlock
	w      *ssa.Parameter
	sinks  []*Sink
}

// loopHeader: the innermost loop header dominating b.
func loopHeader(b *ssa.BasicBlock) *ssa.BasicBlock {
	for d := b; d != nil; d = d.Idom() {
		for _, p := range d.Preds {
			if d.Dominates(p) || p == d {
				// is b inside this loop (can b reach d)?
				if b == d || reachableFrom(b, nil)[d] {
					return d
				}
			}
		}
	}
	return nil
}

func (c *Ctx) listLoop(o *obs, f *ssa.Function) *loopInfo {
	a := c.FA(f)
	fn := fname(f)
	li := &loopInfo{a: a, body: map[*ssa.BasicBlock]bool{}}
	var rs []ssa.CallInstruction
	for _, ci := range a.invokes(a.c.renderName()) {
		if isCodeType(c, ci.Common().Value.Type()) {
			rs = append(rs, ci)
		}
	}
	if len(rs) != 1 {
		o.undecided(fn, "item render call", f.Pos(), "expected exactly one invoke of Code.render in the list renderer, found %d", len(rs))
		return nil
	}
	li.R = rs[0]
	li.item = li.R.Common().Value
	for _, ci := range a.invokes(a.c.nullName()) {
		if ci.Common().Value == li.item {
			li.N = ci
		}
	}
	if li.N == nil {
		o.add(Violated, fn, "null test of the rendered item", li.R.Pos(), true, "no call item.isNull on the item that is rendered: null items would be rendered / separated")
		return nil
	}
	li.header = loopHeader(li.R.Block())
	if li.header == nil {
		o.undecided(fn, "item loop", li.R.Pos(), "the item render call is not inside a loop")
		return nil
	}
	for b := range reachableFrom(li.header, li.header) {
		if reachableFrom(b, nil)[li.header] {
			li.body[b] = true
		}
	}
	li.body[li.header] = true
	for _, s := range li.header.Succs {
		if !li.body[s] {
			li.done = s
		}
	}
	// the first flag
	for _, in := range li.header.Instrs {
		phi, ok := in.(*ssa.Phi)
		if !ok {
			continue
		}
		if b, ok := phi.Type().Underlying().(*types.Basic); !ok || b.Kind() != types.Bool {
			continue
		}
		for i, e := range phi.Edges {
			if !li.body[li.header.Preds[i]] {
				if v, ok := constBool(e); ok && v {
					if li.first != nil {
						o.undecided(fn, "first flag", phi.Pos(), "more than one candidate for the first-item flag")
						return nil
					}
					li.first = phi
				}
			}
		}
	}
	if li.first == nil {
		o.undecided(fn, "first flag", li.header.Instrs[0].Pos(), "no boolean loop flag initialised to true found (the separator rule needs to know whether an item was rendered before)")
		return nil
	}
	li.w = c.writerParam(f)
	if li.w == nil {
		o.undecided(fn, "writer parameter", f.Pos(), "no io.Writer parameter")
		return nil
	}
	for _, s := range a.Sinks() {
		if li.body[s.Call.Block()] {
			li.sinks = append(li.sinks, s)
		}
	}
	return li
}

func (li *loopInfo) itemNil() Lit  { return Lit{nilLit(li.a, li.item), true} }
func (li *loopInfo) itemNull() Lit { return Lit{li.a.Desc(callValue(li.N)), true} }
func (li *loopInfo) firstLit() Lit { return Lit{li.a.Desc(li.first), true} }

// common obligations of both list renderers
func (c *Ctx) checkListLoop(o *obs, f *ssa.Function, li *loopInfo) {
	a := li.a
	fn := fname(f)
	nn, nnull := li.itemNil(), li.itemNull()
	// the item is an element of the receiver's list, indexed by the loop variable
	shape := collectionShape(a, li.item)
	o.req(strings.HasPrefix(shape, "recv") && strings.Contains(shape, "[·]"), fn, "rendered item is the loop's element of the receiver's list", li.R.Pos(), "item = %s", a.Desc(li.item))
	// null-skip: R and every sink only for non-nil, non-null items
	facts := a.FactsOf(li.R)
	o.req(facts.Has(nn.Atom, false) && facts.Has(nnull.Atom, false), fn, "item rendered only if not nil and not null", li.R.Pos(), "facts at the render call: %s", facts)
	for i, s := range li.sinks {
		sf := a.FactsOf(s.Call)
		o.req(sf.Has(nn.Atom, false) && sf.Has(nnull.Atom, false), fn, fmt.Sprintf("loop write #%d (%s) only for a non-nil, non-null item", i+1, a.DataDesc(s)), s.Call.Pos(),
			"a nil / null item must produce no output and no separator, at any position and for any arity; facts: %s", sf)
		o.req(stripConv(s.Writer) == ssa.Value(li.w), fn, fmt.Sprintf("loop write #%d goes to the writer parameter", i+1), s.Call.Pos(), "writer %s", a.Desc(s.Writer))
	}
	// whenever not nil / not null: rendered (no other way round the loop)
	for _, p := range li.header.Preds {
		if !li.body[p] {
			continue
		}
		// a back edge: every path header -> p -> header must pass R or an excused edge
		blocked := map[*ssa.BasicBlock]bool{li.R.Block(): true}
		ex := a.excuseBy([]Lit{nn, nnull})
		var path []*ssa.BasicBlock
		if p == li.R.Block() {
			continue
		}
		path = a.FindPath(li.header, p, blocked, ex)
		if path != nil {
			// the final edge p->header may itself be the excused one
			excusedLast := false
			for i, s := range p.Succs {
				if s == li.header && ex(p, i) {
					excusedLast = true
				}
			}
			if excusedLast {
				continue
			}
			o.add(Violated, fn, fmt.Sprintf("an item is skipped although it is neither nil nor null (via block %d)", p.Index), p.Instrs[len(p.Instrs)-1].Pos(), true,
				"path %s returns to the loop head without rendering the item and without the item being nil / null — some list position or arity is treated specially", pathString(path))
		}
	}
	o.add(Discharged, fn, "every non-nil, non-null item is rendered", li.R.Pos(), true, "each way back to the loop head passes the render call or a nil / null edge")
	// the loop ends only at the end of the list (no break) or by an error return
	if li.done != nil {
		for _, p := range li.done.Preds {
			o.req(p == li.header, fn, fmt.Sprintf("loop left only at the end of the list (pred block %d)", p.Index), li.done.Instrs[0].Pos(), "a break would drop the remaining items")
		}
	}
	for b := range li.body {
		for _, s := range b.Succs {
			if li.body[s] || s == li.done {
				continue
			}
			// exit from the loop body: must be an error return
			okExit := false
			if len(s.Instrs) > 0 {
				if r, ok := s.Instrs[len(s.Instrs)-1].(*ssa.Return); ok {
					for _, res := range r.Results {
						if isErrorType(res.Type()) && !isNilConst(res) {
							okExit = true
						}
					}
				}
				if _, ok := s.Instrs[len(s.Instrs)-1].(*ssa.Panic); ok {
					okExit = true // judged by W-PANICS
				}
			}
			o.req(okExit, fn, fmt.Sprintf("early exit from the item loop (block %d) returns an error", s.Index), s.Instrs[len(s.Instrs)-1].Pos(), "leaving the loop early with success would truncate the list")
		}
	}
	// first flag discipline
	for i, e := range li.first.Edges {
		p := li.header.Preds[i]
		if !li.body[p] {
			continue
		}
		afterR := p == li.R.Block() || li.R.Block().Dominates(p)
		viaR := reachableFrom(li.R.Block(), li.header)[p] || p == li.R.Block()
		construct := fmt.Sprintf("first flag on the way back from block %d", p.Index)
		v := resolvePhi(e, p)
		if bv, ok := constBool(v); ok && !bv {
			o.req(afterR, fn, construct, li.first.Pos(), "flag cleared although no item was rendered on this way round the loop: the next item would get a separator it must not have")
		} else if v == ssa.Value(li.first) {
			o.req(!viaR, fn, construct, li.first.Pos(), "flag kept although an item was rendered on this way round the loop: the next item would lose its separator")
		} else {
			o.undecided(fn, construct, li.first.Pos(), "flag takes value %s", a.Desc(e))
		}
	}
}

// resolvePhi: if v is a phi located in block p's chain merging only one distinct value or the
// value arriving from a given predecessor, simplify.
func resolvePhi(v ssa.Value, p *ssa.BasicBlock) ssa.Value {
	for depth := 0; depth < 4; depth++ {
		phi, ok := v.(*ssa.Phi)
		if !ok {
			return v
		}
		var distinct []ssa.Value
		for _, e := range phi.Edges {
			dup := false
			for _, d := range distinct {
				if d == e {
					dup = true
				}
			}
			if !dup {
				distinct = append(distinct, e)
			}
		}
		if len(distinct) == 1 {
			v = distinct[0]
			continue
		}
		return v
	}
	return v
}

// sepObligations: the separator-like sink E must be written exactly when needed before R.
func (c *Ctx) sepObligations(o *obs, f *ssa.Function, li *loopInfo, name string, sinks []*Sink, only []Lit, excuses []Lit) {
	a := li.a
	fn := fname(f)
	if len(sinks) == 0 {
		o.add(Violated, fn, name+" is written", li.R.Pos(), true, "no write of %s found in the item loop", name)
		return
	}
	var effects []ssa.Instruction
	for _, s := range sinks {
		effects = append(effects, s.Call)
		sf := a.FactsOf(s.Call)
		okAll := true
		for _, l := range only {
			if !sf.Has(l.Atom, l.Pol) {
				okAll = false
			}
		}
		o.req(okAll, fn, name+" only under its condition", s.Call.Pos(), "needs %v; facts: %s", only, sf)
		// R must follow in the same iteration
		o.req(reachableFrom(s.Call.Block(), li.header)[li.R.Block()] || s.Call.Block() == li.R.Block(), fn, name+" is followed by the item", s.Call.Pos(), "")
	}
	path := a.Cut(li.header, li.R, effects, excuses)
	o.req(path == nil, fn, name+" whenever its condition holds", li.R.Pos(),
		"path %s reaches the item's render call without writing %s and without an edge that excuses it (%v) — some list position, arity or extra condition by-passes it", pathString(path), name, excuses)
}

func ruleStmtRender(c *Ctx) []Obligation {
	o := c.newObs("P-STMTRENDER")
	f := c.method("Statement", c.renderName())
	if f == nil {
		o.undecided("(*jen.Statement).render", "anchor", token.NoPos, "anchor lost")
		return o.list
	}
	li := c.listLoop(o, f)
	if li == nil {
		return o.list
	}
	c.checkListLoop(o, f, li)
	a := li.a
	var sp []*Sink
	for _, s := range li.sinks {
		if a.DataDesc(s) == `" "` {
			sp = append(sp, s)
		} else {
			o.add(Violated, fname(f), "unexpected write in the item loop: "+a.DataDesc(s), s.Call.Pos(), true, "a statement is its items joined by single spaces and nothing else")
		}
	}
	fl := li.firstLit()
	c.sepObligations(o, f, li, "space separator", sp, []Lit{{fl.Atom, false}}, []Lit{fl})
	// the statement itself is passed down so a Block can see what precedes it
	args := li.R.Common().Args
	o.req(len(args) == 3 && args[0] == f.Params[1] && stripConv(args[1]) == ssa.Value(li.w) && args[2] == f.Params[0], fname(f), "item rendered with the same File and writer, and this statement as context", li.R.Pos(), "args %s, %s, %s", a.Desc(args[0]), a.Desc(args[1]), a.Desc(args[2]))
	return o.list
}

func ruleRenderItems(c *Ctx) []Obligation {
	o := c.newObs("P-RENDERITEMS")
	var f *ssa.Function
	// by role: the *Group method with an io.Writer parameter that invokes Code.render in a loop and returns (bool, error)
	for _, g := range c.allFuncs(c.Jen) {
		if g.Signature.Recv() == nil || types.TypeString(g.Signature.Recv().Type(), shortQual) != "*jen.Group" {
			continue
		}
		if g.Signature.Results().Len() == 2 && len(c.FA(g).invokes(c.renderName())) > 0 && c.writerParam(g) != nil {
			f = g
		}
	}
	if f == nil {
		o.undecided("(*jen.Group).renderItems", "anchor", token.NoPos, "anchor lost: no *Group method (File, io.Writer) (bool, error) invoking Code.render")
		return o.list
	}
	li := c.listLoop(o, f)
	if li == nil {
		return o.list
	}
	c.checkListLoop(o, f, li)
	a := li.a
	fn := fname(f)
	var sep, nl []*Sink
	for _, s := range li.sinks {
		switch a.DataDesc(s) {
		case "recv.separator":
			sep = append(sep, s)
		case `"\n"`:
			nl = append(nl, s)
		default:
			o.add(Violated, fn, "unexpected write in the item loop: "+a.DataDesc(s), s.Call.Pos(), true, "a group body is its items joined by the separator (and newlines if multi) and nothing else")
		}
	}
	fl := li.firstLit()
	sepEmpty := Lit{"empty(recv.separator)", true}
	c.sepObligations(o, f, li, "separator", sep, []Lit{{fl.Atom, false}, {sepEmpty.Atom, false}}, []Lit{fl, sepEmpty})
	multi := Lit{"recv.multi", true}
	c.sepObligations(o, f, li, "newline before item", nl, []Lit{multi}, []Lit{{multi.Atom, false}})
	// order: separator before newline
	for _, s := range sep {
		for _, n := range nl {
			o.req(!reachableFrom(n.Call.Block(), li.header)[s.Call.Block()], fn, "separator precedes the newline", s.Call.Pos(), "a separator after the newline would start the next line")
		}
	}
	// registration pre-pass
	reg := c.registerFn()
	regs := a.callsTo(reg)
	if len(regs) == 0 {
		o.add(Violated, fn, "package tokens are registered before the null test", li.N.Pos(), true, "no call of the registration function: a dot-imported package token is null, would be skipped, and its import would be missing")
	}
	tokAtom := "is<jen.token>(" + a.Desc(li.item) + ")"
	var typAtom string
	for _, rc := range regs {
		facts := a.FactsOf(rc)
		for atom, pol := range facts {
			if pol && strings.HasPrefix(atom, "eq(\""+c.tokenTypeConst("packageToken")+"\",") && strings.HasSuffix(atom, ".typ)") {
				typAtom = atom
			}
		}
		arg := a.Desc(rc.Common().Args[1])
		o.req(facts.Has(tokAtom, true) && typAtom != "" && strings.HasSuffix(strings.TrimSuffix(arg, ")"), ".content") || (facts.Has(tokAtom, true) && typAtom != "" && strings.Contains(arg, ".content")), fn, "registration only for a package token, with its path", rc.Pos(), "facts %s, argument %s", facts, arg)
		o.req(li.body[rc.Block()], fn, "registration inside the item loop", rc.Pos(), "")
	}
	if len(regs) > 0 && typAtom != "" {
		var eff []ssa.Instruction
		for _, rc := range regs {
			eff = append(eff, rc)
		}
		path := a.Cut(li.header, li.N, eff, []Lit{{tokAtom, false}, {typAtom, false}})
		o.req(path == nil, fn, "every package token is registered before its null test", li.N.Pos(), "path %s reaches the null test of a package token without registering it (dot-imports would be dropped)", pathString(path))
	}
	// values guard: Dict next to other items is an error
	dictAtom := "is<jen.Dict>(" + a.Desc(li.item) + ")"
	valAtom := `eq("values",recv.name)`
	lenAtom := "lt(1,builtin.len(recv.items))"
	var guards []ssa.Instruction
	for b := range li.body {
		for _, s := range b.Succs {
			if li.body[s] || s == li.done || len(s.Instrs) == 0 {
				continue
			}
			r, ok := s.Instrs[len(s.Instrs)-1].(*ssa.Return)
			if !ok {
				continue
			}
			facts := a.FactsAt(s)
			if facts.Has(dictAtom, true) && facts.Has(valAtom, true) && facts.Has(lenAtom, true) {
				guards = append(guards, r)
			}
		}
	}
	if len(guards) == 0 {
		o.add(Violated, fn, "a Dict next to other items of Values is rejected with an error", li.R.Pos(), true, "no error return under the facts %s ∧ %s ∧ %s", valAtom, dictAtom, lenAtom)
	} else {
		path := a.Cut(li.header, li.R, guards, []Lit{{dictAtom, false}, {valAtom, false}, {lenAtom, false}})
		o.req(path == nil, fn, "a Dict next to other items of Values is rejected with an error", guards[0].Pos(), "path %s renders such a Dict", pathString(path))
	}
	// result: first flag at loop exit, nil error
	if li.done != nil && len(li.done.Instrs) > 0 {
		if r, ok := li.done.Instrs[len(li.done.Instrs)-1].(*ssa.Return); ok && len(r.Results) == 2 {
			o.req(r.Results[0] == ssa.Value(li.first) && isNilConst(r.Results[1]), fn, "result reports whether no item was rendered", r.Pos(), "returns %s, %s", a.Desc(r.Results[0]), a.Desc(r.Results[1]))
		} else {
			o.undecided(fn, "result reports whether no item was rendered", li.done.Instrs[0].Pos(), "loop exit does not return directly")
		}
	}
	// the item is rendered with no statement context
	args := li.R.Common().Args
	o.req(len(args) == 3 && args[0] == f.Params[1] && stripConv(args[1]) == ssa.Value(li.w), fn, "item rendered with the same File and writer", li.R.Pos(), "args %s, %s", a.Desc(args[0]), a.Desc(args[1]))
	return o.list
}

// ---------------------------------------------------------------------------------------------

func allWays(ws []Facts, pred func(Facts) bool) (bool, Facts) {
	for _, w := range ws {
		if !pred(w) {
			return false, w
		}
	}
	return true, nil
}

func ruleGroupRender(c *Ctx) []Obligation {
	o := c.newObs("P-GROUPRENDER")
	f := c.method("Group", c.renderName())
	if f == nil {
		o.undecided("(*jen.Group).render", "anchor", token.NoPos, "anchor lost")
		return o.list
	}
	a := c.FA(f)
	fn := fname(f)
	w := c.writerParam(f)
	// ITEMS: the call of the list renderer
	var items *ssa.Call
	for _, ci := range a.calls() {
		sc := ci.Common().StaticCallee()
		if sc == nil || ci.Common().IsInvoke() {
			continue
		}
		if sc.Signature.Recv() != nil && sc.Signature.Results().Len() == 2 && len(c.FA(sc).invokes(c.renderName())) > 0 {
			if call, ok := ci.(*ssa.Call); ok {
				if items != nil {
					o.undecided(fn, "items call", ci.Pos(), "more than one call of the list renderer")
					return o.list
				}
				items = call
			}
		}
	}
	if items == nil {
		o.undecided(fn, "items call", f.Pos(), "anchor lost: no call of the list renderer")
		return o.list
	}
	o.req(items.Call.Args[0] == f.Params[0] && items.Call.Args[1] == f.Params[1] && stripConv(items.Call.Args[2]) == ssa.Value(w), fn, "items rendered with the same group, File and writer", items.Pos(), "")
	o.req(!inCycle(items.Block()), fn, "items rendered once", items.Pos(), "")
	var itemsNull, itemsErr ssa.Value
	for _, r := range nonDebugRefs(items) {
		if ex, ok := r.(*ssa.Extract); ok {
			if ex.Index == 0 {
				itemsNull = ex
			} else {
				itemsErr = ex
			}
		}
	}
	// sinks: before ITEMS = OPEN; after = TNL / CLOSE
	var open, after []*Sink
	for _, s := range a.Sinks() {
		if stripConv(s.Writer) != ssa.Value(w) {
			o.add(Violated, fn, "write to something other than the writer parameter", s.Call.Pos(), true, "%s", a.Desc(s.Writer))
			continue
		}
		if reachableFrom(s.Call.Block(), nil)[items.Block()] {
			open = append(open, s)
		} else if reachableFrom(items.Block(), nil)[s.Call.Block()] {
			after = append(after, s)
		} else {
			o.add(Violated, fn, "write that is neither before nor after the items", s.Call.Pos(), true, "%s", a.DataDesc(s))
		}
		o.req(!inCycle(s.Call.Block()), fn, "delimiter write "+sinkName(a, s)+" is not in a loop", s.Call.Pos(), "")
	}
	if len(open) != 1 {
		o.add(Violated, fn, "exactly one write (the open token) precedes the items", f.Pos(), true, "found %d", len(open))
		return o.list
	}
	OPEN := open[0]
	openVal := stripConv(OPEN.Data[0])
	// classify after-sinks: CLOSE writes the close value, TNL writes "\n" / ",\n"
	var CLOSE, TNL *Sink
	for _, s := range after {
		leaves := dataLeaves(s.Data[0], map[ssa.Value]bool{})
		isNL := true
		for _, l := range leaves {
			if str, ok := constString(l); !ok || !strings.HasSuffix(str, "\n") {
				isNL = false
			}
		}
		if isNL {
			if TNL != nil {
				o.add(Violated, fn, "more than one trailing-newline write", s.Call.Pos(), true, "")
			}
			TNL = s
		} else {
			if CLOSE != nil {
				o.add(Violated, fn, "more than one close write", s.Call.Pos(), true, "%s", a.DataDesc(s))
			}
			CLOSE = s
		}
	}
	if CLOSE == nil || TNL == nil {
		o.add(Violated, fn, "trailing newline and close token are written after the items", items.Pos(), true, "close found: %v, trailing newline found: %v", CLOSE != nil, TNL != nil)
		return o.list
	}
	closeVal := stripConv(CLOSE.Data[0])
	// order TNL before CLOSE
	o.req(!reachableFrom(CLOSE.Call.Block(), nil)[TNL.Call.Block()] && CLOSE.Call.Block() != TNL.Call.Block(), fn, "trailing newline precedes the close token", TNL.Call.Pos(), "a line comment at the end of the last item would otherwise swallow the close token")

	// brace-less form: open / close values
	prevDesc := ""
	for _, ci := range a.calls() {
		if sc := ci.Common().StaticCallee(); sc != nil && sc == c.role("previous") {
			prevDesc = a.Desc(callValue(ci))
			args := ci.Common().Args
			o.req(len(args) == 2 && args[0] == ssa.Value(f.Params[3]) && stripConv(args[1]) == ssa.Value(f.Params[0]), fn, "the block looks up what precedes itself in the enclosing statement", ci.Pos(), "previous(%s, %s)", a.Desc(args[0]), a.Desc(args[len(args)-1]))
		}
	}
	blockAtom := `eq("block",recv.name)`
	sNil := "eq(nil,p2)"
	isGrp := "is<*jen.Group>(" + prevDesc + ")"
	grpNil := "eq(assert<*jen.Group>(" + prevDesc + ")#0,nil)"
	caseAtom := `eq("case",assert<*jen.Group>(` + prevDesc + `)#0.name)`
	isTok := "is<jen.token>(" + prevDesc + ")"
	defAtom := `eq("default",assert<jen.token>(` + prevDesc + `)#0.content)`
	like := func(w Facts, prefix, suffix string, pol bool) bool {
		for atom, p := range w {
			if p == pol && strings.HasPrefix(atom, prefix) && strings.HasSuffix(atom, suffix) && strings.Contains(atom, prevDesc) {
				return true
			}
		}
		return false
	}
	_, _ = caseAtom, defAtom
	afterCase := func(w Facts) bool {
		return w.Has(blockAtom, true) && w.Has(sNil, false) &&
			((w.Has(isGrp, true) && like(w, `eq("case",`, `.name)`, true) && w.Has(grpNil, false)) || (w.Has(isTok, true) && like(w, `eq("default",`, `.content)`, true)))
	}
	notAfterCase := func(w Facts) bool {
		if w.Has(blockAtom, false) || w.Has(sNil, true) {
			return true
		}
		notCase := w.Has(isGrp, false) || w.Has(grpNil, true) || like(w, `eq("case",`, `.name)`, false)
		notDef := w.Has(isTok, false) || like(w, `eq("default",`, `.content)`, false)
		return notCase && notDef
	}
	for _, dv := range []struct {
		name  string
		val   ssa.Value
		field string
	}{{"open", openVal, "recv.open"}, {"close", closeVal, "recv.close"}} {
		phi, isPhi := dv.val.(*ssa.Phi)
		if !isPhi {
			if a.Desc(dv.val) == dv.field {
				o.add(Violated, fn, "brace-less form of a case block ("+dv.name+")", f.Pos(), true, "the %s token written is always the group's own: a Block after Case / Default would keep its braces", dv.name)
			} else {
				o.undecided(fn, "brace-less form of a case block ("+dv.name+")", f.Pos(), "%s value %s not recognised", dv.name, a.Desc(dv.val))
			}
			continue
		}
		for i, e := range phi.Edges {
			pred := phi.Block().Preds[i]
			ways := a.WaysOnEdge(pred, phi.Block())
			construct := fmt.Sprintf("%s token on the way from block %d", dv.name, pred.Index)
			if s, ok := constString(e); ok && s == "" {
				ok, bad := allWays(ways, afterCase)
				o.req(ok, fn, construct+": blank only for a block after a case group or default", phi.Pos(), "a way blanks the %s token without the block following Case / Default: %s", dv.name, bad)
			} else if a.Desc(e) == dv.field {
				ok, bad := allWays(ways, notAfterCase)
				o.req(ok, fn, construct+": the group's own token unless the block follows a case group or default", phi.Pos(), "a way keeps the braces of a block that follows Case / Default: %s", bad)
			} else {
				o.add(Violated, fn, construct, phi.Pos(), true, "%s token takes the value %s", dv.name, a.Desc(e))
			}
		}
	}
	// the context lookup itself: returns the item just before the given one (or nil)
	if pf := c.role("previous"); pf != nil {
		c.checkPrevious(o, pf)
	} else {
		o.add(Violated, fn, "a block can see the item that precedes it", f.Pos(), true, "no lookup of the preceding item: Case / Default blocks cannot be recognised")
	}
	// OPEN iff open != ""
	od := a.Desc(openVal)
	of := a.FactsOf(OPEN.Call)
	o.req(of.Has("empty("+od+")", false), fn, "open token written only if non-empty", OPEN.Call.Pos(), "facts %s", of)
	typesAtom := `eq("types",recv.name)`
	var nullItemsAtom string
	for _, ci := range a.calls() {
		if sc := ci.Common().StaticCallee(); sc != nil && len(c.FA(sc).invokes(c.nullName())) > 0 && sc.Signature.Results().Len() == 1 && sc != items.Call.StaticCallee() {
			if b, ok := sc.Signature.Results().At(0).Type().Underlying().(*types.Basic); ok && b.Kind() == types.Bool {
				nullItemsAtom = a.Desc(callValue(ci))
			}
		}
	}
	path := a.Cut(f.Blocks[0], items, []ssa.Instruction{OPEN.Call}, []Lit{{"empty(" + od + ")", true}})
	o.req(path == nil, fn, "open token written whenever non-empty", OPEN.Call.Pos(), "path %s reaches the items without the open token", pathString(path))
	// returns before the items: only the empty type-list special case
	for _, r := range a.returns() {
		if reachableFrom(items.Block(), nil)[r.Block()] || r.Block() == items.Block() {
			continue
		}
		isErr := false
		for _, res := range r.Results {
			if isErrorType(res.Type()) && !isNilConst(res) {
				isErr = true
			}
		}
		if isErr {
			continue
		}
		ok, bad := allWays(a.WaysTo(r.Block()), func(w Facts) bool {
			return w.Has(typesAtom, true) && nullItemsAtom != "" && w.Has(nullItemsAtom, true)
		})
		o.req(ok, fn, "nothing is rendered only for a type list whose items are all null", r.Pos(), "a way returns before rendering the items without name==\"types\" ∧ all items null: %s", bad)
	}
	// CLOSE iff close != "" on every successful way after the items
	cd := a.Desc(closeVal)
	cf := a.FactsOf(CLOSE.Call)
	o.req(cf.Has("empty("+cd+")", false), fn, "close token written only if non-empty", CLOSE.Call.Pos(), "facts %s", cf)
	errLit := Lit{}
	if itemsErr != nil {
		errLit = a.nilFact(itemsErr)
		errLit.Pol = false
	}
	for _, r := range a.returns() {
		if !reachableFrom(items.Block(), nil)[r.Block()] {
			continue
		}
		succ := false
		for _, res := range r.Results {
			if isErrorType(res.Type()) && isNilConst(res) {
				succ = true
			}
		}
		if !succ {
			continue
		}
		p := a.Cut(items.Block(), r, []ssa.Instruction{CLOSE.Call}, []Lit{{"empty(" + cd + ")", true}})
		o.req(p == nil, fn, "close token written whenever non-empty", r.Pos(), "path %s returns success after the items without the close token", pathString(p))
	}
	// TNL: only / whenever items rendered, multi, close non-empty
	if itemsNull == nil {
		o.add(Violated, fn, "trailing newline depends on whether items were rendered", items.Pos(), true, "the list renderer's first result is ignored")
		return o.list
	}
	nullAtom := a.Desc(itemsNull)
	tf := a.FactsOf(TNL.Call)
	o.req(tf.Has(nullAtom, false) && tf.Has("recv.multi", true) && tf.Has("empty("+cd+")", false), fn, "trailing newline only if items were rendered, the group is multi-line and has a close token", TNL.Call.Pos(), "facts %s", tf)
	p := a.Cut(items.Block(), CLOSE.Call, []ssa.Instruction{TNL.Call}, []Lit{{nullAtom, true}, {"recv.multi", false}, {"empty(" + cd + ")", true}})
	o.req(p == nil, fn, "trailing newline whenever items were rendered in a multi-line group with a close token", TNL.Call.Pos(),
		"path %s reaches the close token of a multi-line group without the newline: a trailing line comment would swallow the close token (no condition on the separator or on the number of items may by-pass it)", pathString(p))
	// TNL data: "\n", or ",\n" exactly for separator ","
	commaAtom := `eq(",",recv.separator)`
	if phi, ok := stripConv(TNL.Data[0]).(*ssa.Phi); ok {
		for i, e := range phi.Edges {
			pred := phi.Block().Preds[i]
			ef := a.FactsOnEdge(pred, phi.Block())
			s, _ := constString(e)
			switch s {
			case "\n":
				o.req(ef.Has(commaAtom, false), fn, "plain newline before the close token unless the separator is a comma", phi.Pos(), "facts on the edge: %s", ef)
			case ",\n":
				o.req(ef.Has(commaAtom, true), fn, "trailing comma only for comma-separated lists", phi.Pos(), "facts on the edge: %s", ef)
			default:
				o.add(Violated, fn, "trailing newline text", phi.Pos(), true, "unexpected text %s", a.Desc(e))
			}
		}
	} else if s, ok := constString(TNL.Data[0]); ok && s == "\n" {
		o.add(Violated, fn, "trailing comma for comma-separated multi-line lists", TNL.Call.Pos(), true, "a multi-line comma-separated list needs a trailing comma before the newline, or the close token is a syntax error")
	} else {
		o.undecided(fn, "trailing newline text", TNL.Call.Pos(), "value %s", a.DataDesc(TNL))
	}
	return o.list
}

func sinkName(a *FnA, s *Sink) string {
	d := a.DataDesc(s)
	if len(d) > 40 {
		d = d[:40]
	}
	return d
}

// ---------------------------------------------------------------------------------------------

func ruleIsNull(c *Ctx) []Obligation {
	o := c.newObs("P-ISNULL")
	// Group.isNull
	if f := c.method("Group", c.nullName()); f != nil {
		a := c.FA(f)
		fn := fname(f)
		for _, r := range a.returns() {
			ws := a.WaysTo(r.Block())
			v := r.Results[0]
			if bv, ok := constBool(v); ok {
				if bv {
					ok2, bad := allWays(ws, func(w Facts) bool { return w.Has("eq(nil,recv)", true) })
					o.req(ok2, fn, "returns true outright only for a nil group", r.Pos(), "way %s", bad)
				} else {
					ok2, bad := allWays(ws, func(w Facts) bool {
						return w.Has("eq(nil,recv)", false) && (w.Has("empty(recv.open)", false) || w.Has("empty(recv.close)", false))
					})
					o.req(ok2, fn, "returns false outright only for a group with a delimiter", r.Pos(), "way %s", bad)
				}
				continue
			}
			// delegated to the items test
			call, isCall := v.(*ssa.Call)
			okc := isCall && call.Call.StaticCallee() != nil && len(c.FA(call.Call.StaticCallee()).invokes(c.nullName())) > 0 && call.Call.Args[0] == f.Params[0] && call.Call.Args[1] == f.Params[1]
			ok2, bad := allWays(ws, func(w Facts) bool {
				return w.Has("eq(nil,recv)", false) && w.Has("empty(recv.open)", true) && w.Has("empty(recv.close)", true)
			})
			o.req(okc && ok2, fn, "delimiter-less group is null iff all its items are", r.Pos(), "returns %s on way %s", a.Desc(v), bad)
		}
	} else {
		o.undecided("(*jen.Group).isNull", "anchor", token.NoPos, "anchor lost")
	}
	// conjunction loops: Group.isNullItems, Statement.isNull
	// the items test of Group: the bool helper Group's null test delegates to
	itemsTest := "isNullItems"
	if gf := c.method("Group", c.nullName()); gf != nil {
		for _, cal := range c.staticCallees(gf) {
			if len(c.FA(cal).invokes(c.nullName())) > 0 {
				itemsTest = cal.Name()
			}
		}
	}
	for _, tn := range [][2]string{{"Group", itemsTest}, {"Statement", c.nullName()}} {
		f := c.method(tn[0], tn[1])
		if f == nil {
			o.undecided("(*jen."+tn[0]+")."+tn[1], "anchor", token.NoPos, "anchor lost")
			continue
		}
		a := c.FA(f)
		fn := fname(f)
		inv := a.invokes(a.c.nullName())
		if len(inv) != 1 {
			o.undecided(fn, "item null test", f.Pos(), "expected one invoke of isNull, found %d", len(inv))
			continue
		}
		N := inv[0]
		item := N.Common().Value
		nAtom := a.Desc(callValue(N))
		nilAtom := nilLit(a, item)
		hdr := loopHeader(N.Block())
		for _, r := range a.returns() {
			ws := a.WaysTo(r.Block())
			bv, isConst := constBool(r.Results[0])
			if !isConst {
				o.undecided(fn, "result", r.Pos(), "returns %s", a.Desc(r.Results[0]))
				continue
			}
			if !bv {
				ok2, bad := allWays(ws, func(w Facts) bool { return w.Has(nAtom, false) && w.Has(nilAtom, false) })
				o.req(ok2, fn, "returns false only for an item that is neither nil nor null", r.Pos(), "way %s", bad)
			} else {
				// true: nil receiver (Statement) or loop finished
				ok2, bad := allWays(ws, func(w Facts) bool {
					if w.Has("eq(nil,recv)", true) {
						return true
					}
					// loop exhausted: the bound test failed
					for atom, pol := range w {
						if !pol && strings.HasPrefix(atom, "lt(") && strings.Contains(atom, "builtin.len(") {
							return true
						}
					}
					return false
				})
				o.req(ok2, fn, "returns true only for a nil receiver or after all items were tested", r.Pos(), "way %s", bad)
			}
		}
		// whenever an item is non-nil and non-null: return false (no way back to the loop head)
		if hdr != nil {
			for _, p := range hdr.Preds {
				if !(hdr.Dominates(p)) {
					continue
				}
				ok2, bad := allWays(a.WaysOnEdge(p, hdr), func(w Facts) bool { return w.Has(nAtom, true) || w.Has(nilAtom, true) })
				o.req(ok2, fn, fmt.Sprintf("loop continues only past nil / null items (from block %d)", p.Index), N.Pos(), "way %s", bad)
			}
		}
	}
	// token.isNull
	var tf *ssa.Function
	for _, f := range c.codeImpls(c.nullName()) {
		if f.Synthetic == "" && f.Signature.Recv() != nil && types.TypeString(f.Signature.Recv().Type(), shortQual) == "jen.token" {
			tf = f
		}
	}
	if tf == nil {
		o.undecided("(jen.token).isNull", "anchor", token.NoPos, "anchor lost")
	} else {
		a := c.FA(tf)
		fn := fname(tf)
		pkgAtom := `eq("` + c.tokenTypeConst("packageToken") + `",recv.typ)`
		nullAtom := `eq("` + c.tokenTypeConst("nullToken") + `",recv.typ)`
		dot, loc := c.role("isDotImport"), c.role("isLocal")
		for _, r := range a.returns() {
			v := r.Results[0]
			ws := a.WaysTo(r.Block())
			onPkg, _ := allWays(ws, func(w Facts) bool { return w.Has(pkgAtom, true) })
			offPkg, _ := allWays(ws, func(w Facts) bool { return w.Has(pkgAtom, false) })
			switch {
			case onPkg:
				ok2, why := isDotOrLocal(a, v, dot, loc)
				o.req(ok2, fn, "a package token is null exactly for a dot-imported or local path", r.Pos(), "%s", why)
			case offPkg:
				d := a.Desc(v)
				o.req(d == "("+`"`+c.tokenTypeConst("nullToken")+`"`+" == recv.typ)" || lone(a.lits(v, true), nullAtom), fn, "any other token is null exactly if it is the null token", r.Pos(), "returns %s", d)
			default:
				o.undecided(fn, "result", r.Pos(), "return not classified by token type")
			}
		}
	}
	// Null() builds a null token, Empty() an empty operator token
	for _, tl := range c.tokenLits() {
		if tl.fn.Signature.Recv() == nil || types.TypeString(tl.fn.Signature.Recv().Type(), shortQual) != "*jen.Statement" {
			continue
		}
		switch tl.fn.Name() {
		case "Null":
			o.req(tl.typOK && tl.typ == c.tokenTypeConst("nullToken"), fname(tl.fn), "Null() appends a null token", tl.pos, "typ=%q", tl.typ)
		case "Empty":
			s, isStr := constString(tl.content)
			o.req(tl.typOK && tl.typ != c.tokenTypeConst("nullToken") && tl.typ != c.tokenTypeConst("packageToken") && isStr && s == "", fname(tl.fn), "Empty() appends a non-null token with empty text", tl.pos, "typ=%q content=%q", tl.typ, s)
		}
	}
	// tag / comment / Dict
	for _, f := range c.codeImpls(c.nullName()) {
		if f.Synthetic != "" || f.Signature.Recv() == nil {
			continue
		}
		a := c.FA(f)
		switch types.TypeString(f.Signature.Recv().Type(), shortQual) {
		case "jen.tag":
			for _, r := range a.returns() {
				o.req(lone(a.lits(r.Results[0], true), "empty(recv.items)"), fname(f), "a tag is null exactly if it has no items", r.Pos(), "returns %s", a.Desc(r.Results[0]))
			}
		case "jen.comment":
			for _, r := range a.returns() {
				bv, ok := constBool(r.Results[0])
				o.req(ok && !bv, fname(f), "a comment is never null", r.Pos(), "returns %s", a.Desc(r.Results[0]))
			}
		}
	}
	return o.list
}

func lone(ls []Lit, atom string) bool {
	return len(ls) == 1 && ls[0].Atom == atom && ls[0].Pol
}

// isDotOrLocal: v is isDotImport(path) || isLocal(path) with path = the token's content.
func isDotOrLocal(a *FnA, v ssa.Value, dot, loc *ssa.Function) (bool, string) {
	if dot == nil || loc == nil {
		return false, "anchor lost: isDotImport / isLocal"
	}
	phi, ok := v.(*ssa.Phi)
	if !ok {
		return false, "returns " + a.Desc(v) + " (expected the disjunction of the dot-import and local tests)"
	}
	// a || b : phi [true from the block where a held, b otherwise]
	var calls []*ssa.Call
	for i, e := range phi.Edges {
		pred := phi.Block().Preds[i]
		if bv, ok := constBool(e); ok {
			if !bv {
				return false, "constant false operand"
			}
			// the edge must assert the first test
			found := false
			for _, l := range a.edgeLits(pred, succIndex(pred, phi.Block())) {
				if l.Pol {
					if call := callByDesc(a, l.Atom); call != nil {
						calls = append(calls, call)
						found = true
					}
				}
			}
			if !found {
				return false, "true operand not justified by a test"
			}
			continue
		}
		call, ok := e.(*ssa.Call)
		if !ok {
			return false, "operand " + a.Desc(e)
		}
		calls = append(calls, call)
	}
	seen := map[*ssa.Function]bool{}
	for _, call := range calls {
		sc := call.Call.StaticCallee()
		if sc != dot && sc != loc {
			return false, "test " + calleeName(&call.Call)
		}
		if call.Call.Args[0] != a.fn.Params[1] || !strings.HasSuffix(a.Desc(call.Call.Args[1]), "recv.content)") && !strings.Contains(a.Desc(call.Call.Args[1]), "recv.content") {
			return false, "test applied to " + a.Desc(call.Call.Args[1])
		}
		seen[sc] = true
	}
	if !seen[dot] || !seen[loc] || len(calls) != 2 {
		return false, fmt.Sprintf("expected exactly the two tests isDotImport and isLocal, found %d", len(calls))
	}
	return true, "isDotImport(path) || isLocal(path)"
}

func succIndex(p, s *ssa.BasicBlock) int {
	for i, x := range p.Succs {
		if x == s {
			return i
		}
	}
	return 0
}

func callByDesc(a *FnA, d string) *ssa.Call {
	for _, ci := range a.calls() {
		if call, ok := ci.(*ssa.Call); ok && a.Desc(call) == d {
			return call
		}
	}
	return nil
}

// checkPrevious: every non-nil result of the context lookup is the element one position before an
// element known to equal the argument.
func (c *Ctx) checkPrevious(o *obs, f *ssa.Function) {
	a := c.FA(f)
	fn := fname(f)
	nonNil := 0
	for _, r := range a.returns() {
		v := r.Results[0]
		if isNilConst(v) {
			continue
		}
		nonNil++
		// v = recv[I - 1]
		u, ok := v.(*ssa.UnOp)
		var idx ssa.Value
		if ok {
			if ia, ok := u.X.(*ssa.IndexAddr); ok && a.Desc(ia.X) == "recv" {
				if b, ok := ia.Index.(*ssa.BinOp); ok {
					if n, ok := constInt(b.Y); ok && ((b.Op == token.SUB && n == 1) || (b.Op == token.ADD && n == -1)) {
						idx = b.X
					}
				}
			}
		}
		if idx == nil {
			o.add(Violated, fn, "returns the element one position before the match", r.Pos(), true, "returns %s", a.Desc(v))
			continue
		}
		facts := a.FactsAt(r.Block())
		pos := facts.Has("lt(0,"+a.Desc(idx)+")", true)
		matched := func(i ssa.Value, fs Facts) bool {
			el := "recv[" + a.Desc(i) + "]"
			return fs.Has("eq("+min2(el, "p0")+","+max2(el, "p0")+")", true)
		}
		okMatch := matched(idx, facts)
		if phi, isPhi := idx.(*ssa.Phi); isPhi && !okMatch {
			okMatch = true
			for i, e := range phi.Edges {
				if n, isC := constInt(e); isC && n <= 0 {
					continue // "not found": excluded by the index > 0 test
				}
				ok, _ := allWays(a.WaysOnEdge(phi.Block().Preds[i], phi.Block()), func(w Facts) bool { return matched(e, w) })
				if !ok {
					okMatch = false
				}
			}
		}
		o.req(pos && okMatch, fn, "returns the element one position before the match", r.Pos(), "index %s: known > 0: %v, known to be the position of the argument: %v", a.Desc(idx), pos, okMatch)
	}
	if nonNil == 0 {
		o.add(Violated, fn, "returns the element one position before the match", f.Pos(), true, "the lookup never returns an item")
	}
}
