// jenlint: repository-specific static checker for dave/jennifer (see /verif/DESIGN.md).
package main

import (
	"encoding/json"
	"fmt"
	"os"
	"path/filepath"
	"runtime/debug"
	"sort"
	"strconv"
	"strings"
	"time"
)

type RuleFn func(c *Ctx) []Obligation

type Rule struct {
	Name string
	Doc  string
	Fn   RuleFn
	Min  int // frozen minimum number of obligations (vacuity guard)
}

var rules = map[string]*Rule{}

func register(name, doc string, min int, fn RuleFn) {
	rules[name] = &Rule{Name: name, Doc: doc, Fn: fn, Min: min}
}

type Property struct {
	ID          string
	Rules       []string
	Explanation string
	NotDecided  string
	Assumptions []string
}

var properties = map[string]*Property{}

func (c *Ctx) run(rule string) []Obligation {
	if o, ok := c.cache[rule]; ok {
		return o
	}
	r := rules[rule]
	if r == nil {
		broken("unknown rule %s", rule)
	}
	// a rule that cannot do its work — an anchor it needs is gone, or the rule itself fails on code of
	// a shape it was not prepared for — must not take the other rules down and must not pass: it
	// yields one undecided obligation (reported like a violation) saying why
	o := func() (out []Obligation) {
		defer func() {
			if e := recover(); e != nil {
				msg := fmt.Sprint(e)
				if be, ok := e.(brokenErr); ok {
					msg = be.msg
				} else {
					stack := strings.Split(string(debug.Stack()), "\n")
					for _, l := range stack {
						if strings.Contains(l, "/jenlint/") && !strings.Contains(l, "main.go") {
							msg += " at " + strings.TrimSpace(l)
							break
						}
					}
				}
				out = []Obligation{{Rule: rule, Key: rule + " | <rule> | the rule could be applied to this tree", Status: Undecided, Nontrivial: true,
					Detail: "the rule could not be applied: " + msg}}
			}
		}()
		return r.Fn(c)
	}()
	sort.SliceStable(o, func(i, j int) bool { return o[i].Key < o[j].Key })
	// one obligation per key: keep the worst verdict
	rank := map[Status]int{Info: 0, Discharged: 1, Undecided: 2, Violated: 3}
	var dd []Obligation
	for _, x := range o {
		if n := len(dd); n > 0 && dd[n-1].Key == x.Key {
			if rank[x.Status] > rank[dd[n-1].Status] {
				dd[n-1] = x
			}
			continue
		}
		dd = append(dd, x)
	}
	o = dd
	n := 0
	for _, x := range o {
		if x.Status != Info {
			n++
		}
	}
	if m, ok := frozenMin[rule]; ok {
		r.Min = m
	}
	if n < r.Min {
		o = append(o, Obligation{Rule: rule, Key: rule + " | <vacuity> | instance count", Status: Undecided, Nontrivial: true,
			Detail: fmt.Sprintf("rule matched %d obligations, fewer than the %d confirmed by hand when the rule was frozen: an anchor was lost", n, r.Min)})
	}
	c.cache[rule] = o
	return o
}

func verifDir() string {
	if v := os.Getenv("JENLINT_VERIF"); v != "" {
		return v
	}
	exe, err := os.Executable()
	if err == nil {
		d := filepath.Dir(filepath.Dir(exe))
		if _, err := os.Stat(filepath.Join(d, "properties.jsonl")); err == nil {
			return d
		}
	}
	return "/verif"
}

func repoDir() string {
	if v := os.Getenv("JENLINT_REPO"); v != "" {
		return v
	}
	return "/repo"
}

func main() {
	os.Exit(realMain())
}

func realMain() (code int) {
	defer func() {
		if r := recover(); r != nil {
			if b, ok := r.(brokenErr); ok {
				fmt.Printf("BROKEN: %s\n", b.msg)
			} else {
				fmt.Printf("BROKEN: checker panic: %v\n%s\n", r, debug.Stack())
			}
			code = 2
		}
	}()
	if len(os.Args) < 2 {
		fmt.Println("usage: jenlint check <Cxx|all> [--tier quick|thorough] | explain <replay.json> | dump <what> | rules")
		return 2
	}
	switch os.Args[1] {
	case "check":
		return cmdCheck(os.Args[2:])
	case "explain":
		return cmdExplain(os.Args[2:])
	case "dump":
		return cmdDump(os.Args[2:])
	case "keys":
		return cmdKeys(os.Args[2:])
	case "rules":
		var names []string
		for n := range rules {
			names = append(names, n)
		}
		sort.Strings(names)
		for _, n := range names {
			fmt.Printf("%-22s min=%-4d %s\n", n, rules[n].Min, rules[n].Doc)
		}
		return 0
	}
	fmt.Println("unknown command", os.Args[1])
	return 2
}

func cmdCheck(args []string) int {
	tier := os.Getenv("VERIF_TIER")
	if tier == "" {
		tier = "quick"
	}
	var ids []string
	for i := 0; i < len(args); i++ {
		switch args[i] {
		case "--tier":
			i++
			tier = args[i]
		default:
			ids = append(ids, args[i])
		}
	}
	if tier != "quick" && tier != "thorough" {
		fmt.Println("bad tier", tier)
		return 2
	}
	if len(ids) == 1 && ids[0] == "all" {
		ids = nil
		for id := range properties {
			ids = append(ids, id)
		}
		sort.Strings(ids)
	}
	if len(ids) == 0 {
		fmt.Println("no property given")
		return 2
	}
	seed, _ := strconv.Atoi(os.Getenv("VERIF_SEED"))
	c := Load(repoDir(), tier, false)
	if tier == "thorough" {
		t := Load(repoDir(), tier, true)
		c.stats["test_variant_packages_typechecked"] = t.stats["test_variant_packages_typechecked"]
	}
	known := loadKnown(verifDir())
	rc := 0
	var extras map[string]interface{}
	if tier == "thorough" {
		extras = thoroughExtras(c)
		if m, ok := extras["vta_edges_missing_from_module_graph"].([]string); ok && len(m) > 0 {
			fmt.Printf("BROKEN: the module-local call graph misses %d edges that the whole-program VTA graph has (first: %s): reachability facts cannot be trusted\n", len(m), m[0])
			return 2
		}
	}
	c.extras = extras
	for _, id := range ids {
		p := properties[id]
		if p == nil {
			fmt.Println("unknown property", id)
			return 2
		}
		if r := checkProperty(c, p, tier, seed, known); r > rc {
			rc = r
		}
	}
	return rc
}

func checkProperty(c *Ctx, p *Property, tier string, seed int, known []KnownFinding) int {
	t0 := time.Now()
	var all []Obligation
	ruleNames := append([]string{}, p.Rules...)
	if tier == "thorough" {
		ruleNames = append(ruleNames, thoroughRules(p)...)
	}
	for i, spec := range ruleNames {
		// "RULE@text@!text": only obligations whose key contains text / does not contain !text
		parts := strings.Split(spec, "@")
		ruleNames[i] = parts[0]
		for _, ob := range c.run(parts[0]) {
			keep := true
			for _, f := range parts[1:] {
				if strings.HasPrefix(f, "!") {
					if strings.Contains(ob.Key, f[1:]) {
						keep = false
					}
				} else if !strings.Contains(ob.Key, f) && !strings.Contains(ob.Key, "<vacuity>") {
					keep = false
				}
			}
			if keep {
				all = append(all, ob)
			}
		}
	}
	// a rule may be listed more than once with different obligation filters: name it once
	{
		seen := map[string]bool{}
		uniq := ruleNames[:0]
		for _, r := range ruleNames {
			if !seen[r] {
				seen[r] = true
				uniq = append(uniq, r)
			}
		}
		ruleNames = uniq
	}
	vdir := verifDir()
	evdir := filepath.Join(vdir, "evidence")
	os.MkdirAll(filepath.Join(evdir, "replay"), 0o755)
	// clean stale replays for this property
	old, _ := filepath.Glob(filepath.Join(evdir, "replay", p.ID+"-*.json"))
	for _, f := range old {
		os.Remove(f)
	}
	nViol, nKnown, nDis, nObl, nNontriv := 0, 0, 0, 0, 0
	distinct := map[string]bool{}
	var samples []interface{}
	var knownHit []string
	perRule := map[string][2]int{}
	for _, o := range all {
		if o.Status == Info {
			continue
		}
		nObl++
		pr := perRule[o.Rule]
		pr[0]++
		if o.Nontrivial && !distinct[o.Key] {
			distinct[o.Key] = true
			nNontriv++
		}
		switch o.Status {
		case Discharged:
			nDis++
			pr[1]++
		case Violated, Undecided:
			matched := false
			for _, k := range known {
				if k.Property == p.ID && k.Status == "known" && k.matches(o.Key) {
					matched = true
					fmt.Printf("KNOWN-FINDING: property=%s %s [%s at %s]\n", p.ID, k.What, o.Key, o.Pos)
					knownHit = append(knownHit, o.Key)
					nKnown++
					break
				}
			}
			if !matched {
				nViol++
				rp := filepath.Join(evdir, "replay", fmt.Sprintf("%s-%d.json", p.ID, nViol))
				writeJSON(rp, map[string]interface{}{"property": p.ID, "obligation": o, "repo": c.Repo,
					"how_to_replay": "jenlint explain " + rp + " re-runs rule " + o.Rule + " on the current tree and prints this obligation's verdict"})
				fmt.Printf("%s: %s: %s — %s\n", o.Pos, o.Status, o.Key, o.Detail)
				fmt.Printf("VIOLATION property=%s replay=%s\n", p.ID, rp)
			}
		}
		perRule[o.Rule] = pr
	}
	// defects recorded from a demonstration that no rule decides: listed on every run
	recorded := []string{}
	for _, k := range known {
		if k.Property == p.ID && k.Status == "recorded" {
			fmt.Printf("KNOWN-FINDING: property=%s %s [recorded from a demonstration against the real code; not decided by a static rule: %s]\n", p.ID, k.What, k.NotDecided)
			recorded = append(recorded, k.What)
		}
	}
	// samples: a few obligations per rule, violated first
	sort.SliceStable(all, func(i, j int) bool {
		ri := all[i].Status == Violated || all[i].Status == Undecided
		rj := all[j].Status == Violated || all[j].Status == Undecided
		return ri && !rj
	})
	cnt := map[string]int{}
	for _, o := range all {
		if o.Status == Info {
			continue
		}
		if cnt[o.Rule] >= 4 && o.Status == Discharged {
			continue
		}
		cnt[o.Rule]++
		samples = append(samples, o)
		if len(samples) >= 60 {
			break
		}
	}
	var infos []string
	for _, o := range all {
		if o.Status == Info && len(infos) < 40 {
			infos = append(infos, o.Key+": "+o.Detail)
		}
	}
	ruleDocs := map[string]string{}
	ruleCounts := map[string]interface{}{}
	for _, r := range ruleNames {
		ruleDocs[r] = rules[r].Doc
		ruleCounts[r] = map[string]int{"obligations": perRule[r][0], "discharged": perRule[r][1], "frozen_minimum": rules[r].Min}
	}
	cg := c.CG()
	var selftest map[string]interface{}
	selfBroken := false
	if tier == "thorough" && nViol == 0 && os.Getenv("JENLINT_NO_SELFTEST") == "" {
		selftest, selfBroken = runSelftest(p.ID, c.Repo, true)
	}
	if infos == nil {
		infos = []string{}
	}
	if knownHit == nil {
		knownHit = []string{}
	}
	ev := Evidence{PropertyID: p.ID, Tier: tier, Seed: seed, Level: "other",
		Coverage: map[string]interface{}{
			"explanation":         p.Explanation,
			"not_decided":         p.NotDecided,
			"rule":                "obligations are enumerated from /repo's type-checked source (go/packages + go/ssa) by the rules below; an obligation is non-trivial if it required a guard, cut, order, provenance, table or mod-ref argument (not a bare count); distinct = distinct keys rule|function|construct",
			"rules_applied":       ruleDocs,
			"per_rule":            ruleCounts,
			"obligations":         nObl,
			"discharged":          nDis,
			"evaluations":         nObl,
			"distinct_nontrivial": nNontriv,
			"known_findings_hit":  knownHit,
			"recorded_findings":   recorded,
			"samples":             samples,
			"informational":       infos,
			"packages_analysed":   len(c.Pkgs),
			"functions_analysed":  len(cg.Funcs),
			"stats":               c.stats,
			"checker_cmd":         "bin/jenlint check " + p.ID + " --tier " + tier,
			"trusted_base":        p.Assumptions,
			"exhaustive":          false,
			"thorough_extras":     c.extras,
			"selftest":            selftest,
		},
		Assumptions: p.Assumptions,
		WallS:       time.Since(t0).Seconds() + time.Since(startTime).Seconds()*0,
		Violations:  nViol,
	}
	ev.WallS = time.Since(startTime).Seconds()
	writeJSON(filepath.Join(evdir, p.ID+".json"), ev)
	fmt.Printf("%s tier=%s obligations=%d discharged=%d known=%d violations=%d rules=%s\n", p.ID, tier, nObl, nDis, nKnown, nViol, strings.Join(ruleNames, ","))
	if nViol > 0 {
		return 1
	}
	if selfBroken {
		return 2
	}
	return 0
}

func thoroughRules(p *Property) []string { return thoroughExtra[p.ID] }

var thoroughExtra = map[string][]string{}

func cmdExplain(args []string) int {
	if len(args) < 1 {
		fmt.Println("usage: jenlint explain <replay.json>")
		return 2
	}
	b, err := os.ReadFile(args[0])
	if err != nil {
		fmt.Println(err)
		return 2
	}
	var r struct {
		Property   string     `json:"property"`
		Obligation Obligation `json:"obligation"`
	}
	if err := json.Unmarshal(b, &r); err != nil {
		fmt.Println(err)
		return 2
	}
	c := Load(repoDir(), "quick", false)
	found := false
	rc := 0
	for _, o := range c.run(r.Obligation.Rule) {
		if o.Key == r.Obligation.Key {
			found = true
			fmt.Printf("%s: %s: %s — %s\n", o.Pos, o.Status, o.Key, o.Detail)
			if o.Status == Violated || o.Status == Undecided {
				fmt.Printf("VIOLATION property=%s replay=%s\n", r.Property, args[0])
				rc = 1
			}
		}
	}
	if !found {
		fmt.Printf("obligation %q is no longer produced by rule %s on the current tree (recorded: %s)\n", r.Obligation.Key, r.Obligation.Rule, r.Obligation.Detail)
	}
	return rc
}

func cmdKeys(args []string) int {
	c := Load(repoDir(), "quick", false)
	var names []string
	for n := range rules {
		names = append(names, n)
	}
	sort.Strings(names)
	if len(args) > 0 {
		names = args
	}
	for _, n := range names {
		for _, o := range c.run(n) {
			fmt.Printf("%-10s %s  [%s] %s\n", o.Status, o.Key, o.Pos, o.Detail)
		}
	}
	return 0
}
