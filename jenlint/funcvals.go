package main

import (
	"go/token"
	"go/types"
	"sort"

	"golang.org/x/tools/go/ssa"
)

// Function values that never leave the module. A call through a value of function type is
// resolved, where possible, to the module functions the value can be: the value is traced back
// through parameters of functions whose every caller is known (unexported, address not taken),
// through the variables a function literal captures, through local variables and struct fields
// that are only ever assigned resolvable values. A value that may come from outside the module
// (a parameter of an exported function, a field of an exported struct, an interface method result)
// does not resolve; such a call stays "a call of a user's function value".

type callSite struct {
	caller *ssa.Function
	call   ssa.CallInstruction
}

type fvIndex struct {
	sites     map[*ssa.Function][]callSite        // static call sites per callee
	valueUse  map[*ssa.Function]bool              // function used as a value somewhere (other than being called or bound in place)
	instances map[*ssa.Function][]*ssa.Function   // generic origin -> instances
	fieldSt   map[string][]fieldStore             // "type.field" -> stores
	closures  map[*ssa.Function][]*ssa.MakeClosure // anonymous function -> the literals that make it
}

type fieldStore struct {
	in  *ssa.Function
	val ssa.Value
}

func (g *CallGraph) fvIdx() *fvIndex {
	if v, ok := g.c.extra("fvIndex"); ok {
		return v.(*fvIndex)
	}
	ix := &fvIndex{sites: map[*ssa.Function][]callSite{}, valueUse: map[*ssa.Function]bool{}, instances: map[*ssa.Function][]*ssa.Function{}, fieldSt: map[string][]fieldStore{}, closures: map[*ssa.Function][]*ssa.MakeClosure{}}
	g.c.setExtra("fvIndex", ix)
	for _, f := range g.Funcs {
		if o := f.Origin(); o != nil {
			ix.instances[o] = append(ix.instances[o], f)
		}
		for _, b := range f.Blocks {
			for _, in := range b.Instrs {
				var callee ssa.Value
				if ci, ok := in.(ssa.CallInstruction); ok {
					cc := ci.Common()
					if !cc.IsInvoke() {
						callee = cc.Value
						if sc := cc.StaticCallee(); sc != nil {
							ix.sites[sc] = append(ix.sites[sc], callSite{f, ci})
						}
					}
				}
				if mc, ok := in.(*ssa.MakeClosure); ok {
					if fn, ok := mc.Fn.(*ssa.Function); ok {
						ix.closures[fn] = append(ix.closures[fn], mc)
					}
				}
				if st, ok := in.(*ssa.Store); ok {
					if fa, ok := st.Addr.(*ssa.FieldAddr); ok {
						if _, isFn := st.Val.Type().Underlying().(*types.Signature); isFn {
							k := fieldOf(fa)
							ix.fieldSt[k] = append(ix.fieldSt[k], fieldStore{f, st.Val})
						}
					}
				}
				// operands that are functions, other than the callee position / the closure's own Fn
				for _, op := range in.Operands(nil) {
					if op == nil || *op == nil {
						continue
					}
					fn, ok := (*op).(*ssa.Function)
					if !ok {
						continue
					}
					if callee != nil && *op == callee {
						continue
					}
					if mc, ok := in.(*ssa.MakeClosure); ok && mc.Fn == fn {
						continue
					}
					ix.valueUse[fn] = true
				}
			}
		}
	}
	return ix
}

// allCallersKnown: every call of f is a static call inside the module.
func (g *CallGraph) allCallersKnown(f *ssa.Function) bool {
	ix := g.fvIdx()
	if f.Parent() != nil {
		return false
	}
	base := f
	if o := f.Origin(); o != nil {
		base = o
	}
	if isExportedName(base.Name()) && (base.Signature.Recv() == nil || isExportedName(recvTypeName(base))) {
		return false
	}
	// methods may be called through interfaces: only if no interface of the module or outside has it
	if base.Signature.Recv() != nil {
		if g.c.isCodeMethodName(base.Name()) {
			return false
		}
	}
	if ix.valueUse[f] || ix.valueUse[base] {
		return false
	}
	return true
}

func (c *Ctx) isCodeMethodName(n string) bool {
	return n == c.renderName() || n == c.nullName() || n == "Less" || n == "Swap" || n == "Len" || n == "Error" || n == "String" || n == "GoString" || n == "Write"
}

// resolveFuncValue: the module functions v (a value of function type in f) can denote.
func (g *CallGraph) resolveFuncValue(f *ssa.Function, v ssa.Value, depth int, busy map[ssa.Value]bool) ([]*ssa.Function, bool) {
	if depth > 6 || v == nil {
		return nil, false
	}
	if busy[v] {
		return nil, true // a cycle adds nothing new
	}
	busy[v] = true
	defer delete(busy, v)
	ix := g.fvIdx()
	union := func(parts ...[]*ssa.Function) []*ssa.Function {
		seen := map[*ssa.Function]bool{}
		var out []*ssa.Function
		for _, p := range parts {
			for _, x := range p {
				if !seen[x] {
					seen[x] = true
					out = append(out, x)
				}
			}
		}
		sort.Slice(out, func(i, j int) bool { return out[i].String() < out[j].String() })
		return out
	}
	switch x := v.(type) {
	case *ssa.Function:
		if !g.c.inModule(x) || x.Blocks == nil {
			return nil, false
		}
		return []*ssa.Function{x}, true
	case *ssa.MakeClosure:
		fn, ok := x.Fn.(*ssa.Function)
		if !ok || fn.Blocks == nil || !g.c.inModule(fn) {
			return nil, false
		}
		return []*ssa.Function{fn}, true
	case *ssa.ChangeType:
		return g.resolveFuncValue(f, x.X, depth+1, busy)
	case *ssa.Call:
		// the result of a module function that builds the function value (a predicate factory):
		// what its return statements return
		sc := x.Call.StaticCallee()
		if sc == nil || sc.Blocks == nil || !g.c.inModule(sc) || sc.Signature.Results().Len() != 1 {
			return nil, false
		}
		var acc []*ssa.Function
		n := 0
		for _, b := range sc.Blocks {
			if len(b.Instrs) == 0 {
				continue
			}
			if ret, ok := b.Instrs[len(b.Instrs)-1].(*ssa.Return); ok && len(ret.Results) == 1 {
				ts, ok := g.resolveFuncValue(sc, ret.Results[0], depth+1, busy)
				if !ok {
					return nil, false
				}
				acc = union(acc, ts)
				n++
			}
		}
		if n == 0 {
			return nil, false
		}
		return acc, true
	case *ssa.Phi:
		var acc []*ssa.Function
		for _, e := range x.Edges {
			if c, isC := e.(*ssa.Const); isC && c.IsNil() {
				continue
			}
			ts, ok := g.resolveFuncValue(f, e, depth+1, busy)
			if !ok {
				return nil, false
			}
			acc = union(acc, ts)
		}
		return acc, true
	case *ssa.Parameter:
		idx := -1
		for i, p := range f.Params {
			if p == x {
				idx = i
			}
		}
		if idx < 0 {
			return nil, false
		}
		// the function itself, or (for the generic body) each of its instances
		targets := []*ssa.Function{f}
		if len(ix.instances[f]) > 0 {
			targets = ix.instances[f]
		}
		var acc []*ssa.Function
		n := 0
		for _, t := range targets {
			if !g.allCallersKnown(t) {
				return nil, false
			}
			for _, cs := range ix.sites[t] {
				args := callArgs(cs.call.Common())
				if idx >= len(args) {
					return nil, false
				}
				ts, ok := g.resolveFuncValue(cs.caller, args[idx], depth+1, busy)
				if !ok {
					return nil, false
				}
				acc = union(acc, ts)
				n++
			}
		}
		if n == 0 {
			return nil, false
		}
		return acc, true
	case *ssa.FreeVar:
		idx := -1
		for i, p := range f.FreeVars {
			if p == x {
				idx = i
			}
		}
		mcs := ix.closures[f]
		if idx < 0 || len(mcs) == 0 || f.Parent() == nil {
			return nil, false
		}
		var acc []*ssa.Function
		for _, mc := range mcs {
			if idx >= len(mc.Bindings) {
				return nil, false
			}
			ts, ok := g.resolveFuncValue(mc.Parent(), mc.Bindings[idx], depth+1, busy)
			if !ok {
				return nil, false
			}
			acc = union(acc, ts)
		}
		return acc, true
	case *ssa.UnOp:
		if x.Op != token.MUL {
			return nil, false
		}
		switch a := x.X.(type) {
		case *ssa.Alloc:
			return g.resolveStoredInto(f, a, depth, busy)
		case *ssa.FreeVar:
			// a captured variable: the variable itself lives in the enclosing function
			idx := -1
			for i, p := range f.FreeVars {
				if p == a {
					idx = i
				}
			}
			mcs := ix.closures[f]
			if idx < 0 || len(mcs) == 0 {
				return nil, false
			}
			var acc []*ssa.Function
			for _, mc := range mcs {
				al, ok := mc.Bindings[idx].(*ssa.Alloc)
				if !ok {
					return nil, false
				}
				ts, ok := g.resolveStoredInto(mc.Parent(), al, depth, busy)
				if !ok {
					return nil, false
				}
				acc = union(acc, ts)
			}
			return acc, true
		case *ssa.FieldAddr:
			return g.resolveField(fieldOf(a), a, depth, busy)
		}
	case *ssa.Field:
		t := x.X.Type()
		k := types.TypeString(t, shortQual) + "." + fieldName(t, x.Field)
		return g.resolveField(k, nil, depth, busy)
	}
	return nil, false
}

// resolveStoredInto: every value stored into the local variable al (by its function or by literals
// capturing it) resolves.
func (g *CallGraph) resolveStoredInto(f *ssa.Function, al *ssa.Alloc, depth int, busy map[ssa.Value]bool) ([]*ssa.Function, bool) {
	var acc []*ssa.Function
	n := 0
	var visit func(refs []ssa.Instruction, in *ssa.Function) bool
	visit = func(refs []ssa.Instruction, in *ssa.Function) bool {
		for _, r := range refs {
			switch y := r.(type) {
			case *ssa.Store:
				if y.Addr != ssa.Value(al) {
					return false // the address itself is stored somewhere
				}
				if c, isC := y.Val.(*ssa.Const); isC && c.IsNil() {
					continue
				}
				ts, ok := g.resolveFuncValue(in, y.Val, depth+1, busy)
				if !ok {
					return false
				}
				acc = append(acc, ts...)
				n++
			case *ssa.UnOp, *ssa.DebugRef:
			case *ssa.MakeClosure:
				// captured: stores inside the literal count as well
				fn, _ := y.Fn.(*ssa.Function)
				if fn == nil {
					return false
				}
				for i, b := range y.Bindings {
					if b == ssa.Value(al) && i < len(fn.FreeVars) {
						if fr := fn.FreeVars[i].Referrers(); fr != nil {
							for _, rr := range *fr {
								if st, ok := rr.(*ssa.Store); ok {
									if st.Addr != ssa.Value(fn.FreeVars[i]) {
										return false
									}
									ts, ok := g.resolveFuncValue(fn, st.Val, depth+1, busy)
									if !ok {
										return false
									}
									acc = append(acc, ts...)
									n++
								}
							}
						}
					}
				}
			default:
				return false
			}
		}
		return true
	}
	if al.Referrers() == nil || !visit(*al.Referrers(), f) || n == 0 {
		return nil, false
	}
	seen := map[*ssa.Function]bool{}
	var out []*ssa.Function
	for _, x := range acc {
		if !seen[x] {
			seen[x] = true
			out = append(out, x)
		}
	}
	sort.Slice(out, func(i, j int) bool { return out[i].String() < out[j].String() })
	return out, true
}

// resolveField: every value stored into this field of an unexported struct type, anywhere in the
// module, resolves (an exported field of an exported type can be set by a user).
func (g *CallGraph) resolveField(key string, fa *ssa.FieldAddr, depth int, busy map[ssa.Value]bool) ([]*ssa.Function, bool) {
	ix := g.fvIdx()
	// key is "pkg.Type.field": both exported means settable from outside
	dot := -1
	for i := len(key) - 1; i >= 0; i-- {
		if key[i] == '.' {
			dot = i
			break
		}
	}
	if dot < 0 {
		return nil, false
	}
	field := key[dot+1:]
	tn := key[:dot]
	tshort := tn
	for i := len(tn) - 1; i >= 0; i-- {
		if tn[i] == '.' {
			tshort = tn[i+1:]
			break
		}
	}
	if isExportedName(field) && isExportedName(tshort) {
		return nil, false
	}
	sts := ix.fieldSt[key]
	if len(sts) == 0 {
		return nil, false
	}
	var acc []*ssa.Function
	seen := map[*ssa.Function]bool{}
	for _, st := range sts {
		if c, isC := st.val.(*ssa.Const); isC && c.IsNil() {
			continue
		}
		ts, ok := g.resolveFuncValue(st.in, st.val, depth+1, busy)
		if !ok {
			return nil, false
		}
		for _, x := range ts {
			if !seen[x] {
				seen[x] = true
				acc = append(acc, x)
			}
		}
	}
	sort.Slice(acc, func(i, j int) bool { return acc[i].String() < acc[j].String() })
	return acc, len(acc) > 0
}

// unwrapBound: a bound-method or method-expression wrapper delegates to one method.
func unwrapWrapper(fn *ssa.Function) *ssa.Function {
	if fn == nil || fn.Synthetic == "" || fn.Blocks == nil {
		return fn
	}
	var callee *ssa.Function
	n := 0
	for _, b := range fn.Blocks {
		for _, in := range b.Instrs {
			if ci, ok := in.(ssa.CallInstruction); ok {
				n++
				callee = ci.Common().StaticCallee()
			}
		}
	}
	if n == 1 && callee != nil {
		return callee
	}
	return fn
}
