package main

import (
	"go/ast"
	"go/token"
	"go/types"

	"golang.org/x/tools/go/ssa"
)

// Read-only tables: a package-level variable of jen that is initialised by a composite literal of
// constants (arrays, slices, maps with constant keys, structs, nested) and never stored to outside
// the package initialiser is, for the path engine, the value its initialiser denotes. Lookups with a
// key / index that is constant on the path fold to the entry.

// globalConst returns the term of the read-only table name, or nil.
func (c *Ctx) globalConst(name string) *T {
	key := "globalConst:" + name
	if v, ok := c.extra(key); ok {
		t, _ := v.(*T)
		return t
	}
	var out *T
	defer func() { c.setExtra(key, out) }()
	if c.JenP == nil || c.Jen == nil {
		return nil
	}
	g, ok := c.Jen.Members[name].(*ssa.Global)
	if !ok || !c.globalNeverStored(g) {
		return nil
	}
	e, _ := varInit(c.JenP, name)
	if e == nil {
		return nil
	}
	out = c.constExprTerm(e, 0)
	if out != nil && out.Op == "constmap" {
		out.Aux = name // prints as the variable it is, when a lookup does not fold
	}
	return out
}

// globalNeverStored: outside the package initialiser nothing stores to the variable, to an element
// or field reached from it, or lets its address escape into a call.
func (c *Ctx) globalNeverStored(g *ssa.Global) bool {
	refs := g.Referrers()
	if refs == nil {
		// globals have no referrer lists: scan the package
		for _, f := range c.allFuncs(c.Jen) {
			if f.Name() == "init" && f.Parent() == nil {
				continue
			}
			for _, b := range f.Blocks {
				for _, in := range b.Instrs {
					if !c.instrOnlyReads(in, g) {
						return false
					}
				}
			}
		}
	}
	return true
}

// instrOnlyReads: instruction in does not write through (or leak) an address derived from g.
func (c *Ctx) instrOnlyReads(in ssa.Instruction, g *ssa.Global) bool {
	var derived func(v ssa.Value, depth int) bool
	derived = func(v ssa.Value, depth int) bool {
		if depth > 6 || v == nil {
			return false
		}
		switch x := v.(type) {
		case *ssa.Global:
			return x == g
		case *ssa.FieldAddr:
			return derived(x.X, depth+1)
		case *ssa.IndexAddr:
			return derived(x.X, depth+1)
		case *ssa.UnOp:
			// a loaded slice / map / pointer value of the table still designates its storage
			if x.Op == token.MUL {
				return derived(x.X, depth+1)
			}
		case *ssa.Slice:
			return derived(x.X, depth+1)
		}
		return false
	}
	switch x := in.(type) {
	case *ssa.Store:
		return !derived(x.Addr, 0)
	case *ssa.MapUpdate:
		return !derived(x.Map, 0)
	case ssa.CallInstruction:
		for _, a := range x.Common().Args {
			if derived(a, 0) {
				// handing the table (a slice / map / pointer into it) to a callee: only reading builtins
				if bi, ok := x.Common().Value.(*ssa.Builtin); ok && (bi.Name() == "len" || bi.Name() == "cap") {
					continue
				}
				if _, isPtr := a.Type().Underlying().(*types.Pointer); isPtr {
					return false
				}
				switch a.Type().Underlying().(type) {
				case *types.Slice, *types.Map:
					return false
				}
			}
		}
	}
	return true
}

// constExprTerm evaluates an initialiser expression made of constants and composite literals.
func (c *Ctx) constExprTerm(e ast.Expr, depth int) *T {
	if depth > 6 {
		return nil
	}
	info := c.JenP.TypesInfo
	e = ast.Unparen(e)
	tv, ok := info.Types[e]
	if !ok {
		return nil
	}
	if tv.Value != nil {
		return &T{Op: "const", C: tv.Value, Typ: tv.Type}
	}
	if tv.IsNil() {
		return &T{Op: "const", Nil: true, Typ: tv.Type}
	}
	switch x := e.(type) {
	case *ast.CompositeLit:
		switch u := tv.Type.Underlying().(type) {
		case *types.Struct:
			t := &T{Op: "struct", Fields: map[string]*T{}, Typ: tv.Type, Aux: typeName(tv.Type)}
			for i := 0; i < u.NumFields(); i++ {
				t.Fields[u.Field(i).Name()] = zeroTerm(u.Field(i).Type())
			}
			for i, el := range x.Elts {
				if kv, ok := el.(*ast.KeyValueExpr); ok {
					id, ok := kv.Key.(*ast.Ident)
					if !ok {
						return nil
					}
					v := c.constExprTerm(kv.Value, depth+1)
					if v == nil {
						return nil
					}
					t.Fields[id.Name] = v
					continue
				}
				if i >= u.NumFields() {
					return nil
				}
				v := c.constExprTerm(el, depth+1)
				if v == nil {
					return nil
				}
				t.Fields[u.Field(i).Name()] = v
			}
			return t
		case *types.Array, *types.Slice:
			var elemT types.Type
			n := int64(-1)
			if a, ok := u.(*types.Array); ok {
				elemT, n = a.Elem(), a.Len()
			} else {
				elemT = u.(*types.Slice).Elem()
			}
			vals := map[int64]*T{}
			next, max := int64(0), int64(-1)
			for _, el := range x.Elts {
				ve := el
				if kv, ok := el.(*ast.KeyValueExpr); ok {
					ktv, ok := info.Types[kv.Key]
					if !ok || ktv.Value == nil {
						return nil
					}
					k, exact := constantInt64(ktv)
					if !exact {
						return nil
					}
					next, ve = k, kv.Value
				}
				v := c.constExprTermTyped(ve, elemT, depth+1)
				if v == nil {
					return nil
				}
				vals[next] = v
				if next > max {
					max = next
				}
				next++
			}
			if n < 0 {
				n = max + 1
			}
			if n > 4096 {
				return nil
			}
			t := &T{Op: "elems", HasEl: true, Typ: tv.Type}
			for i := int64(0); i < n; i++ {
				if v, ok := vals[i]; ok {
					t.Elems = append(t.Elems, v)
				} else {
					t.Elems = append(t.Elems, zeroTerm(elemT))
				}
			}
			return t
		case *types.Map:
			t := &T{Op: "constmap", HasEl: true, Typ: tv.Type}
			for _, el := range x.Elts {
				kv, ok := el.(*ast.KeyValueExpr)
				if !ok {
					return nil
				}
				k := c.constExprTerm(kv.Key, depth+1)
				v := c.constExprTermTyped(kv.Value, u.Elem(), depth+1)
				if k == nil || v == nil {
					return nil
				}
				t.Elems = append(t.Elems, k, v)
			}
			return t
		}
	case *ast.CallExpr:
		// reflect.TypeOf(expr): the static type of the operand (a table keyed by dynamic type)
		if se, ok := x.Fun.(*ast.SelectorExpr); ok && se.Sel.Name == "TypeOf" && len(x.Args) == 1 {
			if id, ok := se.X.(*ast.Ident); ok {
				if pn, ok := info.Uses[id].(*types.PkgName); ok && pn.Imported().Path() == "reflect" {
					if atv, ok := info.Types[x.Args[0]]; ok && atv.Type != nil && !types.IsInterface(atv.Type) {
						return &T{Op: "typeconst", Aux: typeName(types.Default(atv.Type)), Typ: tv.Type}
					}
				}
			}
		}
	case *ast.Ident:
		// another read-only table
		if v, ok := info.Uses[x].(*types.Var); ok && v.Pkg() == c.JenP.Types && v.Parent() == c.JenP.Types.Scope() {
			return c.globalConst(v.Name())
		}
	}
	return nil
}

// constExprTermTyped: like constExprTerm; an element composite literal may omit its type.
func (c *Ctx) constExprTermTyped(e ast.Expr, want types.Type, depth int) *T {
	return c.constExprTerm(e, depth)
}

func constantInt64(tv types.TypeAndValue) (int64, bool) {
	if tv.Value == nil {
		return 0, false
	}
	t := &T{Op: "const", C: tv.Value}
	return t.intVal()
}
