package main

import (
	"go/ast"
	"go/token"
	"go/types"
	"strconv"
	"strings"

	"golang.org/x/tools/go/ssa"
)

// Read-only tables: a package-level variable of jen that is initialised by a composite literal of
// constants (arrays, slices, maps with constant keys, structs, nested) and never stored to outside
// the package initialiser is, for the path engine, the value its initialiser denotes. Lookups with a
// key / index that is constant on the path fold to the entry.

// globalConst returns the term of the read-only table name, or nil.
func (c *Ctx) globalConst(name string) *T {
	key := "globalConst:" + name
	if v, ok := c.extra(key); ok {
		t, _ := v.(*T)
		return t
	}
	var out *T
	defer func() { c.setExtra(key, out) }()
	if c.JenP == nil || c.Jen == nil {
		return nil
	}
	g, ok := c.Jen.Members[name].(*ssa.Global)
	if !ok || !c.globalNeverStored(g) {
		return nil
	}
	e, _ := varInit(c.JenP, name)
	if e == nil {
		return nil
	}
	out = c.constExprTerm(e, 0)
	if out != nil && out.Op == "constmap" {
		out.Aux = name // prints as the variable it is, when a lookup does not fold
	}
	return out
}

// globalNeverStored: outside the package initialiser nothing stores to the variable, to an element
// or field reached from it, or lets its address escape into a call.
func (c *Ctx) globalNeverStored(g *ssa.Global) bool {
	refs := g.Referrers()
	if refs == nil {
		// globals have no referrer lists: scan the package
		for _, f := range c.allFuncs(c.Jen) {
			if f.Name() == "init" && f.Parent() == nil {
				continue
			}
			for _, b := range f.Blocks {
				for _, in := range b.Instrs {
					if !c.instrOnlyReads(in, g) {
						return false
					}
				}
			}
		}
	}
	return true
}

// instrOnlyReads: instruction in does not write through (or leak) an address derived from g.
func (c *Ctx) instrOnlyReads(in ssa.Instruction, g *ssa.Global) bool {
	var derived func(v ssa.Value, depth int) bool
	derived = func(v ssa.Value, depth int) bool {
		if depth > 6 || v == nil {
			return false
		}
		switch x := v.(type) {
		case *ssa.Global:
			return x == g
		case *ssa.FieldAddr:
			return derived(x.X, depth+1)
		case *ssa.IndexAddr:
			return derived(x.X, depth+1)
		case *ssa.UnOp:
			// a loaded slice / map / pointer value of the table still designates its storage
			if x.Op == token.MUL {
				return derived(x.X, depth+1)
			}
		case *ssa.Slice:
			return derived(x.X, depth+1)
		}
		return false
	}
	switch x := in.(type) {
	case *ssa.Store:
		return !derived(x.Addr, 0)
	case *ssa.MapUpdate:
		return !derived(x.Map, 0)
	case ssa.CallInstruction:
		for _, a := range x.Common().Args {
			if derived(a, 0) {
				// handing the table (a slice / map / pointer into it) to a callee: only reading builtins
				if bi, ok := x.Common().Value.(*ssa.Builtin); ok && (bi.Name() == "len" || bi.Name() == "cap") {
					continue
				}
				// a module function that neither stores through that parameter nor lets it escape, or a
				// pure library routine, may look at the table
				if sc := x.Common().StaticCallee(); sc != nil {
					if c.inModule(sc) && sc.Blocks != nil {
						if c.paramOnlyRead(sc, a, x.Common()) {
							continue
						}
					} else if pxPureCallee(sc) || pureExternal[sc.String()] || readOnlyStd(sc) {
						continue
					}
				}
				if _, isPtr := a.Type().Underlying().(*types.Pointer); isPtr {
					return false
				}
				switch a.Type().Underlying().(type) {
				case *types.Slice, *types.Map:
					return false
				}
			}
		}
	}
	return true
}

// constExprTerm evaluates an initialiser expression made of constants and composite literals.
func (c *Ctx) constExprTerm(e ast.Expr, depth int) *T {
	if depth > 6 {
		return nil
	}
	info := c.JenP.TypesInfo
	e = ast.Unparen(e)
	tv, ok := info.Types[e]
	if !ok {
		return nil
	}
	if tv.Value != nil {
		return &T{Op: "const", C: tv.Value, Typ: tv.Type}
	}
	if tv.IsNil() {
		return &T{Op: "const", Nil: true, Typ: tv.Type}
	}
	switch x := e.(type) {
	case *ast.CompositeLit:
		switch u := tv.Type.Underlying().(type) {
		case *types.Struct:
			t := &T{Op: "struct", Fields: map[string]*T{}, Typ: tv.Type, Aux: typeName(tv.Type)}
			for i := 0; i < u.NumFields(); i++ {
				t.Fields[u.Field(i).Name()] = zeroTerm(u.Field(i).Type())
			}
			for i, el := range x.Elts {
				if kv, ok := el.(*ast.KeyValueExpr); ok {
					id, ok := kv.Key.(*ast.Ident)
					if !ok {
						return nil
					}
					v := c.constExprTerm(kv.Value, depth+1)
					if v == nil {
						return nil
					}
					t.Fields[id.Name] = v
					continue
				}
				if i >= u.NumFields() {
					return nil
				}
				v := c.constExprTerm(el, depth+1)
				if v == nil {
					return nil
				}
				t.Fields[u.Field(i).Name()] = v
			}
			return t
		case *types.Array, *types.Slice:
			var elemT types.Type
			n := int64(-1)
			if a, ok := u.(*types.Array); ok {
				elemT, n = a.Elem(), a.Len()
			} else {
				elemT = u.(*types.Slice).Elem()
			}
			vals := map[int64]*T{}
			next, max := int64(0), int64(-1)
			for _, el := range x.Elts {
				ve := el
				if kv, ok := el.(*ast.KeyValueExpr); ok {
					ktv, ok := info.Types[kv.Key]
					if !ok || ktv.Value == nil {
						return nil
					}
					k, exact := constantInt64(ktv)
					if !exact {
						return nil
					}
					next, ve = k, kv.Value
				}
				v := c.constExprTermTyped(ve, elemT, depth+1)
				if v == nil {
					return nil
				}
				vals[next] = v
				if next > max {
					max = next
				}
				next++
			}
			if n < 0 {
				n = max + 1
			}
			if n > 4096 {
				return nil
			}
			t := &T{Op: "elems", HasEl: true, Typ: tv.Type}
			for i := int64(0); i < n; i++ {
				if v, ok := vals[i]; ok {
					t.Elems = append(t.Elems, v)
				} else {
					t.Elems = append(t.Elems, zeroTerm(elemT))
				}
			}
			return t
		case *types.Map:
			t := &T{Op: "constmap", HasEl: true, Typ: tv.Type}
			for _, el := range x.Elts {
				kv, ok := el.(*ast.KeyValueExpr)
				if !ok {
					return nil
				}
				k := c.constExprTerm(kv.Key, depth+1)
				v := c.constExprTermTyped(kv.Value, u.Elem(), depth+1)
				if k == nil || v == nil {
					return nil
				}
				t.Elems = append(t.Elems, k, v)
			}
			return t
		}
	case *ast.CallExpr:
		// a constructor of the module applied to constants (a set type built from a word list): the
		// value it returns on its single, effect-free path
		if t := c.constCallTerm(x, depth); t != nil {
			return t
		}
		// errors.New("…") / fmt.Errorf("…") on constants: a sentinel error — a non-nil value with that text
		if se, ok := x.Fun.(*ast.SelectorExpr); ok && (se.Sel.Name == "New" || se.Sel.Name == "Errorf") && len(x.Args) >= 1 {
			if id, ok := se.X.(*ast.Ident); ok {
				if pn, ok := info.Uses[id].(*types.PkgName); ok && ((pn.Imported().Path() == "errors" && se.Sel.Name == "New") || (pn.Imported().Path() == "fmt" && se.Sel.Name == "Errorf")) {
					var args []*T
					for _, a := range x.Args {
						at := c.constExprTerm(a, depth+1)
						if at == nil || !at.isConst() {
							args = nil
							break
						}
						args = append(args, at)
					}
					if args != nil {
						return &T{Op: "call", Aux: pn.Imported().Path() + "." + se.Sel.Name, A: args, Typ: tv.Type}
					}
				}
			}
		}
		// reflect.TypeOf(expr): the static type of the operand (a table keyed by dynamic type)
		if se, ok := x.Fun.(*ast.SelectorExpr); ok && se.Sel.Name == "TypeOf" && len(x.Args) == 1 {
			if id, ok := se.X.(*ast.Ident); ok {
				if pn, ok := info.Uses[id].(*types.PkgName); ok && pn.Imported().Path() == "reflect" {
					if atv, ok := info.Types[x.Args[0]]; ok && atv.Type != nil && !types.IsInterface(atv.Type) {
						return &T{Op: "typeconst", Aux: typeName(types.Default(atv.Type)), Typ: tv.Type}
					}
				}
			}
		}
	case *ast.Ident:
		// another read-only table
		if v, ok := info.Uses[x].(*types.Var); ok && v.Pkg() == c.JenP.Types && v.Parent() == c.JenP.Types.Scope() {
			return c.globalConst(v.Name())
		}
	}
	return nil
}

// constExprTermTyped: like constExprTerm; an element composite literal may omit its type.
func (c *Ctx) constExprTermTyped(e ast.Expr, want types.Type, depth int) *T {
	return c.constExprTerm(e, depth)
}

func constantInt64(tv types.TypeAndValue) (int64, bool) {
	if tv.Value == nil {
		return 0, false
	}
	t := &T{Op: "const", C: tv.Value}
	return t.intVal()
}

// paramOnlyRead: the module callee has no store-like effect rooted at the parameter the argument
// is bound to, and does not return it.
func (c *Ctx) paramOnlyRead(callee *ssa.Function, arg ssa.Value, cc *ssa.CallCommon) bool {
	idx := -1
	for i, a := range callArgs(cc) {
		if a == arg {
			idx = i
		}
	}
	sum := c.CG().Sum[callee]
	if idx < 0 || sum == nil {
		return false
	}
	for _, ef := range sum.Effects {
		if ef.Root.Kind == "param" && ef.Root.Idx == idx {
			switch ef.Kind {
			case "store", "mapupdate", "extmut", "appendto":
				return false
			}
		}
	}
	for r := range sum.Returns {
		if r.Kind == "param" && r.Idx == idx {
			return false
		}
	}
	return true
}

// constCallTerm: call is f(constants…) with f a function of the module: if f, evaluated on those
// arguments, has exactly one path, which returns normally and has no effect, the value returned —
// with the maps and slices it made on the way frozen into tables.
func (c *Ctx) constCallTerm(call *ast.CallExpr, depth int) *T {
	info := c.JenP.TypesInfo
	var obj types.Object
	switch fx := ast.Unparen(call.Fun).(type) {
	case *ast.Ident:
		obj = info.Uses[fx]
	case *ast.SelectorExpr:
		obj = info.Uses[fx.Sel]
	}
	fo, ok := obj.(*types.Func)
	if !ok || fo.Pkg() == nil || !strings.HasPrefix(fo.Pkg().Path(), modulePath) {
		return nil
	}
	sig := fo.Type().(*types.Signature)
	if sig.Recv() != nil || sig.TypeParams().Len() > 0 {
		return nil
	}
	fn := c.Prog.FuncValue(fo)
	if fn == nil || fn.Blocks == nil {
		return nil
	}
	var args []*T
	np := sig.Params().Len()
	for i, a := range call.Args {
		if sig.Variadic() && i >= np-1 {
			break
		}
		t := c.constExprTerm(a, depth+1)
		if t == nil {
			return nil
		}
		args = append(args, t)
	}
	if sig.Variadic() {
		if call.Ellipsis.IsValid() {
			return nil
		}
		va := &T{Op: "elems", HasEl: true, Typ: sig.Params().At(np - 1).Type()}
		for i := np - 1; i < len(call.Args); i++ {
			t := c.constExprTerm(call.Args[i], depth+1)
			if t == nil {
				return nil
			}
			va.Elems = append(va.Elems, t)
		}
		args = append(args, va)
	}
	if len(args) != np {
		return nil
	}
	paths, trunc := c.Paths(fn, PXConfig{Args: args, MaxDetermined: 8192, MaxDepth: 4, MaxPaths: 4})
	if trunc || len(paths) != 1 {
		return nil
	}
	p := paths[0]
	if p.End != "return" || len(p.Ret) != 1 {
		return nil
	}
	for _, e := range p.Events {
		switch e.Kind {
		case "store", "mapupdate":
			// stores into what the path itself made are how the value is built
			if e.Recv == nil || !(e.Recv.Op == "make" || e.Recv.Op == "alloc" || e.Recv.Op == "faddr" || e.Recv.Op == "iaddr") {
				return nil
			}
		default:
			return nil
		}
	}
	return freezeTerm(p, p.Ret[0], 0)
}

// freezeTerm: a value built on path p as a standalone constant (maps made on the path become tables).
func freezeTerm(p *PXPath, t *T, depth int) *T {
	if t == nil || depth > 6 {
		return nil
	}
	switch {
	case t.isConst() || t.Op == "typeconst" || t.Op == "constmap":
		return t
	case t.Op == "struct":
		out := &T{Op: "struct", Fields: map[string]*T{}, Typ: t.Typ, Aux: t.Aux}
		for k, v := range t.Fields {
			fv := freezeTerm(p, v, depth+1)
			if fv == nil {
				return nil
			}
			out.Fields[k] = fv
		}
		return out
	case t.Op == "elems" && t.HasEl:
		out := &T{Op: "elems", HasEl: true, Typ: t.Typ}
		for _, e := range t.Elems {
			fe := freezeTerm(p, e, depth+1)
			if fe == nil {
				return nil
			}
			out.Elems = append(out.Elems, fe)
		}
		return out
	case t.Op == "make" && isMapType(t.Typ):
		out := &T{Op: "constmap", HasEl: true, Typ: t.Typ}
		pre := "m" + strconv.Itoa(t.Inst) + "#"
		n := 0
		if v, ok := p.Mem[pre+"n"]; ok {
			x, _ := v.intVal()
			n = int(x)
		}
		for i := 0; i < n; i++ {
			k, ok := p.Mem[pre+strconv.Itoa(i)+"k"]
			if !ok {
				continue
			}
			fk, fv := freezeTerm(p, k, depth+1), freezeTerm(p, p.Mem[pre+strconv.Itoa(i)+"v"], depth+1)
			if fk == nil || fv == nil {
				return nil
			}
			out.Elems = append(out.Elems, fk, fv)
		}
		return out
	}
	return nil
}

// globalFieldConst: field fld of the package-level variable name (a struct, or a pointer to a struct
// built by &T{…}) holds, for the whole run, the constant its initialiser gives it: no function of
// the package stores to that field of that struct type outside the package initialiser.
func (c *Ctx) globalFieldConst(name, fld string) *T {
	key := "globalFieldConst:" + name + "." + fld
	if v, ok := c.extra(key); ok {
		t, _ := v.(*T)
		return t
	}
	var out *T
	defer func() { c.setExtra(key, out) }()
	if c.JenP == nil || c.Jen == nil {
		return nil
	}
	g, ok := c.Jen.Members[name].(*ssa.Global)
	if !ok {
		return nil
	}
	e, _ := varInit(c.JenP, name)
	if e == nil {
		return nil
	}
	e = ast.Unparen(e)
	if u, ok := e.(*ast.UnaryExpr); ok && u.Op == token.AND {
		e = ast.Unparen(u.X)
	}
	cl, ok := e.(*ast.CompositeLit)
	if !ok {
		return nil
	}
	tv, ok := c.JenP.TypesInfo.Types[cl]
	if !ok {
		return nil
	}
	st, ok := tv.Type.Underlying().(*types.Struct)
	if !ok {
		return nil
	}
	// the variable itself is never re-assigned, and nobody stores to that field of that type
	want := types.TypeString(tv.Type, shortQual) + "." + fld
	for _, f := range c.allFuncs(c.Jen) {
		if f.Name() == "init" && f.Parent() == nil {
			continue
		}
		for _, b := range f.Blocks {
			for _, in := range b.Instrs {
				s, ok := in.(*ssa.Store)
				if !ok {
					continue
				}
				if s.Addr == ssa.Value(g) {
					return nil
				}
				if fa, ok := s.Addr.(*ssa.FieldAddr); ok && fieldKey(fa) == want {
					return nil
				}
			}
		}
	}
	var val ast.Expr
	for i, el := range cl.Elts {
		if kv, ok := el.(*ast.KeyValueExpr); ok {
			if id, ok := kv.Key.(*ast.Ident); ok && id.Name == fld {
				val = kv.Value
			}
		} else if i < st.NumFields() && st.Field(i).Name() == fld {
			val = el
		}
	}
	if val == nil {
		// not mentioned: the zero value
		for i := 0; i < st.NumFields(); i++ {
			if st.Field(i).Name() == fld {
				out = zeroTerm(st.Field(i).Type())
			}
		}
		if out != nil && !out.isConst() {
			out = nil
		}
		return out
	}
	out = c.constExprTerm(val, 0)
	if out != nil && !out.isConst() {
		out = nil
	}
	return out
}
