package main

import (
	"strings"

	"golang.org/x/tools/go/ssa"
)

func init() {
	register("T-LITFMT", "literal tokens: the 17 documented types are each formatted by a routine of the right class (bare only for the default type of its constant kind, otherwise wrapped in a conversion; strings / runes / bytes only through Go-syntax quoting), the argument is the token's content and the result reaches the writer unmodified; a float64 gets \".0\" appended exactly when its text has neither '.' nor 'e'", 20, func(c *Ctx) []Obligation { return rulePXTokenRender(c, "T-LITFMT") })
	register("P-TOKEN", "non-literal tokens: keyword / operator / layout / delimiter tokens write their text, followed by ':' exactly for `default`; identifiers write their name; a package token writes exactly what the registration function returns for its path", 6, func(c *Ctx) []Obligation { return rulePXTokenRender(c, "P-TOKEN") })
	register("P-LITCTOR", "literal constructors store their parameter (or the callback's result) unmodified as the token content, with the matching token type", 6, rulePXLitCtor)
}

// parseFormat splits a format string into literal segments and verbs.
func parseFormat(f string) (lits []string, verbs []string) {
	cur := ""
	for i := 0; i < len(f); i++ {
		if f[i] != '%' {
			cur += string(f[i])
			continue
		}
		j := i + 1
		for j < len(f) && strings.ContainsRune("+-# 0123456789.*[]", rune(f[j])) {
			j++
		}
		if j >= len(f) {
			cur += f[i:]
			break
		}
		if f[j] == '%' {
			cur += "%"
			i = j
			continue
		}
		lits = append(lits, cur)
		cur = ""
		verbs = append(verbs, f[i+1:j+1])
		i = j
	}
	lits = append(lits, cur)
	return
}

type producer struct {
	kind    string // "sprintf" | "quoterune" | "quote" | "direct" | "register" | "other"
	format  string
	args    []ssa.Value
	suffix  string
	base    ssa.Value // the formatter call's value (for the float guard)
	callee  string
	argDesc []string
}

var defaultTypes = map[string]bool{"bool": true, "string": true, "int": true, "float64": true, "complex128": true}
var documentedLitTypes = []string{"bool", "string", "int", "complex128", "float64", "float32", "int8", "int16", "int32", "int64", "uint", "uint8", "uint16", "uint32", "uint64", "uintptr", "complex64"}

func valueVerbOK(typ, verb string) bool {
	switch typ {
	case "bool":
		return verb == "v" || verb == "#v" || verb == "t"
	case "string":
		return verb == "#v" || verb == "q" || verb == "+q" || verb == "#q"
	case "int", "int8", "int16", "int32", "int64", "uint", "uint8", "uint16", "uint32", "uint64", "uintptr":
		return verb == "v" || verb == "#v" || verb == "d" || verb == "#x"
	case "float32", "float64", "complex64", "complex128":
		return verb == "v" || verb == "#v" || verb == "g"
	}
	return false
}

// floatGuard classifies a way: does it establish that the text has no '.' and no 'e' (intLike), or
// that it has one of them (notIntLike)?
func floatGuard(w Facts, textDesc string) (intLike, notIntLike bool, unknown []string) {
	noDot, noE := false, false
	for atom, pol := range w {
		if !strings.Contains(atom, textDesc) {
			continue
		}
		// the bytes package has the same predicates on the text held as []byte
		if strings.HasPrefix(atom, "bytes.") {
			atom = "strings." + strings.TrimPrefix(atom, "bytes.")
		}
		switch {
		case strings.HasPrefix(atom, "strings.Contains("+textDesc+", "):
			needle := strings.TrimSuffix(strings.TrimPrefix(atom, "strings.Contains("+textDesc+", "), ")")
			switch needle {
			case `"."`:
				if pol {
					notIntLike = true
				} else {
					noDot = true
				}
			case `"e"`:
				if pol {
					notIntLike = true
				} else {
					noE = true
				}
			default:
				unknown = append(unknown, atom)
			}
		case strings.HasPrefix(atom, "strings.ContainsAny("+textDesc+", "):
			chars := strings.TrimSuffix(strings.TrimPrefix(atom, "strings.ContainsAny("+textDesc+", "), ")")
			covers := strings.Contains(chars, ".") && strings.Contains(chars, "e") && !strings.ContainsAny(strings.Trim(chars, `"`), "0123456789-+")
			if !covers {
				unknown = append(unknown, atom)
			} else if pol {
				notIntLike = true
			} else {
				noDot, noE = true, true
			}
		case strings.HasPrefix(atom, "strings.Contains") || strings.HasPrefix(atom, "strings.Index") || strings.HasPrefix(atom, "strings.Has"):
			unknown = append(unknown, atom)
		}
	}
	// the same tests written as index searches: IndexByte(text, '.') < 0 and the like
	for _, nd := range []byte{'.', 'e'} {
		if v, known := knownContains(w, textDesc, nd); known {
			if v {
				notIntLike = true
			} else if nd == '.' {
				noDot = true
			} else {
				noE = true
			}
		}
	}
	for atom := range w {
		if !strings.Contains(atom, textDesc) {
			continue
		}
		for _, pre := range []string{"lt(strings.Index", "lt(bytes.Index", "lt(-1,strings.Index", "lt(-1,bytes.Index", "eq(-1,strings.Index", "eq(-1,bytes.Index"} {
			if strings.HasPrefix(atom, pre) {
				okNeedle := false
				for _, nd := range []string{", 46)", ", 101)", `, ".")`, `, "e")`} {
					if strings.Contains(atom, textDesc+nd) {
						okNeedle = true
					}
				}
				if !okNeedle {
					unknown = append(unknown, atom)
				}
			}
		}
	}
	intLike = noDot && noE
	return
}
