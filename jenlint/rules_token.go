package main

import (
	"fmt"
	"go/token"
	"go/types"
	"sort"
	"strings"

	"golang.org/x/tools/go/ssa"
)

func init() {
	register("T-LITFMT", "literal tokens: the 17 documented types are each formatted by a routine of the right class (bare only for the default type of its constant kind, otherwise wrapped in a conversion; strings / runes / bytes only through Go-syntax quoting), the argument is the token's content and the result reaches the writer unmodified; a float64 gets \".0\" appended exactly when its text has neither '.' nor 'e'", 20, func(c *Ctx) []Obligation { return rulePXTokenRender(c, "T-LITFMT") })
	register("P-TOKEN", "non-literal tokens: keyword / operator / layout / delimiter tokens write their text, followed by ':' exactly for `default`; identifiers write their name; a package token writes exactly what the registration function returns for its path", 6, func(c *Ctx) []Obligation { return rulePXTokenRender(c, "P-TOKEN") })
	register("P-LITCTOR", "literal constructors store their parameter (or the callback's result) unmodified as the token content, with the matching token type", 6, rulePXLitCtor)
}

func (c *Ctx) tokenRenderFn() *ssa.Function {
	for _, f := range c.codeImpls(c.renderName()) {
		if f.Synthetic == "" && f.Signature.Recv() != nil && types.TypeString(f.Signature.Recv().Type(), shortQual) == "jen.token" {
			return f
		}
	}
	return nil
}

// parseFormat splits a format string into literal segments and verbs.
func parseFormat(f string) (lits []string, verbs []string) {
	cur := ""
	for i := 0; i < len(f); i++ {
		if f[i] != '%' {
			cur += string(f[i])
			continue
		}
		j := i + 1
		for j < len(f) && strings.ContainsRune("+-# 0123456789.*[]", rune(f[j])) {
			j++
		}
		if j >= len(f) {
			cur += f[i:]
			break
		}
		if f[j] == '%' {
			cur += "%"
			i = j
			continue
		}
		lits = append(lits, cur)
		cur = ""
		verbs = append(verbs, f[i+1:j+1])
		i = j
	}
	lits = append(lits, cur)
	return
}

type producer struct {
	kind    string // "sprintf" | "quoterune" | "quote" | "direct" | "register" | "other"
	format  string
	args    []ssa.Value
	suffix  string
	base    ssa.Value // the formatter call's value (for the float guard)
	callee  string
	argDesc []string
}

func (a *FnA) producerOf(v ssa.Value) *producer {
	v = stripConv(v)
	switch x := v.(type) {
	case *ssa.BinOp:
		if x.Op == token.ADD {
			if s, ok := constString(x.Y); ok {
				p := a.producerOf(x.X)
				if p.kind == "other" || p.suffix != "" {
					return &producer{kind: "other"}
				}
				p.suffix = s
				return p
			}
		}
	case *ssa.Call:
		sc := x.Call.StaticCallee()
		if sc == nil {
			break
		}
		n := sc.String()
		switch {
		case n == "fmt.Sprintf":
			f, ok := constString(x.Call.Args[0])
			va, ok2 := varargs(x.Call.Args[1])
			if ok && ok2 {
				p := &producer{kind: "sprintf", format: f, args: va, base: x, callee: n}
				for _, ar := range va {
					p.argDesc = append(p.argDesc, a.Desc(ar))
				}
				return p
			}
		case strings.HasPrefix(n, "strconv.QuoteRune"):
			return &producer{kind: "quoterune", args: x.Call.Args, base: x, callee: n, argDesc: []string{a.Desc(x.Call.Args[0])}}
		case n == "strconv.Quote" || n == "strconv.QuoteToASCII" || n == "strconv.QuoteToGraphic":
			return &producer{kind: "quote", args: x.Call.Args, base: x, callee: n, argDesc: []string{a.Desc(x.Call.Args[0])}}
		case a.c.CG().Sum[sc] != nil:
			p := &producer{kind: "modulecall", args: x.Call.Args, base: x, callee: fname(sc)}
			for _, ar := range x.Call.Args {
				p.argDesc = append(p.argDesc, a.Desc(ar))
			}
			return p
		}
	case *ssa.TypeAssert:
		return &producer{kind: "direct", args: []ssa.Value{x.X}, argDesc: []string{a.Desc(x.X)}}
	}
	return &producer{kind: "other", argDesc: []string{a.Desc(v)}}
}

var defaultTypes = map[string]bool{"bool": true, "string": true, "int": true, "float64": true, "complex128": true}
var documentedLitTypes = []string{"bool", "string", "int", "complex128", "float64", "float32", "int8", "int16", "int32", "int64", "uint", "uint8", "uint16", "uint32", "uint64", "uintptr", "complex64"}

func valueVerbOK(typ, verb string) bool {
	switch typ {
	case "bool":
		return verb == "v" || verb == "#v" || verb == "t"
	case "string":
		return verb == "#v" || verb == "q" || verb == "+q" || verb == "#q"
	case "int", "int8", "int16", "int32", "int64", "uint", "uint8", "uint16", "uint32", "uint64", "uintptr":
		return verb == "v" || verb == "#v" || verb == "d" || verb == "#x"
	case "float32", "float64", "complex64", "complex128":
		return verb == "v" || verb == "#v" || verb == "g"
	}
	return false
}

// literalFormatOK judges a Sprintf format for a literal of the given type.
func literalFormatOK(typ, format string) (bool, string) {
	lits, verbs := parseFormat(format)
	switch len(verbs) {
	case 1:
		if lits[0] != "" || lits[1] != "" {
			return false, "extra text around the verb"
		}
		if !defaultTypes[typ] {
			return false, "a bare constant has the default type of its kind, not " + typ + ": the value must be wrapped in a conversion"
		}
		if !valueVerbOK(typ, verbs[0]) {
			return false, "verb %" + verbs[0] + " does not print a Go constant of type " + typ
		}
		return true, "bare, default type"
	case 2:
		if verbs[0] != "T" || lits[0] != "" {
			return false, "expected %T first"
		}
		if !valueVerbOK(typ, verbs[1]) {
			return false, "verb %" + verbs[1] + " does not print a Go constant of type " + typ
		}
		if lits[1] == "(" && lits[2] == ")" {
			return true, "conversion"
		}
		if lits[1] == "" && lits[2] == "" && strings.HasPrefix(typ, "complex") {
			return true, "conversion (fmt supplies the parentheses of a complex value)"
		}
		return false, "text around the verbs is not TYPE(value)"
	}
	return false, fmt.Sprintf("%d verbs", len(verbs))
}

// contentValue: v is the token's content, unmodified: recv.content itself, the value of a
// (guarded) type assertion on it, or a widening conversion of that to the formatter's parameter type.
func contentValue(a *FnA, v ssa.Value) bool {
	for depth := 0; depth < 4; depth++ {
		d := a.Desc(v)
		if d == "recv.content" {
			return true
		}
		switch x := v.(type) {
		case *ssa.Extract:
			if ta, ok := x.Tuple.(*ssa.TypeAssert); ok && x.Index == 0 {
				v = ta.X
				continue
			}
		case *ssa.TypeAssert:
			v = x.X
			continue
		case *ssa.Convert:
			// only widening numeric conversions keep the value
			from, ok1 := x.X.Type().Underlying().(*types.Basic)
			to, ok2 := x.Type().Underlying().(*types.Basic)
			if ok1 && ok2 && widening(from, to) {
				v = x.X
				continue
			}
		case *ssa.MakeInterface:
			v = x.X
			continue
		case *ssa.ChangeType:
			v = x.X
			continue
		}
		return false
	}
	return false
}

func widening(from, to *types.Basic) bool {
	size := map[types.BasicKind]int{types.Int8: 8, types.Int16: 16, types.Int32: 32, types.Int64: 64, types.Int: 63, types.Uint8: 8, types.Uint16: 16, types.Uint32: 32, types.Uint64: 64, types.Uint: 63, types.Uintptr: 63, types.Float32: 32, types.Float64: 64, types.Complex64: 64, types.Complex128: 128}
	fs, ok1 := size[from.Kind()]
	ts, ok2 := size[to.Kind()]
	if !ok1 || !ok2 {
		return false
	}
	fi, ti := from.Info(), to.Info()
	switch {
	case fi&types.IsFloat != 0 && ti&types.IsFloat != 0:
		return ts >= fs
	case fi&types.IsComplex != 0 && ti&types.IsComplex != 0:
		return ts >= fs
	case fi&types.IsInteger != 0 && ti&types.IsInteger != 0:
		if (fi&types.IsUnsigned != 0) == (ti&types.IsUnsigned != 0) {
			return ts >= fs
		}
		return fi&types.IsUnsigned != 0 && ts > fs // unsigned into a strictly wider signed type
	}
	return false
}

// litTemplateOK judges the normalised producer of a literal of type typ: a single value printed
// bare (only for the default type of its constant kind) or wrapped in a conversion to typ.
func litTemplateOK(a *FnA, typ string, segs []tseg) (ok bool, why string, bare bool) {
	valOK := func(t tseg) (bool, string) {
		if t.val == nil {
			return false, "no value"
		}
		if !contentValue(a, t.val) {
			return false, "the value printed is " + a.Desc(t.val) + ", not the token's content"
		}
		if !valueVerbOK(typ, t.verb) {
			return false, "verb %" + t.verb + " does not print a Go constant of type " + typ
		}
		if t.bits != 0 {
			want := map[string]int{"float64": 64, "float32": 32, "complex128": 128, "complex64": 64}[typ]
			if want != 0 && t.bits != want {
				return false, fmt.Sprintf("formatted with bit size %d, the type needs %d (digits would be dropped)", t.bits, want)
			}
		}
		return true, ""
	}
	switch len(segs) {
	case 1:
		if ok, why := valOK(segs[0]); !ok {
			return false, why, true
		}
		if !defaultTypes[typ] {
			return false, "a bare constant has the default type of its kind, not " + typ + ": the value must be wrapped in a conversion", true
		}
		return true, "bare, default type", true
	case 2:
		// TYPE value  (complex: fmt supplies the parentheses)
		if (segs[0].verb == "T" && segs[0].val != nil && contentValue(a, segs[0].val)) || (segs[0].val == nil && segs[0].lit == typ) {
			if !strings.HasPrefix(typ, "complex") {
				return false, "conversion without parentheses", false
			}
			if ok, why := valOK(segs[1]); !ok {
				return false, why, false
			}
			return true, "conversion (the complex value carries its own parentheses)", false
		}
	case 3:
		// "TYPE(" value ")"
		if segs[0].val == nil && segs[0].lit == typ+"(" && segs[2].val == nil && segs[2].lit == ")" {
			if ok, why := valOK(segs[1]); !ok {
				return false, why, false
			}
			return true, "conversion", false
		}
	case 4:
		// %T "(" value ")"
		if segs[0].verb == "T" && segs[0].val != nil && contentValue(a, segs[0].val) && segs[1].lit == "(" && segs[1].val == nil && segs[3].lit == ")" && segs[3].val == nil {
			if ok, why := valOK(segs[2]); !ok {
				return false, why, false
			}
			return true, "conversion", false
		}
	}
	return false, "the text is not a single Go constant of type " + typ + " (bare or TYPE(value))", false
}

// floatGuard classifies a way: does it establish that the text has no '.' and no 'e' (intLike), or
// that it has one of them (notIntLike)?
func floatGuard(w Facts, textDesc string) (intLike, notIntLike bool, unknown []string) {
	noDot, noE := false, false
	for atom, pol := range w {
		if !strings.Contains(atom, textDesc) {
			continue
		}
		switch {
		case strings.HasPrefix(atom, "strings.Contains("+textDesc+", "):
			needle := strings.TrimSuffix(strings.TrimPrefix(atom, "strings.Contains("+textDesc+", "), ")")
			switch needle {
			case `"."`:
				if pol {
					notIntLike = true
				} else {
					noDot = true
				}
			case `"e"`:
				if pol {
					notIntLike = true
				} else {
					noE = true
				}
			default:
				unknown = append(unknown, atom)
			}
		case strings.HasPrefix(atom, "strings.ContainsAny("+textDesc+", "):
			chars := strings.TrimSuffix(strings.TrimPrefix(atom, "strings.ContainsAny("+textDesc+", "), ")")
			covers := strings.Contains(chars, ".") && strings.Contains(chars, "e") && !strings.ContainsAny(strings.Trim(chars, `"`), "0123456789-+")
			if !covers {
				unknown = append(unknown, atom)
			} else if pol {
				notIntLike = true
			} else {
				noDot, noE = true, true
			}
		case strings.HasPrefix(atom, "strings.Contains") || strings.HasPrefix(atom, "strings.Index") || strings.HasPrefix(atom, "strings.Has"):
			unknown = append(unknown, atom)
		}
	}
	intLike = noDot && noE
	return
}

func ruleTokenRender(c *Ctx, part string) []Obligation {
	o := c.newObs(part)
	f := c.tokenRenderFn()
	if f == nil {
		o.undecided("(jen.token).render", "anchor", token.NoPos, "anchor lost")
		return o.list
	}
	a := c.FA(f)
	fn := fname(f)
	w := c.writerParam(f)
	litT := c.tokenTypeConst("literalToken")
	typOf := func(w Facts) string {
		for atom, pol := range w {
			if pol && strings.HasPrefix(atom, `eq("`) && strings.HasSuffix(atom, `",recv.typ)`) {
				return atom[4 : len(atom)-len(`",recv.typ)`)]
			}
		}
		return ""
	}
	litTypeOf := func(w Facts) string {
		for atom, pol := range w {
			if pol && strings.HasPrefix(atom, "is<") && strings.HasSuffix(atom, ">(recv.content)") {
				return atom[3 : len(atom)-len(">(recv.content)")]
			}
		}
		return ""
	}
	seenLit := map[string]bool{}
	type sinkInfo struct {
		s    *Sink
		typs map[string]bool
	}
	var firstSinkOf = map[string]*Sink{}
	var sinks []sinkInfo
	for _, s := range a.Sinks() {
		if stripConv(s.Writer) != ssa.Value(w) {
			if part == "P-TOKEN" {
				o.add(Violated, fn, "write to something other than the writer parameter", s.Call.Pos(), true, "%s", a.Desc(s.Writer))
			}
			continue
		}
		si := sinkInfo{s: s, typs: map[string]bool{}}
		for _, way := range a.WaysTo(s.Call.Block()) {
			si.typs[typOf(way)] = true
		}
		sinks = append(sinks, si)
	}
	for _, si := range sinks {
		s := si.s
		var typs []string
		for t := range si.typs {
			typs = append(typs, t)
		}
		sort.Strings(typs)
		if si.typs[""] {
			if part == "P-TOKEN" {
				o.undecided(fn, "write under an unknown token type", s.Call.Pos(), "data %s", a.DataDesc(s))
			}
			continue
		}
		if si.typs[litT] {
			if part != "T-LITFMT" {
				continue
			}
			if len(si.typs) != 1 {
				o.undecided(fn, "literal write shared with other token types", s.Call.Pos(), "%v", typs)
				continue
			}
			// resolve the written value per incoming way
			type leaf struct {
				v    ssa.Value
				ways []Facts
			}
			var leaves []leaf
			data := stripConv(s.Data[0])
			if phi, ok := data.(*ssa.Phi); ok && phi.Block() == s.Call.Block() {
				for i, e := range phi.Edges {
					leaves = append(leaves, leaf{e, a.WaysOnEdge(phi.Block().Preds[i], phi.Block())})
				}
			} else {
				leaves = append(leaves, leaf{data, a.WaysTo(s.Call.Block())})
			}
			for _, lf := range leaves {
				// split off a constant suffix (the float ".0"), then normalise the producer to a template
				base, suffix := stripConv(lf.v), ""
				if b, ok := base.(*ssa.BinOp); ok && b.Op == token.ADD {
					if sv, ok := constString(b.Y); ok {
						if _, lhsConst := constString(b.X); !lhsConst {
							base, suffix = stripConv(b.X), sv
						}
					}
				}
				segs := a.template(base)
				for _, way := range lf.ways {
					lt := litTypeOf(way)
					construct := "literal of type " + lt
					if lt == "" {
						o.undecided(fn, "literal write with unknown content type", s.Call.Pos(), "way %s", way)
						continue
					}
					ok, why, bare := litTemplateOK(a, lt, segs)
					seenLit[construct+"%"] = true
					o.req(ok, fn, construct+": "+fmt.Sprint(segs), s.Call.Pos(), "%s", why)
					// float guard
					text := a.Desc(base)
					il, nil_, unk := floatGuard(way, text)
					switch {
					case lt == "float64" && bare:
						if suffix == ".0" {
							o.req(il && len(unk) == 0, fn, "float64: \".0\" appended only if the text has neither '.' nor 'e'", s.Call.Pos(), "way %s (unrecognised tests: %v)", way, unk)
						} else if suffix == "" {
							o.req(nil_ && len(unk) == 0, fn, "float64: bare text only if it has a '.' or an 'e'", s.Call.Pos(), "an integral float64 without \".0\" is read back as an int; a test other than for \".\" / \"e\" (e.g. \"e+\") lets 1e-07 through; way %s (unrecognised tests: %v)", way, unk)
						} else {
							o.add(Violated, fn, "float64: suffix", s.Call.Pos(), true, "unexpected suffix %q", suffix)
						}
					default:
						o.req(suffix == "", fn, construct+": formatter's result written unmodified", s.Call.Pos(), "suffix %q appended", suffix)
					}
				}
			}
			continue
		}
		if part != "P-TOKEN" {
			if si.typs[c.tokenTypeConst("literalRuneToken")] || si.typs[c.tokenTypeConst("literalByteToken")] {
				// rune / byte literals
				p := a.producerOf(s.Data[0])
				for _, t := range typs {
					switch t {
					case c.tokenTypeConst("literalRuneToken"):
						ok := (p.kind == "quoterune" && strings.HasSuffix(p.argDesc[0], "(recv.content)")) || (p.kind == "sprintf" && (p.format == "%q" || p.format == "%+q") && len(p.argDesc) == 1 && p.argDesc[0] == "recv.content")
						o.req(ok && p.suffix == "", fn, "rune literal is quoted by strconv.QuoteRune* / %q of the content", s.Call.Pos(), "producer %s %q %v", p.callee, p.format, p.argDesc)
					case c.tokenTypeConst("literalByteToken"):
						lits, verbs := parseFormat(p.format)
						ok := p.kind == "sprintf" && len(verbs) == 1 && len(p.argDesc) == 1 && p.argDesc[0] == "recv.content" && lits[0] == "byte(" && lits[1] == ")" &&
							(valueVerbOK("uint8", verbs[0]) || verbs[0] == "q")
						o.req(ok && p.suffix == "", fn, "byte literal is byte(<numeric or quoted value of the content>)", s.Call.Pos(), "producer %s %q %v", p.callee, p.format, p.argDesc)
					default:
						o.undecided(fn, "rune/byte write shared with token type "+t, s.Call.Pos(), "")
					}
				}
			}
			continue
		}
		// P-TOKEN part
		p := a.producerOf(s.Data[0])
		for _, t := range typs {
			if firstSinkOf[t] == nil {
				firstSinkOf[t] = s
			}
			switch t {
			case c.tokenTypeConst("keywordToken"), c.tokenTypeConst("operatorToken"), c.tokenTypeConst("layoutToken"), c.tokenTypeConst("delimiterToken"):
				if str, ok := constString(s.Data[0]); ok {
					if str == ":" {
						continue // judged below
					}
					o.add(Violated, fn, t+" token: constant write "+fmt.Sprintf("%q", str), s.Call.Pos(), true, "")
					continue
				}
				ok := (p.kind == "sprintf" && (p.format == "%s" || p.format == "%v") && len(p.argDesc) == 1 && p.argDesc[0] == "recv.content") || (p.kind == "direct" && p.argDesc[0] == "recv.content")
				o.req(ok && p.suffix == "", fn, t+" token writes its text unmodified", s.Call.Pos(), "producer %s %q %v", p.kind, p.format, p.argDesc)
			case c.tokenTypeConst("identifierToken"):
				ok := (p.kind == "direct" && p.argDesc[0] == "recv.content") || (p.kind == "sprintf" && (p.format == "%s" || p.format == "%v") && len(p.argDesc) == 1 && p.argDesc[0] == "recv.content")
				o.req(ok && p.suffix == "", fn, "identifier token writes its name unmodified", s.Call.Pos(), "producer %s %q %v", p.kind, p.format, p.argDesc)
			case c.tokenTypeConst("packageToken"):
				reg := c.registerFn()
				ok := p.kind == "modulecall" && p.callee == fname(reg) && len(p.args) == 2 && p.args[0] == ssa.Value(f.Params[1]) && strings.Contains(p.argDesc[1], "recv.content")
				o.req(ok && p.suffix == "", fn, "package token writes exactly the registered name of its path", s.Call.Pos(), "producer %s %s %v", p.kind, p.callee, p.argDesc)
			case c.tokenTypeConst("literalRuneToken"), c.tokenTypeConst("literalByteToken"):
			default:
				o.add(Violated, fn, "write for token type "+t, s.Call.Pos(), true, "unexpected output for this token type: %s", a.DataDesc(s))
			}
		}
	}
	if part == "T-LITFMT" {
		// the literal type switch covers exactly the documented types
		covered := map[string]bool{}
		for k := range seenLit {
			covered[strings.TrimSuffix(strings.TrimPrefix(k, "literal of type "), "%")] = true
		}
		for _, t := range documentedLitTypes {
			o.req(covered[t], fn, "documented literal type "+t+" is supported", f.Pos(), "README: Lit supports bool, string, int, complex128, float64, float32, int8..int64, uint..uint64, uintptr, complex64")
		}
		return o.list
	}
	// the colon after `default`
	kw := c.tokenTypeConst("keywordToken")
	var colon []*Sink
	for _, si := range sinks {
		if str, ok := constString(si.s.Data[0]); ok && str == ":" && si.typs[kw] {
			colon = append(colon, si.s)
		}
	}
	if len(colon) != 1 || firstSinkOf[kw] == nil {
		o.add(Violated, fn, "`default` is followed by a colon", f.Pos(), true, "expected exactly one write of \":\" in the keyword case, found %d", len(colon))
	} else {
		cs := colon[0]
		cf := a.FactsOf(cs.Call)
		defOK := false
		var defAtom string
		for atom, pol := range cf {
			if pol && strings.HasPrefix(atom, `eq("default",`) && strings.Contains(atom, "recv.content") {
				defOK = true
				defAtom = atom
			}
		}
		o.req(defOK, fn, "colon written only after the text `default`", cs.Call.Pos(), "facts %s", cf)
		first := firstSinkOf[kw]
		o.req(first.Call.Block().Dominates(cs.Call.Block()), fn, "colon follows the keyword text", cs.Call.Pos(), "")
		if defOK {
			ferr, _ := errValue(first.Call)
			ex := []Lit{{defAtom, false}}
			if ferr != nil {
				l := a.nilFact(ferr)
				l.Pol = false
				ex = append(ex, l)
			}
			for _, r := range a.returns() {
				if !reachableFrom(first.Call.Block(), nil)[r.Block()] {
					continue
				}
				succ := false
				for _, res := range r.Results {
					if isErrorType(res.Type()) && isNilConst(res) {
						succ = true
					}
				}
				if !succ {
					continue
				}
				p := a.Cut(first.Call.Block(), r, []ssa.Instruction{cs.Call}, ex)
				o.req(p == nil, fn, "colon written whenever the text is `default`", cs.Call.Pos(), "path %s returns success for `default` without the colon (no extra condition, e.g. on the statement context, may by-pass it)", pathString(p))
			}
		}
	}
	return o.list
}

func isIdentChar(b byte) bool {
	return b == '_' || (b >= '0' && b <= '9') || (b >= 'a' && b <= 'z') || (b >= 'A' && b <= 'Z')
}

// ruleLitCtor: Lit / LitFunc / LitRune(Func) / LitByte(Func) store the parameter / callback result.
func ruleLitCtor(c *Ctx) []Obligation {
	o := c.newObs("P-LITCTOR")
	want := map[string]string{"Lit": "literalToken", "LitFunc": "literalToken", "LitRune": "literalRuneToken", "LitRuneFunc": "literalRuneToken", "LitByte": "literalByteToken", "LitByteFunc": "literalByteToken"}
	seen := map[string]bool{}
	for _, tl := range c.tokenLits() {
		f := tl.fn
		if f.Signature.Recv() == nil || types.TypeString(f.Signature.Recv().Type(), shortQual) != "*jen.Statement" {
			continue
		}
		wt, ok := want[f.Name()]
		if !ok {
			continue
		}
		seen[f.Name()] = true
		a := c.FA(f)
		o.req(tl.typOK && tl.typ == c.tokenTypeConst(wt), fname(f), "token type", tl.pos, "typ=%q, expected %s", tl.typ, wt)
		content := stripConv(tl.content)
		if strings.HasSuffix(f.Name(), "Func") {
			call, isCall := content.(*ssa.Call)
			okc := isCall && call.Call.Value == ssa.Value(f.Params[1]) && len(call.Call.Args) == 0
			o.req(okc, fname(f), "content is the callback's result, unmodified", tl.pos, "content = %s", a.Desc(tl.content))
		} else {
			o.req(content == ssa.Value(f.Params[1]), fname(f), "content is the parameter, unmodified", tl.pos, "content = %s", a.Desc(tl.content))
		}
	}
	// the other hand-written token constructors: text tokens hold the caller's text, unmodified
	type exp struct {
		typ   string
		param int    // index of the parameter that must be the content (-1: constant)
		konst string // expected constant content
	}
	wantTok := map[string][]exp{
		"Id":   {{"identifierToken", 1, ""}},
		"Op":   {{"operatorToken", 1, ""}},
		"Dot":  {{"delimiterToken", -1, "."}, {"identifierToken", 1, ""}},
		"Line": {{"layoutToken", -1, "\n"}},
		"Qual": {{"packageToken", 1, ""}, {"identifierToken", 2, ""}},
	}
	byFn := map[string][]tokenLit{}
	for _, tl := range c.tokenLits() {
		f := tl.fn
		if f.Signature.Recv() == nil || types.TypeString(f.Signature.Recv().Type(), shortQual) != "*jen.Statement" {
			continue
		}
		if _, ok := wantTok[f.Name()]; ok {
			byFn[f.Name()] = append(byFn[f.Name()], tl)
		}
	}
	for name, exps := range wantTok {
		tls := byFn[name]
		sort.Slice(tls, func(i, j int) bool { return tls[i].pos < tls[j].pos })
		if len(tls) != len(exps) {
			o.add(Violated, "(*jen.Statement)."+name, "builds its token(s)", token.NoPos, true, "expected %d token literal(s), found %d", len(exps), len(tls))
			continue
		}
		for i, e := range exps {
			tl := tls[i]
			a := c.FA(tl.fn)
			okc := tl.typOK && tl.typ == c.tokenTypeConst(e.typ)
			if e.param >= 0 {
				okc = okc && tl.content != nil && stripConv(tl.content) == ssa.Value(tl.fn.Params[e.param])
			} else {
				sv, isS := constString(tl.content)
				okc = okc && isS && sv == e.konst
			}
			o.req(okc, fname(tl.fn), fmt.Sprintf("token #%d is a %s holding the caller's text unmodified", i+1, e.typ), tl.pos, "typ=%q content=%s", tl.typ, a.Desc(tl.content))
		}
	}
	for n := range want {
		if !seen[n] {
			o.add(Violated, "(*jen.Statement)."+n, "literal constructor present", token.NoPos, true, "constructor not found or it builds no token literal")
		}
	}
	return o.list
}
