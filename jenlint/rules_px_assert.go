package main

import (
	"fmt"
	"go/token"
	"sort"
	"strings"

	"golang.org/x/tools/go/ssa"
)

// Assertion safety on paths (part of T-TOKCONTENT). A non-comma-ok type assertion `x.(T)` panics
// unless x holds a T. On every feasible path of every function in which such an assertion can run
// (directly or through inlined helpers), the facts known at the assertion must either contain
// is<T>(x) (a successful type test of the same value) or — for the content of a token — pin the
// token's type to one for which every builder in the module stores content of static type T.

// assertRoots: the outermost functions through which a non-comma-ok assertion is reached — climbing
// from the asserting function through static callers while the function is an unexported,
// non-opaque helper.
func (c *Ctx) assertRoots() []*ssa.Function {
	opaque := c.stdOpaque()
	direct := map[*ssa.Function]bool{}
	all := c.allFuncs(c.Jen)
	for _, f := range all {
		for _, b := range f.Blocks {
			for _, in := range b.Instrs {
				if ta, ok := in.(*ssa.TypeAssert); ok && !ta.CommaOk {
					direct[f] = true
				}
			}
		}
	}
	callers := map[*ssa.Function][]*ssa.Function{}
	for _, g := range all {
		callers[g] = c.callersIncludingValueUses(g)
	}
	roots := map[*ssa.Function]bool{}
	var climb func(f *ssa.Function, depth int)
	climb = func(f *ssa.Function, depth int) {
		if opaque(f) || isExportedName(f.Name()) || len(callers[f]) == 0 || depth >= 3 || f.Parent() != nil {
			roots[f] = true
			return
		}
		for _, g := range callers[f] {
			climb(g, depth+1)
		}
	}
	for f := range direct {
		climb(f, 0)
	}
	var out []*ssa.Function
	for f := range roots {
		out = append(out, f)
	}
	sort.Slice(out, func(i, j int) bool { return fname(out[i]) < fname(out[j]) })
	return out
}

func (c *Ctx) assertionSafety(o *obs) map[string]map[string]token.Pos {
	want := map[string]map[string]token.Pos{}
	n := 0
	for _, f := range c.assertRoots() {
		fn := fname(f)
		paths, trunc := c.Paths(f, PXConfig{Opaque: c.stdOpaque(), MaxVisits: 2, MaxDepth: 4, MaxPaths: 60000})
		if trunc || len(paths) == 0 {
			o.undecided(fn, "path enumeration (assertions)", f.Pos(), "%d paths, truncated %v", len(paths), trunc)
			continue
		}
		t := newTally(o, fn, f.Pos())
		for _, p := range paths {
			for _, e := range p.Events {
				if e.Kind != "assert" || e.Recv == nil {
					continue
				}
				n++
				xs := e.Recv.String()
				T := e.Name
				key := fmt.Sprintf("assertion %s.(%s) cannot fail", nilGuardShape(xs), T)
				F := p.FactsAt(e)
				ok := F.Has("is<"+T+">("+xs+")", true)
				why := ""
				if !ok && strings.HasSuffix(xs, ".content") {
					tok := strings.TrimSuffix(xs, ".content")
					for atom, pol := range F {
						if !pol || !strings.HasPrefix(atom, `eq("`) || !strings.HasSuffix(atom, ","+tok+".typ)") {
							continue
						}
						// safe provided every builder stores a T for this token type: recorded, and
						// checked builder by builder by the caller
						typ := atom[4:strings.Index(atom, `",`)]
						if want[typ] == nil {
							want[typ] = map[string]token.Pos{}
						}
						want[typ][T] = e.In.Pos()
						ok = true
					}
					if !ok && why == "" {
						why = "the token's type is not known at this point"
					}
				}
				t.note(key, ok, "path %s: %s — a failing assertion panics at render time (facts %s)", traceOf(p), why, short(F.String(), 300))
			}
		}
		t.flush()
	}
	c.stats["assertions_checked_on_paths"] = n
	return want
}
