package main

import (
	"go/token"
	"go/types"
	"strings"

	"golang.org/x/tools/go/ssa"
)

// New options. The rules state what the library does as it stands: the layout of a file, of a group,
// of the import block. A change that adds an option — a field of File, Group, Options, … that did
// not exist when the rules were written, that is zero unless the user sets it through the exported
// API, and that nothing else in the package assigns — adds behaviour the rules have no statement
// for. The path engine follows such a field only at its zero value: every existing program, which
// cannot have set it, runs on exactly those paths. What the library does when the option is set is
// not judged (reported as information), neither as correct nor as a violation.

// knownFields: the fields the rules know, per struct type of package jen (File's renamable fields
// by role).
func (c *Ctx) knownFields() map[string]map[string]bool {
	if v, ok := c.extra("knownFields"); ok {
		return v.(map[string]map[string]bool)
	}
	out := map[string]map[string]bool{
		"jen.Group":   {"name": true, "items": true, "open": true, "close": true, "separator": true, "multi": true},
		"jen.Options": {"Open": true, "Close": true, "Separator": true, "Multi": true},
		"jen.token":   {"typ": true, "content": true},
	}
	c.setExtra("knownFields", out) // guard: role resolution below may evaluate paths
	file := map[string]bool{"Group": true, "NoFormat": true, "PackagePrefix": true, "CanonicalPath": true}
	func() {
		defer func() { recover() }()
		for _, role := range []string{"name", "path", "imports", "hints", "comments", "headers", "preamble"} {
			n := c.ff0(role)
			if n != "" {
				// a dotted path (fields moved into a struct held by value): its first component
				if i := strings.Index(n, "."); i >= 0 {
					n = n[:i]
				}
				file[n] = true
			}
		}
	}()
	out["jen.File"] = file
	out["jen.comment"] = map[string]bool{c.commentField(): true}
	out["jen.importdef"] = map[string]bool{}
	func() {
		defer func() { recover() }()
		out["jen.importdef"][c.ff0("defname")] = true
		out["jen.importdef"][c.ff0("defalias")] = true
	}()
	c.setExtra("knownFields", out)
	return out
}

// optionField: typeName.field is unknown to the rules and is only ever assigned, anywhere in the
// module, a value that comes from a parameter of the assigning function (a setter, or a constructor
// handing on part of the user's Options) or the zero value.
func (c *Ctx) optionField(typeName, field string) bool {
	key := "optionField:" + typeName + "." + field
	if v, ok := c.extra(key); ok {
		return v.(bool)
	}
	res := false
	defer func() { c.setExtra(key, res) }()
	kf := c.knownFields()[typeName]
	if kf == nil || kf[field] {
		return false
	}
	// the type must exist with that field
	full := typeName + "." + field
	derivesFromParam := func(f *ssa.Function, v ssa.Value) bool {
		for i := 0; i < 6 && v != nil; i++ {
			switch x := v.(type) {
			case *ssa.Parameter:
				return true
			case *ssa.Const:
				return x.Value == nil || x.IsNil() || x.Value.String() == "false" || x.Value.String() == "0" || x.Value.String() == `""`
			case *ssa.UnOp:
				v = x.X
			case *ssa.Field:
				v = x.X
			case *ssa.FieldAddr:
				v = x.X
			case *ssa.ChangeType:
				v = x.X
			case *ssa.Convert:
				v = x.X
			case *ssa.Alloc:
				if p := allocParam(x); p != nil {
					return true
				}
				return false
			default:
				return false
			}
		}
		return false
	}
	for _, f := range c.CG().Funcs {
		if !c.inModule(f) || c.isTestPos(f.Pos()) {
			continue
		}
		for _, b := range f.Blocks {
			for _, in := range b.Instrs {
				st, ok := in.(*ssa.Store)
				if !ok {
					continue
				}
				fa, ok := st.Addr.(*ssa.FieldAddr)
				if !ok || fieldOf(fa) != full {
					continue
				}
				if !derivesFromParam(f, st.Val) {
					return false
				}
			}
		}
	}
	res = true
	return true
}

// zeroOptionCond: a branch condition that mentions a new option field is decided as it is for the
// field's zero value (if that decides it).
func (r *pxRun) zeroOptionCond(st *pxState, cond *T) *T {
	found := false
	var subst func(t *T, depth int) *T
	subst = func(t *T, depth int) *T {
		if t == nil || depth > 8 {
			return t
		}
		if t.Op == "field" && len(t.A) == 1 && t.A[0].Typ != nil {
			tn := ownerTypeName(t.A[0].Typ)
			if tn != "" && r.c.optionField(tn, t.Aux) && t.Typ != nil {
				found = true
				return zeroTerm(t.Typ)
			}
		}
		if len(t.A) == 0 {
			return t
		}
		changed := false
		as := make([]*T, len(t.A))
		for i, a := range t.A {
			as[i] = subst(a, depth+1)
			if as[i] != a {
				changed = true
			}
		}
		if !changed {
			return t
		}
		n := *t
		n.A = as
		return &n
	}
	z := subst(cond, 0)
	if !found {
		return cond
	}
	z = refold(z)
	if _, ok := z.boolVal(); ok {
		if r.c.stats != nil {
			r.c.stats["option_paths_not_judged"]++
		}
		return z
	}
	return cond
}

// ownerTypeName: "jen.File" for a *File / File typed term.
func ownerTypeName(t types.Type) string {
	if p, ok := t.Underlying().(*types.Pointer); ok {
		t = p.Elem()
	}
	if n, ok := t.(*types.Named); ok && n.Obj().Pkg() != nil && strings.HasPrefix(n.Obj().Pkg().Path(), modulePath) {
		return n.Obj().Pkg().Name() + "." + n.Obj().Name()
	}
	return ""
}

// refold re-evaluates the constant parts of a boolean term after a substitution.
func refold(t *T) *T {
	if t == nil {
		return t
	}
	switch t.Op {
	case "not":
		a := refold(t.A[0])
		if b, ok := a.boolVal(); ok {
			return cBool(!b)
		}
		if a != t.A[0] {
			return &T{Op: "not", A: []*T{a}, Typ: t.Typ}
		}
	case "len":
		if len(t.A) == 1 {
			a := refold(t.A[0])
			if s, ok := a.strVal(); ok {
				return cInt(int64(len(s)))
			}
			if a.Nil || (a.HasEl && len(a.Elems) == 0) {
				return cInt(0)
			}
		}
	case "binop":
		if len(t.A) == 2 {
			a, b := refold(t.A[0]), refold(t.A[1])
			ops := map[string]token.Token{"+": token.ADD, "-": token.SUB, "*": token.MUL, "==": token.EQL, "!=": token.NEQ, "<": token.LSS, ">": token.GTR, "<=": token.LEQ, ">=": token.GEQ, "&&": token.LAND, "||": token.LOR}
			if op, ok := ops[t.Aux]; ok && (a.isConst() || b.isConst() || a != t.A[0] || b != t.A[1]) {
				return foldBin(op, a, b, t.Typ)
			}
		}
	}
	return t
}
