package main

// Rules stated over pathx paths: for every feasible path of a function (helpers inlined), the
// output written must be the one the path's facts call for.

import (
	"fmt"
	"go/token"
	"go/types"
	"regexp"
	"sort"
	"strconv"
	"strings"

	"golang.org/x/tools/go/ssa"
)

// ---- helpers over paths

// output concatenates the templates of all writes of the path to the writer term w.
func pathOutput(p *PXPath, w string) (segs []pseg, other []string) {
	for _, e := range p.Events {
		if e.Kind != "write" {
			continue
		}
		if e.Writer.String() != w {
			other = append(other, e.Writer.String())
			continue
		}
		for _, s := range e.Segs {
			if s.Val == nil && len(segs) > 0 && segs[len(segs)-1].Val == nil {
				segs[len(segs)-1].Lit += s.Lit
				continue
			}
			segs = append(segs, s)
		}
	}
	return
}

func segsString(segs []pseg) string {
	var s []string
	for _, x := range segs {
		s = append(s, x.String())
	}
	return "[" + strings.Join(s, " ") + "]"
}

// sameSegs compares a path output with an expected template; expected values are given as term
// strings, expected verbs as classes ("s": verbatim s/v; "q": Go-quoted; "*": any).
type xseg struct {
	lit  string
	verb string
	val  string
}

func matchSegs(got []pseg, want []xseg) bool {
	// merge adjacent literals of want
	var w []xseg
	for _, x := range want {
		if x.val == "" && x.lit == "" {
			continue
		}
		if x.val == "" && len(w) > 0 && w[len(w)-1].val == "" {
			w[len(w)-1].lit += x.lit
			continue
		}
		w = append(w, x)
	}
	if len(got) != len(w) {
		return false
	}
	for i := range got {
		g, x := got[i], w[i]
		if (g.Val == nil) != (x.val == "") {
			return false
		}
		if g.Val == nil {
			if g.Lit != x.lit {
				return false
			}
			continue
		}
		if g.Val.String() != x.val {
			return false
		}
		switch x.verb {
		case "*":
		case "s":
			if g.Verb != "s" && g.Verb != "v" {
				return false
			}
		default:
			if g.Verb != x.verb {
				return false
			}
		}
	}
	return true
}

// knownContains: do the facts decide whether text contains the one-byte needle?
func knownContains(f Facts, text string, needle byte) (val, known bool) {
	forms := []string{
		fmt.Sprintf("strings.Contains(%s, %q)", text, string(needle)),
		fmt.Sprintf("strings.ContainsRune(%s, %d)", text, needle),
		fmt.Sprintf("strings.ContainsAny(%s, %q)", text, string(needle)),
		fmt.Sprintf("bytes.Contains(%s, %q)", text, string(needle)),
		fmt.Sprintf("bytes.ContainsRune(%s, %d)", text, needle),
		fmt.Sprintf("bytes.ContainsAny(%s, %q)", text, string(needle)),
	}
	for _, a := range forms {
		if v, ok := f[a]; ok {
			return v, true
		}
	}
	// IndexByte(text, c) >= 0  ==  !lt(IndexByte, 0) ; Index(...) != -1 ; == -1
	for _, fn := range []string{fmt.Sprintf("strings.IndexByte(%s, %d)", text, needle), fmt.Sprintf("strings.Index(%s, %q)", text, string(needle)), fmt.Sprintf("strings.IndexRune(%s, %d)", text, needle),
		fmt.Sprintf("bytes.IndexByte(%s, %d)", text, needle), fmt.Sprintf("bytes.Index(%s, %q)", text, string(needle)), fmt.Sprintf("bytes.IndexRune(%s, %d)", text, needle)} {
		if v, ok := f["lt("+fn+",0)"]; ok {
			return !v, true
		}
		if v, ok := f["lt(-1,"+fn+")"]; ok {
			return v, true
		}
		if v, ok := f["eq(-1,"+fn+")"]; ok {
			return !v, true
		}
	}
	return false, false
}

func knownPrefix(f Facts, text, prefix string) (val, known bool) {
	for _, pk := range []string{"strings", "bytes"} {
		if v, ok := f[fmt.Sprintf("%s.HasPrefix(%s, %q)", pk, text, prefix)]; ok {
			return v, true
		}
	}
	// byte by byte: text[i] == prefix[i] for every i (and the text is long enough)
	if v, ok := f[fmt.Sprintf("lt(len(%s),%d)", text, len(prefix))]; ok && v {
		return false, true
	}
	if len(prefix) > 0 {
		if v, ok := f["empty("+text+")"]; ok && v {
			return false, true
		}
	}
	all := true
	for i := 0; i < len(prefix); i++ {
		v, ok := f[fmt.Sprintf("eq(%d,%s[%d])", prefix[i], text, i)]
		if ok && !v {
			return false, true
		}
		if !ok {
			all = false
		}
	}
	if all && len(prefix) > 0 {
		return true, true
	}
	return false, false
}

func knownSuffix(f Facts, text, suffix string) (val, known bool) {
	for _, pk := range []string{"strings", "bytes"} {
		if v, ok := f[fmt.Sprintf("%s.HasSuffix(%s, %q)", pk, text, suffix)]; ok {
			return v, true
		}
	}
	if len(suffix) == 1 {
		if v, ok := f[fmt.Sprintf("eq(%d,%s[(len(%s) - 1)])", suffix[0], text, text)]; ok {
			return v, true
		}
	}
	return false, false
}

func successPath(p *PXPath) bool {
	if p.End != "return" {
		return false
	}
	for _, r := range p.Ret {
		if r.Typ != nil && isErrorType(r.Typ) && !r.Nil && definitelyError(r) {
			return false
		}
	}
	return true
}

// definitelyError: an error value known to be non-nil on this path. The untested error result of a
// call (`_, err := w.Write(b); return err`) is nil on the success continuation of the path, so a
// path ending that way counts as a success path.
func definitelyError(t *T) bool {
	switch t.Op {
	case "call":
		if t.Aux == "errors.New" || t.Aux == "fmt.Errorf" || strings.HasPrefix(t.Aux, "errors.") {
			return true
		}
		return false
	case "extract":
		return false
	case "alloc", "struct", "make":
		return true
	}
	return false
}

// stdOpaque: functions never inlined by default (the renderer's own interface implementations, the
// registration function).
func (c *Ctx) stdOpaque(extra ...*ssa.Function) func(*ssa.Function) bool {
	set := map[*ssa.Function]bool{c.registerFn(): true}
	for _, r := range append(c.codeImpls(c.renderName()), c.codeImpls(c.nullName())...) {
		set[r] = true
	}
	for _, e := range extra {
		if e != nil {
			set[e] = true
		}
	}
	// anything that writes the import / hint tables is an effect of its own, never unfolded
	for _, fld := range []string{c.ff("imports"), c.ff("hints")} {
		for _, w := range c.fileFieldWrites(fld) {
			if w.kind == "mapupdate" || w.kind == "delete" || w.kind == "clear" {
				set[w.fn] = true
			}
		}
	}
	return func(f *ssa.Function) bool { return set[f] }
}

func (c *Ctx) implOf(method, recvType string) *ssa.Function {
	for _, g := range c.codeImpls(method) {
		if g.Synthetic == "" && g.Signature.Recv() != nil && types.TypeString(g.Signature.Recv().Type(), shortQual) == recvType {
			return g
		}
	}
	return nil
}

type tally struct {
	o     *obs
	fn    string
	pos   token.Pos
	order []string
	res   map[string]*tallyEntry
}

type tallyEntry struct {
	n      int
	bad    string
	badPos token.Pos
}

func newTally(o *obs, fn string, pos token.Pos) *tally {
	return &tally{o: o, fn: fn, pos: pos, res: map[string]*tallyEntry{}}
}

func (t *tally) note(key string, ok bool, detail string, a ...interface{}) {
	e := t.res[key]
	if e == nil {
		e = &tallyEntry{}
		t.res[key] = e
		t.order = append(t.order, key)
	}
	e.n++
	if !ok && e.bad == "" {
		e.bad = fmt.Sprintf(detail, a...)
	}
}

func (t *tally) require(keys ...string) {
	for _, k := range keys {
		if t.res[k] == nil {
			t.o.add(Violated, t.fn, k, t.pos, true, "no path of the function exhibits this case any more")
		}
	}
}

func (t *tally) flush() {
	sort.Strings(t.order)
	for _, k := range t.order {
		e := t.res[k]
		if e.bad != "" {
			t.o.add(Violated, t.fn, k, t.pos, true, "%s", e.bad)
		} else {
			t.o.add(Discharged, t.fn, k, t.pos, true, "holds on all %d path instances", e.n)
		}
	}
}

func traceOf(p *PXPath) string { return strings.Join(p.Trace, "→") }

// ---------------------------------------------------------------------------------------------
// P-COMMENT

func rulePXComment(c *Ctx) []Obligation {
	o := c.newObs("P-COMMENT")
	f := c.implOf(c.renderName(), "jen.comment")
	if f == nil {
		o.undecided("(jen.comment).render", "anchor", token.NoPos, "anchor lost")
		return o.list
	}
	fn := fname(f)
	paths, trunc := c.Paths(f, PXConfig{SkipErrEdges: true, Opaque: c.stdOpaque()})
	if trunc || len(paths) == 0 {
		o.undecided(fn, "path enumeration", f.Pos(), "%d paths, truncated %v", len(paths), trunc)
		return o.list
	}
	t := newTally(o, fn, f.Pos())
	text := "recv." + c.commentField()
	tx := xseg{verb: "s", val: text}
	for _, p := range paths {
		if p.End == "panic" {
			t.note("comment rendering does not panic", false, "path %s panics", traceOf(p))
			continue
		}
		if !successPath(p) {
			continue
		}
		out, other := pathOutput(p, "p1")
		if len(other) > 0 {
			t.note("writes go to the writer parameter", false, "path %s writes to %v", traceOf(p), other)
			continue
		}
		r1, k1 := knownPrefix(p.Facts, text, "//")
		r2, k2 := knownPrefix(p.Facts, text, "/*")
		raw := (k1 && r1) || (k2 && r2)
		notRaw := k1 && !r1 && k2 && !r2
		nl, knl := knownContains(p.Facts, text, '\n')
		ends, kends := knownSuffix(p.Facts, text, "\n")
		switch {
		case raw:
			t.note("text starting with // or /* passes through raw, alone", matchSegs(out, []xseg{tx}), "path %s writes %s", traceOf(p), segsString(out))
		case !notRaw:
			t.note("every path decides whether the text is already a comment", false, "path %s writes %s without having tested both comment markers (facts %s)", traceOf(p), segsString(out), p.Facts)
		case !knl:
			t.note("every path decides between line and block style by the presence of a newline", false, "path %s writes %s without a newline test of the text (facts %s)", traceOf(p), segsString(out), p.Facts)
		case !nl:
			t.note("text without a newline is written as `// text`", matchSegs(out, []xseg{{lit: "// "}, tx}), "path %s writes %s", traceOf(p), segsString(out))
		case kends && ends:
			t.note("text with a newline is written as a block comment (text ends in a newline)", matchSegs(out, []xseg{{lit: "/*\n"}, tx, {lit: "*/"}}), "path %s writes %s", traceOf(p), segsString(out))
		case kends && !ends:
			t.note("text with a newline is written as a block comment closed on its own line", matchSegs(out, []xseg{{lit: "/*\n"}, tx, {lit: "\n*/"}}), "path %s writes %s", traceOf(p), segsString(out))
		default:
			// no test of the text's end: an unconditional newline before the close is fine too
			t.note("text with a newline is written as a block comment closed on its own line", matchSegs(out, []xseg{{lit: "/*\n"}, tx, {lit: "\n*/"}}), "path %s writes %s without knowing whether the text ends in a newline", traceOf(p), segsString(out))
		}
	}
	c.checkArityIndependence(o, f)
	t.require("text starting with // or /* passes through raw, alone", "text without a newline is written as `// text`", "text with a newline is written as a block comment closed on its own line")
	t.flush()
	return o.list
}

// ---------------------------------------------------------------------------------------------
// P-TAG

// findCondCall: the call term behind a fact atom (unwrapping negation).
func condCall(t *T, callee string) *T {
	for t != nil && t.Op == "not" {
		t = t.A[0]
	}
	if t != nil && t.Op == "call" && t.Aux == callee {
		return t
	}
	// an index search compared with a constant: IndexByte(x, c) < 0, >= 0, == -1, != -1
	if t != nil && t.Op == "binop" && len(t.A) == 2 {
		for k := 0; k < 2; k++ {
			if _, isN := t.A[1-k].intVal(); isN && t.A[k].Op == "call" && t.A[k].Aux == callee {
				return t.A[k]
			}
		}
	}
	return nil
}

func rulePXTag(c *Ctx) []Obligation {
	o := c.newObs("P-TAG")
	f := c.implOf(c.renderName(), "jen.tag")
	if f == nil {
		o.undecided("(jen.tag).render", "anchor", token.NoPos, "anchor lost")
		return o.list
	}
	fn := fname(f)
	paths, trunc := c.Paths(f, PXConfig{SkipErrEdges: true, Opaque: c.stdOpaque(), MaxVisits: 4})
	if trunc || len(paths) == 0 {
		o.undecided(fn, "path enumeration", f.Pos(), "%d paths, truncated %v", len(paths), trunc)
		return o.list
	}
	t := newTally(o, fn, f.Pos())
	for _, p := range paths {
		if p.End == "panic" {
			t.note("tag rendering does not panic", false, "path %s panics", traceOf(p))
			continue
		}
		if !successPath(p) {
			continue
		}
		out, other := pathOutput(p, "p1")
		if len(other) > 0 {
			t.note("writes go to the writer parameter", false, "path %s writes to %v", traceOf(p), other)
			continue
		}
		// keys seen by the range over the tag's items on this path
		var keys []string
		for _, atom := range p.Order {
			if strings.HasPrefix(atom, "next(range(recv.items))@") && strings.HasSuffix(atom, "#0") && p.Facts[atom] {
				keys = append(keys, strings.TrimSuffix(atom, "#0")+"#1")
			}
		}
		nullKnown := false
		for atom, pol := range p.Facts {
			if pol && (atom == "empty(recv.items)" || strings.Contains(atom, ".isNull(recv")) {
				nullKnown = true
			}
		}
		if len(out) == 0 {
			t.note("nothing is written only for an empty tag", nullKnown, "path %s writes nothing without the tag being known empty (facts %s)", traceOf(p), p.Facts)
			continue
		}
		if len(keys) == 0 {
			continue // no items but not null: infeasible
		}
		nw := 0
		for _, e := range p.Events {
			if e.Kind == "write" {
				nw++
			}
		}
		// the literal form
		inner := out
		form := ""
		var quotedTerm *T
		if len(out) == 1 && out[0].Val != nil && out[0].Verb == "q" {
			form = "quoted"
			quotedTerm = out[0].Val
			inner = termTemplate(out[0].Val)
		} else if len(out) >= 2 && out[0].Val == nil && strings.HasPrefix(out[0].Lit, "`") && out[len(out)-1].Val == nil && strings.HasSuffix(out[len(out)-1].Lit, "`") {
			form = "raw"
			inner = append([]pseg{}, out...)
			inner[0].Lit = inner[0].Lit[1:]
			last := len(inner) - 1
			inner[last].Lit = inner[last].Lit[:len(inner[last].Lit)-1]
			var cl []pseg
			for _, sg := range inner {
				if sg.Val == nil && sg.Lit == "" {
					continue
				}
				cl = append(cl, sg)
			}
			inner = cl
		} else {
			t.note("the tag is written as one back-quoted or quoted string literal", false, "path %s writes %s", traceOf(p), segsString(out))
			continue
		}
		t.note("the tag is written as one back-quoted or quoted string literal", nw == 1, "path %s uses %d writes", traceOf(p), nw)
		// pairs: key ":" quoted(items[key]) joined by single spaces, each key once
		seen := map[string]bool{}
		okPairs := true
		why := ""
		i := 0
		for i < len(inner) {
			if i+2 >= len(inner) || inner[i].Val == nil || (inner[i].Verb != "s" && inner[i].Verb != "v") || inner[i+1].Val != nil || inner[i+2].Val == nil {
				okPairs, why = false, "pair shape"
				break
			}
			k := inner[i].Val.String()
			sep := inner[i+1].Lit
			v := inner[i+2]
			if sep != ":" {
				okPairs, why = false, fmt.Sprintf("between key and value: %q", sep)
				break
			}
			if v.Verb != "q" {
				okPairs, why = false, "value written with %"+v.Verb+" instead of Go quoting"
				break
			}
			// the value looked up under the key — or, equivalently, the value the same step of the
			// range over the (unmodified) map yielded together with that key
			sameEntry := strings.HasSuffix(k, "#1") && v.Val.String() == strings.TrimSuffix(k, "#1")+"#2"
			if v.Val.String() != "recv.items["+k+"]" && !sameEntry {
				okPairs, why = false, "value "+v.Val.String()+" is not the one stored under key "+k
				break
			}
			if seen[k] {
				okPairs, why = false, "key written twice"
				break
			}
			seen[k] = true
			i += 3
			if i < len(inner) {
				if inner[i].Val != nil || inner[i].Lit != " " {
					okPairs, why = false, "pairs not joined by exactly one space"
					break
				}
				i++
				if i >= len(inner) {
					okPairs, why = false, "trailing space"
				}
			}
		}
		if okPairs {
			for _, k := range keys {
				if !seen[k] {
					okPairs, why = false, "key "+k+" missing"
				}
			}
			if len(seen) != len(keys) {
				okPairs, why = false, "pair count"
			}
		}
		t.note("each pair is key:\"value\" (value Go-quoted, looked up under that key), every key once, joined by single spaces", okPairs, "path %s writes %s: %s — reflect.StructTag needs key:\"quoted value\" pairs separated by spaces", traceOf(p), segsString(inner), why)
		// sorted before use
		sorted := false
		for _, e := range p.Events {
			if e.Kind == "call" && e.Fn != nil {
				allKeys := false
				if len(e.Args) > 0 && e.Args[0].HasEl && len(e.Args[0].Elems) == len(keys) {
					// what is sorted must be the keys themselves (sorting the rendered pairs orders
					// "a1:…" before "a:…")
					allKeys = true
					isKey := map[string]bool{}
					for _, k := range keys {
						isKey[k] = true
					}
					// … or small structs carrying the key in the field the comparator orders by
					fld := ""
					if ci, ok := e.In.(ssa.CallInstruction); ok {
						fld, _ = sortField(c, ci)
					}
					for _, el := range e.Args[0].Elems {
						if isKey[el.String()] {
							continue
						}
						if el.Op == "struct" && fld != "" && el.Fields[fld] != nil && isKey[el.Fields[fld].String()] {
							continue
						}
						allKeys = false
					}
				}
				// a slice made with the map's length and filled slot by slot
				if len(e.Args) > 0 && e.Args[0].Op == "make" && len(e.Args[0].A) == 1 && e.Args[0].A[0].String() == "len(recv.items)" {
					got := map[string]bool{}
					for i := range keys {
						if el, ok := p.Mem[fmt.Sprintf("s%d[%d]", e.Args[0].Inst, i)]; ok {
							got[el.String()] = true
						}
					}
					allKeys = len(got) == len(keys)
					for _, k := range keys {
						if !got[k] {
							allKeys = false
						}
					}
				}
				if ci, ok := e.In.(ssa.CallInstruction); ok && isSortCall(ci) && allKeys {
					if ok2, _ := sortOrderOK(c, ci); ok2 {
						// "sorted order" is the ascending order of the keys themselves, not of something
						// computed from them (lower-cased, reversed, by length)
						if ok3, why3 := ascendingNaturalOrder(c, ci); ok3 {
							sorted = true
						} else {
							t.note("the keys are sorted in ascending order of the keys themselves", false, "path %s: %s", traceOf(p), why3)
						}
					}
				}
			}
		}
		t.note("the keys are sorted before the pairs are written", sorted, "path %s: no sort of the %d collected keys by a total order", traceOf(p), len(keys))
		// back-quoted only if representable
		if form == "raw" {
			okBQ := false
			for atom, pol := range p.Facts {
				if cc := condCall(p.Terms[atom], "strconv.CanBackquote"); cc != nil && pol && len(cc.A) == 1 && segsString(termTemplate(cc.A[0])) == segsString(inner) {
					okBQ = true
				}
			}
			t.note("back-quoted form only if strconv.CanBackquote holds for exactly the text written", okBQ, "path %s writes a raw string literal without that test (facts %s)", traceOf(p), p.Facts)
		} else {
			_ = quotedTerm
			t.note("otherwise the text is quoted by strconv.Quote", true, "")
		}
	}
	c.checkArityIndependence(o, f)
	t.require("each pair is key:\"value\" (value Go-quoted, looked up under that key), every key once, joined by single spaces", "back-quoted form only if strconv.CanBackquote holds for exactly the text written", "nothing is written only for an empty tag")
	t.flush()
	return o.list
}

// ---------------------------------------------------------------------------------------------
// Arity / position independence. Path enumeration unrolls loops a few times and folds counters, so
// a special case keyed on a particular count ("from the 5th item on", "only below 6 keys") would
// stay invisible to it. Such a case needs a comparison of an int quantity with a constant other
// than 0 / 1 / -1 — none of which the renderer has any business making. This is checked on the
// functions the path rules cover and on the module helpers they call.

func (c *Ctx) magicNumberConds(f *ssa.Function, depth int, seen map[*ssa.Function]bool) []string {
	if f == nil || seen[f] || depth > 3 || f.Blocks == nil {
		return nil
	}
	seen[f] = true
	var out []string
	a := c.FA(f)
	for _, b := range f.Blocks {
		for _, in := range b.Instrs {
			bo, ok := in.(*ssa.BinOp)
			if !ok {
				continue
			}
			switch bo.Op {
			case token.EQL, token.NEQ, token.LSS, token.GTR, token.LEQ, token.GEQ:
			default:
				continue
			}
			for _, pair := range [][2]ssa.Value{{bo.X, bo.Y}, {bo.Y, bo.X}} {
				k, isC := constInt(pair[1])
				if !isC || (k >= -1 && k <= 1) {
					continue
				}
				// a count / index / length is a plain int; a named integer type is an enumeration
				bt, ok := pair[0].Type().(*types.Basic)
				if !ok || bt.Kind() != types.Int {
					continue
				}
				if _, isConst := pair[0].(*ssa.Const); isConst {
					continue
				}
				// the length of a text is about its shape (a two-byte marker), not about how many items there are
				if call, ok := pair[0].(*ssa.Call); ok {
					if bi, ok := call.Call.Value.(*ssa.Builtin); ok && bi.Name() == "len" && len(call.Call.Args) == 1 {
						if bt, ok := call.Call.Args[0].Type().Underlying().(*types.Basic); ok && bt.Info()&types.IsString != 0 {
							continue
						}
					}
				}
				out = append(out, fmt.Sprintf("%s compares %s with %d at %s", fname(f), a.Desc(pair[0]), k, c.pos(bo.Pos())))
			}
		}
	}
	for _, cal := range c.staticCallees(f) {
		isImpl := false
		for _, r := range append(c.codeImpls(c.renderName()), c.codeImpls(c.nullName())...) {
			if r == cal {
				isImpl = true
			}
		}
		if isImpl {
			continue
		}
		out = append(out, c.magicNumberConds(cal, depth+1, seen)...)
	}
	for _, an := range f.AnonFuncs {
		out = append(out, c.magicNumberConds(an, depth+1, seen)...)
	}
	return out
}

func (c *Ctx) checkArityIndependence(o *obs, f *ssa.Function) {
	ms := c.magicNumberConds(f, 0, map[*ssa.Function]bool{})
	if len(ms) == 0 {
		o.add(Discharged, fname(f), "no count- or position-dependent special case", f.Pos(), true, "no comparison of an int quantity with a constant other than 0 / 1 / -1 in this function or its helpers: what holds for the first few items holds for every arity")
		return
	}
	for _, m := range ms {
		o.add(Violated, fname(f), "no count- or position-dependent special case", f.Pos(), true, "%s — the behaviour would differ for that particular count or position", m)
	}
}

// ---------------------------------------------------------------------------------------------
// P-GROUPRENDER

func and3(vals ...[2]bool) (val, known bool) {
	// each operand: [value, known]
	allKnown := true
	for _, v := range vals {
		if v[1] && !v[0] {
			return false, true
		}
		if !v[1] {
			allKnown = false
		}
	}
	if allKnown {
		return true, true
	}
	return false, false
}

func fact3(f Facts, atom string) [2]bool {
	v, ok := f[atom]
	return [2]bool{v, ok}
}

func not3(x [2]bool) [2]bool { return [2]bool{!x[0], x[1]} }

func rulePXGroupRender(c *Ctx) []Obligation {
	o := c.newObs("P-GROUPRENDER")
	f := c.method("Group", c.renderName())
	items := c.role("renderItems")
	nullItems := c.role("isNullItems")
	prev := c.role("previous")
	if f == nil || items == nil {
		o.undecided("(*jen.Group).render", "anchor", token.NoPos, "anchor lost: Group.render or the list renderer (a *Group method (File, io.Writer) (bool, error) that renders the items)")
		return o.list
	}
	fn := fname(f)
	paths, trunc := c.Paths(f, PXConfig{SkipErrEdges: true, Opaque: c.stdOpaque(items, nullItems, prev)})
	if trunc || len(paths) == 0 {
		o.undecided(fn, "path enumeration", f.Pos(), "%d paths, truncated %v", len(paths), trunc)
		return o.list
	}
	t := newTally(o, fn, f.Pos())
	for _, p := range paths {
		if p.End == "panic" {
			t.note("group rendering does not panic", false, "path %s panics (%v)", traceOf(p), p.Events[len(p.Events)-1].Args)
			continue
		}
		if !successPath(p) {
			continue
		}
		var itemsEv *Ev
		var prevT, nullT string
		var before, after []pseg
		okWriter := true
		nItems := 0
		for i := range p.Events {
			e := &p.Events[i]
			switch {
			case e.Kind == "call" && e.Fn == items:
				itemsEv = e
				nItems++
				// the group itself, the File and the writer of this render — as separate arguments or
				// packed into a context value
				leaves := map[string]bool{}
				for _, a := range e.Args {
					if a.Op == "struct" {
						for _, fv := range a.Fields {
							leaves[fv.String()] = true
						}
					} else {
						leaves[a.String()] = true
					}
				}
				if !(leaves["recv"] && leaves["p0"] && leaves["p1"]) {
					t.note("items are rendered with the same group, File and writer", false, "path %s calls the list renderer with %v", traceOf(p), e.Args)
				}
			case e.Kind == "call" && e.Fn == prev && prev != nil:
				prevT = e.Res.String()
				t.note("a block looks up what precedes itself in the enclosing statement", len(e.Args) == 2 && e.Args[0].String() == "p2" && e.Args[1].String() == "recv", "path %s: previous(%v)", traceOf(p), e.Args)
			case e.Kind == "call" && e.Fn == nullItems && nullItems != nil:
				nullT = e.Res.String()
			case e.Kind == "write":
				if e.Writer.String() != "p1" {
					okWriter = false
				}
				dst := &before
				if itemsEv != nil {
					dst = &after
				}
				for _, sg := range e.Segs {
					if sg.Val == nil && len(*dst) > 0 && (*dst)[len(*dst)-1].Val == nil {
						(*dst)[len(*dst)-1].Lit += sg.Lit
						continue
					}
					*dst = append(*dst, sg)
				}
			case e.Kind == "store" || e.Kind == "mapupdate":
				t.note("rendering a group stores nothing", false, "path %s stores to %s", traceOf(p), e.Recv)
			}
		}
		t.note("writes go to the writer parameter", okWriter, "path %s writes elsewhere", traceOf(p))
		F := p.Facts
		if nullItems == nil {
			// the all-null test is inlined: read it off the item facts
			if v, known := c.itemsAllNull3(p, F, "recv.items"); known {
				nullT = "#allnull"
				F = F.with(nullT, v)
			}
		}
		noPrev := false
		if prev == nil && F.Has(`eq("block",recv.name)`, true) && F.Has("eq(nil,p2)", false) {
			// the look-up of the preceding item is inlined: locate it from the facts
			x, kind, why := c.inlinedPrevious(F)
			switch kind {
			case "item":
				prevT = x
				t.note("a block looks up what precedes itself in the enclosing statement", true, "")
			case "none":
				noPrev = true
				t.note("a block looks up what precedes itself in the enclosing statement", true, "")
			default:
				t.note("a block looks up what precedes itself in the enclosing statement", false, "path %s: %s (facts %s)", traceOf(p), why, F)
			}
		}
		if itemsEv == nil {
			// nothing rendered: only an all-null type list
			ok := len(before) == 0 && F.Has(`eq("types",recv.name)`, true) && nullT != "" && F.Has(nullT, true)
			t.note("items are skipped (and nothing is written) only for a type list whose items are all null", ok, "path %s returns without rendering the items; wrote %s; facts %s", traceOf(p), segsString(before), F)
			continue
		}
		t.note("items are rendered exactly once", nItems == 1, "path %s renders the items %d times", traceOf(p), nItems)
		// brace-less form?
		isA, isN := false, false
		if F.Has(`eq("block",recv.name)`, false) || knownOtherConst(F, "recv.name", "block") || F.Has("eq(nil,p2)", true) || noPrev {
			isN = true
		} else if prevT != "" && F.Has(`eq("block",recv.name)`, true) && F.Has("eq(nil,p2)", false) {
			isGrp, grpNil := fact3(F, "is<*jen.Group>("+prevT+")"), fact3(F, "eq(assert<*jen.Group>("+prevT+"),nil)")
			caseA := fact3(F, `eq("case",assert<*jen.Group>(`+prevT+`).name)`)
			isTok := fact3(F, "is<jen.token>("+prevT+")")
			// a value has one dynamic type: a successful test for one type settles the other
			if isGrp[1] && isGrp[0] && !isTok[1] {
				isTok = [2]bool{false, true}
			}
			if isTok[1] && isTok[0] && !isGrp[1] {
				isGrp = [2]bool{false, true}
			}
			defA := fact3(F, `eq("default",assert<jen.token>(`+prevT+`).content)`)
			// the default *keyword*: a literal or an identifier with that content is an operand
			// (`switch "default" {`), and its block keeps its braces
			kwA := fact3(F, `eq("`+c.tokenTypeConst("keywordToken")+`",assert<jen.token>(`+prevT+`).typ)`)
			grpCase, k1 := and3(isGrp, not3(grpNil), caseA)
			tokDef, k2 := and3(isTok, kwA, defA)
			switch {
			case (k1 && grpCase) || (k2 && tokDef):
				isA = true
			case k1 && !grpCase && k2 && !tokDef:
				isN = true
			}
		}
		if !isA && !isN {
			t.note("every path decides whether the block follows a case group or the default keyword", false, "path %s writes %s … %s without that decision — a token whose content is `default` is the keyword only if its type says so: Lit(\"default\") before a block (`switch \"default\" {`) must keep the braces (facts %s)", traceOf(p), segsString(before), segsString(after), F)
			continue
		}
		openT, closeT := "recv.open", "recv.close"
		form := "a group keeps its own delimiters unless it is a block after case / default"
		if isA {
			openT, closeT = "", ""
			form = "a block after a case group or default is written without braces"
		}
		// open
		okOpen := false
		switch {
		case openT == "":
			okOpen = len(before) == 0
		case len(before) == 1 && before[0].Val != nil && before[0].Val.String() == openT:
			okOpen = true
		case len(before) == 0:
			okOpen = F.Has("empty("+openT+")", true)
		}
		t.note(form+" (open)", okOpen, "path %s writes %s before the items; expected the open token %q (omitted only if known empty)", traceOf(p), segsString(before), openT)
		// trailing newline + close
		nullA := ""
		if itemsEv.Res != nil {
			nullA = itemsEv.Res.String() + "#0"
		}
		closeEmpty := [2]bool{true, true}
		if closeT != "" {
			closeEmpty = fact3(F, "empty("+closeT+")")
		}
		// the list renderer's first result: "nothing was rendered" as a bool, or the number rendered
		null3 := fact3(F, nullA)
		if !null3[1] {
			if v := fact3(F, "lt(0,"+nullA+")"); v[1] {
				null3 = [2]bool{!v[0], true}
			} else if v := fact3(F, "eq(0,"+nullA+")"); v[1] {
				null3 = [2]bool{v[0], true}
			}
		}
		wantNL, known := and3(not3(null3), fact3(F, "recv.multi"), not3(closeEmpty))
		if !known {
			t.note("the trailing newline is decided by: items were rendered, the group is multi-line, it has a close token", false, "path %s writes %s after the items without having tested all three (facts %s)", traceOf(p), segsString(after), F)
			continue
		}
		var want []xseg
		if wantNL {
			comma := fact3(F, `eq(",",recv.separator)`)
			if !comma[1] {
				t.note("the trailing newline carries a comma exactly for comma-separated lists", false, "path %s writes %s without testing the separator", traceOf(p), segsString(after))
				continue
			}
			if comma[0] {
				want = append(want, xseg{lit: ",\n"})
			} else {
				want = append(want, xseg{lit: "\n"})
			}
		}
		wantAlt := append([]xseg{}, want...)
		if closeT != "" {
			want = append(want, xseg{verb: "s", val: closeT})
			if !(closeEmpty[1] && closeEmpty[0]) {
				wantAlt = want
			}
		}
		// a value the path knows to equal a constant is that constant (the separator written as
		// g.separator under the fact separator == ",")
		after = segsByFacts(F, after)
		okAfter := matchSegs(after, want) || matchSegs(after, wantAlt)
		key := "after the items: "
		if wantNL {
			key += "a newline (with a comma for comma lists) and then the close token, in a multi-line group whose items were rendered"
		} else {
			key += "just the close token otherwise"
		}
		t.note(key, okAfter, "path %s writes %s after the items; facts %s", traceOf(p), segsString(after), F)
		t.note(form+" (close)", okAfter || !strings.Contains(segsString(after), "recv.close") == (closeT == ""), "path %s writes %s", traceOf(p), segsString(after))
	}
	c.checkArityIndependence(o, f)
	t.require("a block after a case group or default is written without braces (open)", "a group keeps its own delimiters unless it is a block after case / default (open)",
		"after the items: a newline (with a comma for comma lists) and then the close token, in a multi-line group whose items were rendered", "after the items: just the close token otherwise",
		"items are skipped (and nothing is written) only for a type list whose items are all null")
	t.flush()
	if prev != nil {
		c.checkPreviousPX(o, prev)
	} else {
		// inlined: judged per path above ("a block looks up what precedes itself …"); it must have
		// been exercised at all
		seen := false
		for _, ob := range o.list {
			if strings.HasSuffix(ob.Key, "| a block looks up what precedes itself in the enclosing statement") {
				seen = true
			}
		}
		o.req(seen, fn, "a block can see the item that precedes it", f.Pos(), "no lookup of the preceding item: Case / Default blocks cannot be recognised")
	}
	return o.list
}

// checkPreviousPX: the context lookup returns the element just before the first element equal to
// its argument, or nil.
func (c *Ctx) checkPreviousPX(o *obs, f *ssa.Function) {
	fn := fname(f)
	paths, trunc := c.Paths(f, PXConfig{MaxVisits: 4})
	if trunc || len(paths) == 0 {
		o.undecided(fn, "path enumeration", f.Pos(), "%d paths, truncated %v", len(paths), trunc)
		return
	}
	t := newTally(o, fn, f.Pos())
	for _, p := range paths {
		if p.End != "return" || len(p.Ret) != 1 {
			continue
		}
		// position of the first match on this path
		match := -1
		for i := 0; i < 4; i++ {
			a := fmt.Sprintf("eq(p0,recv[%d])", i)
			if v, ok := p.Facts[a]; ok && v {
				match = i
				break
			}
		}
		r := p.Ret[0]
		switch {
		case r.Nil:
			t.note("returns nil only if there is no match or the match is the first element", match <= 0, "path %s returns nil although recv[%d] matched", traceOf(p), match)
		default:
			want := fmt.Sprintf("recv[%d]", match-1)
			t.note("returns the element just before the first match", match > 0 && r.String() == want, "path %s returns %s with the first match at position %d", traceOf(p), r, match)
		}
	}
	t.require("returns the element just before the first match")
	t.flush()
}

// ---------------------------------------------------------------------------------------------
// P-STMTRENDER / P-RENDERITEMS

type listSpec struct {
	list       string // term of the item list: "recv.items" / "recv"
	sepTerm    string // separator term ("" if the separator is the constant below)
	sepConst   string
	multiAtom  string // "" if never multi-line
	register   bool
	dictGuard  bool
	boolResult bool
	ctxArg     string // expected third argument of the item render call ("" = don't care)
	file       string // term of the File in this function ("p0" by default)
	writer     string // term of the writer ("p1" by default)
}

// ctxTerms: under which terms a function sees the File, the writer and the Group it renders — as
// parameters, or as fields of a small context struct it is handed (receiver or parameter).
func (c *Ctx) ctxTerms(f *ssa.Function) (file, writer, group string) {
	name := func(i int) string {
		if f.Signature.Recv() != nil {
			if i == 0 {
				return "recv"
			}
			return fmt.Sprintf("p%d", i-1)
		}
		return fmt.Sprintf("p%d", i)
	}
	classify := func(t types.Type) string {
		switch {
		case types.TypeString(t, shortQual) == "*jen.File":
			return "file"
		case isWriterType(t):
			return "writer"
		case types.TypeString(t, shortQual) == "*jen.Group":
			return "group"
		}
		return ""
	}
	set := func(kind, term string) {
		switch kind {
		case "file":
			if file == "" {
				file = term
			}
		case "writer":
			if writer == "" {
				writer = term
			}
		case "group":
			if group == "" {
				group = term
			}
		}
	}
	for i, prm := range f.Params {
		if k := classify(prm.Type()); k != "" {
			set(k, name(i))
			continue
		}
		t := prm.Type()
		if pt, ok := t.Underlying().(*types.Pointer); ok {
			t = pt.Elem()
		}
		if st, ok := t.Underlying().(*types.Struct); ok {
			for j := 0; j < st.NumFields(); j++ {
				if k := classify(st.Field(j).Type()); k != "" {
					set(k, name(i)+"."+st.Field(j).Name())
				}
			}
		}
	}
	return
}

// liveCounter: g(list owner, File) int returns, on every path, the number of the owner's items that
// are neither nil nor null, having examined the whole list and nothing else (path enumeration, loop
// unrolled; paths cut by the iteration bound are not judged).
func (c *Ctx) liveCounter(g *ssa.Function) bool {
	if g == nil || g.Blocks == nil || g.Signature.Results().Len() != 1 {
		return false
	}
	key := "liveCounter:" + fname(g)
	if v, ok := c.extra(key); ok {
		return v.(bool)
	}
	res := false
	defer func() { c.setExtra(key, res) }()
	if bt, ok := g.Signature.Results().At(0).Type().Underlying().(*types.Basic); !ok || bt.Kind() != types.Int {
		return false
	}
	list := ""
	if rv := g.Signature.Recv(); rv != nil && types.TypeString(rv.Type(), shortQual) == "*jen.Group" {
		list = "recv.items"
	} else if rv == nil && g.Signature.Params().Len() > 0 {
		if sl, ok := g.Signature.Params().At(0).Type().Underlying().(*types.Slice); ok && types.TypeString(sl.Elem(), shortQual) == "jen.Code" {
			list = "p0"
		}
	}
	if list == "" {
		return false
	}
	c.setExtra(key, false) // recursion guard
	paths, _ := c.Paths(g, PXConfig{Opaque: c.stdOpaque(), MaxVisits: 4, MaxIndex: 3, MaxDepth: 4})
	item := func(k int) string { return fmt.Sprintf("%s[%d]", list, k) }
	judged, sawTwo := 0, false
	for _, p := range paths {
		if p.End != "return" || len(p.Ret) != 1 {
			return false
		}
		F := p.Facts
		live, n := 0, 0
		for k := 0; k < 4; k++ {
			nil3 := fact3(F, eqAtom("nil", item(k)))
			null3 := [2]bool{}
			seen := nil3[1]
			for _, e := range p.Events {
				if e.Kind == "invoke" && e.Name == c.nullName() && e.Recv != nil && e.Recv.String() == item(k) {
					null3 = fact3(F, e.Res.String())
					seen = true
				}
			}
			if !seen {
				break
			}
			n = k + 1
			switch {
			case nil3[1] && !nil3[0] && null3[1] && !null3[0]:
				live++
			case (nil3[1] && nil3[0]) || (null3[1] && null3[0]):
			default:
				return false
			}
		}
		for _, e := range p.Events {
			if !(e.Kind == "invoke" && e.Name == c.nullName()) {
				return false
			}
		}
		exhausted := F.Has(fmt.Sprintf("lt(%d,len(%s))", n, list), false)
		if n == 0 {
			exhausted = exhausted || F.Has("empty("+list+")", true) || F.Has("eq(nil,recv)", true)
		}
		if !exhausted {
			continue // cut by the iteration bound
		}
		r, isN := p.Ret[0].intVal()
		if !isN || int(r) != live {
			return false
		}
		judged++
		if live >= 2 {
			sawTwo = true
		}
	}
	res = judged > 0 && sawTwo
	return res
}

func (c *Ctx) checkListPaths(o *obs, f *ssa.Function, sp listSpec) {
	fn := fname(f)
	reg := c.registerFn()
	if sp.file == "" {
		sp.file = "p0"
	}
	if sp.writer == "" {
		sp.writer = "p1"
	}
	// helpers that count the items that render stay calls: their result is a term of its own
	var counters []*ssa.Function
	if sp.dictGuard {
		for _, cal := range c.calleesWithin(f, 2) {
			if c.liveCounter(cal) {
				counters = append(counters, cal)
			}
		}
	}
	paths, trunc := c.Paths(f, PXConfig{SkipErrEdges: true, Opaque: c.stdOpaque(counters...), MaxVisits: 4, MaxIndex: 3, MaxDepth: 3, MaxPaths: 200000})
	if trunc || len(paths) == 0 {
		o.undecided(fn, "path enumeration", f.Pos(), "%d paths, truncated %v", len(paths), trunc)
		return
	}
	c.stats["paths:"+fn] = len(paths)
	// severalLive: "more than one item renders", as far as the path knows it from a live counter
	// (the counter is a pure function of the list and the File, neither of which changes on a path:
	// a path on which two of its calls disagree is infeasible)
	severalLive := func(F Facts) (val [2]bool, infeasible bool) {
		sawT, sawF := false, false
		for atom, pol := range F {
			if !strings.HasPrefix(atom, "lt(1,") {
				continue
			}
			for _, cn := range counters {
				if strings.HasPrefix(atom, "lt(1,"+fname(cn)+"(") {
					if pol {
						sawT = true
					} else {
						sawF = true
					}
				}
			}
		}
		switch {
		case sawT && sawF:
			return [2]bool{}, true
		case sawT || sawF:
			return [2]bool{sawT, true}, false
		}
		return [2]bool{}, false
	}
	t := newTally(o, fn, f.Pos())
	item := func(k int) string { return fmt.Sprintf("%s[%d]", sp.list, k) }
	for _, p := range paths {
		F := p.Facts
		if _, infeasible := severalLive(F); infeasible {
			continue
		}
		if p.End == "panic" {
			t.note("list rendering does not panic", false, "path %s panics (%v)", traceOf(p), p.Events[len(p.Events)-1].Args)
			continue
		}
		isErr := !successPath(p)
		// items examined on this path
		n := 0
		for k := 0; k < 4; k++ {
			mentioned := false
			for atom := range F {
				if strings.Contains(atom, item(k)) {
					mentioned = true
				}
			}
			for _, e := range p.Events {
				if e.Recv != nil && strings.Contains(e.Recv.String(), item(k)) {
					mentioned = true
				}
			}
			if mentioned {
				n = k + 1
			}
		}
		// status per item
		type st struct {
			nil3, null3 [2]bool
			nullAtom    string
		}
		sts := make([]st, n)
		for k := 0; k < n; k++ {
			sts[k].nil3 = fact3(F, "eq("+min2("nil", item(k))+","+max2("nil", item(k))+")")
			for _, e := range p.Events {
				if e.Kind == "invoke" && e.Name == c.nullName() && e.Recv.String() == item(k) {
					sts[k].nullAtom = e.Res.String()
					sts[k].null3 = fact3(F, e.Res.String())
				}
			}
		}
		// expected stream
		var want [][]xseg // alternatives are handled by optional separator below
		_ = want
		rendered := false
		ev := 0
		okStream := true
		why := ""
		dictOK, dictWhy := true, ""
		nRendered := 0
		nextEvents := func(upto func(e Ev) bool) (writes []pseg, hit *Ev) {
			for ev < len(p.Events) {
				e := &p.Events[ev]
				ev++
				if e.Kind == "write" {
					if e.Writer.String() != sp.writer {
						okStream, why = false, "write to "+e.Writer.String()
					}
					for _, sg := range e.Segs {
						if sg.Val == nil && len(writes) > 0 && writes[len(writes)-1].Val == nil {
							writes[len(writes)-1].Lit += sg.Lit
							continue
						}
						writes = append(writes, sg)
					}
					continue
				}
				if e.Kind == "store" || e.Kind == "mapupdate" {
					okStream, why = false, "store to "+e.Recv.String()
				}
				if upto(*e) {
					return writes, e
				}
			}
			return writes, nil
		}
		for k := 0; k < n && okStream; k++ {
			s := sts[k]
			live := s.nil3[1] && !s.nil3[0] && s.null3[1] && !s.null3[0]
			skipped := (s.nil3[1] && s.nil3[0]) || (s.null3[1] && s.null3[0])
			if isErr && k == n-1 {
				break // the failing item: judged below
			}
			if !live && !skipped {
				// the loop ended before deciding (only possible for the last, partially examined item)
				if k == n-1 {
					break
				}
				okStream, why = false, fmt.Sprintf("item %d is neither known nil / null nor known live (nil test before the null test?)", k)
				break
			}
			if skipped {
				continue
			}
			// live item: [sep] [newline] render
			w, hit := nextEvents(func(e Ev) bool { return e.Kind == "invoke" && e.Name == c.renderName() })
			if hit == nil || hit.Recv.String() != item(k) {
				okStream, why = false, fmt.Sprintf("live item %d is not rendered next", k)
				break
			}
			var exp, expAlt []xseg
			if rendered {
				if sp.sepTerm != "" {
					e3 := fact3(F, "empty("+sp.sepTerm+")")
					if !(e3[1] && e3[0]) {
						exp = append(exp, xseg{verb: "s", val: sp.sepTerm})
					}
					if !(e3[1] && !e3[0]) {
						// emptiness untested or known empty: writing it or not is the same output
					}
					expAlt = append(expAlt, xseg{verb: "s", val: sp.sepTerm})
					if e3[1] && !e3[0] {
						expAlt = exp
					}
				} else {
					exp = append(exp, xseg{lit: sp.sepConst})
					expAlt = exp
				}
			}
			if sp.multiAtom != "" {
				m3 := fact3(F, sp.multiAtom)
				if !m3[1] {
					okStream, why = false, "an item is rendered without the multi-line flag having been tested"
					break
				}
				if m3[0] {
					exp = append(exp, xseg{lit: "\n"})
					expAlt = append(expAlt, xseg{lit: "\n"})
				}
			}
			if !matchSegs(w, exp) && !matchSegs(w, expAlt) {
				okStream, why = false, fmt.Sprintf("before live item %d (an item was rendered before: %v) the path writes %s", k, rendered, segsString(w))
				break
			}
			if len(hit.Args) >= 2 && (hit.Args[0].String() != sp.file || hit.Args[1].String() != sp.writer || (sp.ctxArg != "" && len(hit.Args) >= 3 && hit.Args[2].String() != sp.ctxArg)) {
				okStream, why = false, fmt.Sprintf("item %d is rendered with arguments %v", k, hit.Args)
			}
			rendered = true
			nRendered++
			// Dict guard decided?
			if sp.dictGuard {
				v3 := fact3(F, `eq("values",`+strings.TrimSuffix(sp.list, ".items")+`.name)`)
				d3 := fact3(F, "is<jen.Dict>("+item(k)+")")
				l3 := fact3(F, "lt(1,len("+sp.list+"))")
				if sl, _ := severalLive(F); sl[1] {
					l3 = sl
				}
				okGuard := (v3[1] && !v3[0]) || (d3[1] && !d3[0]) || (l3[1] && !l3[0])
				if !okGuard {
					dictOK, dictWhy = false, fmt.Sprintf("item %d is rendered although it may be a Dict next to other Values items (values %v, Dict %v, several %v)", k, v3, d3, l3)
				}
			}
		}
		if okStream && !isErr {
			// nothing else is written / rendered
			w, hit := nextEvents(func(e Ev) bool { return e.Kind == "invoke" && e.Name == c.renderName() })
			if hit != nil || len(w) > 0 {
				okStream, why = false, "extra output after the last live item: "+segsString(w)
			}
		}
		if isErr {
			// an error return of the list renderer itself: only the Dict guard may raise one
			if len(p.Ret) > 0 && definitelyError(p.Ret[len(p.Ret)-1]) {
				k := n - 1
				sl, _ := severalLive(F)
				okG := sp.dictGuard && k >= 0 && F.Has(`eq("values",`+strings.TrimSuffix(sp.list, ".items")+`.name)`, true) && F.Has("is<jen.Dict>("+item(k)+")", true) && (F.Has("lt(1,len("+sp.list+"))", true) || (sl[1] && sl[0]))
				if okG {
					// nil and null items vanish: the error may depend only on the items that render
					// (Values(Dict{…}, nil) is Values(Dict{…}))
					t.note("the Dict error is raised only next to another item that renders (nil and null items do not count)", sl[1] && sl[0], "path %s raises it knowing only %s: Values(Dict{…}, Null()) fails where Values(Dict{…}) renders (facts %s)", traceOf(p), "lt(1,len("+sp.list+"))", F)
				}
				t.note("the list renderer raises an error of its own only for a Dict next to other Values items", okG, "path %s returns %s (facts %s)", traceOf(p), p.Ret[len(p.Ret)-1], F)
				// … and only for a Dict that would be rendered: a nil or null Dict vanishes like any other
				// null item (adding or removing null items never changes the result)
				if okG {
					liveK := F.Has(eqAtom("nil", item(k)), false)
					nullKnown := false
					for _, e := range p.Events {
						if e.Kind == "invoke" && e.Name == c.nullName() && e.Recv != nil && e.Recv.String() == item(k) && e.Res != nil && F.Has(e.Res.String(), false) {
							nullKnown = true
						}
					}
					t.note("the Dict error is raised only for a Dict that is neither nil nor null", liveK && nullKnown, "path %s raises it for %s without having established that the item would be rendered (facts %s)", traceOf(p), item(k), F)
				}
			}
			continue
		}
		t.note("nil / null items produce nothing; every other item is rendered, preceded by the separator iff an item was rendered before (and by a newline iff multi-line)", okStream, "path %s: %s (facts %s)", traceOf(p), why, F)
		if sp.dictGuard {
			t.note("a Dict is rendered only as the single item of a Values list", dictOK, "path %s: %s (facts %s)", traceOf(p), dictWhy, F)
		}
		// registration pre-pass
		if sp.register {
			okReg := true
			whyR := ""
			for k := 0; k < n; k++ {
				s := sts[k]
				if s.nil3[1] && s.nil3[0] {
					continue
				}
				tk := "assert<jen.token>(" + item(k) + ")"
				isTok := fact3(F, "is<jen.token>("+item(k)+")")
				isPkg := fact3(F, `eq("`+c.tokenTypeConst("packageToken")+`",`+tk+`.typ)`)
				want := isTok[1] && isTok[0] && isPkg[1] && isPkg[0]
				decided := isTok[1] && (!isTok[0] || isPkg[1])
				if !decided && s.nullAtom != "" {
					okReg, whyR = false, fmt.Sprintf("item %d is null-tested without having been examined for being a package token", k)
				}
				regAt, nullAt := -1, -1
				for i, e := range p.Events {
					if e.Kind == "call" && e.Fn == reg && len(e.Args) == 2 && strings.Contains(e.Args[1].String(), item(k)) {
						regAt = i
						if e.Args[0].String() != sp.file || e.Args[1].String() != "assert<string>("+tk+".content)" {
							okReg, whyR = false, fmt.Sprintf("registration for item %d with arguments %v", k, e.Args)
						}
					}
					if e.Kind == "invoke" && e.Name == c.nullName() && e.Recv.String() == item(k) && nullAt < 0 {
						nullAt = i
					}
				}
				if want && (regAt < 0 || (nullAt >= 0 && regAt > nullAt)) {
					okReg, whyR = false, fmt.Sprintf("package token at position %d is not registered before its null test (a dot-imported package token is null and would lose its import)", k)
				}
				if !want && regAt >= 0 {
					okReg, whyR = false, fmt.Sprintf("item %d is registered without being known to be a package token", k)
				}
			}
			t.note("every package token among the items is registered before its null test, nothing else is", okReg, "path %s: %s", traceOf(p), whyR)
		}
		if sp.boolResult && len(p.Ret) == 2 {
			b, isC := p.Ret[0].boolVal()
			okRes := isC && b == !rendered
			if n, isN := p.Ret[0].intVal(); isN {
				okRes = int(n) == nRendered // a count of the items rendered serves the same purpose
			}
			// the error result is nil, literally or by the facts of this (success) path
			errNil := p.Ret[1].Nil || F.Has(eqAtom(p.Ret[1].String(), "nil"), true)
			t.note("the result tells whether nothing was rendered", okRes && errNil, "path %s returns %v after rendering %d item(s)", traceOf(p), p.Ret, nRendered)
		}
	}
	t.require("nil / null items produce nothing; every other item is rendered, preceded by the separator iff an item was rendered before (and by a newline iff multi-line)")
	if sp.dictGuard {
		t.require("the list renderer raises an error of its own only for a Dict next to other Values items", "the Dict error is raised only next to another item that renders (nil and null items do not count)")
	}
	if sp.register {
		t.require("every package token among the items is registered before its null test, nothing else is")
	}
	t.flush()
	c.checkArityIndependence(o, f)
}

func rulePXStmtRender(c *Ctx) []Obligation {
	o := c.newObs("P-STMTRENDER")
	f := c.method("Statement", c.renderName())
	if f == nil {
		o.undecided("(*jen.Statement).render", "anchor", token.NoPos, "anchor lost")
		return o.list
	}
	c.checkListPaths(o, f, listSpec{list: "recv", sepConst: " ", ctxArg: "recv"})
	return o.list
}

func rulePXRenderItems(c *Ctx) []Obligation {
	o := c.newObs("P-RENDERITEMS")
	f := c.role("renderItems")
	if f == nil {
		o.undecided("(*jen.Group).renderItems", "anchor", token.NoPos, "anchor lost: no *Group method (File, io.Writer) (bool, error) rendering the items")
		return o.list
	}
	file, writer, group := c.ctxTerms(f)
	if group == "" {
		group = "recv"
	}
	c.checkListPaths(o, f, listSpec{list: group + ".items", sepTerm: group + ".separator", multiAtom: group + ".multi", register: true, dictGuard: true, boolResult: true, file: file, writer: writer})
	return o.list
}

// ---------------------------------------------------------------------------------------------
// P-ISNULL

// boolOutcomes expands a path returning a boolean into (facts, value) outcomes: a constant result
// is one outcome; a result that is a single literal contributes the two outcomes of that literal.
func boolOutcomes(p *PXPath) (out []struct {
	F   Facts
	Val bool
}, ok bool) {
	if len(p.Ret) != 1 {
		return nil, false
	}
	r := p.Ret[0]
	if b, isC := r.boolVal(); isC {
		return append(out, struct {
			F   Facts
			Val bool
		}{p.Facts, b}), true
	}
	for _, pol := range []bool{true, false} {
		ls := termLits(r, pol)
		if len(ls) == 0 {
			return nil, false
		}
		f := Facts{}
		for k, v := range p.Facts {
			f[k] = v
		}
		feasible := true
		for _, l := range ls {
			if old, has := f[l.Atom]; has && old != l.Pol {
				feasible = false
			}
			f[l.Atom] = l.Pol
		}
		if len(ls) > 1 && !pol {
			// the negation of a conjunction is not a set of literals: keep only the atom itself
			f = Facts{}
			for k, v := range p.Facts {
				f[k] = v
			}
			f[r.String()] = false
		}
		if feasible && !factsLenConsistent(f) {
			feasible = false
		}
		if feasible {
			out = append(out, struct {
				F   Facts
				Val bool
			}{f, pol})
		}
	}
	return out, true
}

func eqAtom(a, b string) string { return "eq(" + min2(a, b) + "," + max2(a, b) + ")" }

func rulePXIsNull(c *Ctx) []Obligation {
	o := c.newObs("P-ISNULL")
	nullItems := c.role("isNullItems")
	// ---- Group.isNull
	if f := c.method("Group", c.nullName()); f != nil && nullItems != nil {
		fn := fname(f)
		paths, trunc := c.Paths(f, PXConfig{Opaque: c.stdOpaque(nullItems)})
		t := newTally(o, fn, f.Pos())
		if trunc || len(paths) == 0 {
			o.undecided(fn, "path enumeration", f.Pos(), "%d paths", len(paths))
		}
		for _, p := range paths {
			if p.End != "return" || len(p.Ret) != 1 {
				t.note("the null test returns a boolean on every path", false, "path %s ends in %s", traceOf(p), p.End)
				continue
			}
			F := p.Facts
			r := p.Ret[0]
			delim := F.Has("empty(recv.open)", false) || F.Has("empty(recv.close)", false)
			noDelim := F.Has("empty(recv.open)", true) && F.Has("empty(recv.close)", true)
			if b, isC := r.boolVal(); isC {
				if b {
					t.note("a group is null outright only if it is nil", F.Has("eq(nil,recv)", true), "path %s returns true with facts %s", traceOf(p), F)
				} else {
					t.note("a group is non-null outright only if it has a delimiter", F.Has("eq(nil,recv)", false) && delim, "path %s returns false with facts %s", traceOf(p), F)
				}
				continue
			}
			isItems := r.Op == "call" && r.Aux == fname(nullItems) && len(r.A) == 2 && r.A[0].String() == "recv" && r.A[1].String() == "p0"
			t.note("a delimiter-less group is null exactly if all its items are", isItems && F.Has("eq(nil,recv)", false) && noDelim, "path %s returns %s with facts %s", traceOf(p), r, F)
		}
		t.require("a group is null outright only if it is nil", "a group is non-null outright only if it has a delimiter", "a delimiter-less group is null exactly if all its items are")
		t.flush()
	} else if c.method("Group", c.nullName()) == nil {
		o.undecided("(*jen.Group).isNull", "anchor", token.NoPos, "anchor lost: Group's null test")
	}
	// ---- conjunction loops (Group.isNull itself when the items loop is inlined into it)
	type loopSpec struct {
		f      *ssa.Function
		list   string
		nilR   bool
		delims bool
	}
	loops := []loopSpec{{nullItems, "recv.items", false, false}, {c.method("Statement", c.nullName()), "recv", true, false}}
	if nullItems == nil {
		loops[0] = loopSpec{c.method("Group", c.nullName()), "recv.items", true, true}
	}
	for _, lf := range loops {
		f := lf.f
		if f == nil {
			continue
		}
		fn := fname(f)
		paths, trunc := c.Paths(f, PXConfig{Opaque: c.stdOpaque(), MaxVisits: 4})
		if trunc || len(paths) == 0 {
			o.undecided(fn, "path enumeration", f.Pos(), "%d paths", len(paths))
			continue
		}
		t := newTally(o, fn, f.Pos())
		for _, p := range paths {
			if p.End != "return" {
				t.note("the null test does not panic", false, "path %s panics", traceOf(p))
				continue
			}
			outs, okOut := boolOutcomes(p)
			if !okOut {
				t.note("the result is decided on every path", false, "path %s returns %s", traceOf(p), p.Ret[0])
				continue
			}
			for _, oc := range outs {
				b := oc.Val
				F := oc.F
				if lf.nilR && F.Has("eq(nil,recv)", true) {
					t.note("a nil statement is null", b, "path %s returns false for a nil receiver", traceOf(p))
					continue
				}
				if lf.delims {
					// a group with a delimiter is not null, whatever its items; the items decide only
					// for a delimiter-less group
					delim := F.Has("empty(recv.open)", false) || F.Has("empty(recv.close)", false)
					noDelim := F.Has("empty(recv.open)", true) && F.Has("empty(recv.close)", true)
					if delim {
						t.note("a group is non-null outright only if it has a delimiter", !b, "path %s returns true for a group with a delimiter (facts %s)", traceOf(p), F)
						continue
					}
					if !noDelim {
						t.note("a delimiter-less group is null exactly if all its items are", false, "path %s decides by the items without having found both delimiters empty (facts %s)", traceOf(p), F)
						continue
					}
					t.note("a delimiter-less group is null exactly if all its items are", true, "")
				}
				// statuses of the items examined
				n := 0
				lastLive, allSkipped := false, true
				for k := 0; k < 4; k++ {
					it := fmt.Sprintf("%s[%d]", lf.list, k)
					seen := false
					for atom := range F {
						if strings.Contains(atom, it) {
							seen = true
						}
					}
					if !seen {
						break
					}
					n = k + 1
					nil3 := fact3(F, eqAtom("nil", it))
					null3 := [2]bool{}
					for _, e := range p.Events {
						if e.Kind == "invoke" && e.Name == c.nullName() && e.Recv.String() == it {
							null3 = fact3(F, e.Res.String())
						}
					}
					live := nil3[1] && !nil3[0] && null3[1] && !null3[0]
					skipped := (nil3[1] && nil3[0]) || (null3[1] && null3[0])
					lastLive = live
					if !skipped {
						allSkipped = false
					}
				}
				exhausted := F.Has(fmt.Sprintf("lt(%d,len(%s))", n, lf.list), false)
				if n == 0 {
					exhausted = F.Has("empty("+lf.list+")", true)
				}
				if !exhausted {
					// the length may be known from an equation (a count compared with len)
					if F.Has(fmt.Sprintf("eq(%d,len(%s))", n, lf.list), true) {
						exhausted = true
					}
					if kn, ok := p.Mem["#len:"+lf.list]; ok {
						if v, isN := kn.intVal(); isN && int(v) == n {
							exhausted = true
						}
					}
				}
				if n == 0 && F.Has("eq(nil,recv)", true) {
					exhausted = true // a nil list has no items
				}
				if b {
					t.note("null only if every item is nil or null (all items examined)", allSkipped && exhausted, "path %s returns true after %d items (all nil/null: %v, list exhausted: %v; facts %s)", traceOf(p), n, allSkipped, exhausted, F)
				} else {
					t.note("non-null only if an item is neither nil nor null", n > 0 && lastLive, "path %s returns false (facts %s)", traceOf(p), F)
				}
			}
		}
		t.require("null only if every item is nil or null (all items examined)", "non-null only if an item is neither nil nor null")
		t.flush()
		c.checkArityIndependence(o, f)
	}
	// ---- token.isNull
	if f := c.implOf(c.nullName(), "jen.token"); f != nil {
		fn := fname(f)
		paths, trunc := c.Paths(f, PXConfig{Opaque: c.stdOpaque()})
		if trunc || len(paths) == 0 {
			o.undecided(fn, "path enumeration", f.Pos(), "%d paths", len(paths))
		}
		t := newTally(o, fn, f.Pos())
		pkgAtom := `eq("` + c.tokenTypeConst("packageToken") + `",recv.typ)`
		nullAtom := `eq("` + c.tokenTypeConst("nullToken") + `",recv.typ)`
		path := "assert<string>(recv.content)"
		for _, p := range paths {
			if p.End != "return" {
				continue // a failed assertion: T-TOKCONTENT
			}
			for _, e := range p.Events {
				if e.Kind != "panic" && e.Kind != "assert" {
					t.note("the null test of a token has no effect", false, "path %s: %s %s", traceOf(p), e.Kind, e.Name)
				}
			}
			outs, ok := boolOutcomes(p)
			if !ok {
				t.note("the result is decided on every path", false, "path %s returns %v", traceOf(p), p.Ret)
				continue
			}
			for _, oc := range outs {
				F := oc.F
				pk := fact3(F, pkgAtom)
				if !pk[1] {
					// a non-package result may be decided by the token type test alone
					nk := fact3(F, nullAtom)
					if nk[1] && nk[0] {
						pk = [2]bool{false, true}
					} else {
						t.note("every path distinguishes package tokens from the others", false, "path %s returns %v without knowing whether the token is a package token (facts %s)", traceOf(p), oc.Val, F)
						continue
					}
				}
				if pk[0] {
					// registered paths are decided by their entry, any other by the hint (P-DOT-STABLE
					// judges that the hint is only used for unregistered paths)
					dotT, dk, hit, _, _ := c.dotDecision(F, "p0", path)
					loc := fact3(F, eqAtom("p0."+c.ff("path"), path))
					if hit && !loc[1] {
						// an entry with a usable name is made by the registration function only, and never
						// for the File's own path (P-REGISTER, W-IMPORTS-WRITERS)
						loc = [2]bool{false, true}
					}
					var want, known bool
					switch {
					case (dk && dotT) || (loc[1] && loc[0]):
						want, known = true, true
					case dk && !dotT && loc[1] && !loc[0]:
						want, known = false, true
					}
					t.note("a package token is null exactly for a dot-imported path or the File's own path", known && want == oc.Val, "path %s returns %v (dot-import known %v=%v, local %v; facts %s)", traceOf(p), oc.Val, dk, dotT, loc, F)
				} else {
					nk := fact3(F, nullAtom)
					t.note("any other token is null exactly if it is the null token", nk[1] && nk[0] == oc.Val, "path %s returns %v (facts %s)", traceOf(p), oc.Val, F)
				}
			}
		}
		t.require("a package token is null exactly for a dot-imported path or the File's own path", "any other token is null exactly if it is the null token")
		t.flush()
	} else {
		o.undecided("(jen.token).isNull", "anchor", token.NoPos, "anchor lost")
	}
	// ---- tag, comment
	if f := c.implOf(c.nullName(), "jen.tag"); f != nil {
		paths, _ := c.Paths(f, PXConfig{Opaque: c.stdOpaque()})
		t := newTally(o, fname(f), f.Pos())
		for _, p := range paths {
			outs, ok := boolOutcomes(p)
			if !ok || p.End != "return" {
				t.note("a tag is null exactly if it has no items", false, "path %s returns %v", traceOf(p), p.Ret)
				continue
			}
			for _, oc := range outs {
				e := fact3(oc.F, "empty(recv.items)")
				t.note("a tag is null exactly if it has no items", e[1] && e[0] == oc.Val, "path %s returns %v (facts %s)", traceOf(p), oc.Val, oc.F)
			}
		}
		t.require("a tag is null exactly if it has no items")
		t.flush()
	}
	if f := c.implOf(c.nullName(), "jen.comment"); f != nil {
		paths, _ := c.Paths(f, PXConfig{Opaque: c.stdOpaque()})
		t := newTally(o, fname(f), f.Pos())
		for _, p := range paths {
			b, isC := false, false
			if len(p.Ret) == 1 {
				b, isC = p.Ret[0].boolVal()
			}
			t.note("a comment is never null", isC && !b, "path %s returns %v", traceOf(p), p.Ret)
		}
		t.require("a comment is never null")
		t.flush()
	}
	// ---- Null() / Empty(): checked with the other constructors (P-LITCTOR)
	return o.list
}

// ---------------------------------------------------------------------------------------------
// T-LITFMT / P-TOKEN on paths of token.render (helpers such as an extracted formatLiteral inlined)

func contentTerm(t *T) bool {
	if t == nil {
		return false
	}
	s := t.String()
	if s == "recv.content" {
		return true
	}
	return t.Op == "assert" && len(t.A) == 1 && t.A[0].String() == "recv.content"
}

// litSegsOK: the output template of a literal of type typ.
func litSegsOK(typ string, segs []pseg) (ok bool, why string, bare bool) {
	valOK := func(s pseg) (bool, string) {
		if s.Val == nil {
			return false, "no value"
		}
		if !contentTerm(s.Val) {
			return false, "the value printed is " + s.Val.String() + ", not the token's content"
		}
		vb := s.Verb
		if typ == "string" && vb == "q" {
			return true, ""
		}
		if !valueVerbOK(typ, vb) && !(vb == "x" && strings.HasPrefix(typ, "uint")) {
			return false, "verb %" + vb + " does not print a Go constant of type " + typ
		}
		if s.Bits != 0 {
			want := map[string]int{"float64": 64, "float32": 32, "complex128": 128, "complex64": 64}[typ]
			if want != 0 && s.Bits != want {
				return false, fmt.Sprintf("formatted with bit size %d, the type needs %d (digits would be dropped)", s.Bits, want)
			}
		}
		return true, ""
	}
	isT := func(s pseg) bool { return s.Val != nil && s.Verb == "T" && contentTerm(s.Val) }
	switch len(segs) {
	case 1:
		if ok, why := valOK(segs[0]); !ok {
			return false, why, true
		}
		if !defaultTypes[typ] {
			return false, "a bare constant has the default type of its kind, not " + typ + ": the value must be wrapped in a conversion", true
		}
		return true, "bare, default type", true
	case 2:
		if isT(segs[0]) || (segs[0].Val == nil && segs[0].Lit == typ) {
			if !strings.HasPrefix(typ, "complex") {
				return false, "conversion without parentheses", false
			}
			ok, why := valOK(segs[1])
			return ok, why, false
		}
	case 3:
		if segs[0].Val == nil && (segs[0].Lit == typ+"(" || (segs[0].Lit == typ+"(0x" && segs[1].Verb == "x")) && segs[2].Val == nil && segs[2].Lit == ")" {
			ok, why := valOK(segs[1])
			return ok, why, false
		}
	case 4:
		if isT(segs[0]) && segs[1].Val == nil && segs[1].Lit == "(" && segs[3].Val == nil && segs[3].Lit == ")" {
			ok, why := valOK(segs[2])
			return ok, why, false
		}
	}
	return false, "the text is not a single Go constant of type " + typ + " (bare or TYPE(value))", false
}

func rulePXTokenRender(c *Ctx, part string) []Obligation {
	o := c.newObs(part)
	f := c.implOf(c.renderName(), "jen.token")
	if f == nil {
		o.undecided("(jen.token).render", "anchor", token.NoPos, "anchor lost")
		return o.list
	}
	fn := fname(f)
	reg := c.registerFn()
	paths, trunc, why := c.tokenRenderPaths(f)
	if trunc || len(paths) == 0 {
		o.undecided(fn, "path enumeration", f.Pos(), "%d paths, truncated %v %s", len(paths), trunc, why)
		return o.list
	}
	t := newTally(o, fn, f.Pos())
	tt := func(n string) string { return c.tokenTypeConst(n) }
	covered := map[string]bool{}
	for _, p := range paths {
		F := p.Facts
		typ := ""
		for atom, pol := range F {
			if pol && strings.HasPrefix(atom, `eq("`) && strings.HasSuffix(atom, `",recv.typ)`) {
				typ = atom[4 : len(atom)-len(`",recv.typ)`)]
			}
		}
		lt := ""
		for atom, pol := range F {
			if pol && strings.HasPrefix(atom, "is<") && strings.HasSuffix(atom, ">(recv.content)") {
				lt = atom[3 : len(atom)-len(">(recv.content)")]
			}
		}
		isLit := typ == tt("literalToken")
		if p.End == "panic" {
			if part != "T-LITFMT" {
				continue
			}
			// only the documented one: a literal whose type is none of the 17
			refuted := 0
			for _, dt := range documentedLitTypes {
				if F.Has("is<"+dt+">(recv.content)", false) {
					refuted++
				}
			}
			pe := p.Events[len(p.Events)-1]
			if pe.Kind == "panic" {
				t.note("the only panic is the documented one for an unsupported literal type", isLit && refuted == len(documentedLitTypes), "path %s panics with %v (token type %q, %d of 17 types refuted)", traceOf(p), pe.Args, typ, refuted)
			}
			continue
		}
		if !successPath(p) {
			// a literal token fails to render only if the writer fails: every value of a supported
			// type has a literal, and a value the constructor accepted must not be refused at render time
			if part == "T-LITFMT" && p.End == "return" && len(p.Ret) > 0 && (typ == tt("literalToken") || typ == tt("literalRuneToken") || typ == tt("literalByteToken")) {
				if ret := p.Ret[len(p.Ret)-1]; definitelyError(ret) {
					t.note("a literal renders without an error of its own", false, "path %s returns %s (facts %s)", traceOf(p), ret, F)
				}
			}
			continue
		}
		out, other := pathOutput(p, "p1")
		if len(other) > 0 {
			t.note("writes go to the writer parameter", false, "path %s writes to %v", traceOf(p), other)
			continue
		}
		nreg := 0
		var regEv *Ev
		for i, e := range p.Events {
			if e.Kind == "call" && e.Fn == reg {
				nreg++
				regEv = &p.Events[i]
			}
			if e.Kind == "store" || e.Kind == "mapupdate" {
				t.note("rendering a token stores nothing", false, "path %s stores to %s", traceOf(p), e.Recv)
			}
		}
		switch {
		case isLit:
			if part != "T-LITFMT" {
				continue
			}
			if lt == "" {
				t.note("every literal path knows the content's type", false, "path %s writes %s without a type test (facts %s)", traceOf(p), segsString(out), F)
				continue
			}
			covered[lt] = true
			base := out
			suffix := ""
			if n := len(out); n >= 2 && out[n-1].Val == nil && out[n-2].Val != nil && lt == "float64" {
				suffix = out[n-1].Lit
				base = out[:n-1]
			}
			ok, why, bare := litSegsOK(lt, base)
			t.note("literal of type "+lt+" is written as a Go constant of that type, formatted from the unmodified content", ok, "path %s writes %s: %s", traceOf(p), segsString(out), why)
			if lt == "float64" && bare && ok {
				// the text that was tested must be the text that is written
				text := ""
				for atom := range F {
					for _, fnm := range []string{"strings.Contains", "strings.ContainsAny", "strings.ContainsRune", "strings.IndexByte", "bytes.Contains", "bytes.ContainsAny", "bytes.ContainsRune", "bytes.IndexByte"} {
						if cc := condCall(p.Terms[atom], fnm); cc != nil && len(cc.A) == 2 && segsString(termTemplate(cc.A[0])) == segsString(base) {
							text = cc.A[0].String()
						}
					}
				}
				il, nil_, unk := floatGuard(F, text)
				switch suffix {
				case ".0":
					t.note("float64: \".0\" is appended only if the text has neither '.' nor 'e'", text != "" && il && len(unk) == 0, "path %s (unrecognised tests %v; facts %s)", traceOf(p), unk, F)
				case "":
					t.note("float64: the bare text is written only if it has a '.' or an 'e'", text != "" && nil_ && len(unk) == 0, "path %s: an integral float64 without \".0\" is read back as an int; a test other than for \".\" / \"e\" (e.g. \"e+\") lets 1e-07 through (unrecognised tests %v; facts %s)", traceOf(p), unk, F)
				default:
					t.note("float64: nothing but \".0\" is appended", false, "path %s appends %q", traceOf(p), suffix)
				}
			}
		case typ == tt("literalRuneToken"):
			if part != "T-LITFMT" {
				continue
			}
			ok := len(out) == 1 && out[0].Val != nil && (out[0].Verb == "qr" || out[0].Verb == "q" || out[0].Verb == "+q") && contentTerm(out[0].Val)
			t.note("a rune literal is the content quoted by strconv.QuoteRune* / %q", ok, "path %s writes %s", traceOf(p), segsString(out))
		case typ == tt("literalByteToken"):
			if part != "T-LITFMT" {
				continue
			}
			ok, why, _ := litSegsOK("uint8", out)
			if !ok && len(out) == 3 && out[0].Val == nil && (out[0].Lit == "byte(" || (out[0].Lit == "byte(0x" && out[1].Verb == "x")) && out[2].Lit == ")" && out[1].Val != nil && contentTerm(out[1].Val) {
				vb := out[1].Verb
				ok = valueVerbOK("uint8", vb) || vb == "q" || vb == "x"
			}
			t.note("a byte literal is byte(<numeric or quoted value of the content>)", ok, "path %s writes %s (%s)", traceOf(p), segsString(out), why)
		case typ == tt("keywordToken") || typ == tt("operatorToken") || typ == tt("layoutToken") || typ == tt("delimiterToken"):
			if part != "P-TOKEN" {
				continue
			}
			d3 := [2]bool{}
			for atom, pol := range F {
				if strings.HasPrefix(atom, `eq("default",`) && strings.Contains(atom, "recv.content") {
					d3 = [2]bool{pol, true}
				}
			}
			want := []xseg{{verb: "s", val: ""}}
			okOut := len(out) >= 1 && out[0].Val != nil && (out[0].Verb == "s" || out[0].Verb == "v") && contentTerm(out[0].Val)
			_ = want
			if !d3[1] {
				t.note(typ+" token: every path decides whether the text is `default`", false, "path %s writes %s (facts %s)", traceOf(p), segsString(out), F)
				continue
			}
			if d3[0] {
				// the content is known to be "default" here, so the literal "default:" is the same text
				lit := len(out) == 1 && out[0].Val == nil && out[0].Lit == "default:"
				t.note("`default` is written followed by a colon", lit || (okOut && len(out) == 2 && out[1].Val == nil && out[1].Lit == ":"), "path %s writes %s", traceOf(p), segsString(out))
			} else {
				t.note(typ+" token writes exactly its text", okOut && len(out) == 1, "path %s writes %s", traceOf(p), segsString(out))
			}
		case typ == tt("identifierToken"):
			if part != "P-TOKEN" {
				continue
			}
			t.note("an identifier token writes exactly its name", len(out) == 1 && out[0].Val != nil && (out[0].Verb == "s" || out[0].Verb == "v") && contentTerm(out[0].Val), "path %s writes %s", traceOf(p), segsString(out))
		case typ == tt("packageToken"):
			if part != "P-TOKEN" {
				continue
			}
			ok := nreg == 1 && len(out) == 1 && out[0].Val != nil && (out[0].Val.String() == regEv.Res.String() || out[0].Val.String() == regEv.Res.String()+"."+c.ff("defname")) && len(regEv.Args) == 2 && regEv.Args[0].String() == "p0" && contentTerm(regEv.Args[1])
			t.note("a package token writes exactly what the registration function returns for its path", ok, "path %s writes %s after %d registrations", traceOf(p), segsString(out), nreg)
		default:
			if part != "P-TOKEN" {
				continue
			}
			t.note("null / unknown token types write nothing", len(out) == 0 && nreg == 0, "path %s (type %q) writes %s", traceOf(p), typ, segsString(out))
		}
		if !isLit || part != "T-LITFMT" {
			if typ != tt("packageToken") && nreg > 0 && part == "P-TOKEN" {
				t.note("only package tokens register an import", false, "path %s (type %q) calls the registration function", traceOf(p), typ)
			}
		}
	}
	if part == "T-LITFMT" {
		for _, dt := range documentedLitTypes {
			o.req(covered[dt], fn, "documented literal type "+dt+" is supported", f.Pos(), "README: Lit supports bool, string, int, complex128, float64, float32, int8..int64, uint..uint64, uintptr, complex64")
		}
		t.require("the only panic is the documented one for an unsupported literal type", "float64: \".0\" is appended only if the text has neither '.' nor 'e'", "float64: the bare text is written only if it has a '.' or an 'e'",
			"a rune literal is the content quoted by strconv.QuoteRune* / %q", "a byte literal is byte(<numeric or quoted value of the content>)")
	} else {
		t.require("`default` is written followed by a colon", "an identifier token writes exactly its name", "a package token writes exactly what the registration function returns for its path")
	}
	t.flush()
	return o.list
}

// ---------------------------------------------------------------------------------------------
// Builders: what a construct appends, in all three forms (P-API-FORMS, P-LITCTOR, T-KEYWORDS,
// T-TOKCONTENT), read off the paths of the builder functions with every helper inlined.

type builtItem struct {
	deep    string
	term    *T
	path    *PXPath
	isToken bool
	typ     string // token type constant, if a token
	content *T
}

type buildResult struct {
	ok        bool
	why       string
	items     []builtItem // elements appended (in order) — of the first class of paths
	callbacks []string
	ncb       int
	// a construct whose content depends on how many arguments it is given (a loop over a variadic
	// parameter) appends different things on different paths: the paths are classed by the facts
	// they establish about the parameters, and the three forms are compared class by class
	classes map[string][]builtItem
}

// paramClass: the facts of a path that speak about the parameters only (no receiver, no object
// made on the path, no call result), as a canonical string.
func paramClass(p *PXPath) string {
	var ks []string
	for atom, pol := range p.Facts {
		if strings.Contains(atom, "recv") || strings.Contains(atom, "alloc#") || strings.Contains(atom, "@") || strings.Contains(atom, "make#") {
			continue
		}
		isParam := false
		for i := 0; i < 6; i++ {
			if strings.Contains(atom, "p"+strconv.Itoa(i)) {
				isParam = true
			}
		}
		if !isParam {
			continue
		}
		if pol {
			ks = append(ks, atom)
		} else {
			ks = append(ks, "¬"+atom)
		}
	}
	sort.Strings(ks)
	return strings.Join(ks, ";")
}

// wantFor: the items the Statement form appends on the paths of the class path p belongs to.
func (r *buildResult) wantFor(p *PXPath) ([]string, bool) {
	if len(r.classes) <= 1 {
		return deepList(r.items), true
	}
	its, ok := r.classes[paramClass(p)]
	if !ok {
		return nil, false
	}
	return deepList(its), true
}

var builderCache = map[*Ctx]map[*ssa.Function]*buildResult{}

func elemsOf(t *T) ([]*T, bool) {
	if t == nil {
		return nil, false
	}
	if t.Nil {
		return nil, true
	}
	if t.HasEl {
		return t.Elems, true
	}
	return nil, false
}

// statementForm evaluates a *Statement method: it must append to its receiver (once) and return it.
func (c *Ctx) statementForm(f *ssa.Function) *buildResult {
	if builderCache[c] == nil {
		builderCache[c] = map[*ssa.Function]*buildResult{}
	}
	if r, ok := builderCache[c][f]; ok {
		return r
	}
	res := &buildResult{ok: true}
	builderCache[c][f] = res
	paths, trunc := c.Paths(f, PXConfig{MaxDepth: 4, MaxVisits: 2})
	if trunc || len(paths) == 0 {
		res.ok, res.why = false, fmt.Sprintf("%d paths, truncated %v", len(paths), trunc)
		return res
	}
	for pi, p := range paths {
		if p.End != "return" || len(p.Ret) != 1 {
			res.ok, res.why = false, "a path does not return normally ("+p.End+")"
			return res
		}
		if p.Ret[0].String() != "recv" {
			res.ok, res.why = false, "returns "+p.Ret[0].String()+" instead of its receiver"
			return res
		}
		var items []builtItem
		ncb := 0
		var cbs []string
		nst := 0
		for _, e := range p.Events {
			switch e.Kind {
			case "store":
				if e.Recv.String() != "recv" {
					res.ok, res.why = false, "stores to "+e.Recv.String()
					return res
				}
				// a later store overwrites an earlier one; its value (with nested appends flattened by
				// the engine) is the receiver's final content
				nst = 1
				items = nil
				v := e.Args[0]
				if v.Op != "append" || len(v.A) != 2 || v.A[0].String() != "recv" {
					res.ok, res.why = false, "the receiver is assigned "+p.Deep(v)+" instead of append(*s, …)"
					return res
				}
				if els, ok := elemsOf(v.A[1]); ok {
					for _, el := range els {
						items = append(items, c.builtItemOf(p, el))
					}
				} else {
					// append(*s, params...): the caller's items, verbatim
					items = append(items, builtItem{deep: p.Deep(v.A[1]) + "...", term: v.A[1], path: p})
				}
			case "funcvalue":
				ncb++
				var as []string
				for _, a := range e.Args {
					as = append(as, p.Deep(a))
				}
				cbs = append(cbs, e.Name+"("+strings.Join(as, ",")+")")
				if nst > 0 {
					res.ok, res.why = false, "the callback runs after the append"
					return res
				}
			case "mapupdate", "write", "go", "defer", "send":
				res.ok, res.why = false, "unexpected effect "+e.Kind+" "+e.Name
				return res
			}
		}
		if nst > 1 {
			res.ok, res.why = false, fmt.Sprintf("%d stores to the receiver", nst)
			return res
		}
		if nst == 0 && ncb == 0 {
			res.ok, res.why = false, "neither appends to the receiver nor hands it to a callback"
			return res
		}
		if pi == 0 {
			res.items, res.callbacks, res.ncb = items, cbs, ncb
		}
		if res.classes == nil {
			res.classes = map[string][]builtItem{}
		}
		key := paramClass(p)
		if prev, seen := res.classes[key]; seen {
			// all paths of one class must agree
			same := len(items) == len(prev)
			for i := 0; same && i < len(items); i++ {
				if items[i].deep != prev[i].deep {
					same = false
				}
			}
			if !same {
				res.ok, res.why = false, "paths that establish the same facts about the arguments differ in what they append"
				return res
			}
		} else {
			res.classes[key] = items
		}
		if ncb != res.ncb {
			res.ok, res.why = false, "paths differ in how often they call the callback"
			return res
		}
	}
	return res
}

func (c *Ctx) builtItemOf(p *PXPath, el *T) builtItem {
	bi := builtItem{deep: p.Deep(el), term: el, path: p}
	if el.Op == "struct" && el.Aux == "jen.token" {
		bi.isToken = true
		if tv, ok := el.Fields["typ"]; ok {
			bi.typ, _ = tv.strVal()
		}
		bi.content = el.Fields["content"]
	}
	return bi
}

// freshStatementContent: t is a statement allocated on this path; returns the deep strings of its items.
func freshStatementContent(p *PXPath, t *T) ([]string, bool) {
	if t == nil || t.Op != "alloc" {
		return nil, false
	}
	v, ok := p.Mem["o"+strconv.Itoa(t.Obj)]
	if !ok {
		return nil, false
	}
	var out []string
	var walk func(v *T) bool
	walk = func(v *T) bool {
		if els, ok := elemsOf(v); ok {
			for _, e := range els {
				out = append(out, p.Deep(e))
			}
			return true
		}
		if v.Op == "append" && len(v.A) == 2 {
			if !walk(v.A[0]) {
				return false
			}
			if els, ok := elemsOf(v.A[1]); ok {
				for _, e := range els {
					out = append(out, p.Deep(e))
				}
			} else {
				out = append(out, p.Deep(v.A[1])+"...")
			}
			return true
		}
		return false
	}
	if !walk(v) {
		return nil, false
	}
	return out, true
}

func deepList(items []builtItem) []string {
	var out []string
	for _, it := range items {
		out = append(out, it.deep)
	}
	return out
}

var reMethodOnNew = regexp.MustCompile(`\(\*jen\.Statement\)\.(\w+)\(jen\.newStatement\(\)@\d*(, )?`)

// canonForms: where the enumeration stops at a construct (depth bound) it may stop at its function
// form in one place and at its Statement form on a new statement in another; the two are the same
// thing by this very rule (checked for that construct separately) and are spelled alike here.
func canonForms(xs []string) []string {
	out := make([]string, len(xs))
	for i, x := range xs {
		out[i] = reMethodOnNew.ReplaceAllString(x, "jen.$1(")
	}
	return out
}

func sameList(a, b []string) bool {
	if len(a) != len(b) {
		return false
	}
	for i := range a {
		if a[i] != b[i] {
			return false
		}
	}
	return true
}

func rulePXAPIForms(c *Ctx) []Obligation {
	o := c.newObs("P-API-FORMS")
	sm := methodsOf(c, "Statement")
	gm := methodsOf(c, "Group")
	var names []string
	for n, m := range sm {
		// a construct is a builder: it returns the statement it extends. Other exported methods of
		// *Statement (renderers, Clone, accessors returning numbers, strings, errors) are not.
		if nonConstructs[n] {
			continue
		}
		rs := m.Signature.Results()
		if rs.Len() != 1 || types.TypeString(rs.At(0).Type(), shortQual) != "*jen.Statement" {
			continue
		}
		names = append(names, n)
	}
	sort.Strings(names)
	c.stats["constructs"] = len(names)
	for _, n := range names {
		s := sm[n]
		sr := c.statementForm(s)
		o.req(sr.ok, fname(s), "Statement form appends to its receiver in place, once, and returns it", s.Pos(), "%s", sr.why)
		// ---- function form
		pf := c.jenFunc(n)
		if pf == nil {
			o.add(Violated, "jen."+n, "package-function form exists", s.Pos(), true, "construct %s has no package function", n)
		} else {
			okSig := sameParams(pf.Signature, s.Signature)
			paths, trunc := c.Paths(pf, PXConfig{MaxDepth: 5, MaxVisits: 2})
			ok := okSig && !trunc && len(paths) > 0 && sr.ok
			why := ""
			if !okSig {
				why = "parameters differ from the Statement method's"
			} else if !sr.ok {
				why = "the Statement form itself is not in order: " + sr.why
			}
			for _, p := range paths {
				if !ok {
					break
				}
				if p.End != "return" || len(p.Ret) != 1 {
					ok, why = false, "does not return normally"
					break
				}
				got, fresh := freshStatementContent(p, p.Ret[0])
				ncb := 0
				for _, e := range p.Events {
					switch e.Kind {
					case "funcvalue":
						ncb++
					case "store", "mapupdate", "write":
						ok, why = false, "has the effect "+e.Kind+" on "+fmt.Sprint(e.Recv)
					}
				}
				wantP, okClass := sr.wantFor(p)
				if !fresh {
					ok, why = false, "does not return a freshly built statement ("+p.Ret[0].String()+")"
				} else if !okClass {
					ok, why = false, "distinguishes a case of its arguments ("+paramClass(p)+") that the Statement form does not"
				} else if !sameList(canonForms(got), canonForms(wantP)) || ncb != sr.ncb {
					ok, why = false, fmt.Sprintf("builds %v where the Statement form appends %v", got, wantP)
				}
			}
			o.req(ok, fname(pf), "function form returns a new statement holding exactly what the Statement form appends for the same arguments", pf.Pos(), "%s", why)
		}
		// ---- Group form
		g := gm[n]
		if g == nil {
			o.add(Violated, "(*jen.Group)."+n, "Group form exists", s.Pos(), true, "construct %s has no *Group method", n)
			continue
		}
		okSig := sameParams(g.Signature, s.Signature)
		paths, trunc := c.Paths(g, PXConfig{MaxDepth: 5, MaxVisits: 2})
		ok := okSig && !trunc && len(paths) > 0 && sr.ok
		why := ""
		if !okSig {
			why = "parameters differ from the Statement method's"
		} else if !sr.ok {
			why = "the Statement form itself is not in order: " + sr.why
		}
		for _, p := range paths {
			if !ok {
				break
			}
			if p.End != "return" || len(p.Ret) != 1 {
				ok, why = false, "does not return normally"
				break
			}
			got, fresh := freshStatementContent(p, p.Ret[0])
			nst, ncb := 0, 0
			for _, e := range p.Events {
				switch e.Kind {
				case "funcvalue":
					ncb++
					if nst > 0 {
						// g.XFunc(f) must behave like g.Add(XFunc(f)): the statement is complete — the
						// callback has run — before the group sees it (a callback that itself appends to
						// the group would otherwise find its own statement already in front of it)
						ok, why = false, "the callback runs after the new statement has been appended to the group"
					}
				case "store":
					nst++
					v := e.Args[0]
					okApp := e.Recv.String() == "recv.items" && v.Op == "append" && len(v.A) == 2 && v.A[0].String() == "recv.items"
					if okApp {
						els, known := elemsOf(v.A[1])
						okApp = known && len(els) == 1 && els[0].String() == p.Ret[0].String()
					}
					if !okApp {
						ok, why = false, "stores "+p.Deep(v)+" into "+e.Recv.String()+" instead of appending the new statement to the group's items"
					}
				case "mapupdate", "write":
					ok, why = false, "has the effect "+e.Kind
				}
			}
			if !ok {
				break
			}
			switch {
			case !fresh:
				ok, why = false, "does not return a freshly built statement ("+p.Ret[0].String()+")"
			case nst != 1:
				ok, why = false, fmt.Sprintf("appends to the group %d times on a path", nst)
			default:
				wantP, okClass := sr.wantFor(p)
				if !okClass {
					ok, why = false, "distinguishes a case of its arguments ("+paramClass(p)+") that the Statement form does not"
				} else if !sameList(canonForms(got), canonForms(wantP)) || ncb != sr.ncb {
					ok, why = false, fmt.Sprintf("builds %v where the Statement form appends %v", got, wantP)
				}
			}
		}
		o.req(ok, fname(g), "Group form builds the same new statement, appends it to the group exactly once and returns it", g.Pos(), "%s", why)
	}
	for n := range gm {
		if !nonConstructs[n] && sm[n] == nil {
			o.add(Violated, "(*jen.Group)."+n, "has a Statement form", gm[n].Pos(), true, "Group method without the corresponding Statement method")
		}
	}
	return o.list
}

// rulePXLitCtor: what the hand-written token constructors append.
func rulePXLitCtor(c *Ctx) []Obligation {
	o := c.newObs("P-LITCTOR")
	sm := methodsOf(c, "Statement")
	tt := func(n string) string { return c.tokenTypeConst(n) }
	type exp struct {
		typ     string
		content string // expected content term ("p0", a quoted constant, "cb" for the callback's result, "" for none)
	}
	want := map[string][]exp{
		"Lit": {{"literalToken", "p0"}}, "LitFunc": {{"literalToken", "cb"}},
		"LitRune": {{"literalRuneToken", "p0"}}, "LitRuneFunc": {{"literalRuneToken", "cb"}},
		"LitByte": {{"literalByteToken", "p0"}}, "LitByteFunc": {{"literalByteToken", "cb"}},
		"Id": {{"identifierToken", "p0"}}, "Op": {{"operatorToken", "p0"}},
		"Dot": {{"delimiterToken", `"."`}, {"identifierToken", "p0"}}, "Line": {{"layoutToken", `"\n"`}},
		"Null": {{"nullToken", ""}}, "Empty": {{"!null", `""`}},
	}
	var names []string
	for n := range want {
		names = append(names, n)
	}
	sort.Strings(names)
	for _, n := range names {
		f := sm[n]
		if f == nil {
			o.add(Violated, "(*jen.Statement)."+n, "constructor present", token.NoPos, true, "not found")
			continue
		}
		r := c.statementForm(f)
		if !r.ok {
			o.add(Violated, fname(f), "appends its token(s)", f.Pos(), true, "%s", r.why)
			continue
		}
		ok := len(r.items) == len(want[n])
		why := fmt.Sprintf("appends %v", deepList(r.items))
		for i := 0; ok && i < len(want[n]); i++ {
			it, e := r.items[i], want[n][i]
			if !it.isToken {
				ok = false
				break
			}
			if e.typ == "!null" {
				ok = it.typ != tt("nullToken") && it.typ != tt("packageToken") && it.typ != ""
			} else if it.typ != tt(e.typ) {
				ok = false
			}
			cs := ""
			if it.content != nil {
				cs = it.content.String()
			}
			switch e.content {
			case "":
				if it.content != nil && !it.content.Nil {
					ok = false
				}
			case "cb":
				// the result of calling the callback parameter, nothing else
				if it.content == nil || it.content.Op != "call" || !strings.HasPrefix(it.content.Aux, "funcvalue:p0") || r.ncb != 1 {
					ok = false
				}
			default:
				if cs != e.content {
					ok = false
				}
			}
		}
		o.req(ok, fname(f), "appends exactly its token(s), holding the caller's value unmodified", f.Pos(), "%s", why)
	}
	// Qual: a group of the package token and the identifier
	if f := sm["Qual"]; f != nil {
		r := c.statementForm(f)
		ok := r.ok && len(r.items) == 1
		if ok {
			d := r.items[0].deep
			ok = strings.Contains(d, `{content:p0,typ:"`+tt("packageToken")+`"}`) && strings.Contains(d, `{content:p1,typ:"`+tt("identifierToken")+`"}`) && strings.Index(d, "content:p0") < strings.Index(d, "content:p1") && strings.Contains(d, `separator:"."`)
		}
		o.req(ok, fname(f), "Qual appends a group of the package token (path) and the identifier (name), joined by a dot", f.Pos(), "appends %v %s", deepList(r.items), r.why)
	}
	return o.list
}

// ---------------------------------------------------------------------------------------------
// T-KEYWORDS / T-TOKCONTENT from what the builders append

// allBuiltTokens: every token any *Statement method appends (also inside appended groups).
func (c *Ctx) allBuiltTokens() []struct {
	fn      *ssa.Function
	typ     string
	content *T
	ok      bool
} {
	var out []struct {
		fn      *ssa.Function
		typ     string
		content *T
		ok      bool
	}
	sm := methodsOf(c, "Statement")
	var names []string
	for n := range sm {
		names = append(names, n)
	}
	sort.Strings(names)
	for _, n := range names {
		if nonConstructs[n] {
			continue
		}
		f := sm[n]
		r := c.statementForm(f)
		if !r.ok {
			continue
		}
		var walk func(p *PXPath, t *T, depth int)
		walk = func(p *PXPath, t *T, depth int) {
			if t == nil || depth > 4 {
				return
			}
			switch {
			case t.Op == "struct" && t.Aux == "jen.token":
				typ, okT := "", false
				if tv, ok := t.Fields["typ"]; ok {
					typ, okT = tv.strVal()
				}
				out = append(out, struct {
					fn      *ssa.Function
					typ     string
					content *T
					ok      bool
				}{f, typ, t.Fields["content"], okT})
			case t.Op == "struct":
				for _, v := range t.Fields {
					walk(p, v, depth+1)
				}
			case t.HasEl:
				for _, e := range t.Elems {
					walk(p, e, depth+1)
				}
			case t.Op == "alloc":
				k := "o" + strconv.Itoa(t.Obj)
				if v, ok := p.Mem[k]; ok {
					walk(p, v, depth+1)
				}
				for key, v := range p.Mem {
					if strings.HasPrefix(key, k+".") {
						walk(p, v, depth+1)
					}
				}
			}
		}
		for _, it := range r.items {
			walk(it.path, it.term, 0)
		}
	}
	return out
}

// ---------------------------------------------------------------------------------------------
// Entry points (P-ATOMIC-WRITE, P-FORMAT-GATE, P-FRAGMENT) on paths, failure edges included.

type entrySpec struct {
	f        *ssa.Function
	kind     string // "file" | "fragment" | "render" (fragment with fresh File) | "gostring" | "save"
	recvType string
}

func errDerives(ret *T, errTerm string) bool {
	if ret == nil {
		return false
	}
	if ret.String() == errTerm {
		return true
	}
	if ret.Op == "call" && (ret.Aux == "fmt.Errorf" || strings.HasPrefix(ret.Aux, "errors.")) {
		for _, a := range ret.A {
			if a.String() == errTerm {
				return true
			}
		}
	}
	return false
}

func rulePXEntries(c *Ctx, part string) []Obligation {
	o := c.newObs(part)
	var entries []entrySpec
	for _, tn := range []string{"Statement", "Group"} {
		if f := c.method(tn, "RenderWithFile"); f != nil {
			entries = append(entries, entrySpec{f, "fragment", tn})
		}
		if f := c.method(tn, "Render"); f != nil {
			entries = append(entries, entrySpec{f, "render", tn})
		}
		if f := c.method(tn, "GoString"); f != nil {
			entries = append(entries, entrySpec{f, "gostring", tn})
		}
	}
	if f := c.method("File", "Render"); f != nil {
		entries = append(entries, entrySpec{f, "file", "File"})
	}
	if f := c.method("File", "GoString"); f != nil {
		entries = append(entries, entrySpec{f, "gostring", "File"})
	}
	if len(entries) < 8 {
		o.undecided("jen", "render entry points", token.NoPos, "expected Render / RenderWithFile / GoString of Statement and Group and Render / GoString of File, found %d", len(entries))
	}
	ri := c.role("renderImports")
	for _, es := range entries {
		f := es.f
		fn := fname(f)
		paths, trunc := c.Paths(f, PXConfig{Opaque: c.stdOpaque(ri), MaxVisits: 3, MaxDepth: 9, MaxPaths: 40000})
		if trunc || len(paths) == 0 {
			o.undecided(fn, "path enumeration", f.Pos(), "%d paths, truncated %v", len(paths), trunc)
			continue
		}
		c.stats["paths:"+fn] = len(paths)
		t := newTally(o, fn, f.Pos())
		wname := "p0" // the caller's writer
		for _, p := range paths {
			// events of interest
			var writes []Ev
			var fmtEv, renderEv *Ev
			nfmt := 0
			for i := range p.Events {
				e := &p.Events[i]
				switch {
				case e.Kind == "write" && e.Writer.String() == wname && es.kind != "gostring":
					writes = append(writes, *e)
				case e.Kind == "write":
					t.note("the only writer written to is the caller's", false, "path %s writes to %s", traceOf(p), e.Writer)
				case e.Kind == "call" && e.Name == "go/format.Source":
					fmtEv = e
					nfmt++
				case e.Kind == "call" && e.Fn != nil && (e.Fn.Name() == c.renderName()) && renderEv == nil:
					renderEv = e
				case e.Kind == "invoke" && e.Name == c.renderName() && renderEv == nil:
					// rendered through the Code interface (a shared helper taking a Code)
					re := *e
					re.Args = append([]*T{e.Recv}, e.Args...)
					renderEv = &re
				case (e.Kind == "call" || e.Kind == "invoke") && es.kind != "gostring":
					// the caller's writer must not be handed to anything else
					for _, a := range e.Args {
						if a != nil && a.String() == wname {
							t.note("the caller's writer is never handed to another routine", false, "path %s passes it to %s", traceOf(p), e.Name)
						}
					}
				}
			}
			F := p.Facts
			// ---- fragment context (P-FRAGMENT)
			if part == "P-FRAGMENT" {
				if renderEv == nil {
					if p.End != "panic" {
						t.note("the receiver is rendered", false, "path %s renders nothing", traceOf(p))
					}
					continue
				}
				args := renderEv.Args
				recvOK := len(args) >= 3 && (args[0].String() == "recv" || args[0].String() == "recv.Group")
				t.note("the receiver itself is rendered into a private buffer", recvOK && args[2].Op == "alloc", "path %s renders %v", traceOf(p), args)
				switch es.kind {
				case "fragment":
					t.note("RenderWithFile renders with the caller's File", len(args) >= 2 && args[1].String() == "p1", "path %s uses File %s", traceOf(p), args[1])
				case "render", "gostring":
					if es.recvType != "File" {
						fresh := len(args) >= 2 && args[1].Op == "alloc"
						okEmpty := fresh && strings.Contains(p.Deep(args[1]), c.ff("imports")+":make") && !strings.Contains(p.Deep(args[1]), "global")
						t.note("Render / GoString use a File of their own, freshly built by a constructor", fresh && okEmpty, "path %s uses File %s", traceOf(p), p.Deep(args[1]))
					} else {
						t.note("a File renders into itself", len(args) >= 2 && args[1].String() == "recv", "path %s uses File %s", traceOf(p), args[1])
					}
				case "file":
					t.note("a File renders into itself", len(args) >= 2 && args[1].String() == "recv", "path %s uses File %s", traceOf(p), args[1])
				}
				if es.kind == "gostring" {
					// success: returns the produced text; failure: panics with the error
					if p.End == "panic" {
						pe := p.Events[len(p.Events)-1]
						isErr := len(pe.Args) == 1 && pe.Args[0].Typ != nil && (isErrorType(pe.Args[0].Typ) || strings.Contains(pe.Args[0].String(), "Errorf") || pe.Args[0].Op == "call" || pe.Args[0].Op == "extract" || implementsError(pe.Args[0].Typ))
						t.note("GoString panics with the render error", isErr, "path %s panics with %v", traceOf(p), pe.Args)
					} else if len(p.Ret) == 1 {
						r := p.Ret[0]
						okText := fmtEv != nil && r.String() == fmtEv.Res.String()+"#0" || (es.recvType == "File" && F.Has("recv.NoFormat", true))
						if !okText && fmtEv != nil {
							// the same bytes collected by a writer of the module's own (copied once)
							ts := segsString(termTemplate(r))
							okText = ts == "[%s("+fmtEv.Res.String()+"#0)]" || ts == "[%v("+fmtEv.Res.String()+"#0)]"
						}
						t.note("GoString returns exactly the rendered, formatted text", okText, "path %s returns %s", traceOf(p), r)
					}
				}
				continue
			}
			if es.kind == "gostring" {
				continue
			}
			// ---- atomic write (P-ATOMIC-WRITE) and format gate (P-FORMAT-GATE)
			renderOK := renderEv != nil && F.Has(eqAtom(renderEv.Res.String(), "nil"), true)
			renderFailed := renderEv != nil && F.Has(eqAtom(renderEv.Res.String(), "nil"), false)
			fmtOK := fmtEv != nil && F.Has(eqAtom(fmtEv.Res.String()+"#1", "nil"), true)
			fmtFailed := fmtEv != nil && F.Has(eqAtom(fmtEv.Res.String()+"#1", "nil"), false)
			noFormat := es.kind == "file" && F.Has("recv.NoFormat", true)
			// any other fallible module call that failed on this path (renderImports …)
			otherFailed := false
			for _, e := range p.Events {
				if e.Kind == "call" && e.Res != nil && e.Res.Typ != nil && isErrorType(e.Res.Typ) && F.Has(eqAtom(e.Res.String(), "nil"), false) {
					otherFailed = true
				}
			}
			if part == "P-ATOMIC-WRITE" {
				t.note("the caller's writer receives at most one write", len(writes) <= 1, "path %s writes %d times", traceOf(p), len(writes))
				if renderFailed || fmtFailed || otherFailed {
					t.note("nothing is written to the caller's writer when rendering or formatting fails", len(writes) == 0, "path %s writes after a failure (facts %s)", traceOf(p), F)
					// and the failure is returned
					okRet := false
					for i, r := range p.Ret {
						if r.Typ != nil && isErrorType(r.Typ) && !r.Nil {
							okRet = true
						}
						// a value of the module's own error type in an error result (an error that
						// wraps the cause: Unwrap / Is) is a non-nil error
						if rs := f.Signature.Results(); i < rs.Len() && isErrorType(rs.At(i).Type()) && (r.Op == "alloc" || r.Op == "struct") {
							okRet = true
						}
					}
					t.note("a render / format failure is returned to the caller", okRet && p.End == "return", "path %s ends in %s returning %v", traceOf(p), p.End, p.Ret)
					continue
				}
				if len(writes) == 1 {
					w := writes[0]
					wf := p.FactsAt(w)
					okBefore := renderEv != nil && wf.Has(eqAtom(renderEv.Res.String(), "nil"), true) && (noFormat || (fmtEv != nil && wf.Has(eqAtom(fmtEv.Res.String()+"#1", "nil"), true)))
					t.note("the write happens only after rendering and formatting have succeeded", okBefore, "path %s writes with facts %s", traceOf(p), wf)
					// the writer's error reaches the caller
					werr := w.Res.String() + "#1"
					if F.Has(eqAtom(werr, "nil"), false) {
						ok := len(p.Ret) > 0 && errDerives(p.Ret[len(p.Ret)-1], werr)
						t.note("a writer error is returned to the caller", ok, "path %s returns %v after the write failed", traceOf(p), p.Ret)
					} else if len(p.Ret) > 0 {
						r := p.Ret[len(p.Ret)-1]
						t.note("success is reported only if the write succeeded", r.Nil && F.Has(eqAtom(werr, "nil"), true) || r.String() == werr, "path %s returns %s without the writer's error having been examined (facts %s)", traceOf(p), r, F)
						if r.String() == werr {
							t.note("a writer error is returned to the caller", true, "")
						}
					}
				} else if p.End == "return" && renderOK && (fmtOK || noFormat) {
					t.note("the output is delivered on every successful path", false, "path %s succeeds without writing to the caller's writer", traceOf(p))
				}
				continue
			}
			if part == "P-FORMAT-GATE" {
				if len(writes) == 0 {
					continue
				}
				w := writes[0]
				t.note("format.Source is applied at most once", nfmt <= 1, "path %s formats %d times", traceOf(p), nfmt)
				if renderEv == nil {
					t.note("what is written is the rendering of the receiver", false, "path %s writes without rendering", traceOf(p))
					continue
				}
				// the raw text: content of the private buffer(s) = something containing rendered(render call)
				raw := ""
				if fmtEv != nil && len(fmtEv.Args) == 1 {
					raw = fmtEv.Args[0].String()
				}
				data := ""
				if w.Data != nil {
					data = w.Data.String()
				}
				switch {
				case noFormat:
					okRaw := strings.Contains(data, "rendered("+renderEv.Res.String()+")") && nfmt == 0
					t.note("with NoFormat the raw text is written as it is", okRaw, "path %s writes %s", traceOf(p), segsString(w.Segs))
					rawSets[fn+"|raw"] = append(rawSets[fn+"|raw"], normaliseInst(data))
				case fmtEv != nil:
					okF := data == fmtEv.Res.String()+"#0" && strings.Contains(raw, "rendered("+renderEv.Res.String()+")")
					t.note("without NoFormat only the result of a successful format.Source over the raw rendering is written", okF && p.FactsAt(w).Has(eqAtom(fmtEv.Res.String()+"#1", "nil"), true), "path %s writes %s", traceOf(p), data)
					rawSets[fn+"|fmt"] = append(rawSets[fn+"|fmt"], normaliseInst(raw))
				default:
					t.note("without NoFormat only the result of a successful format.Source over the raw rendering is written", false, "path %s writes %s without formatting (facts %s)", traceOf(p), data, F)
				}
			}
		}
		switch part {
		case "P-ATOMIC-WRITE":
			if es.kind != "gostring" {
				t.require("the write happens only after rendering and formatting have succeeded", "nothing is written to the caller's writer when rendering or formatting fails", "a writer error is returned to the caller")
			}
		case "P-FORMAT-GATE":
			if es.kind != "gostring" {
				t.require("without NoFormat only the result of a successful format.Source over the raw rendering is written")
			}
			if es.kind == "file" {
				t.require("with NoFormat the raw text is written as it is")
				// the bypass is the only difference: the same raw texts arise in both modes
				a, b := map[string]bool{}, map[string]bool{}
				for _, x := range rawSets[fn+"|raw"] {
					a[x] = true
				}
				for _, x := range rawSets[fn+"|fmt"] {
					b[x] = true
				}
				same := len(a) == len(b)
				for x := range a {
					if !b[x] {
						same = false
					}
				}
				delete(rawSets, fn+"|raw")
				delete(rawSets, fn+"|fmt")
				o.req(same && len(a) > 0, fn, "the NoFormat bypass is the only difference between the two modes", f.Pos(), "%d distinct raw texts with NoFormat, %d handed to the formatter; they must be the same texts", len(a), len(b))
			}
		case "P-FRAGMENT":
			t.require("the receiver itself is rendered into a private buffer")
		}
		t.flush()
	}
	return o.list
}

var rawSets = map[string][]string{}

// normaliseInst strips instance numbers so that texts of different paths compare.
func normaliseInst(s string) string {
	var b strings.Builder
	for i := 0; i < len(s); i++ {
		if s[i] == '@' {
			j := i + 1
			for j < len(s) && s[j] >= '0' && s[j] <= '9' {
				j++
			}
			i = j - 1
			continue
		}
		b.WriteByte(s[i])
	}
	return b.String()
}

// ---------------------------------------------------------------------------------------------
// P-IMPORTBLOCK on paths of renderImports

func segToken(sg pseg) string {
	if sg.Val == nil {
		return sg.Lit
	}
	vb := sg.Verb
	if vb == "v" {
		vb = "s"
	}
	return "⟦" + vb + "|" + sg.Val.String() + "⟧"
}

func segsText(segs []pseg) string {
	var b strings.Builder
	for _, sg := range segs {
		b.WriteString(segToken(sg))
	}
	return b.String()
}

func rulePXImportBlock(c *Ctx) []Obligation {
	o := c.newObs("P-IMPORTBLOCK")
	f := c.role("renderImports")
	if f == nil {
		o.undecided("(*jen.File).renderImports", "anchor", token.NoPos, "anchor lost: no File method with a writer parameter called by File.Render")
		return o.list
	}
	fn := fname(f)
	imp := "recv." + c.ff("imports")
	nameF, aliasF := c.ff("defname"), c.ff("defalias")
	// the block is written to a writer parameter, or assembled in a local buffer and returned as text
	// … or written through a context object that holds the buffer (and possibly a sticky error)
	ctxForm := c.writerParam(f) == nil && f.Signature.Params().Len() == 1 && ctxStructParam(f.Signature.Params().At(0).Type())
	textForm := c.writerParam(f) == nil && !ctxForm
	paths, trunc := c.Paths(f, PXConfig{SkipErrEdges: true, Opaque: c.stdOpaque(), MaxVisits: 4, MaxPaths: 60000, LocalWrites: textForm})
	if trunc || len(paths) == 0 {
		o.undecided(fn, "path enumeration", f.Pos(), "%d paths, truncated %v", len(paths), trunc)
		return o.list
	}
	c.stats["paths:"+fn] = len(paths)
	t := newTally(o, fn, f.Pos())
	for _, p := range paths {
		if p.End == "panic" {
			t.note("printing the import block does not panic", false, "path %s panics", traceOf(p))
			continue
		}
		W := "p0"
		if textForm {
			// the one local buffer whose text is what the function returns
			W = ""
			for _, e := range p.Events {
				if wk, isBuf := privBufKey(e.Writer); e.Kind == "write" && isBuf {
					if txt, ok := p.Mem[wk]; ok && len(p.Ret) > 0 && txt.String() == p.Ret[0].String() {
						W = e.Writer.String()
					}
				}
			}
			if W == "" {
				if len(p.Ret) > 0 {
					if s0, isS := p.Ret[0].strVal(); isS && s0 == "" {
						W = "<none>" // nothing assembled, the empty text returned
					}
				}
			}
			if W == "" {
				t.note("the text returned is exactly what was assembled", false, "path %s returns %v", traceOf(p), p.Ret)
				continue
			}
		}
		if ctxForm {
			// the writer is whatever part of the context object the writes of this path go to
			W = ""
			for _, e := range p.Events {
				if e.Kind == "write" && (e.Writer.String() == "p0" || strings.HasPrefix(e.Writer.String(), "&p0.") || strings.HasPrefix(e.Writer.String(), "p0.")) {
					if W == "" {
						W = e.Writer.String()
					}
				}
			}
			if W == "" {
				W = "<none>"
			}
		}
		if !successPath(p) {
			continue
		}
		F := p.Facts
		// the entries of the import table seen on this path
		type ent struct{ k, v string }
		var ents []ent
		seenIt := map[string]bool{}
		for _, atom := range p.Order {
			if strings.HasPrefix(atom, "next(range("+imp+"))@") && strings.HasSuffix(atom, "#0") && F[atom] {
				base := strings.TrimSuffix(atom, "#0")
				// several loops over the table yield the same entries again: keep the first loop's
				it := base[:strings.Index(base, "@")]
				_ = it
				ents = append(ents, ent{base + "#1", base + "#2"})
			}
		}
		// if the table is ranged more than once, entries of later loops are different terms; group by loop
		loops := map[string][]ent{}
		var loopOrder []string
		for _, e := range ents {
			// instance numbers increase along the path; a new loop starts after an exhausted one
			key := "L"
			_ = key
			loops["all"] = append(loops["all"], e)
		}
		_ = loopOrder
		_ = seenIt
		// output
		out, other := pathOutput(p, W)
		if len(other) > 0 {
			t.note("writes go to the writer parameter", false, "path %s writes to %v", traceOf(p), other)
			continue
		}
		// comment renders into the writer appear as events, not as writes: splice them in
		var stream []string
		for _, e := range p.Events {
			switch {
			case e.Kind == "write" && e.Writer.String() == W:
				stream = append(stream, segsText(e.Segs))
			case (e.Kind == "call" || e.Kind == "invoke") && e.Name != "" && (strings.HasSuffix(e.Name, "."+c.renderName()) || e.Name == c.renderName()):
				d := ""
				if e.Recv != nil {
					d = p.Deep(e.Recv)
				} else if len(e.Args) > 0 {
					d = p.Deep(e.Args[0])
				}
				stream = append(stream, "⟦render|"+c.commentSource(d)+"⟧")
			case e.Kind == "call" && e.Fn == c.registerFn():
				t.note("printing the import block registers nothing", false, "path %s calls the registration function", traceOf(p))
			case ctxForm && e.Kind == "store" && e.Recv != nil && (strings.HasPrefix(e.Recv.String(), "&p0.") || strings.HasPrefix(e.Recv.String(), "p0.")):
				// bookkeeping inside the context object the caller handed in (its sticky error)
			case e.Kind == "mapupdate" || e.Kind == "store":
				t.note("printing the import block changes nothing", false, "path %s stores to %s", traceOf(p), e.Recv)
			}
		}
		_ = out
		got := strings.Join(stream, "")
		// preamble
		pre3 := fact3(F, "empty(recv."+c.ff("preamble")+")")
		if !pre3[1] {
			if v, ok := F["lt(0,len(recv."+c.ff("preamble")+"))"]; ok {
				pre3 = [2]bool{!v, true}
			}
		}
		if !pre3[1] {
			t.note("every path knows whether there is a cgo preamble", false, "path %s writes %q without that test (facts %s)", traceOf(p), got, F)
			continue
		}
		hasPre := !pre3[0]
		nPre := 0
		for strings.Contains(got, fmt.Sprintf("⟦render|recv.%s[%d]⟧", c.ff("preamble"), nPre)) {
			nPre++
		}
		// expected main block
		var specs []string
		undecided := ""
		for _, e := range loops["all"] {
			isC := fact3(F, eqAtom(`"C"`, e.k))
			al := fact3(F, e.v+"."+aliasF)
			if !al[1] {
				al = fact3(F, imp+"["+e.k+"]."+aliasF)
			}
			if hasPre {
				if !isC[1] {
					undecided = "entry " + e.k + " is not tested for being \"C\" although a preamble exists"
					break
				}
				if isC[0] {
					continue // printed with the preamble
				}
			}
			q := "⟦q|" + e.k + "⟧"
			switch {
			case isC[1] && isC[0]:
				// "C" is never given an alias
			case al[1] && !al[0]:
			case al[1] && al[0] && isC[1] && !isC[0]:
				specs = append(specs, "⟦s|"+e.v+"."+nameF+"⟧ "+q, "⟦s|"+imp+"["+e.k+"]."+nameF+"⟧ "+q)
				continue
			default:
				undecided = "entry " + e.k + " is printed without its alias flag and its being \"C\" having been settled"
			}
			if undecided != "" {
				break
			}
			specs = append(specs, q, q)
		}
		if undecided != "" {
			t.note("every import line is decided by its entry's alias flag and by whether the path is \"C\"", false, "path %s: %s (facts %s)", traceOf(p), undecided, F)
			continue
		}
		// specs holds two accepted spellings per entry (range value / lookup by key)
		n := len(specs) / 2
		alts := func(i int) (string, string) { return specs[2*i], specs[2*i+1] }
		okMain, rest := false, got
		switch {
		case n == 0:
			okMain = true
		case n == 1:
			a, b := alts(0)
			for _, sp := range []string{a, b} {
				if strings.HasPrefix(got, "import "+sp+"\n\n") {
					okMain, rest = true, strings.TrimPrefix(got, "import "+sp+"\n\n")
				}
			}
		default:
			if strings.HasPrefix(got, "import (\n") {
				body := strings.TrimPrefix(got, "import (\n")
				if i := strings.Index(body, ")\n\n"); i >= 0 {
					lines := strings.Split(strings.TrimSuffix(body[:i], "\n"), "\n")
					rest = body[i+len(")\n\n"):]
					used := map[int]bool{}
					okMain = len(lines) == n && strings.HasSuffix(body[:i], "\n")
					for _, ln := range lines {
						found := false
						for j := 0; j < n; j++ {
							a, b := alts(j)
							if !used[j] && (ln == a || ln == b) {
								used[j], found = true, true
								break
							}
						}
						if !found {
							okMain = false
						}
					}
					// printed in sorted order: a sort by a total order precedes the output
					sorted := false
					for _, e := range p.Events {
						if ci, ok := e.In.(ssa.CallInstruction); ok && e.Kind == "call" && isSortCall(ci) {
							if ok2, _ := sortOrderOK(c, ci); ok2 {
								sorted = true
							}
						}
					}
					t.note("several imports are printed in sorted order", sorted, "path %s prints %d import lines without sorting them", traceOf(p), n)
				}
			}
		}
		t.note("the main block prints every registered entry once — alias and quoted path for aliased entries other than \"C\", the quoted path alone otherwise; \"C\" is left out only if a preamble exists", okMain, "path %s prints %q for %d entries (expected specs %v)", traceOf(p), got, n, specs)
		if !okMain {
			continue
		}
		// the cgo part
		want := ""
		if hasPre {
			for j := 0; j < nPre; j++ {
				want += fmt.Sprintf("⟦render|recv.%s[%d]⟧\n", c.ff("preamble"), j)
			}
			want += "import \"C\"\n\n"
			exhausted := F.Has(fmt.Sprintf("lt(%d,len(recv.%s))", nPre, c.ff("preamble")), false) || (nPre == 0 && false)
			t.note("with a preamble: every preamble comment, each followed by exactly one newline, then `import \"C\"` directly", rest == want && exhausted, "path %s prints %q after the main block (expected %q; all %d comments printed: %v)", traceOf(p), rest, want, nPre, exhausted)
		} else {
			t.note("without a preamble nothing follows the main block", rest == "", "path %s prints %q after the main block", traceOf(p), rest)
		}
	}
	t.require("the main block prints every registered entry once — alias and quoted path for aliased entries other than \"C\", the quoted path alone otherwise; \"C\" is left out only if a preamble exists",
		"with a preamble: every preamble comment, each followed by exactly one newline, then `import \"C\"` directly", "without a preamble nothing follows the main block", "several imports are printed in sorted order")
	t.flush()
	c.checkArityIndependence(o, f)
	return o.list
}

// commentSource: which text a freshly built comment statement / comment value renders, read off its
// deep form ("&[{comment:recv.cgoPreamble[0]}] …" → "recv.cgoPreamble[0]"); "?" if it is not a
// comment-only value.
func (c *Ctx) commentSource(deep string) string {
	tag := "{" + c.commentField() + ":"
	i := strings.Index(deep, tag)
	if i < 0 {
		// the text field after other fields that all have their zero value (a flag added to the struct)
		if k := strings.Index(deep, ","+c.commentField()+":"); k >= 0 {
			if b := strings.LastIndex(deep[:k], "{"); b >= 0 {
				zero := true
				for _, fv := range strings.Split(deep[b+1:k], ",") {
					if !(strings.HasSuffix(fv, ":false") || strings.HasSuffix(fv, ":0") || strings.HasSuffix(fv, `:""`) || strings.HasSuffix(fv, ":nil")) {
						zero = false
					}
				}
				if zero {
					deep = deep[:b] + tag + deep[k+len(","+c.commentField()+":"):]
					i = strings.Index(deep, tag)
				}
			}
		}
	}
	if i < 0 {
		return "?" + deep
	}
	rest := deep[i+len(tag):]
	j := strings.IndexAny(rest, "},")
	if j < 0 {
		return "?" + deep
	}
	if strings.Contains(rest[j:], tag) || strings.Contains(deep[:i], "typ:") {
		return "?" + deep
	}
	return rest[:j]
}

// ---------------------------------------------------------------------------------------------
// P-FILERENDER-ORDER on paths of File.Render

func rulePXFileRender(c *Ctx) []Obligation {
	o := c.newObs("P-FILERENDER-ORDER")
	f := c.method("File", "Render")
	ri := c.role("renderImports")
	if f == nil || ri == nil {
		o.undecided("(*jen.File).Render", "anchor", token.NoPos, "anchor lost: File.Render / the import block printer")
		return o.list
	}
	fn := fname(f)
	hF, dF, nF := "recv."+c.ff("headers"), "recv."+c.ff("comments"), "recv."+c.ff("name")
	paths, trunc := c.Paths(f, PXConfig{SkipErrEdges: true, Opaque: c.stdOpaque(ri), MaxVisits: 4, MaxDepth: 5, MaxPaths: 40000})
	if trunc || len(paths) == 0 {
		o.undecided(fn, "path enumeration", f.Pos(), "%d paths, truncated %v", len(paths), trunc)
		return o.list
	}
	t := newTally(o, fn, f.Pos())
	for _, p := range paths {
		if !successPath(p) {
			continue
		}
		F := p.Facts
		// the assembled source text: what is formatted, or written raw
		var src *T
		bodyAt, impAt := -1, -1
		for i, e := range p.Events {
			switch {
			case e.Kind == "call" && e.Name == "go/format.Source" && len(e.Args) == 1:
				src = e.Args[0]
			case e.Kind == "write" && e.Writer.String() == "p0" && src == nil:
				src = e.Data
			case e.Kind == "call" && e.Fn == ri:
				impAt = i
			case e.Kind == "call" && e.Fn != nil && e.Fn.Name() == c.renderName() && len(e.Args) >= 2 && strings.HasPrefix(e.Args[0].String(), "recv") && bodyAt < 0:
				bodyAt = i
			}
		}
		if src == nil || bodyAt < 0 || impAt < 0 {
			t.note("the file is assembled from its body and its import block", false, "path %s: source found %v, body render %d, import block %d", traceOf(p), src != nil, bodyAt, impAt)
			continue
		}
		t.note("the body is rendered before the import block is printed (imports are registered while the body renders)", bodyAt < impAt, "path %s prints the import block first", traceOf(p))
		// nothing else that could register runs: every other render call is of a comment-only value
		okOnlyComments := true
		for i, e := range p.Events {
			if i == bodyAt || i == impAt {
				continue
			}
			if (e.Kind == "call" && e.Fn != nil && e.Fn.Name() == c.renderName()) || (e.Kind == "invoke" && e.Name == c.renderName()) {
				d := ""
				if e.Recv != nil {
					d += p.Deep(e.Recv) + " "
				}
				for _, a := range e.Args[:1] {
					d += p.Deep(a)
				}
				if strings.HasPrefix(c.commentSource(d), "?") {
					okOnlyComments = false
				}
			}
			if e.Kind == "call" && e.Fn == c.registerFn() {
				okOnlyComments = false
			}
		}
		t.note("besides the body, only comment-only values are rendered (nothing else can register an import)", okOnlyComments, "path %s renders something else", traceOf(p))
		// tokens of the source text
		got := ""
		for _, sg := range termTemplate(src) {
			if sg.Val != nil && sg.Val.Op == "call" && sg.Val.Aux == "rendered" && len(sg.Val.A) == 1 {
				call := sg.Val.A[0]
				switch {
				case call.String() == p.Events[bodyAt].Res.String():
					got += "⟦BODY⟧"
				case call.String() == p.Events[impAt].Res.String():
					got += "⟦IMPORTS⟧"
				default:
					d := ""
					if len(call.A) > 0 {
						d = p.Deep(call.A[0]) // the value rendered (receiver)
					}
					got += "⟦" + c.commentSource(d) + "⟧"
				}
				continue
			}
			if sg.Val != nil && impAt >= 0 && p.Events[impAt].Res != nil && (sg.Val.String() == p.Events[impAt].Res.String() || sg.Val.String() == p.Events[impAt].Res.String()+"#0") {
				got += "⟦IMPORTS⟧" // the import block handed back as text and written as such
				continue
			}
			got += segToken(sg)
		}
		nh, nd := 0, 0
		for strings.Contains(got, fmt.Sprintf("⟦%s[%d]⟧", hF, nh)) {
			nh++
		}
		for strings.Contains(got, fmt.Sprintf("⟦%s[%d]⟧", dF, nd)) {
			nd++
		}
		exhausted := func(list string, n int) bool {
			// the length is known on this path (from a test like i == len(list)-1)
			if kn, ok := p.Mem["#len:"+list]; ok {
				if v, isN := kn.intVal(); isN {
					return int(v) == n
				}
			}
			if n == 0 {
				return F.Has("empty("+list+")", true) || F.Has("lt(0,len("+list+"))", false)
			}
			return F.Has(fmt.Sprintf("lt(%d,len(%s))", n, list), false)
		}
		canon := fact3(F, "empty(recv.CanonicalPath)")
		if !canon[1] {
			t.note("every path decides whether a canonical import path is set", false, "path %s assembles %q without that test", traceOf(p), got)
			continue
		}
		want := ""
		for i := 0; i < nh; i++ {
			want += fmt.Sprintf("⟦%s[%d]⟧\n", hF, i)
		}
		if nh > 0 {
			want += "\n"
		}
		for i := 0; i < nd; i++ {
			want += fmt.Sprintf("⟦%s[%d]⟧\n", dF, i)
		}
		want += "package ⟦s|" + nF + "⟧"
		if !canon[0] {
			want += " // import ⟦q|recv.CanonicalPath⟧"
		}
		want += "\n\n⟦IMPORTS⟧⟦BODY⟧"
		t.note("the file is: header comments (one per line), a blank line iff there are headers, package comments, `package name`, ` // import \"path\"` iff a canonical path is set, a blank line, the import block, the body", got == want && exhausted(hF, nh) && exhausted(dF, nd),
			"path %s assembles %q; expected %q (all %d headers / %d package comments included: %v / %v)", traceOf(p), got, want, nh, nd, exhausted(hF, nh), exhausted(dF, nd))
	}
	t.require("the file is: header comments (one per line), a blank line iff there are headers, package comments, `package name`, ` // import \"path\"` iff a canonical path is set, a blank line, the import block, the body",
		"the body is rendered before the import block is printed (imports are registered while the body renders)")
	t.flush()
	c.checkArityIndependence(o, f)
	return o.list
}

// ---------------------------------------------------------------------------------------------
// P-REGISTER on paths of the registration function (helpers inlined; validity predicate opaque)

func rulePXRegister(c *Ctx) []Obligation {
	o := c.newObs("P-REGISTER")
	reg := c.registerFn()
	fn := fname(reg)
	valid, guess := c.role("isValidAlias"), c.role("guessAlias")
	if guess == nil {
		o.undecided(fn, "helpers", reg.Pos(), "anchor lost: the alias guesser ((string) string) is not called from the registration function")
		return o.list
	}
	// Without a validity predicate called as such (the test may be spread over helpers, or work on a
	// snapshot of the taken names) everything but the reserved-word predicate and the guesser is
	// inlined, and validity is read off the facts at the store: see validAtStore.
	inlined := valid == nil
	resv := c.jenFunc("IsReservedWord")
	_, stdName, _, okStd := c.stdHintsTable()
	if !okStd {
		o.undecided(fn, "standard-library table", reg.Pos(), "anchor lost: no constant map[string]string table is read during registration")
	}
	imp, hints := "recv."+c.ff("imports"), "recv."+c.ff("hints")
	nameF, aliasF := c.ff("defname"), c.ff("defalias")
	opq := map[*ssa.Function]bool{guess: true}
	// the reserved-word predicate stays opaque in both modes: a registration function may consult the
	// validity predicate for its first candidate and test later ones itself
	opq[resv] = true
	if !inlined {
		opq[valid] = true
	}
	paths, trunc := c.Paths(reg, PXConfig{MaxVisits: 4, MaxDepth: 4, MaxPaths: 200000, Opaque: func(f *ssa.Function) bool { return opq[f] }})
	if trunc || len(paths) == 0 {
		o.undecided(fn, "path enumeration", reg.Pos(), "%d paths, truncated %v", len(paths), trunc)
		return o.list
	}
	c.stats["register_paths"] = len(paths)
	t := newTally(o, fn, reg.Pos())
	storedName := imp + "[p0]." + nameF
	hintName, hintAlias := hints+"[p0]."+nameF, hints+"[p0]."+aliasF
	stdTerm := "global:" + stdName + "[p0]"
	classOf := func(n *T) (class string, base string) {
		// raw candidates
		s := n.String()
		switch {
		case s == hintName:
			return "hint", s
		case s == stdTerm:
			return "std", s
		case n.Op == "call" && n.Aux == fname(guess) && len(n.A) == 1 && n.A[0].String() == "p0":
			return "guess", s
		}
		// modified: a template with exactly one raw candidate among its values
		segs := termTemplate(n)
		cnt := 0
		for _, sg := range segs {
			if sg.Val == nil {
				continue
			}
			vs := sg.Val.String()
			if vs == hintName || vs == stdTerm || (sg.Val.Op == "call" && sg.Val.Aux == fname(guess)) {
				cnt++
				base = vs
			}
		}
		if cnt == 1 && len(segs) > 1 {
			return "modified", base
		}
		if cnt == 1 && len(segs) == 1 {
			return "hint", base // %s of the raw value
		}
		return "other", ""
	}
	for _, p := range paths {
		if p.End != "return" || len(p.Ret) < 1 {
			t.note("registration returns a name on every path", false, "path %s ends in %s", traceOf(p), p.End)
			continue
		}
		F := p.Facts
		ret := p.Ret[0]
		if ret.Typ != nil {
			if _, isStruct := ret.Typ.Underlying().(*types.Struct); isStruct {
				// the whole entry is returned: its name is what the caller writes
				ret = fieldOfTerm(ret, nameF, types.Typ[types.String])
			}
		}
		var stores []Ev
		var lastValid *Ev
		var rejected []string
		for i := range p.Events {
			e := &p.Events[i]
			switch {
			case e.Kind == "mapupdate" && e.Recv.String() == imp:
				stores = append(stores, *e)
			case e.Kind == "mapupdate" || e.Kind == "store":
				t.note("registration stores nothing but the import entry", false, "path %s stores to %s", traceOf(p), e.Recv)
			case e.Kind == "call" && e.Fn == valid && valid != nil:
				lastValid = e
				if F.Has(e.Res.String(), false) && len(e.Args) == 2 {
					rejected = append(rejected, e.Args[1].String())
				}
			}
		}
		isC := fact3(F, `eq("C",p0)`)
		switch len(stores) {
		case 0:
			switch {
			case ret.isConst() && ret.String() == `""`:
				loc := fact3(F, eqAtom("p0", "recv."+c.ff("path")))
				t.note("the empty qualifier is returned only for the File's own path", loc[1] && loc[0], "path %s returns \"\" (facts %s)", traceOf(p), F)
			case ret.String() == storedName:
				ok := F.Has("empty("+storedName+")", false) && F.Has(`eq("_",`+storedName+`)`, false)
				t.note("a known path returns its stored name — unless that is empty or \"_\"", ok, "path %s returns the stored name without name ≠ \"\" and name ≠ \"_\" established (facts %s): after Anon(path) a reference would be qualified by _", traceOf(p), F)
			default:
				t.note("a name is returned only for the local path, a known path, or after registering it", false, "path %s returns %s without storing an entry", traceOf(p), ret)
			}
			continue
		case 1:
		default:
			t.note("one entry is stored per registration", false, "path %s stores %d entries", traceOf(p), len(stores))
			continue
		}
		st := stores[0]
		key, val := st.Args[0], st.Args[1]
		name, alias := fieldOfTerm(val, nameF, nil), fieldOfTerm(val, aliasF, nil)
		// first registration wins
		miss := F.Has("empty("+storedName+")", true) || F.Has(`eq("_",`+storedName+`)`, true) || F.Has("has("+imp+",p0)", false)
		t.note("an entry is stored only after a miss on the import table (first registration wins)", miss, "path %s stores although the path may already be registered (facts %s): a later hint would rename an import already used", traceOf(p), F)
		// the "C" case
		if isC[1] && isC[0] {
			ks := key.String()
			ok := (ks == `"C"` || ks == "p0") && name.String() == `"C"` && alias.String() == "false" && ret.String() == `"C"`
			t.note("\"C\" is registered as {\"C\", no alias} and referred to as C — never hinted, prefixed or numbered", ok, "path %s stores {%s, %s} under %s and returns %s", traceOf(p), name, alias, key, ret)
			continue
		}
		t.note("anything but the \"C\" case is registered knowing that the path is not \"C\"", isC[1] && !isC[0], "path %s reaches the general store without having compared the path with \"C\" (the pseudo-package could be aliased, prefixed or numbered)", traceOf(p))
		t.note("the entry is stored under the path being registered", key.String() == "p0", "path %s stores under %s", traceOf(p), key)
		// the list renderer registers every package token before its null test — also those of the
		// File's own path; that no import results is decided here
		locS := fact3(F, eqAtom("p0", "recv."+c.ff("path")))
		t.note("nothing is registered for the File's own path", locS[1] && !locS[0], "path %s stores an entry without knowing that the path differs from the File's own (facts %s): a reference to the local package would import the package into itself", traceOf(p), F)
		// checked = stored = returned
		okChecked := lastValid != nil && F.Has(lastValid.Res.String(), true) && len(lastValid.Args) == 2 && lastValid.Args[1].String() == name.String()
		lv := "<none>"
		if lastValid != nil && len(lastValid.Args) == 2 {
			lv = lastValid.Args[1].String()
		}
		if inlined {
			var whyV string
			okChecked, whyV = c.validAtStore(p, F, name, imp, nameF)
			lv = "<validity inlined: " + whyV + ">"
		} else if !okChecked {
			// the predicate vouched for another candidate: the stored one may have been tested in place
			if ok2, why2 := c.validAtStore(p, F, name, imp, nameF); ok2 {
				okChecked = true
			} else {
				lv += " <and tested in place: " + why2 + ">"
			}
		}
		t.note("the name stored is the very name that passed the validity test", okChecked, "path %s stores %s but the last accepted candidate was %s: uniqueness / legality was established for a different string (e.g. prefix applied afterwards)", traceOf(p), name, lv)
		t.note("the name returned is the name stored", ret.String() == name.String(), "path %s returns %s but stores %s", traceOf(p), ret, name)
		// coherence of name class and alias flag
		class, base := classOf(name)
		aliasTrue := alias.String() == "true" || (alias.String() == hintAlias && F.Has(hintAlias, true))
		var okCoh bool
		switch class {
		case "hint":
			okCoh = alias.String() == hintAlias || aliasTrue
			// the hint's own flag, spelled as the constant the path knows it to be
			if b, isB := alias.boolVal(); isB && !okCoh {
				if v := fact3(F, hintAlias); v[1] && v[0] == b {
					okCoh = true
				}
			}
		case "std":
			okCoh = true
		case "guess", "modified":
			okCoh = aliasTrue
		}
		t.note("a name stored without alias is the raw hint / standard-library name; guessed or modified (prefixed, numbered) names are aliases", okCoh, "path %s stores the %s name %s with alias flag %s not known to be true: the import line would omit the alias although the qualifier is not the package's real name", traceOf(p), class, name, alias)
		// source of the candidate: hint first, then the standard-library table, then a guess
		// "no hint" / "no table entry": the looked-up name is known empty, or the key is known absent
		noHint := F.Has("empty("+hintName+")", true) || F.Has("has("+hints+",p0)", false)
		noStd := F.Has("empty("+stdTerm+")", true) || F.Has("has(global:"+stdName+",p0)", false)
		switch base {
		case hintName:
			t.note("a hint is used only if one was given", F.Has("empty("+hintName+")", false), "path %s", traceOf(p))
		case stdTerm:
			t.note("the standard-library table is used only without a hint", noHint && F.Has("empty("+stdTerm+")", false), "path %s (facts %s)", traceOf(p), F)
		default:
			if class != "other" {
				t.note("a name is guessed only without a hint and without a table entry", noHint && noStd, "path %s (facts %s)", traceOf(p), F)
			}
		}
		// modifications never touch "."
		if class == "modified" {
			notDot := F.Has(`eq(".",`+base+`)`, false) || F.Has(eqAtom(`"."`, base), false) || strings.HasPrefix(base, fname(guess)+"(")
			for _, rj := range rejected {
				if rj == base {
					notDot = true // the unmodified name was rejected, and "." is always accepted
				}
			}
			if !notDot && len(rejected) > 0 {
				// a modified candidate was rejected earlier: it exists only where the base was already known ≠ "."
				// (that earlier modification is judged on the path where it is stored)
				first := rejected[0]
				if first != base {
					notDot = false
				}
			}
			t.note("a candidate is modified (prefix / number) only if it is known not to be \".\"", notDot, "path %s stores %s without an established %s ≠ \".\" (facts %s): a dot-import would be rendered as pkg_. or .1", traceOf(p), name, base, F)
		}
	}
	t.require("the name stored is the very name that passed the validity test", "\"C\" is registered as {\"C\", no alias} and referred to as C — never hinted, prefixed or numbered",
		"a known path returns its stored name — unless that is empty or \"_\"", "an entry is stored only after a miss on the import table (first registration wins)",
		"a name stored without alias is the raw hint / standard-library name; guessed or modified (prefixed, numbered) names are aliases", "the empty qualifier is returned only for the File's own path")
	t.flush()
	return o.list
}

// ---------------------------------------------------------------------------------------------
// P-VALIDALIAS / P-LOCALDOT on paths

func rulePXValidAlias(c *Ctx) []Obligation {
	o := c.newObs("P-VALIDALIAS")
	f := c.role("isValidAlias")
	if f == nil {
		// no validity predicate called as such by the registration function: the test is inlined into
		// the registration paths and judged there (P-REGISTER, validAtStore)
		reg := c.registerFn()
		key := "the name stored is the very name that passed the validity test"
		st, detail := Undecided, "P-REGISTER did not reach the store"
		for _, ob := range c.run("P-REGISTER") {
			if strings.HasSuffix(ob.Key, "| "+key) {
				st, detail = ob.Status, ob.Detail
			}
		}
		o.add(st, fname(reg), "validity (not \".\" ⇒ not reserved and different from every registered name) is established on the registration paths themselves", reg.Pos(), true,
			"no separate validity predicate is called by the registration function; judged with every helper inlined: %s", detail)
		return o.list
	}
	fn := fname(f)
	resv := c.jenFunc("IsReservedWord")
	imp := "recv." + c.ff("imports")
	nameF := c.ff("defname")
	paths, trunc := c.Paths(f, PXConfig{MaxVisits: 4, Opaque: func(g *ssa.Function) bool { return g == resv }})
	if trunc || len(paths) == 0 {
		o.undecided(fn, "path enumeration", f.Pos(), "%d paths, truncated %v", len(paths), trunc)
		return o.list
	}
	t := newTally(o, fn, f.Pos())
	resvSpecial := map[string]bool{}
	if resv != nil {
		if m, ok, _ := c.reservedByPaths(resv, specialNames); ok {
			resvSpecial = m // a maintainer may as well put them into the reserved list
		}
	}
	for _, p := range paths {
		if p.End != "return" {
			t.note("the validity predicate does not panic", false, "path %s", traceOf(p))
			continue
		}
		for _, e := range p.Events {
			if e.Kind == "store" || e.Kind == "mapupdate" || e.Kind == "write" {
				t.note("the validity predicate has no effect", false, "path %s: %s on %s", traceOf(p), e.Kind, e.Recv)
			}
		}
		outs, ok := boolOutcomes(p)
		if !ok {
			t.note("the result is decided on every path", false, "path %s returns %v", traceOf(p), p.Ret)
			continue
		}
		for _, oc := range outs {
			F := oc.F
			dot := fact3(F, `eq(".",p0)`)
			res3 := [2]bool{}
			for _, e := range p.Events {
				if e.Kind == "call" && e.Fn == resv && len(e.Args) == 1 && e.Args[0].String() == "p0" {
					res3 = fact3(F, e.Res.String())
				}
			}
			// entries examined
			clash, allDiffer, n := false, true, 0
			last := ""
			for _, atom := range p.Order {
				if strings.HasPrefix(atom, "next(range("+imp+"))@") && strings.HasSuffix(atom, "#0") {
					if F[atom] {
						n++
						nm := strings.TrimSuffix(atom, "#0") + "#2." + nameF
						e3 := fact3(F, eqAtom("p0", nm))
						if e3[1] && e3[0] {
							clash = true
						}
						if !(e3[1] && !e3[0]) {
							allDiffer = false
						}
					} else {
						last = atom
					}
				}
			}
			exhausted := last != ""
			// names that belong to someone else although no entry of the table says so: "C" (the cgo
			// pseudo-package is registered without this test, cannot be renamed, and is printed for a
			// preamble or Anon("C") without an entry of that name) and "init" (the compiler rejects
			// `import init "p"`)
			special := false
			for _, w := range specialNames {
				if e3 := fact3(F, eqAtom(strconv.Quote(w), "p0")); e3[1] && e3[0] {
					special = true
				}
			}
			if oc.Val {
				okDot := dot[1] && dot[0]
				okFree := dot[1] && !dot[0] && res3[1] && !res3[0] && allDiffer && exhausted
				t.note("a name is accepted only if it is \".\", or not reserved and different from the name of every registered entry", okDot || okFree, "path %s accepts (dot %v, reserved %v, %d entries compared, all differ %v, table exhausted %v; facts %s)", traceOf(p), dot, res3, n, allDiffer, exhausted, F)
				if !okDot {
					for _, w := range specialNames {
						ok := F.Has(eqAtom(strconv.Quote(w), "p0"), false) || resvSpecial[w]
						t.note(specialKey(w), ok, "path %s accepts a name not known to differ from %q (facts %s): %s", traceOf(p), w, F, specialWhy[w])
					}
				}
			} else {
				okRej := !(dot[1] && dot[0]) && dot[1] && ((res3[1] && res3[0]) || clash || special)
				t.note("a name is rejected only if it is reserved or equal to a registered name — never \".\"", okRej, "path %s rejects (dot %v, reserved %v, clash %v; facts %s)", traceOf(p), dot, res3, clash, F)
			}
		}
	}
	t.require("a name is accepted only if it is \".\", or not reserved and different from the name of every registered entry", "a name is rejected only if it is reserved or equal to a registered name — never \".\"",
		specialKey("C"), specialKey("init"))
	t.flush()
	c.checkArityIndependence(o, f)
	return o.list
}

// specialNames: import names no path but their owner may carry although the import table does not
// show them as taken.
var specialNames = []string{"C", "init"}

var specialWhy = map[string]string{
	"C":    "ImportAlias(p, \"C\") / ImportName(p, \"C\") rendered before Qual(\"C\", …), or next to a cgo preamble or Anon(\"C\"), gives two imports named C",
	"init": "`import init \"p\"` is rejected by the compiler (cannot import package as init)",
}

func specialKey(w string) string {
	if w == "C" {
		return "the name C is never accepted for a path (it belongs to the cgo pseudo-package)"
	}
	return "the name " + w + " is never accepted (a package cannot be imported under it)"
}

func rulePXLocalDot(c *Ctx) []Obligation {
	o := c.newObs("P-LOCALDOT")
	hints := c.ff("hints")
	nameF, aliasF := c.ff("defname"), c.ff("defalias")
	if f := c.role("isLocal"); f != nil {
		paths, _ := c.Paths(f, PXConfig{})
		t := newTally(o, fname(f), f.Pos())
		for _, p := range paths {
			outs, ok := boolOutcomes(p)
			if !ok || p.End != "return" {
				t.note("the local-path test is exactly f.path == path", false, "path %s returns %v", traceOf(p), p.Ret)
				continue
			}
			for _, oc := range outs {
				e := fact3(oc.F, eqAtom("p0", "recv."+c.ff("path")))
				// no other fact may have been needed
				extra := 0
				for a := range oc.F {
					if a != eqAtom("p0", "recv."+c.ff("path")) {
						extra++
					}
				}
				t.note("the local-path test is exactly f.path == path", e[1] && e[0] == oc.Val && extra == 0, "path %s returns %v under %s — a prefix / suffix / case-insensitive comparison would drop the import of a different package", traceOf(p), oc.Val, oc.F)
			}
		}
		t.require("the local-path test is exactly f.path == path")
		t.flush()
	} else {
		// no separate local-path predicate: the comparison is inlined where it is used and judged there
		// (P-REGISTER: the empty qualifier only for the File's own path; P-ISNULL: a package token is
		// null exactly for a dot-imported path or the File's own path)
		o.info("(*jen.File).isLocal", "no separate local-path predicate", token.NoPos, "inlined at its uses; judged by P-REGISTER and P-ISNULL")
	}
	if f := c.role("isDotImport"); f != nil {
		paths, _ := c.Paths(f, PXConfig{})
		t := newTally(o, fname(f), f.Pos())
		hint := "recv." + hints + "[p0]"
		for _, p := range paths {
			outs, ok := boolOutcomes(p)
			if !ok || p.End != "return" {
				t.note("the dot-import test is exactly hints[path] = {\".\", alias}", false, "path %s returns %v", traceOf(p), p.Ret)
				continue
			}
			for _, oc := range outs {
				F := oc.F
				_, _, _ = nameF, aliasF, hint
				dotT, dk, _, _, _ := c.dotDecision(F, "recv", "p0")
				t.note("the dot-import test is exactly hints[path] = {\".\", alias}", dk && dotT == oc.Val, "path %s returns %v under %s", traceOf(p), oc.Val, F)
			}
		}
		t.require("the dot-import test is exactly hints[path] = {\".\", alias}")
		t.flush()
	} else {
		// inlined into its user: P-ISNULL judges "a package token is null exactly for a dot-imported
		// path or the File's own path" on token.isNull's own paths
		o.info("(*jen.File).isDotImport", "no separate dot-import predicate", token.NoPos, "inlined at its use; judged by P-ISNULL")
	}
	return o.list
}

// ---------------------------------------------------------------------------------------------
// P-CTOR on paths

// fieldOfObj: final content of field f of the path-local object t points to (nil if never set).
func (p *PXPath) fieldOfObj(t *T, f string) *T {
	if t == nil || t.Op != "alloc" {
		return nil
	}
	k := "o" + strconv.Itoa(t.Obj)
	if v, ok := p.Mem[k]; ok && v.Op == "struct" {
		return v.Fields[f]
	}
	return p.Mem[k+"."+f]
}

func (p *PXPath) mapIsFreshEmpty(t *T) bool {
	if t == nil || t.Op != "make" || !isMapType(t.Typ) {
		return false
	}
	pre := "m" + strconv.Itoa(t.Inst) + "#"
	for k := range p.Mem {
		if strings.HasPrefix(k, pre) && !strings.HasSuffix(k, "#n") {
			return false
		}
	}
	return true
}

func rulePXCtor(c *Ctx) []Obligation {
	o := c.newObs("P-CTOR")
	ft := c.fileType()
	n := 0
	guess := c.role("guessAlias")
	pathField := c.ff("path")
	for _, f := range c.allFuncs(c.Jen) {
		if f.Parent() != nil || f.Signature.Recv() != nil || f.Signature.Results().Len() != 1 || !isExportedName(f.Name()) {
			continue
		}
		pt, ok := f.Signature.Results().At(0).Type().(*types.Pointer)
		if !ok || !types.Identical(pt.Elem(), ft) {
			continue
		}
		n++
		fn := fname(f)
		paths, trunc := c.Paths(f, PXConfig{Opaque: func(g *ssa.Function) bool { return g == guess }})
		if trunc || len(paths) == 0 {
			o.undecided(fn, "path enumeration", f.Pos(), "%d paths, truncated %v", len(paths), trunc)
			continue
		}
		t := newTally(o, fn, f.Pos())
		for _, p := range paths {
			if p.End != "return" || len(p.Ret) != 1 || p.Ret[0].Op != "alloc" {
				t.note("returns a freshly allocated File", false, "path %s ends in %s returning %v", traceOf(p), p.End, p.Ret)
				continue
			}
			t.note("returns a freshly allocated File", true, "")
			r := p.Ret[0]
			im, hi := p.fieldOfObj(r, c.ff("imports")), p.fieldOfObj(r, c.ff("hints"))
			t.note("imports is a fresh empty map", p.mapIsFreshEmpty(im), "path %s: imports = %v (a nil map makes the first registration panic; a shared or pre-filled one leaks names between files)", traceOf(p), im)
			t.note("hints is a fresh empty map", p.mapIsFreshEmpty(hi) && (im == nil || hi == nil || im.Inst != hi.Inst), "path %s: hints = %v", traceOf(p), hi)
			g := p.fieldOfObj(r, "Group")
			okG := g != nil && g.Op == "alloc"
			if okG {
				for _, fld := range structFieldNames(c.groupType()) {
					v := p.fieldOfObj(g, fld)
					switch {
					case v == nil:
						if fld == "multi" {
							okG = false
						}
					case fld == "multi":
						if b, isB := v.boolVal(); !isB || !b {
							okG = false
						}
					default:
						if s, isS := v.strVal(); isS && s == "" {
							continue
						}
						if v.Op == "const" && v.Nil {
							continue
						}
						if v.Op == "elems" && len(v.Elems) == 0 {
							continue
						}
						okG = false
					}
				}
			}
			t.note("the File's group is a fresh multi-line group without delimiters", okG, "path %s: Group = %s — top-level declarations must each start on their own line", traceOf(p), p.Deep(g))
			// the package path: the caller's string, unmodified (isLocal compares paths for equality,
			// so a normalised copy makes the File's own path foreign — and a near miss local)
			if pv := p.fieldOfObj(r, pathField); pv != nil {
				if s0, isS := pv.strVal(); !(isS && s0 == "") {
					t.note("the path stored is the caller's path argument, unmodified", pv.Op == "param", "path %s stores %s as the File's path", traceOf(p), pv)
				}
			}
		}
		t.require("returns a freshly allocated File", "imports is a fresh empty map", "hints is a fresh empty map", "the File's group is a fresh multi-line group without delimiters")
		t.flush()
	}
	if n < 3 {
		o.undecided("jen", "File constructors", token.NoPos, "expected 3 constructors, found %d", n)
	}
	// comment setters: HeaderComment / PackageComment / CgoPreamble append their argument unmodified
	targets := map[string]bool{c.ff("headers"): true, c.ff("comments"): true, c.ff("preamble"): true}
	for _, f := range c.allFuncs(c.Jen) {
		if f.Parent() != nil || !isFileMethod(c, f) || !isExportedName(f.Name()) || f.Signature.Params().Len() != 1 || f.Signature.Results().Len() != 0 {
			continue
		}
		if b, ok := f.Signature.Params().At(0).Type().Underlying().(*types.Basic); !ok || b.Kind() != types.String {
			continue
		}
		paths, trunc := c.Paths(f, PXConfig{})
		if trunc || len(paths) == 0 {
			continue
		}
		touches := false
		t := newTally(o, fname(f), f.Pos())
		for _, p := range paths {
			nst := 0
			for _, e := range p.Events {
				if e.Kind != "store" || e.Recv == nil {
					continue
				}
				rs := e.Recv.String()
				fld := strings.TrimPrefix(strings.TrimPrefix(rs, "&"), "recv.")
				if fld == rs || !targets[fld] {
					continue
				}
				touches = true
				nst++
				v := e.Args[0]
				ok := v.Op == "append" && len(v.A) == 2 && v.A[0].String() == "recv."+fld && (v.A[1].String() == "p0" || v.A[1].String() == "[p0]") && len(p.Facts) == 0
				t.note("appends the caller's text, whole and unmodified, to File."+fld, ok, "path %s stores %s under %s — splitting or rewriting the text changes which comment form (line / block / raw) each piece takes when it is rendered", traceOf(p), v, p.Facts)
			}
			if touches && nst == 0 {
				t.note("appends the caller's text on every path", false, "path %s stores nothing (facts %s)", traceOf(p), p.Facts)
			}
		}
		t.flush()
	}
	return o.list
}

func structFieldNames(t types.Type) []string {
	st, ok := t.Underlying().(*types.Struct)
	if !ok {
		return nil
	}
	var out []string
	for i := 0; i < st.NumFields(); i++ {
		out = append(out, st.Field(i).Name())
	}
	return out
}

// dotFact: is the hint entry known to be (or not to be) the dot-import entry {name: ".", alias: true}?
// Either spelled field by field or as one comparison of the whole struct value.
func (c *Ctx) dotFact(F Facts, hint string) (val, known bool) {
	nameF, aliasF := c.ff("defname"), c.ff("defalias")
	if v, k := and3(fact3(F, `eq(".",`+hint+`.`+nameF+`)`), fact3(F, hint+"."+aliasF)); k {
		return v, true
	}
	fields := []string{aliasF + ":true", nameF + `:"."`}
	sort.Strings(fields)
	if w := fact3(F, eqAtom(hint, "{"+strings.Join(fields, ",")+"}")); w[1] {
		return w[0], true
	}
	return false, false
}

// validAtStore (P-REGISTER with the validity test inlined): the name n stored on path p is legal and
// unique if the facts say it is ".", or say that it is not a reserved word and that, in one scan of
// the import table that ran to exhaustion, it differed from the name of every entry — whether the
// comparisons were made directly or through a path-local set of the taken names.
// endsInDigit: the string term certainly ends in a decimal digit (a number appended to it).
func endsInDigit(t *T) bool {
	if t == nil {
		return false
	}
	if sv, ok := t.strVal(); ok {
		return endsInDigitStr(sv)
	}
	switch t.Op {
	case "binop":
		return t.Aux == "+" && len(t.A) == 2 && endsInDigit(t.A[1])
	case "call":
		if t.Aux == "strconv.Itoa" {
			return true
		}
		if (t.Aux == "strconv.FormatInt" || t.Aux == "strconv.FormatUint") && len(t.A) == 2 {
			b, ok := t.A[1].intVal()
			return ok && b == 10
		}
	}
	return false
}

func endsInDigitStr(s string) bool {
	return s != "" && s[len(s)-1] >= '0' && s[len(s)-1] <= '9'
}

func (c *Ctx) validAtStore(p *PXPath, F Facts, nt *T, imp, nameF string) (bool, string) {
	n := nt.String()
	if v := fact3(F, eqAtom(`"."`, n)); v[1] && v[0] {
		return true, "the name is \".\""
	}
	resOK := false
	for atom, pol := range F {
		if !pol && strings.HasPrefix(atom, "jen.IsReservedWord("+n+")") {
			resOK = true
		}
	}
	if !resOK {
		return false, "not known not to be a reserved word"
	}
	for _, w := range specialNames {
		if !F.Has(eqAtom(strconv.Quote(w), n), false) && !(endsInDigit(nt) && !endsInDigitStr(w)) {
			return false, "not known to differ from " + strconv.Quote(w)
		}
	}
	// scans of the import table, by range instance
	type scan struct {
		entries   []string
		exhausted bool
	}
	scans := map[int]*scan{}
	for _, atom := range p.Order {
		rg := rangeOfNextAtom(p.Terms[atom])
		if rg == nil || len(rg.A) != 1 || rg.A[0].String() != imp {
			continue
		}
		sc := scans[rg.Inst]
		if sc == nil {
			sc = &scan{}
			scans[rg.Inst] = sc
		}
		if F[atom] {
			sc.entries = append(sc.entries, strings.TrimSuffix(atom, "#0"))
		} else {
			sc.exhausted = true
		}
	}
	why := "no exhausted scan of the import table in which the name differs from every entry"
	for _, sc := range scans {
		if !sc.exhausted {
			continue
		}
		all := true
		for _, e := range sc.entries {
			if v := fact3(F, eqAtom(n, e+"#2."+nameF)); !(v[1] && !v[0]) {
				all = false
				why = "not known to differ from the name of entry " + e
			}
		}
		if all {
			return true, fmt.Sprintf("not reserved; differs from all %d entries of an exhausted scan", len(sc.entries))
		}
	}
	return false, why
}

// with: a copy of the facts with one more literal.
func (f Facts) with(atom string, pol bool) Facts {
	g := Facts{}
	for k, v := range f {
		g[k] = v
	}
	g[atom] = pol
	return g
}

// itemsAllNull3: "every item of list is nil or null", read off the facts about the items examined on
// the path: known true if every examined item is known nil / null and the list is exhausted, known
// false if some item is known neither.
func (c *Ctx) itemsAllNull3(p *PXPath, F Facts, list string) (val, known bool) {
	n := 0
	for k := 0; k < 8; k++ {
		it := fmt.Sprintf("%s[%d]", list, k)
		seen := false
		for atom := range F {
			if strings.Contains(atom, it) {
				seen = true
			}
		}
		if !seen {
			break
		}
		n = k + 1
		nil3 := fact3(F, eqAtom("nil", it))
		null3 := [2]bool{}
		for _, e := range p.Events {
			if e.Kind == "invoke" && e.Name == c.nullName() && e.Recv.String() == it {
				if v := fact3(F, e.Res.String()); v[1] {
					null3 = v
				}
			}
		}
		if nil3[1] && !nil3[0] && null3[1] && !null3[0] {
			return false, true
		}
		if !((nil3[1] && nil3[0]) || (null3[1] && null3[0])) {
			return false, false
		}
	}
	exhausted := F.Has(fmt.Sprintf("lt(%d,len(%s))", n, list), false)
	if n == 0 {
		exhausted = F.Has("empty("+list+")", true) || F.Has("lt(0,len("+list+"))", false)
	}
	if kn, ok := p.Mem["#len:"+list]; ok {
		if v, isN := kn.intVal(); isN && int(v) == n {
			exhausted = true
		}
	}
	if exhausted {
		return true, true
	}
	return false, false
}

// inlinedPrevious: with no separate "previous item" helper, find from the facts the first item of the
// enclosing statement (p2) that is known to be the group itself — compared as an interface value or,
// after a type test, as a *Group — with every earlier item known not to be; the value whose dynamic
// type the brace-less test may examine is then the item directly before it. kind is "item" (x is
// that item), "none" (the group is first, or known absent from the statement examined) or "" (the
// facts do not say).
func (c *Ctx) inlinedPrevious(F Facts) (x string, kind string, why string) {
	match3 := func(j int) [2]bool {
		it := fmt.Sprintf("p2[%d]", j)
		if v := fact3(F, eqAtom(it, "recv")); v[1] {
			return v
		}
		isG := fact3(F, "is<*jen.Group>("+it+")")
		if isG[1] && !isG[0] {
			return [2]bool{false, true}
		}
		if v := fact3(F, eqAtom("assert<*jen.Group>("+it+")", "recv")); v[1] && (isG[1] && isG[0] || !v[0]) {
			return v
		}
		return [2]bool{}
	}
	for j := 0; j < 8; j++ {
		m := match3(j)
		if !m[1] {
			// is the statement exhausted here?
			if F.Has(fmt.Sprintf("lt(%d,len(p2))", j), false) || (j == 0 && (F.Has("empty(p2)", true) || F.Has("eq(nil,p2)", true))) {
				return "", "none", "the group does not occur among the items examined"
			}
			return "", "", fmt.Sprintf("p2[%d] is not known to be, or not to be, the group itself", j)
		}
		if m[0] {
			if j == 0 {
				return "", "none", "the group is the first item"
			}
			return fmt.Sprintf("p2[%d]", j-1), "item", "the item directly before the group's first occurrence"
		}
	}
	return "", "", "no occurrence of the group within the items examined"
}

// factsLenConsistent: the literals about len(x) (c < len(x), len(x) < c, x empty, len(x) == c) leave
// at least one possible length for every x.
func factsLenConsistent(F Facts) bool {
	type iv struct {
		lo, hi int64
		ne     map[int64]bool
	}
	m := map[string]*iv{}
	get := func(x string) *iv {
		if m[x] == nil {
			m[x] = &iv{0, 1 << 40, map[int64]bool{}}
		}
		return m[x]
	}
	for a, pol := range F {
		switch {
		case strings.HasPrefix(a, "empty(") && strings.HasSuffix(a, ")") && !strings.Contains(a[6:len(a)-1], "("):
			v := get(a[6 : len(a)-1])
			if pol {
				if v.hi > 0 {
					v.hi = 0
				}
			} else if v.lo < 1 {
				v.lo = 1
			}
		case (strings.HasPrefix(a, "lt(") || strings.HasPrefix(a, "eq(")) && strings.HasSuffix(a, "))"):
			body := a[3 : len(a)-1]
			i := strings.Index(body, ",len(")
			if i <= 0 {
				continue
			}
			c, err := strconv.ParseInt(body[:i], 10, 64)
			if err != nil {
				continue
			}
			v := get(body[i+5 : len(body)-1])
			switch {
			case a[0] == 'l' && pol:
				if c+1 > v.lo {
					v.lo = c + 1
				}
			case a[0] == 'l' && !pol:
				if c < v.hi {
					v.hi = c
				}
			case a[0] == 'e' && pol:
				if c > v.lo {
					v.lo = c
				}
				if c < v.hi {
					v.hi = c
				}
			default:
				v.ne[c] = true
			}
		}
	}
	for _, v := range m {
		if v.lo > v.hi {
			return false
		}
		if v.lo == v.hi && v.ne[v.lo] {
			return false
		}
	}
	return true
}

// tokenRenderPaths: the success paths of the token renderer. The renderer may dispatch on the
// literal's dynamic type without a type switch (a table keyed by reflect.Type): no path then knows
// the type, and the case split is made here — one enumeration per documented type, assumed at
// entry, and one for "none of them".
func (c *Ctx) tokenRenderPaths(f *ssa.Function) ([]*PXPath, bool, string) {
	type res struct {
		paths []*PXPath
		trunc bool
		why   string
	}
	if v, ok := c.extra("tokenRenderPaths"); ok {
		r := v.(res)
		return r.paths, r.trunc, r.why
	}
	out := res{}
	defer func() { c.setExtra("tokenRenderPaths", out) }()
	paths, trunc := c.Paths(f, PXConfig{SkipErrEdges: true, Opaque: c.stdOpaque()})
	if trunc || len(paths) == 0 {
		out = res{paths, trunc, ""}
		return out.paths, out.trunc, out.why
	}
	knowsType := false
	for _, p := range paths {
		for atom := range p.Facts {
			if strings.HasPrefix(atom, "is<") && strings.HasSuffix(atom, ">(recv.content)") {
				knowsType = true
			}
		}
	}
	if !knowsType {
		var all []*PXPath
		cases := append(append([]string{}, documentedLitTypes...), "")
		for _, dt := range cases {
			var as []Lit
			for _, other := range documentedLitTypes {
				as = append(as, Lit{"is<" + other + ">(recv.content)", other == dt})
			}
			ps, tr := c.Paths(f, PXConfig{SkipErrEdges: true, Opaque: c.stdOpaque(), Assume: as})
			if tr {
				out = res{ps, true, fmt.Sprintf("(case %q)", dt)}
				return out.paths, out.trunc, out.why
			}
			all = append(all, ps...)
		}
		paths = all
	}
	out = res{paths, false, ""}
	return out.paths, out.trunc, out.why
}

// litPanicOnPaths: the panic at pos is reached, on the paths of the token renderer, only for a
// literal whose type is none of the documented ones (and is reached for such a literal).
func (c *Ctx) litPanicOnPaths(pos token.Pos) bool {
	f := c.implOf(c.renderName(), "jen.token")
	if f == nil {
		return false
	}
	paths, trunc, _ := c.tokenRenderPaths(f)
	if trunc {
		return false
	}
	reached := false
	for _, p := range paths {
		if p.End != "panic" || len(p.Events) == 0 {
			continue
		}
		pe := p.Events[len(p.Events)-1]
		if pe.In == nil || pe.In.Pos() != pos {
			continue
		}
		refuted := 0
		for _, dt := range documentedLitTypes {
			if p.Facts.Has("is<"+dt+">(recv.content)", false) {
				refuted++
			}
		}
		if refuted != len(documentedLitTypes) {
			return false
		}
		reached = true
	}
	return reached
}

// segsByFacts: value segments whose term the facts equate with a string constant become literals.
func segsByFacts(F Facts, segs []pseg) []pseg {
	var out []pseg
	for _, sg := range segs {
		if sg.Val != nil && (sg.Verb == "s" || sg.Verb == "v" || sg.Verb == "") {
			vs := sg.Val.String()
			repl := false
			for atom, pol := range F {
				if !pol || !strings.HasPrefix(atom, `eq("`) || !strings.HasSuffix(atom, ","+vs+")") {
					continue
				}
				lit := atom[3 : len(atom)-len(","+vs+")")]
				if u, err := strconv.Unquote(lit); err == nil {
					sg = pseg{Lit: u}
					repl = true
					break
				}
			}
			_ = repl
		}
		if sg.Val == nil && len(out) > 0 && out[len(out)-1].Val == nil {
			out[len(out)-1].Lit += sg.Lit
			continue
		}
		out = append(out, sg)
	}
	return out
}

// implementsError: the (pointer to a) named type of the module has an Error() string method.
func implementsError(t types.Type) bool {
	if t == nil {
		return false
	}
	ms := types.NewMethodSet(t)
	for i := 0; i < ms.Len(); i++ {
		if m := ms.At(i).Obj(); m.Name() == "Error" {
			if sig, ok := m.Type().(*types.Signature); ok && sig.Params().Len() == 0 && sig.Results().Len() == 1 {
				return true
			}
		}
	}
	return false
}

// knownOtherConst: the facts equate term with a string constant other than c (a switch on the term
// took the case of another constant).
func knownOtherConst(F Facts, term, c string) bool {
	for atom, pol := range F {
		if !pol || !strings.HasPrefix(atom, `eq("`) || !strings.HasSuffix(atom, ","+term+")") {
			continue
		}
		k := atom[len("eq(") : len(atom)-len(","+term+")")]
		if v, err := strconv.Unquote(k); err == nil && v != c {
			return true
		}
	}
	return false
}
