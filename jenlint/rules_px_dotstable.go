package main

import (
	"strings"
)

func init() {
	register("P-DOT-STABLE", "the dot-import test answers from the import table for a path already registered there under a usable name; the hint decides only for a path known to be unregistered (a later ImportAlias(path, \".\") or ImportAlias(path, name) cannot change how a path already used is referred to)", 2, rulePXDotStable)
}

// dotDecision: what the dot-import test must answer under facts F for the File term file and the
// path term key. A path in the import table under a usable name (neither "" nor "_") is decided by
// that entry — C08: later hints do not rename a path that has been used; any other path by its hint.
//   hit:  the entry is known to be usable; miss: known to be absent or unusable
//   usedHint: the facts mention the hint of this path
func (c *Ctx) dotDecision(F Facts, file, key string) (want, known, hit, miss, usedHint bool) {
	nameF := c.ff("defname")
	imp, hints := file+"."+c.ff("imports"), file+"."+c.ff("hints")
	entry := imp + "[" + key + "]"
	stored := entry + "." + nameF
	hint := hints + "[" + key + "]"
	for a := range F {
		if strings.Contains(a, hint) || strings.Contains(a, "has("+hints+","+key+")") {
			usedHint = true
		}
	}
	isDot := fact3(F, `eq(".",`+stored+`)`)
	hit = (F.Has("empty("+stored+")", false) && F.Has(`eq("_",`+stored+`)`, false)) || (isDot[1] && isDot[0])
	miss = F.Has("empty("+stored+")", true) || F.Has(`eq("_",`+stored+`)`, true) || F.Has("has("+imp+","+key+")", false)
	if hit {
		if v, k := c.dotFact(F, entry); k {
			return v, true, hit, miss, usedHint
		}
		return isDot[0], isDot[1], hit, miss, usedHint
	}
	want, known = c.dotFact(F, hint)
	if hf := fact3(F, "has("+hints+","+key+")"); hf[1] && !hf[0] {
		want, known = false, true
	}
	return want, known, hit, miss, usedHint
}

// P-DOT-STABLE: on every path of the null test of a package token (the dot-import predicate inlined)
// and of the predicate itself, a result taken from the hint requires the facts "this path is not in
// the import table, or only as \"\" / \"_\"".
func rulePXDotStable(c *Ctx) []Obligation {
	o := c.newObs("P-DOT-STABLE")
	const key = "a hint decides the dot-import test only for a path that is not registered"
	const keyHit = "a registered path is a dot-import exactly if it is registered as \".\""
	judged := 0
	if f := c.implOf(c.nullName(), "jen.token"); f != nil {
		fn := fname(f)
		paths, trunc := c.Paths(f, PXConfig{Opaque: c.stdOpaque()})
		if trunc || len(paths) == 0 {
			o.undecided(fn, "path enumeration", f.Pos(), "%d paths", len(paths))
		}
		t := newTally(o, fn, f.Pos())
		pkgAtom := `eq("` + c.tokenTypeConst("packageToken") + `",recv.typ)`
		path := "assert<string>(recv.content)"
		for _, p := range paths {
			if p.End != "return" {
				continue
			}
			outs, ok := boolOutcomes(p)
			if !ok {
				continue // P-ISNULL reports it
			}
			for _, oc := range outs {
				if pk := fact3(oc.F, pkgAtom); !pk[1] || !pk[0] {
					continue
				}
				want, known, hit, miss, used := c.dotDecision(oc.F, "p0", path)
				loc := fact3(oc.F, eqAtom("p0."+c.ff("path"), path))
				switch {
				case hit:
					judged++
					if loc[1] && loc[0] {
						continue
					}
					t.note(keyHit, known && (want == oc.Val || (loc[1] && loc[0])), "path %s returns %v for a path registered under a usable name (facts %s)", traceOf(p), oc.Val, oc.F)
				case used:
					judged++
					t.note(key, miss, "path %s returns %v from the hint without knowing that the path is unregistered (facts %s): after a render has used the path under a name, ImportAlias(path, \".\") drops the qualifier while the import block keeps the name (and a path first rendered as a dot-import becomes \"..Name\" after ImportAlias(path, name))", traceOf(p), oc.Val, oc.F)
				}
			}
		}
		t.flush()
	} else {
		o.undecided("(jen.token).isNull", "anchor", 0, "anchor lost")
	}
	if f := c.role("isDotImport"); f != nil {
		paths, _ := c.Paths(f, PXConfig{})
		t := newTally(o, fname(f), f.Pos())
		for _, p := range paths {
			outs, ok := boolOutcomes(p)
			if !ok || p.End != "return" {
				continue // P-LOCALDOT reports it
			}
			for _, oc := range outs {
				want, known, hit, miss, used := c.dotDecision(oc.F, "recv", "p0")
				switch {
				case hit:
					judged++
					t.note(keyHit, known && want == oc.Val, "path %s returns %v for a path registered under a usable name (facts %s)", traceOf(p), oc.Val, oc.F)
				case used:
					judged++
					t.note(key, miss, "path %s returns %v from the hint without knowing that the path is unregistered (facts %s)", traceOf(p), oc.Val, oc.F)
				}
			}
		}
		t.flush()
	}
	if judged == 0 {
		o.undecided("(jen.token).isNull", "dot-import decision", 0, "no path of the null test decides the dot-import question from the import table or a hint")
	}
	return o.list
}
