package main

import (
	"golang.org/x/tools/go/ssa"
)

func init() {
	register("P-FILERENDER-ORDER", "File.Render: the body is rendered into a private buffer before the import block is printed and nothing that can register an import runs afterwards; the source buffer receives header comments, a blank line exactly if there are headers, package comments, the package clause, `// import \"path\"` exactly if CanonicalPath is set, a blank line, the import block, the body — in that order", 4, rulePXFileRender)
	register("P-IMPORTBLOCK", "renderImports: an import line carries an alias exactly if the entry is flagged alias and the path is not \"C\", printing that entry's name and path; \"C\" is left out of the main block only when a preamble exists; the preamble comments are followed directly by `import \"C\"`", 5, rulePXImportBlock)
	register("P-CTOR", "every File constructor initialises a multi-line Group and fresh, empty imports and hints maps; HeaderComment / PackageComment / CgoPreamble append the caller's text unmodified", 9, rulePXCtor)
}

type srcEvent struct {
	name string
	in   ssa.Instruction
}

// ---------------------------------------------------------------------------------------------

// ---------------------------------------------------------------------------------------------
