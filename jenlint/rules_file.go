package main

import (
	"fmt"
	"go/token"
	"go/types"
	"strings"

	"golang.org/x/tools/go/ssa"
)

func init() {
	register("P-FILERENDER-ORDER", "File.Render: the body is rendered into a private buffer before the import block is printed and nothing that can register an import runs afterwards; the source buffer receives header comments, a blank line exactly if there are headers, package comments, the package clause, `// import \"path\"` exactly if CanonicalPath is set, a blank line, the import block, the body — in that order", 4, rulePXFileRender)
	register("P-IMPORTBLOCK", "renderImports: an import line carries an alias exactly if the entry is flagged alias and the path is not \"C\", printing that entry's name and path; \"C\" is left out of the main block only when a preamble exists; the preamble comments are followed directly by `import \"C\"`", 5, rulePXImportBlock)
	register("P-CTOR", "every File constructor initialises a multi-line Group and fresh, empty imports and hints maps; HeaderComment / PackageComment / CgoPreamble append the caller's text unmodified", 9, rulePXCtor)
}

// builderItemTypes: for a call of a builder (package function returning a fresh *Statement) the set
// of concrete item types it appends; ok=false if not recognised.
func (c *Ctx) builderItemTypes(call *ssa.Call) (map[string]bool, bool) {
	sc := call.Call.StaticCallee()
	if sc == nil || c.CG().Sum[sc] == nil {
		return nil, false
	}
	out := map[string]bool{}
	seen := map[*ssa.Function]bool{}
	var visit func(f *ssa.Function, depth int) bool
	visit = func(f *ssa.Function, depth int) bool {
		if depth > 3 || seen[f] {
			return depth <= 3
		}
		seen[f] = true
		for _, b := range f.Blocks {
			for _, in := range b.Instrs {
				switch x := in.(type) {
				case *ssa.Call:
					if bi, ok := x.Call.Value.(*ssa.Builtin); ok {
						if bi.Name() == "append" && len(x.Call.Args) == 2 {
							va, ok := varargs(x.Call.Args[1])
							if !ok {
								return false
							}
							for _, v := range va {
								mi, ok := v.(*ssa.MakeInterface)
								if !ok {
									if u, isLoad := v.(*ssa.UnOp); isLoad {
										_ = u
									}
									return false
								}
								out[types.TypeString(mi.X.Type(), shortQual)] = true
							}
						}
						continue
					}
					cal := x.Call.StaticCallee()
					if cal == nil || x.Call.IsInvoke() {
						return false
					}
					if c.CG().Sum[cal] == nil {
						// external: only formatting helpers
						n := cal.String()
						if !(pureExternal[n] || strings.HasPrefix(n, "strconv.") || strings.HasPrefix(n, "strings.")) {
							return false
						}
						continue
					}
					if !visit(cal, depth+1) {
						return false
					}
				}
			}
		}
		return true
	}
	if !visit(sc, 0) {
		return nil, false
	}
	return out, true
}

// registrationFree: a call in f that (by CHA) may reach the registration function is nevertheless
// registration-free if it renders a freshly built statement holding only comment items.
func (c *Ctx) registrationFreeRender(a *FnA, ci ssa.CallInstruction) bool {
	cc := ci.Common()
	sc := cc.StaticCallee()
	if sc == nil || cc.IsInvoke() || len(cc.Args) == 0 {
		return false
	}
	if sc != c.method("Statement", c.renderName()) {
		return false
	}
	bc, ok := cc.Args[0].(*ssa.Call)
	if !ok {
		return false
	}
	ts, ok := c.builderItemTypes(bc)
	if !ok || len(ts) == 0 {
		return false
	}
	for t := range ts {
		if t != "jen.comment" {
			return false
		}
	}
	// comment.render itself must not reach registration
	for _, r := range c.codeImpls(c.renderName()) {
		if r.Signature.Recv() != nil && types.TypeString(r.Signature.Recv().Type(), shortQual) == "jen.comment" {
			if c.CG().Reach(r)[c.registerFn()] {
				return false
			}
		}
	}
	return true
}

type srcEvent struct {
	name string
	in   ssa.Instruction
}

func ruleFileRenderOrder(c *Ctx) []Obligation {
	o := c.newObs("P-FILERENDER-ORDER")
	f := c.method("File", "Render")
	ri := c.role("renderImports")
	grender := c.method("Group", c.renderName())
	if f == nil || ri == nil || grender == nil {
		o.undecided("(*jen.File).Render", "anchor", token.NoPos, "anchor lost: File.Render / renderImports / Group.render")
		return o.list
	}
	a := c.FA(f)
	fn := fname(f)
	g := c.CG()
	reg := c.registerFn()
	// body render
	var body ssa.CallInstruction
	for _, ci := range a.callsTo(grender) {
		body = ci
	}
	if body == nil {
		// through the promoted method wrapper
		for _, ci := range a.calls() {
			if sc := ci.Common().StaticCallee(); sc != nil && sc.Name() == c.renderName() && g.Reach(sc)[grender] && len(ci.Common().Args) == 4 {
				body = ci
			}
		}
	}
	imps := a.callsTo(ri)
	if body == nil || len(imps) != 1 {
		o.add(Violated, fn, "body render and import block are both produced", f.Pos(), true, "body render call found: %v, renderImports calls: %d", body != nil, len(imps))
		return o.list
	}
	imp := imps[0]
	bargs := body.Common().Args
	bodyBuf, okBuf := stripConv(bargs[len(bargs)-2]).(*ssa.Alloc)
	o.req(okBuf && !inCycle(body.Block()), fn, "the body is rendered once into a private buffer", body.Pos(), "writer %s", a.Desc(bargs[len(bargs)-2]))
	o.req(body.Block().Dominates(imp.Block()) || (body.Block() == imp.Block() && instrIndex(body) < instrIndex(imp)), fn, "the body is rendered before the import block is printed", imp.Pos(), "imports are registered while the body renders; printing the block first would omit them")
	// the File passed to the body render is the receiver
	o.req(bargs[len(bargs)-3] == ssa.Value(f.Params[0]), fn, "the body registers its imports in this File", body.Pos(), "file argument %s", a.Desc(bargs[len(bargs)-3]))
	// nothing after renderImports starts may register
	after := reachableFrom(imp.Block(), nil)
	nAfter := 0
	for _, ci := range a.calls() {
		if ci == imp || ci == body {
			continue
		}
		isAfter := after[ci.Block()] || (ci.Block() == imp.Block() && instrIndex(ci) > instrIndex(imp))
		callees, known := g.calleesOf(ci.Common())
		if !known {
			continue
		}
		may := false
		for _, cal := range callees {
			if g.Reach(cal)[reg] {
				may = true
			}
		}
		if !may {
			continue
		}
		if c.registrationFreeRender(a, ci) {
			continue
		}
		if isAfter {
			nAfter++
			o.add(Violated, fn, "call of "+calleeName(ci.Common())+" after the import block may register an import", ci.Pos(), true, "an import registered after the block was printed is missing from the file")
		} else {
			o.add(Violated, fn, "call of "+calleeName(ci.Common())+" besides the body render may register an import", ci.Pos(), true, "only the body may reference packages")
		}
	}
	o.add(Discharged, fn, "nothing but the body render can register an import", imp.Pos(), true, "header / package comments are rendered from freshly built comment-only statements (registration-free)")
	// inside renderImports too
	{
		ra := c.FA(ri)
		bad := 0
		for _, ci := range ra.calls() {
			callees, known := g.calleesOf(ci.Common())
			if !known {
				continue
			}
			may := false
			for _, cal := range callees {
				if g.Reach(cal)[reg] {
					may = true
				}
			}
			if may && !c.registrationFreeRender(ra, ci) {
				bad++
				o.add(Violated, fname(ri), "call of "+calleeName(ci.Common())+" may register an import while the block is printed", ci.Pos(), true, "")
			}
		}
		if bad == 0 {
			o.add(Discharged, fname(ri), "printing the import block registers nothing", ri.Pos(), true, "")
		}
	}
	// the source buffer: the buffer passed to renderImports
	src, okSrc := stripConv(imp.Common().Args[1]).(*ssa.Alloc)
	if !okSrc {
		o.undecided(fn, "source buffer", imp.Pos(), "renderImports writes to %s", a.Desc(imp.Common().Args[1]))
		return o.list
	}
	o.req(src != bodyBuf, fn, "source and body are separate buffers", imp.Pos(), "")
	// classify every write to the source buffer
	var evHeaderC, evHeaderNL, evBlank, evDocC, evDocNL, evPkg, evCanon, evSep, evBody ssa.Instruction
	classifyComment := func(ci ssa.CallInstruction) string {
		// Comment(x).render(f, source, nil): x from which list?
		bc, ok := ci.Common().Args[0].(*ssa.Call)
		if !ok || len(bc.Call.Args) != 1 {
			return ""
		}
		d := collectionShape(a, bc.Call.Args[0])
		return d
	}
	for _, ci := range a.calls() {
		if ci == imp {
			continue
		}
		cc := ci.Common()
		// render of a comment statement into source
		if sc := cc.StaticCallee(); sc != nil && !cc.IsInvoke() && sc == c.method("Statement", c.renderName()) && len(cc.Args) == 4 && stripConv(cc.Args[2]) == ssa.Value(src) {
			switch classifyComment(ci) {
			case "recv.headers[·]":
				evHeaderC = ci
			case "recv.comments[·]":
				evDocC = ci
			default:
				o.add(Violated, fn, "unexpected statement rendered into the source: "+classifyComment(ci), ci.Pos(), true, "")
			}
			o.req(c.registrationFreeRender(a, ci) && cc.Args[1] == ssa.Value(f.Params[0]), fn, "file-level comment is a freshly built comment statement ("+classifyComment(ci)+")", ci.Pos(), "")
			continue
		}
		s := sinkOf(ci)
		if s == nil || stripConv(s.Writer) != ssa.Value(src) {
			continue
		}
		d := a.DataDesc(s)
		switch {
		case d == `"\n"`:
			// which loop?
			h := loopHeader(ci.Block())
			switch {
			case h != nil && evHeaderC != nil && loopHeader(evHeaderC.Block()) == h:
				evHeaderNL = ci
			case h != nil && evDocC != nil && loopHeader(evDocC.Block()) == h:
				evDocNL = ci
			case h == nil:
				if evBlank != nil {
					o.add(Violated, fn, "more than one blank-line write", ci.Pos(), true, "")
				}
				evBlank = ci
			default:
				o.add(Violated, fn, "newline written in an unexpected loop", ci.Pos(), true, "")
			}
		case d == `"\n\n"`:
			evSep = ci
		case s.Kind == "fprintf" && strings.HasPrefix(d, `fmt:"package %s"`):
			evPkg = ci
			o.req(d == `fmt:"package %s",recv.name`, fn, "package clause prints the File's package name", ci.Pos(), "%s", d)
		case s.Kind == "fprintf" && strings.Contains(d, "import"):
			evCanon = ci
			o.req(d == `fmt:" // import %q",recv.CanonicalPath`, fn, "canonical import annotation is ` // import \"path\"` with the path quoted", ci.Pos(), "%s", d)
		case bufferBytesOf(s.Data[0]) == bodyBuf && bodyBuf != nil:
			evBody = ci
		default:
			o.add(Violated, fn, "unexpected write to the source buffer: "+d, ci.Pos(), true, "the file is header comments, package doc, package clause, imports and body — nothing else")
		}
	}
	need := map[string]ssa.Instruction{"header comment": evHeaderC, "header newline": evHeaderNL, "blank line after headers": evBlank, "package comment": evDocC, "package comment newline": evDocNL,
		"package clause": evPkg, "canonical path annotation": evCanon, "blank line after the package clause": evSep, "body": evBody}
	missing := false
	for n, in := range need {
		if in == nil {
			o.add(Violated, fn, n+" is written", f.Pos(), true, "no such write to the source buffer found")
			missing = true
		}
	}
	if missing {
		return o.list
	}
	seq := []srcEvent{{"header comment", evHeaderC}, {"header newline", evHeaderNL}, {"blank line after headers", evBlank}, {"package comment", evDocC}, {"package comment newline", evDocNL},
		{"package clause", evPkg}, {"canonical path annotation", evCanon}, {"blank line after the package clause", evSep}, {"import block", imp}, {"body", evBody}}
	before := func(x, y ssa.Instruction) bool {
		if x.Block() == y.Block() {
			return instrIndex(x) < instrIndex(y)
		}
		// y reachable from x, x not reachable from y (except within x's own loop)
		return reachableFrom(x.Block(), nil)[y.Block()] && !reachableFrom(y.Block(), nil)[x.Block()]
	}
	for i := 0; i+1 < len(seq); i++ {
		x, y := seq[i], seq[i+1]
		if x.name == "header comment" || x.name == "package comment" {
			// comment then its newline, inside the same loop iteration
			o.req(x.in.Block().Dominates(y.in.Block()) && loopHeader(x.in.Block()) == loopHeader(y.in.Block()), fn, "order: "+x.name+" → "+y.name, y.in.Pos(), "each comment is followed by a newline in the same iteration")
			continue
		}
		o.req(before(x.in, y.in), fn, "order: "+x.name+" → "+y.name, y.in.Pos(), "")
	}
	// blank line exactly if there are headers
	hdrAtom := "empty(recv.headers)"
	ok, bad := allWays(a.WaysTo(evBlank.Block()), func(w Facts) bool { return w.Has(hdrAtom, false) })
	o.req(ok, fn, "blank line after the headers only if there are headers", evBlank.Pos(), "way %s", bad)
	p := a.Cut(f.Blocks[0], evPkg, []ssa.Instruction{evBlank}, []Lit{{hdrAtom, true}})
	o.req(p == nil, fn, "blank line after the headers whenever there are headers", evBlank.Pos(), "path %s reaches the package clause with headers but without the separating blank line: the header would become part of the package doc", pathString(p))
	// canonical annotation exactly if set
	cAtom := "empty(recv.CanonicalPath)"
	ok, bad = allWays(a.WaysTo(evCanon.Block()), func(w Facts) bool { return w.Has(cAtom, false) })
	o.req(ok, fn, "canonical path annotation only if CanonicalPath is set", evCanon.Pos(), "way %s", bad)
	p = a.Cut(evPkg.Block(), evSep, []ssa.Instruction{evCanon}, []Lit{{cAtom, true}})
	o.req(p == nil, fn, "canonical path annotation whenever CanonicalPath is set", evCanon.Pos(), "path %s", pathString(p))
	// header loop runs over all headers: guarded at most by the emptiness test
	return o.list
}

// ---------------------------------------------------------------------------------------------

func ruleImportBlock(c *Ctx) []Obligation {
	o := c.newObs("P-IMPORTBLOCK")
	f := c.role("renderImports")
	if f == nil {
		o.undecided("(*jen.File).renderImports", "anchor", token.NoPos, "anchor lost")
		return o.list
	}
	a := c.FA(f)
	fn := fname(f)
	w := c.writerParam(f)
	nAlias, nPlain := 0, 0
	var cImport *Sink
	var preambleNL *Sink
	for _, s := range a.Sinks() {
		if stripConv(s.Writer) != ssa.Value(w) {
			o.add(Violated, fn, "write to something other than the writer parameter", s.Call.Pos(), true, "%s", a.Desc(s.Writer))
			continue
		}
		d := a.DataDesc(s)
		ws := a.WaysTo(s.Call.Block())
		if s.Kind == "fprintf" {
			format, _ := constString(s.Data[0])
			_, verbs := parseFormat(format)
			args := s.Data[1:]
			switch len(verbs) {
			case 2:
				nAlias++
				// alias form: name, quoted path of the same entry
				nameD, pathD := a.Desc(args[0]), a.Desc(args[1])
				pathArg := ""
				if call, ok := stripConv(args[1]).(*ssa.Call); ok && call.Call.StaticCallee() != nil && strings.HasPrefix(call.Call.StaticCallee().String(), "strconv.Quote") {
					pathArg = a.Desc(call.Call.Args[0])
				}
				okQ := pathArg != "" || verbs[1] == "q"
				if pathArg == "" {
					pathArg = pathD
				}
				entryOK, entry := sameEntry(a, args[0], pathArg)
				o.req(okQ && entryOK && strings.HasSuffix(nameD, ".name") && verbs[0] == "s", fn, fmt.Sprintf("alias import line #%d prints the entry's own name and its quoted path", nAlias), s.Call.Pos(), "format %q name %s path %s", format, nameD, pathD)
				aliasAtom := entry + ".alias"
				cAtom := "eq(" + min2(`"C"`, pathArg) + "," + max2(`"C"`, pathArg) + ")"
				ok, bad := allWays(ws, func(w Facts) bool { return w.Has(aliasAtom, true) && w.Has(cAtom, false) })
				o.req(ok, fn, fmt.Sprintf("alias import line #%d only for an aliased entry other than \"C\"", nAlias), s.Call.Pos(), "way %s — an alias on \"C\" is a compile error; an alias on a non-aliased entry hides the real package name", bad)
			case 1:
				nPlain++
				pathArg := ""
				if call, ok := stripConv(args[0]).(*ssa.Call); ok && call.Call.StaticCallee() != nil && strings.HasPrefix(call.Call.StaticCallee().String(), "strconv.Quote") {
					pathArg = a.Desc(call.Call.Args[0])
				}
				o.req(pathArg != "" || verbs[0] == "q", fn, fmt.Sprintf("plain import line #%d prints the quoted path", nPlain), s.Call.Pos(), "format %q arg %s", format, a.Desc(args[0]))
				if pathArg == "" {
					pathArg = a.Desc(args[0])
				}
				// whenever aliased and not C: not this line
				entry := entryOfPath(a, s.Call.Block(), pathArg)
				aliasAtom := entry + ".alias"
				cAtom := "eq(" + min2(`"C"`, pathArg) + "," + max2(`"C"`, pathArg) + ")"
				ok, bad := allWays(ws, func(w Facts) bool { return entry != "" && (w.Has(aliasAtom, false) || w.Has(cAtom, true)) })
				o.req(ok, fn, fmt.Sprintf("plain import line #%d only for a non-aliased entry or \"C\"", nPlain), s.Call.Pos(), "way %s — an aliased entry printed without its alias leaves the qualifier undefined", bad)
			default:
				o.add(Violated, fn, "unexpected formatted write "+d, s.Call.Pos(), true, "")
			}
			continue
		}
		switch d {
		case `"import (\n"`, `")\n\n"`:
			ok, bad := allWays(ws, func(w Facts) bool {
				return hasAtom(w, true, func(s string) bool { return strings.HasPrefix(s, "lt(1,builtin.len(") })
			})
			o.req(ok, fn, "parenthesised block "+d+" only for several imports", s.Call.Pos(), "way %s", bad)
		case `"import \"C\"\n\n"`:
			cImport = s
		case `"\n"`:
			preambleNL = s
		default:
			o.add(Violated, fn, "unexpected write "+d, s.Call.Pos(), true, "")
		}
	}
	o.req(nAlias == 2 && nPlain == 2, fn, "single-import and multi-import forms each have an alias and a plain line", f.Pos(), "alias lines %d, plain lines %d", nAlias, nPlain)
	// filter loop: an entry is left out of the main block only if it is "C" and a preamble exists
	for _, ml := range mapLoops(f) {
		if a.Desc(ml.rng.X) != "recv.imports" {
			continue
		}
		var copyUpd *ssa.MapUpdate
		for b := range ml.blocks {
			for _, in := range b.Instrs {
				if mu, ok := in.(*ssa.MapUpdate); ok && stripConv(mu.Key) == ml.key {
					copyUpd = mu
					o.req(stripConv(mu.Value) == ml.val, fn, "the main block is built from the registered entries unchanged", mu.Pos(), "value %s", a.Desc(mu.Value))
				}
			}
		}
		if copyUpd == nil {
			o.undecided(fn, "filter loop", ml.rng.Pos(), "no copy into the filtered table")
			continue
		}
		keyC := "eq(" + min2(`"C"`, a.Desc(ml.key)) + "," + max2(`"C"`, a.Desc(ml.key)) + ")"
		for _, p := range ml.header.Preds {
			if !ml.blocks[p] || p == copyUpd.Block() || copyUpd.Block().Dominates(p) {
				continue
			}
			ok, bad := allWays(a.WaysOnEdge(p, ml.header), func(w Facts) bool {
				return w.Has(keyC, true) && (w.Has("empty(recv.cgoPreamble)", false) || hasAtom(w, true, func(s string) bool { return strings.HasPrefix(s, "phi:") }))
			})
			o.req(ok, fn, "an entry is left out of the main block only if it is \"C\" and a preamble exists", ml.rng.Pos(), "way %s", bad)
		}
	}
	// preamble branch
	if cImport == nil {
		o.add(Violated, fn, "`import \"C\"` follows the preamble", f.Pos(), true, "no write of `import \"C\"`")
		return o.list
	}
	ok, bad := allWays(a.WaysTo(cImport.Call.Block()), func(w Facts) bool { return w.Has("empty(recv.cgoPreamble)", false) })
	o.req(ok, fn, "separate `import \"C\"` only if a preamble exists", cImport.Call.Pos(), "way %s", bad)
	// preamble comments: rendered from recv.cgoPreamble elements, each followed by exactly "\n", loop directly before the import
	var pre ssa.CallInstruction
	for _, ci := range a.callsTo(c.method("Statement", c.renderName())) {
		if bc, ok := ci.Common().Args[0].(*ssa.Call); ok && len(bc.Call.Args) == 1 && collectionShape(a, bc.Call.Args[0]) == "recv.cgoPreamble[·]" {
			pre = ci
		}
	}
	if pre == nil || preambleNL == nil {
		o.add(Violated, fn, "preamble comments are rendered above `import \"C\"`", cImport.Call.Pos(), true, "preamble render found: %v, newline after it: %v", pre != nil, preambleNL != nil)
		return o.list
	}
	o.req(c.registrationFreeRender(a, pre) && stripConv(pre.Common().Args[2]) == ssa.Value(w), fn, "each preamble entry is rendered as a comment into the import block", pre.Pos(), "")
	h := loopHeader(pre.Block())
	o.req(h != nil && loopHeader(preambleNL.Call.Block()) == h && pre.Block().Dominates(preambleNL.Call.Block()), fn, "each preamble comment is followed by exactly one newline", preambleNL.Call.Pos(), "a blank line between the preamble and the import makes cgo ignore the preamble")
	// directly before: the loop's exit leads to the import write with no other write in between
	if h != nil {
		var exit *ssa.BasicBlock
		for _, s := range h.Succs {
			if !reachableFrom(s, h)[h] || s == cImport.Call.Block() {
				exit = s
			}
		}
		between := false
		if exit != nil {
			for _, s := range a.Sinks() {
				if s == cImport {
					continue
				}
				sb := s.Call.Block()
				if (sb == exit || reachableFrom(exit, nil)[sb]) && (reachableFrom(sb, nil)[cImport.Call.Block()] || sb == cImport.Call.Block() && instrIndex(s.Call) < instrIndex(cImport.Call)) {
					between = true
				}
			}
		}
		o.req(exit != nil && !between && (exit == cImport.Call.Block() || reachableFrom(exit, nil)[cImport.Call.Block()]), fn, "`import \"C\"` is written directly after the last preamble comment", cImport.Call.Pos(), "")
		// the preamble loop comes after the main block
		for _, s := range a.Sinks() {
			if d := a.DataDesc(s); d == `")\n\n"` {
				o.req(reachableFrom(s.Call.Block(), nil)[pre.Block()] && !reachableFrom(pre.Block(), nil)[s.Call.Block()], fn, "the cgo import follows the main import block", pre.Pos(), "")
			}
		}
	}
	return o.list
}

// sameEntry: name value is `<E>.name` and the path descriptor identifies the same table entry E
// (range value of the entry whose key is the path, or a lookup table[path]).
func sameEntry(a *FnA, name ssa.Value, pathDesc string) (bool, string) {
	nd := a.Desc(name)
	if !strings.HasSuffix(nd, ".name") {
		return false, ""
	}
	e := strings.TrimSuffix(nd, ".name")
	// lookup form: T[path]
	if strings.HasSuffix(e, "["+pathDesc+"]") {
		return true, e
	}
	// range form: next(range(T))#2 with path next(range(T))#1
	if strings.HasSuffix(e, "#2") && strings.HasSuffix(pathDesc, "#1") && strings.TrimSuffix(e, "#2") == strings.TrimSuffix(pathDesc, "#1") {
		return true, e
	}
	return false, e
}

// entryOfPath: descriptor of the table entry that belongs to a path descriptor, found among the
// literals tested on the way to block b.
func entryOfPath(a *FnA, b *ssa.BasicBlock, pathDesc string) string {
	for _, w := range a.WaysTo(b) {
		for atom := range w {
			if strings.HasSuffix(atom, ".alias") {
				e := strings.TrimSuffix(atom, ".alias")
				if strings.HasSuffix(e, "["+pathDesc+"]") {
					return e
				}
				if strings.HasSuffix(e, "#2") && strings.HasSuffix(pathDesc, "#1") && strings.TrimSuffix(e, "#2") == strings.TrimSuffix(pathDesc, "#1") {
					return e
				}
			}
		}
	}
	return ""
}

// ---------------------------------------------------------------------------------------------

func ruleCtor(c *Ctx) []Obligation {
	o := c.newObs("P-CTOR")
	ft := c.fileType()
	n := 0
	for _, f := range c.allFuncs(c.Jen) {
		if f.Parent() != nil || f.Signature.Recv() != nil || f.Signature.Results().Len() != 1 {
			continue
		}
		pt, ok := f.Signature.Results().At(0).Type().(*types.Pointer)
		if !ok || !types.Identical(pt.Elem(), ft) {
			continue
		}
		n++
		a := c.FA(f)
		fn := fname(f)
		for _, r := range a.returns() {
			al, ok := r.Results[0].(*ssa.Alloc)
			if !ok {
				o.add(Violated, fn, "returns a freshly allocated File", r.Pos(), true, "returns %s", a.Desc(r.Results[0]))
				continue
			}
			fs, _ := allocFields(al)
			_, okI := fs[c.ff("imports")].(*ssa.MakeMap)
			_, okH := fs[c.ff("hints")].(*ssa.MakeMap)
			o.req(okI, fn, "imports is a fresh empty map", r.Pos(), "imports = %s (a nil map makes the first registration panic)", a.Desc(fs[c.ff("imports")]))
			o.req(okH, fn, "hints is a fresh empty map", r.Pos(), "hints = %s", a.Desc(fs[c.ff("hints")]))
			gal, okG := fs["Group"].(*ssa.Alloc)
			okM := false
			if okG {
				gfs, _ := allocFields(gal)
				if b, isB := constBool(gfs["multi"]); isB && b {
					okM = true
				}
				for k, v := range gfs {
					if k == "multi" {
						continue
					}
					if s, isS := constString(v); !isS || s != "" {
						okM = false
					}
				}
			}
			o.req(okG && okM, fn, "the File's group is a fresh multi-line group without delimiters", r.Pos(), "top-level declarations must each start on their own line")
		}
	}
	if n < 3 {
		o.undecided("jen", "File constructors", token.NoPos, "expected 3 constructors, found %d", n)
	}
	// comment setters: HeaderComment / PackageComment / CgoPreamble append their argument unmodified
	for _, f := range c.allFuncs(c.Jen) {
		if f.Parent() != nil || !isFileMethod(c, f) || !isExportedName(f.Name()) || f.Signature.Params().Len() != 1 || f.Signature.Results().Len() != 0 {
			continue
		}
		if b, ok := f.Signature.Params().At(0).Type().Underlying().(*types.Basic); !ok || b.Kind() != types.String {
			continue
		}
		a := c.FA(f)
		for _, b := range f.Blocks {
			for _, in := range b.Instrs {
				st, ok := in.(*ssa.Store)
				if !ok {
					continue
				}
				fld := fieldOf(st.Addr)
				if fld != "jen.File.headers" && fld != "jen.File.comments" && fld != "jen.File.cgoPreamble" {
					continue
				}
				okApp := false
				if call, ok := st.Val.(*ssa.Call); ok {
					if bi, ok := call.Call.Value.(*ssa.Builtin); ok && bi.Name() == "append" && strings.HasPrefix(a.Desc(call.Call.Args[0]), "recv."+strings.TrimPrefix(fld, "jen.File.")) {
						if va, ok := varargs(call.Call.Args[1]); ok && len(va) == 1 && va[0] == ssa.Value(f.Params[1]) {
							okApp = true
						}
					}
				}
				uncond := len(f.Blocks) == 1
				o.req(okApp && uncond, fname(f), "appends the caller's text, whole and unmodified, to "+fld, st.Pos(), "stored %s — splitting or rewriting the text changes which comment form (line / block / raw) each piece takes when it is rendered", a.Desc(st.Val))
			}
		}
	}
	return o.list
}
