package main

import (
	"fmt"
	"go/token"
	"go/types"
	"sort"
	"strings"

	"golang.org/x/tools/go/ssa"
)

// Root of a pointer-like value: where the memory it designates comes from.
type Root struct {
	Kind string // "param", "global", "fresh", "unknown", "free"
	Idx  int    // param / freevar index
	Name string // global name / reason for unknown
}

func (r Root) String() string {
	switch r.Kind {
	case "param":
		return fmt.Sprintf("param%d", r.Idx)
	case "free":
		return fmt.Sprintf("free%d", r.Idx)
	case "global":
		return "global:" + r.Name
	case "unknown":
		return "unknown(" + r.Name + ")"
	}
	return r.Kind
}

type RootSet map[Root]bool

func (s RootSet) add(o RootSet) {
	for k := range o {
		s[k] = true
	}
}

func (s RootSet) String() string {
	var x []string
	for k := range s {
		x = append(x, k.String())
	}
	sort.Strings(x)
	return strings.Join(x, ",")
}

// Effect is one memory / external effect of a function, attributed to a root.
type Effect struct {
	Kind  string // "store", "mapupdate", "extmut" (argument handed to a mutating/unknown external), "write" (writer sink), "fs", "funcvalue", "panic", "go", "chan"
	Root  Root
	What  string // descriptor of the location / callee
	Pos   token.Pos
	Via   string // function in which the primitive effect occurs
	Field string // struct field written, if any (Type.field)
}

func (e Effect) key() string {
	return e.Kind + "|" + e.Root.String() + "|" + e.What + "|" + e.Via + "|" + e.Field
}

// Summary: effects of a function over its parameters / globals (mod-ref), transitively.
type Summary struct {
	Effects map[string]Effect
	Returns RootSet // roots of pointer-like results
	Callees map[*ssa.Function]bool
	FuncVal bool // calls a function value
}

type CallGraph struct {
	c     *Ctx
	Funcs []*ssa.Function
	Sum   map[*ssa.Function]*Summary
	impl  map[string][]*ssa.Function
	rootC map[*ssa.Function]map[ssa.Value]RootSet
}

func (c *Ctx) inModule(f *ssa.Function) bool {
	if f == nil {
		return false
	}
	if f.Pkg != nil {
		return strings.HasPrefix(f.Pkg.Pkg.Path(), modulePath)
	}
	if obj := f.Object(); obj != nil && obj.Pkg() != nil {
		return strings.HasPrefix(obj.Pkg().Path(), modulePath)
	}
	// methods of instantiated generics / synthetic wrappers: go by receiver / parent
	if f.Parent() != nil {
		return c.inModule(f.Parent())
	}
	if recv := f.Signature.Recv(); recv != nil {
		t := recv.Type()
		if p, ok := t.(*types.Pointer); ok {
			t = p.Elem()
		}
		if n, ok := t.(*types.Named); ok && n.Obj().Pkg() != nil {
			return strings.HasPrefix(n.Obj().Pkg().Path(), modulePath)
		}
	}
	return false
}

// implementations resolves an interface method call to the module's implementations (CHA restricted
// to module types). The second result is false for interfaces declared outside the module.
func (g *CallGraph) implementations(cc *ssa.CallCommon) ([]*ssa.Function, bool) {
	it := cc.Value.Type()
	named, _ := it.(*types.Named)
	if named == nil || named.Obj().Pkg() == nil || !strings.HasPrefix(named.Obj().Pkg().Path(), modulePath) {
		return nil, false
	}
	key := named.Obj().Pkg().Path() + "." + named.Obj().Name() + "." + cc.Method.Name()
	if fs, ok := g.impl[key]; ok {
		return fs, true
	}
	iface := it.Underlying().(*types.Interface)
	var out []*ssa.Function
	for path, sp := range g.c.SSA {
		_ = path
		for _, m := range sp.Members {
			tm, ok := m.(*ssa.Type)
			if !ok {
				continue
			}
			if _, isIface := tm.Type().Underlying().(*types.Interface); isIface {
				continue
			}
			for _, t := range []types.Type{tm.Type(), types.NewPointer(tm.Type())} {
				if !types.Implements(t, iface) {
					continue
				}
				sel := g.c.Prog.MethodSets.MethodSet(t).Lookup(cc.Method.Pkg(), cc.Method.Name())
				if sel == nil {
					continue
				}
				if fn := g.c.Prog.MethodValue(sel); fn != nil {
					out = append(out, fn)
				}
			}
		}
	}
	sort.Slice(out, func(i, j int) bool { return out[i].String() < out[j].String() })
	// dedupe
	var d []*ssa.Function
	for i, f := range out {
		if i == 0 || out[i-1] != f {
			d = append(d, f)
		}
	}
	g.impl[key] = d
	return d, true
}

// pure external callees: do not mutate their arguments, no global effects relevant here.
var pureExternal = map[string]bool{
	"fmt.Sprintf": true, "fmt.Sprint": true, "fmt.Sprintln": true, "fmt.Errorf": true, "errors.New": true,
	"go/format.Source": true, "regexp.MustCompile": true, "regexp.Compile": true,
	"(*bytes.Buffer).Bytes": true, "(*bytes.Buffer).String": true, "(*bytes.Buffer).Len": true,
	"(*strings.Builder).String": true, "(*strings.Builder).Len": true,
	"os.UserHomeDir": true, "path/filepath.Join": true,
	"reflect.TypeOf": true, "reflect.ValueOf": true,
	"(*os/exec.ExitError).Error": true, "(*go/build.Context).Import": false,
}

var purePkgs = map[string]bool{"strconv": true, "strings": true, "bytes": true, "unicode": true, "unicode/utf8": true, "path": true, "path/filepath": true, "errors": true, "cmp": true}

// readOnlyStd: a routine of slices / maps that does not write to its arguments.
func readOnlyStd(f *ssa.Function) bool {
	pk := pkgPathOf(f)
	return (pk == "slices" || pk == "maps") && !stdMutators[baseFuncName(f)]
}

// receiver-mutating external methods on private buffers
var recvMutExternal = map[string]bool{
	"(*bytes.Buffer).Write": true, "(*bytes.Buffer).WriteString": true, "(*bytes.Buffer).WriteByte": true, "(*bytes.Buffer).WriteRune": true,
	"(*bytes.Buffer).Reset": true, "(*bytes.Buffer).Truncate": true, "(*bytes.Buffer).Grow": true,
	"(*strings.Builder).Write": true, "(*strings.Builder).WriteString": true, "(*strings.Builder).WriteByte": true, "(*strings.Builder).WriteRune": true,
	"(*strings.Builder).Reset": true, "(*strings.Builder).Grow": true,
}

var fsMutators = map[string]bool{
	"os.WriteFile": true, "os.Create": true, "os.OpenFile": true, "os.Remove": true, "os.RemoveAll": true, "os.Rename": true,
	"os.Truncate": true, "os.Mkdir": true, "os.MkdirAll": true, "os.CreateTemp": true, "os.MkdirTemp": true, "os.Chmod": true,
	"io/ioutil.WriteFile": true, "io/ioutil.TempFile": true, "(*os.File).Write": true, "(*os.File).WriteString": true,
	"(*os.File).WriteAt": true, "(*os.File).Truncate": true, "(*os.File).Close": true, "(*os.File).Sync": true, "os.Symlink": true, "os.Link": true,
}

func isPointerLike(t types.Type) bool {
	switch u := t.Underlying().(type) {
	case *types.Pointer, *types.Map, *types.Slice, *types.Chan, *types.Interface, *types.Signature:
		return true
	case *types.Struct:
		for i := 0; i < u.NumFields(); i++ {
			if isPointerLike(u.Field(i).Type()) {
				return true
			}
		}
	case *types.Array:
		return isPointerLike(u.Elem())
	}
	return false
}

func (c *Ctx) CG() *CallGraph {
	if c.cg != nil {
		return c.cg
	}
	g := &CallGraph{c: c, Sum: map[*ssa.Function]*Summary{}, impl: map[string][]*ssa.Function{}, rootC: map[*ssa.Function]map[ssa.Value]RootSet{}}
	c.cg = g
	seen := map[*ssa.Function]bool{}
	var add func(f *ssa.Function)
	add = func(f *ssa.Function) {
		if f == nil || seen[f] || f.Blocks == nil || !c.inModule(f) {
			return
		}
		if c.isTestPos(f.Pos()) {
			return
		}
		seen[f] = true
		g.Funcs = append(g.Funcs, f)
		for _, a := range f.AnonFuncs {
			add(a)
		}
		for _, b := range f.Blocks {
			for _, in := range b.Instrs {
				if ci, ok := in.(ssa.CallInstruction); ok {
					cc := ci.Common()
					if cc.IsInvoke() {
						if fs, ok := g.implementations(cc); ok {
							for _, x := range fs {
								add(x)
							}
						}
					} else {
						add(cc.StaticCallee())
					}
				}
				// functions used as values (method values and method expressions are synthetic wrappers)
				for _, op := range in.Operands(nil) {
					if op != nil && *op != nil {
						if fn, ok := (*op).(*ssa.Function); ok {
							add(fn)
						}
					}
				}
			}
		}
	}
	for _, sp := range c.SSA {
		for _, f := range c.allFuncs(sp) {
			add(f)
		}
		if init := sp.Func("init"); init != nil {
			add(init)
		}
	}
	sort.Slice(g.Funcs, func(i, j int) bool { return g.Funcs[i].String() < g.Funcs[j].String() })
	for _, f := range g.Funcs {
		g.Sum[f] = &Summary{Effects: map[string]Effect{}, Returns: RootSet{}, Callees: map[*ssa.Function]bool{}}
	}
	// fix-point
	for iter := 0; iter < 50; iter++ {
		changed := false
		for _, f := range g.Funcs {
			if g.analyse(f) {
				changed = true
			}
		}
		if !changed {
			break
		}
		if iter == 49 {
			broken("mod-ref summaries did not converge")
		}
	}
	return g
}

// roots computes the root set of a value within function f (flow-insensitive).
func (g *CallGraph) roots(f *ssa.Function, v ssa.Value) RootSet {
	cache := g.rootC[f]
	if cache == nil {
		cache = map[ssa.Value]RootSet{}
		g.rootC[f] = cache
	}
	return g.roots0(f, v, map[ssa.Value]bool{})
}

func (g *CallGraph) roots0(f *ssa.Function, v ssa.Value, busy map[ssa.Value]bool) RootSet {
	out := RootSet{}
	if v == nil || busy[v] {
		return out
	}
	busy[v] = true
	defer delete(busy, v)
	switch x := v.(type) {
	case *ssa.Const, *ssa.Function, *ssa.Builtin:
	case *ssa.Parameter:
		for i, p := range f.Params {
			if p == x {
				if isPointerLike(x.Type()) {
					out[Root{Kind: "param", Idx: i}] = true
				}
			}
		}
	case *ssa.FreeVar:
		for i, p := range f.FreeVars {
			if p == x {
				out[Root{Kind: "free", Idx: i}] = true
			}
		}
	case *ssa.Global:
		out[Root{Kind: "global", Name: x.Pkg.Pkg.Name() + "." + x.Name()}] = true
	case *ssa.Alloc, *ssa.MakeMap, *ssa.MakeSlice, *ssa.MakeChan:
		out[Root{Kind: "fresh"}] = true
	case *ssa.MakeClosure:
		out[Root{Kind: "fresh"}] = true
	case *ssa.FieldAddr:
		out.add(g.roots0(f, x.X, busy))
	case *ssa.IndexAddr:
		out.add(g.roots0(f, x.X, busy))
	case *ssa.Field:
		out.add(g.roots0(f, x.X, busy))
	case *ssa.Index:
		out.add(g.roots0(f, x.X, busy))
	case *ssa.Lookup:
		out.add(g.roots0(f, x.X, busy))
	case *ssa.Slice:
		out.add(g.roots0(f, x.X, busy))
	case *ssa.Convert:
		out.add(g.roots0(f, x.X, busy))
	case *ssa.ChangeType:
		out.add(g.roots0(f, x.X, busy))
	case *ssa.ChangeInterface:
		out.add(g.roots0(f, x.X, busy))
	case *ssa.MakeInterface:
		out.add(g.roots0(f, x.X, busy))
	case *ssa.TypeAssert:
		out.add(g.roots0(f, x.X, busy))
	case *ssa.Extract:
		out.add(g.roots0(f, x.Tuple, busy))
	case *ssa.Next:
		out.add(g.roots0(f, x.Iter, busy))
	case *ssa.Range:
		out.add(g.roots0(f, x.X, busy))
	case *ssa.Phi:
		for _, e := range x.Edges {
			out.add(g.roots0(f, e, busy))
		}
	case *ssa.BinOp:
		// string concat etc: values, not memory
	case *ssa.UnOp:
		if x.Op != token.MUL {
			break
		}
		if !isPointerLike(x.Type()) {
			break
		}
		ar := g.roots0(f, x.X, busy)
		for r := range ar {
			if r.Kind != "fresh" {
				out[r] = true
				continue
			}
			// load from fresh memory: what was stored there?
			al := rootAlloc(x.X)
			if al == nil {
				out[Root{Kind: "unknown", Name: "load from fresh non-local memory"}] = true
				continue
			}
			stored := false
			for _, b := range f.Blocks {
				for _, in := range b.Instrs {
					if st, ok := in.(*ssa.Store); ok && rootAlloc(st.Addr) == al {
						stored = true
						out.add(g.roots0(f, st.Val, busy))
					}
				}
			}
			// captured cells: stores may also happen in closures; be conservative
			if !stored {
				out[Root{Kind: "fresh"}] = true
			}
			for _, ref := range *al.Referrers() {
				if _, ok := ref.(*ssa.MakeClosure); ok {
					out[Root{Kind: "fresh"}] = true
				}
			}
		}
	case *ssa.Call:
		cc := &x.Call
		if b, ok := cc.Value.(*ssa.Builtin); ok {
			switch b.Name() {
			case "append":
				for _, a := range cc.Args {
					out.add(g.roots0(f, a, busy))
				}
				if len(out) == 0 {
					out[Root{Kind: "fresh"}] = true
				}
			default:
			}
			break
		}
		if !isPointerLike(x.Type()) {
			break
		}
		callees, known := g.calleesOf(cc)
		if !known || len(callees) == 0 {
			// external: results of pure constructors are fresh
			out[Root{Kind: "fresh"}] = true
			if sc := cc.StaticCallee(); sc != nil {
				n := sc.String()
				if strings.HasPrefix(n, "(*bytes.Buffer).") || strings.HasPrefix(n, "(*strings.Builder).") {
					// Bytes() aliases the buffer
					for _, a := range cc.Args[:1] {
						out.add(g.roots0(f, a, busy))
					}
				}
			}
			break
		}
		for _, cal := range callees {
			sum := g.Sum[cal]
			if sum == nil {
				out[Root{Kind: "unknown", Name: "callee " + fname(cal)}] = true
				continue
			}
			args := callArgs(cc)
			for r := range sum.Returns {
				switch r.Kind {
				case "param":
					if r.Idx < len(args) {
						out.add(g.roots0(f, args[r.Idx], busy))
					}
				case "free":
					out[Root{Kind: "unknown", Name: "closure result"}] = true
				default:
					out[r] = true
				}
			}
		}
	default:
		if isPointerLike(v.Type()) {
			out[Root{Kind: "unknown", Name: fmt.Sprintf("%T", v)}] = true
		}
	}
	return out
}

func callArgs(cc *ssa.CallCommon) []ssa.Value {
	if cc.IsInvoke() {
		return append([]ssa.Value{cc.Value}, cc.Args...)
	}
	return cc.Args
}

// calleesOf: module callees of a call; known=false means external or dynamic.
func (g *CallGraph) calleesOf(cc *ssa.CallCommon) ([]*ssa.Function, bool) {
	if cc.IsInvoke() {
		return g.implementations(cc)
	}
	if sc := cc.StaticCallee(); sc != nil {
		if g.Sum[sc] != nil {
			return []*ssa.Function{sc}, true
		}
		return nil, false
	}
	return nil, false
}

func fieldOf(addr ssa.Value) string {
	if fa, ok := addr.(*ssa.FieldAddr); ok {
		t := fa.X.Type()
		if p, ok := t.Underlying().(*types.Pointer); ok {
			t = p.Elem()
		}
		return types.TypeString(t, shortQual) + "." + fieldName(fa.X.Type(), fa.Field)
	}
	if ia, ok := addr.(*ssa.IndexAddr); ok {
		return fieldOf(ia.X)
	}
	if u, ok := addr.(*ssa.UnOp); ok && u.Op == token.MUL {
		return fieldOf(u.X)
	}
	return ""
}

// analyse recomputes f's summary from its body and its callees' summaries; reports change.
func (g *CallGraph) analyse(f *ssa.Function) bool {
	sum := g.Sum[f]
	before := len(sum.Effects)
	beforeR := len(sum.Returns)
	beforeFV := sum.FuncVal
	a := g.c.FA(f)
	addEff := func(kind string, rs RootSet, what string, pos token.Pos, via string, field string) {
		for r := range rs {
			if r.Kind == "fresh" {
				continue
			}
			e := Effect{Kind: kind, Root: r, What: what, Pos: pos, Via: via, Field: field}
			if _, ok := sum.Effects[e.key()]; !ok {
				sum.Effects[e.key()] = e
			}
		}
	}
	self := fname(f)
	for _, b := range f.Blocks {
		for _, in := range b.Instrs {
			switch x := in.(type) {
			case *ssa.Store:
				if _, ok := x.Addr.(*ssa.Alloc); ok {
					continue
				}
				addEff("store", g.roots(f, x.Addr), a.obj(x.Addr), x.Pos(), self, fieldOf(x.Addr))
			case *ssa.MapUpdate:
				addEff("mapupdate", g.roots(f, x.Map), a.Desc(x.Map)+"[·]", x.Pos(), self, fieldOf(x.Map))
			case *ssa.Send:
				addEff("chan", RootSet{Root{Kind: "unknown", Name: "send"}: true}, "send", x.Pos(), self, "")
			case *ssa.Go:
				addEff("go", RootSet{Root{Kind: "unknown", Name: "go"}: true}, "go statement", x.Pos(), self, "")
			case *ssa.Panic:
				addEff("panic", RootSet{Root{Kind: "unknown", Name: "panic"}: true}, "panic "+a.Desc(x.X), x.Pos(), self, "")
			case *ssa.Return:
				for _, r := range x.Results {
					if isPointerLike(r.Type()) {
						sum.Returns.add(g.roots(f, r))
					}
				}
			case *ssa.MakeClosure:
				// effects of the closure are attributed to its creation
				cf := x.Fn.(*ssa.Function)
				if cs := g.Sum[cf]; cs != nil {
					sum.Callees[cf] = true
					g.propagate(f, sum, cs, nil, x.Bindings, x.Pos())
				}
			}
			ci, ok := in.(ssa.CallInstruction)
			if !ok {
				continue
			}
			cc := ci.Common()
			if bi, ok := cc.Value.(*ssa.Builtin); ok {
				switch bi.Name() {
				case "append":
					// append may store into the spare capacity of its first argument's backing array
					base := cc.Args[0]
					if sl, ok := base.(*ssa.Slice); ok && sl.Max != nil {
						break // full slice expression: capacity pinned, append must reallocate
					}
					if cst, ok := base.(*ssa.Const); ok && cst.IsNil() {
						break
					}
					addEff("appendto", g.roots(f, base), "append onto "+a.Desc(base), ci.Pos(), self, fieldOf(base))
				case "copy":
					addEff("store", g.roots(f, cc.Args[0]), "copy into "+a.Desc(cc.Args[0]), ci.Pos(), self, fieldOf(cc.Args[0]))
				case "delete":
					addEff("mapupdate", g.roots(f, cc.Args[0]), "delete from "+a.Desc(cc.Args[0]), ci.Pos(), self, fieldOf(cc.Args[0]))
				case "clear":
					addEff("store", g.roots(f, cc.Args[0]), "clear "+a.Desc(cc.Args[0]), ci.Pos(), self, fieldOf(cc.Args[0]))
				case "panic":
					addEff("panic", RootSet{Root{Kind: "unknown", Name: "panic"}: true}, "panic "+a.Desc(cc.Args[0]), ci.Pos(), self, "")
				}
				continue
			}
			if s := sinkOf(ci); s != nil && (cc.IsInvoke() || strings.HasPrefix(cc.StaticCallee().String(), "fmt.F") || strings.HasPrefix(cc.StaticCallee().String(), "io.")) {
				addEff("write", g.roots(f, s.Writer), "write to "+a.Desc(s.Writer), ci.Pos(), self, "")
				continue
			}
			callees, known := g.calleesOf(cc)
			if known {
				// a function literal called where it is made (or through the local it is bound to):
				// its free variables are the bindings of that literal
				var binds []ssa.Value
				if mc, ok := cc.Value.(*ssa.MakeClosure); ok && !cc.IsInvoke() {
					binds = mc.Bindings
				}
				for _, cal := range callees {
					sum.Callees[cal] = true
					g.propagate(f, sum, g.Sum[cal], callArgs(cc), binds, ci.Pos())
				}
				continue
			}
			if cc.IsInvoke() {
				// external interface: unknown effect on receiver and pointer-like args
				if cc.Method.Name() == "Error" || cc.Method.Name() == "String" {
					continue
				}
				for _, ar := range callArgs(cc) {
					if isPointerLike(ar.Type()) {
						addEff("extmut", g.roots(f, ar), "external invoke "+cc.Method.Name(), ci.Pos(), self, "")
					}
				}
				continue
			}
			sc := cc.StaticCallee()
			if sc == nil {
				// a value of a module-internal function type: one of the module's own functions of
				// that signature whose address is taken
				if sig, ok := cc.Value.Type().Underlying().(*types.Signature); ok {
					if targets, ok := g.c.funcValueTargets(sig); ok {
						all := true
						for _, tg := range targets {
							if g.Sum[tg] == nil {
								all = false
							}
						}
						if all {
							for _, tg := range targets {
								sum.Callees[tg] = true
								g.propagate(f, sum, g.Sum[tg], callArgs(cc), nil, ci.Pos())
							}
							continue
						}
					}
				}
				// a value that can only be one of the module's own functions (traced back through
				// parameters of functions whose callers are all known, captured variables, fields)
				if targets, ok := g.resolveFuncValue(f, cc.Value, 0, map[ssa.Value]bool{}); ok && len(targets) > 0 {
					all := true
					for _, tg := range targets {
						if g.Sum[tg] == nil {
							all = false
						}
					}
					if all {
						for _, tg := range targets {
							sum.Callees[tg] = true
							// effects on what the literal captured are accounted for where it is made
							g.propagateParamsOnly(f, sum, g.Sum[tg], callArgs(cc), ci.Pos())
						}
						continue
					}
				}
				// function value
				sum.FuncVal = true
				addEff("funcvalue", RootSet{Root{Kind: "unknown", Name: "funcvalue"}: true}, "call of function value "+a.Desc(cc.Value), ci.Pos(), self, "")
				for _, ar := range cc.Args {
					if isPointerLike(ar.Type()) {
						addEff("extmut", g.roots(f, ar), "argument of function value", ci.Pos(), self, "")
					}
				}
				continue
			}
			n := baseFuncName(sc)
			pk := pkgPathOf(sc)
			switch {
			case readOnlyStd(sc):
				// slices.Contains / Index / ContainsFunc / maps.Clone …: reads only; a function value handed
				// to it is called — account for what it can be
				for _, ar := range cc.Args {
					if _, isFn := ar.Type().Underlying().(*types.Signature); isFn {
						if targets, ok := g.resolveFuncValue(f, ar, 0, map[ssa.Value]bool{}); ok {
							for _, tg := range targets {
								if g.Sum[tg] != nil {
									sum.Callees[tg] = true
									g.propagateParamsOnly(f, sum, g.Sum[tg], nil, ci.Pos())
								}
							}
						} else {
							sum.FuncVal = true
						}
					}
				}
			case stdMutators[n] && len(cc.Args) > 0:
				addEff("extmut", g.roots(f, cc.Args[0]), n, ci.Pos(), self, "")
			case fsMutators[n]:
				addEff("fs", RootSet{Root{Kind: "unknown", Name: "fs"}: true}, n, ci.Pos(), self, "")
			case recvMutExternal[n] && len(cc.Args) > 0:
				// a buffer method that writes to its receiver: an effect on wherever that buffer lives
				// (nothing if it was made in this call)
				addEff("extmut", g.roots(f, cc.Args[0]), n, ci.Pos(), self, "")
			case pureExternal[n] || purePkgs[pk] || strings.HasPrefix(n, "(*regexp.Regexp)."):
			case (pk == "sort" || pk == "slices") && len(cc.Args) > 0:
				addEff("extmut", g.roots(f, cc.Args[0]), n, ci.Pos(), self, "")
			default:
				for _, ar := range cc.Args {
					if isPointerLike(ar.Type()) {
						addEff("extmut", g.roots(f, ar), "external "+n, ci.Pos(), self, "")
					}
				}
				addEff("extcall", RootSet{Root{Kind: "unknown", Name: "ext"}: true}, n, ci.Pos(), self, "")
			}
		}
	}
	return len(sum.Effects) != before || len(sum.Returns) != beforeR || sum.FuncVal != beforeFV
}

// propagate maps a callee's effects onto the caller through the actual arguments.
func (g *CallGraph) propagate(f *ssa.Function, sum *Summary, cs *Summary, args []ssa.Value, bindings []ssa.Value, pos token.Pos) {
	if cs == nil {
		return
	}
	if cs.FuncVal {
		sum.FuncVal = true
	}
	for _, e := range cs.Effects {
		var rs RootSet
		switch e.Root.Kind {
		case "param":
			if args == nil || e.Root.Idx >= len(args) {
				if bindings != nil {
					// closure parameters are supplied by whoever calls it: unknown
					rs = RootSet{Root{Kind: "unknown", Name: "closure parameter"}: true}
				} else {
					continue
				}
			} else {
				rs = g.roots(f, args[e.Root.Idx])
			}
		case "free":
			if bindings == nil || e.Root.Idx >= len(bindings) {
				rs = RootSet{Root{Kind: "unknown", Name: "free variable"}: true}
			} else {
				rs = g.roots(f, bindings[e.Root.Idx])
			}
		default:
			rs = RootSet{e.Root: true}
		}
		// an effect on "the map / slice I was handed" happens, seen from the caller, to the field the
		// argument was loaded from
		argField := ""
		if e.Root.Kind == "param" && args != nil && e.Root.Idx < len(args) && e.Field == "" {
			argField = fieldOf(args[e.Root.Idx])
		}
		for r := range rs {
			if r.Kind == "fresh" {
				continue
			}
			ne := e
			ne.Root = r
			if argField != "" {
				ne.Field = argField
			}
			if _, ok := sum.Effects[ne.key()]; !ok {
				sum.Effects[ne.key()] = ne
			}
		}
	}
}

// propagateParamsOnly: like propagate for a callee reached through a function value: its effects on
// its parameters and on globals are mapped to the call's arguments; effects on the variables a
// function literal captured are attributed where the literal is made (propagate at MakeClosure).
func (g *CallGraph) propagateParamsOnly(f *ssa.Function, sum *Summary, cs *Summary, args []ssa.Value, pos token.Pos) {
	if cs == nil {
		return
	}
	filtered := &Summary{Effects: map[string]Effect{}, Returns: cs.Returns, Callees: cs.Callees, FuncVal: cs.FuncVal}
	for k, e := range cs.Effects {
		if e.Root.Kind == "free" {
			continue
		}
		filtered.Effects[k] = e
	}
	g.propagate(f, sum, filtered, args, nil, pos)
}

// Reach: set of module functions reachable from the given roots (incl. closures created).
func (g *CallGraph) Reach(from ...*ssa.Function) map[*ssa.Function]bool {
	seen := map[*ssa.Function]bool{}
	var walk func(f *ssa.Function)
	walk = func(f *ssa.Function) {
		if f == nil || seen[f] || g.Sum[f] == nil {
			return
		}
		seen[f] = true
		for c := range g.Sum[f].Callees {
			walk(c)
		}
	}
	for _, f := range from {
		walk(f)
	}
	return seen
}

func (s *Summary) sortedEffects() []Effect {
	var out []Effect
	for _, e := range s.Effects {
		out = append(out, e)
	}
	sort.Slice(out, func(i, j int) bool { return out[i].key() < out[j].key() })
	return out
}

// ---------------------------------------------------------------------------------------------
// function values of module-internal type

// internalOnlySig: the signature mentions an unexported named type of the module, so no function
// value of this type can be made outside the module — whatever is called through such a value is
// one of the module's own functions whose address is taken somewhere in the module.
func (c *Ctx) internalOnlySig(sig *types.Signature) bool {
	var mentions func(t types.Type, depth int) bool
	mentions = func(t types.Type, depth int) bool {
		if depth > 4 || t == nil {
			return false
		}
		switch x := t.(type) {
		case *types.Named:
			if x.Obj().Pkg() != nil && strings.HasPrefix(x.Obj().Pkg().Path(), modulePath) && !x.Obj().Exported() {
				return true
			}
			return false
		case *types.Pointer:
			return mentions(x.Elem(), depth+1)
		case *types.Slice:
			return mentions(x.Elem(), depth+1)
		case *types.Map:
			return mentions(x.Key(), depth+1) || mentions(x.Elem(), depth+1)
		}
		return false
	}
	for i := 0; i < sig.Params().Len(); i++ {
		if mentions(sig.Params().At(i).Type(), 0) {
			return true
		}
	}
	for i := 0; i < sig.Results().Len(); i++ {
		if mentions(sig.Results().At(i).Type(), 0) {
			return true
		}
	}
	return false
}

// addrTaken: module functions used as values (not in call position), with the functions that do so.
func (c *Ctx) addrTaken() map[*ssa.Function][]*ssa.Function {
	if v, ok := c.extra("addrTaken"); ok {
		return v.(map[*ssa.Function][]*ssa.Function)
	}
	out := map[*ssa.Function][]*ssa.Function{}
	for _, pkg := range []*ssa.Package{c.Jen} {
		for _, g := range c.allFuncs(pkg) {
			for _, b := range g.Blocks {
				for _, in := range b.Instrs {
					var callee ssa.Value
					if ci, ok := in.(ssa.CallInstruction); ok && !ci.Common().IsInvoke() {
						callee = ci.Common().Value
					}
					for _, op := range in.Operands(nil) {
						if op == nil || *op == nil {
							continue
						}
						if fn, ok := (*op).(*ssa.Function); ok && fn != callee && c.inModule(fn) && fn.Blocks != nil {
							out[fn] = append(out[fn], g)
						}
					}
				}
			}
		}
	}
	c.setExtra("addrTaken", out)
	return out
}

// funcValueTargets: the module functions a call through a value of signature sig can reach, if the
// signature is module-internal and at least one function of that signature has its address taken.
func (c *Ctx) funcValueTargets(sig *types.Signature) ([]*ssa.Function, bool) {
	if sig == nil || !c.internalOnlySig(sig) {
		return nil, false
	}
	var out []*ssa.Function
	for fn := range c.addrTaken() {
		if types.Identical(fn.Signature, sig) || (fn.Signature.Recv() == nil && types.IdenticalIgnoreTags(fn.Signature, sig)) {
			out = append(out, fn)
		}
	}
	sort.Slice(out, func(i, j int) bool { return fname(out[i]) < fname(out[j]) })
	return out, len(out) > 0
}

// staticCallersOf: functions that call f statically or, for functions of module-internal type,
// take its address (whoever can obtain the value may call it).
func (c *Ctx) callersIncludingValueUses(f *ssa.Function) []*ssa.Function {
	var out []*ssa.Function
	seen := map[*ssa.Function]bool{}
	for _, g := range c.allFuncs(c.Jen) {
		for _, b := range g.Blocks {
			for _, in := range b.Instrs {
				if ci, ok := in.(ssa.CallInstruction); ok && ci.Common().StaticCallee() == f && !seen[g] {
					seen[g] = true
					out = append(out, g)
				}
			}
		}
	}
	if c.internalOnlySig(f.Signature) {
		for _, g := range c.addrTaken()[f] {
			if !seen[g] {
				seen[g] = true
				out = append(out, g)
			}
		}
	}
	return out
}

// pkgPathOf: the package a function belongs to — also for instantiations of generic functions and
// synthetic wrappers, which have no ssa.Package of their own.
func pkgPathOf(f *ssa.Function) string {
	if f == nil {
		return ""
	}
	if f.Pkg != nil {
		return f.Pkg.Pkg.Path()
	}
	if o := f.Origin(); o != nil && o.Pkg != nil {
		return o.Pkg.Pkg.Path()
	}
	if obj := f.Object(); obj != nil && obj.Pkg() != nil {
		return obj.Pkg().Path()
	}
	return ""
}

// baseFuncName: the function's name without the type arguments of an instantiation
// ("slices.Contains[[]string string]" -> "slices.Contains").
func baseFuncName(f *ssa.Function) string {
	n := f.String()
	if i := strings.Index(n, "["); i >= 0 {
		n = n[:i]
	}
	return n
}

// stdMutators: the routines of the generic library packages that write to their first argument;
// everything else in slices / maps / cmp only reads its arguments.
var stdMutators = map[string]bool{
	"slices.Sort": true, "slices.SortFunc": true, "slices.SortStableFunc": true, "slices.Reverse": true, "slices.Insert": true,
	"slices.Delete": true, "slices.DeleteFunc": true, "slices.Compact": true, "slices.CompactFunc": true, "slices.Replace": true,
	"slices.Grow": true, "slices.Clip": true, "maps.Copy": true, "maps.DeleteFunc": true, "maps.Insert": true,
}
