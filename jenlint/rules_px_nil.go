package main

import (
	"fmt"
	"regexp"
	"sort"
	"strings"

	"golang.org/x/tools/go/ssa"
)

// P-NILGUARD on paths. In every function that invokes a Code method (render / isNull) on a value
// that is not simply its receiver or a parameter, each such invocation on each feasible path must be
// preceded by the fact "that value ≠ nil". Because the path engine resolves local containers, copies
// and helper calls to the original element term, no idiom table is needed. Helpers that invoke on a
// bare parameter are checked at their (inlined) call sites.

var reIndexNum = regexp.MustCompile(`\[[0-9]+\]`)

func nilGuardShape(s string) string {
	s = normaliseInst(s)
	s = reIndexNum.ReplaceAllString(s, "[·]")
	return s
}

func (c *Ctx) nilGuardCandidates() []*ssa.Function {
	direct := map[*ssa.Function]bool{}  // has an invoke on a non-parameter Code value
	onParam := map[*ssa.Function]bool{} // has an invoke on a bare parameter
	all := c.allFuncs(c.Jen)
	for _, f := range all {
		for _, b := range f.Blocks {
			for _, in := range b.Instrs {
				ci, ok := in.(ssa.CallInstruction)
				if !ok {
					continue
				}
				cc := ci.Common()
				if !cc.IsInvoke() || !isCodeType(c, cc.Value.Type()) {
					continue
				}
				if _, isP := cc.Value.(*ssa.Parameter); isP {
					onParam[f] = true
				} else {
					direct[f] = true
				}
			}
		}
	}
	// callers (two levels) of helpers that invoke on a parameter
	for round := 0; round < 2; round++ {
		for _, f := range all {
			for _, b := range f.Blocks {
				for _, in := range b.Instrs {
					if ci, ok := in.(ssa.CallInstruction); ok {
						if g := ci.Common().StaticCallee(); g != nil && onParam[g] && !isExportedName(g.Name()) {
							direct[f] = true
						}
					}
				}
			}
		}
	}
	var out []*ssa.Function
	for f := range direct {
		out = append(out, f)
	}
	sort.Slice(out, func(i, j int) bool { return fname(out[i]) < fname(out[j]) })
	return out
}

func rulePXNilGuard(c *Ctx) []Obligation {
	o := c.newObs("P-NILGUARD")
	cands := c.nilGuardCandidates()
	// Roots are judged on their own paths and stay calls inside other roots: the Code.render / isNull
	// implementations, the list-renderer roles, exported functions and functions nobody in the module
	// calls. Every other candidate is an unexported helper: it is inlined into the roots that call
	// it, where the facts about what it is handed are known.
	std := c.stdOpaque(c.role("renderItems"), c.role("isNullItems"))
	hasCaller := map[*ssa.Function]bool{}
	for _, g := range c.allFuncs(c.Jen) {
		for _, h := range c.callersIncludingValueUses(g) {
			if h != g {
				hasCaller[g] = true
			}
		}
	}
	isRoot := func(g *ssa.Function) bool {
		return std(g) || isExportedName(g.Name()) || !hasCaller[g] || g.Parent() != nil
	}
	var roots []*ssa.Function
	for _, f := range cands {
		if isRoot(f) {
			roots = append(roots, f)
		}
	}
	// helpers reach a root through their callers; a root that only calls helpers is a candidate too
	for _, g := range c.allFuncs(c.Jen) {
		if !isRoot(g) {
			continue
		}
		already := false
		for _, r := range roots {
			if r == g {
				already = true
			}
		}
		if already {
			continue
		}
		for _, cal := range c.calleesWithin(g, 3) {
			isC := false
			for _, f := range cands {
				if f == cal && !isRoot(f) {
					isC = true
				}
			}
			if isC {
				roots = append(roots, g)
				break
			}
		}
	}
	sort.Slice(roots, func(i, j int) bool { return fname(roots[i]) < fname(roots[j]) })
	for _, f := range roots {
		fn := fname(f)
		self := f
		opq := func(g *ssa.Function) bool { return g != self && std(g) }
		paths, trunc := c.Paths(f, PXConfig{Opaque: opq, MaxVisits: 3, MaxDepth: 4, MaxIndex: 3, MaxPaths: 60000})
		if trunc || len(paths) == 0 {
			o.undecided(fn, "path enumeration", f.Pos(), "%d paths, truncated %v", len(paths), trunc)
			continue
		}
		t := newTally(o, fn, f.Pos())
		for _, p := range paths {
			for _, e := range p.Events {
				if e.Kind != "invoke" || e.Recv == nil || (e.Name != c.renderName() && e.Name != c.nullName()) || !isCodeType(c, e.Recv.Typ) {
					continue
				}
				rs := e.Recv.String()
				if rs == "recv" || (len(rs) >= 2 && rs[0] == 'p' && strings.Trim(rs[1:], "0123456789") == "") {
					continue // the receiver / a parameter itself: the caller's obligation
				}
				if strings.HasPrefix(rs, "free:") && c.freeVarIsParentParam(f, strings.TrimPrefix(rs, "free:")) {
					continue // a function literal using its maker's receiver / parameter: likewise
				}
				key := fmt.Sprintf("%s on %s is preceded by a nil test", e.Name, nilGuardShape(rs))
				F := p.FactsAt(e)
				ok := F.Has(eqAtom(rs, "nil"), false)
				if !ok && (e.Recv.Op == "alloc" || e.Recv.Op == "struct" || e.Recv.Op == "make" || e.Recv.Op == "elems" || e.Recv.isConst() && !e.Recv.Nil) {
					ok = true // a value constructed on this path
				}
				t.note(key, ok, "path %s: the README promises nil items behave like Null(); this call dereferences %s without the fact that it is non-nil (facts: %s)", traceOf(p), rs, short(F.String(), 400))
			}
		}
		t.flush()
	}
	c.typedNilAsserts(o)
	return o.list
}

// freeVarIsParentParam: the variable name captured by the function literal f is, at every place the
// literal is made, a parameter (or the receiver) of the enclosing function — by value, or the cell a
// parameter was spilled into and that is never assigned again.
func (c *Ctx) freeVarIsParentParam(f *ssa.Function, name string) bool {
	if f.Parent() == nil {
		return false
	}
	idx := -1
	for i, fv := range f.FreeVars {
		if fv.Name() == name {
			idx = i
		}
	}
	if idx < 0 {
		return false
	}
	mcs := c.CG().fvIdx().closures[f]
	if len(mcs) == 0 {
		return false
	}
	for _, mc := range mcs {
		if idx >= len(mc.Bindings) {
			return false
		}
		b := mc.Bindings[idx]
		if _, ok := b.(*ssa.Parameter); ok {
			continue
		}
		al, ok := b.(*ssa.Alloc)
		if !ok || al.Referrers() == nil {
			return false
		}
		nst, fromParam := 0, false
		for _, r := range *al.Referrers() {
			if st, ok := r.(*ssa.Store); ok && st.Addr == ssa.Value(al) {
				nst++
				_, fromParam = st.Val.(*ssa.Parameter)
			}
		}
		if nst != 1 || !fromParam {
			return false
		}
	}
	return true
}
