package main

import (
	"fmt"
	"go/token"
	"go/types"
	"sort"
	"strconv"
	"strings"

	"golang.org/x/tools/go/ssa"
)

// P-BOUNDS. "Never a panic" (C02) has an implicit side: an index or slice expression out of range
// panics at run time. On every path of every function of package jen (helpers inlined, Code
// implementations opaque) each index expression x[i] and slice expression x[lo:hi] on a slice or
// string must be in range by the facts the path has established at that point together with a small
// theory of the library routines indexes come from:
//
//	len(x) lower bounds:  x != "" / len(x) > c / len(x) == c / HasPrefix(x, k), HasSuffix(x, k),
//	                      Contains(x, k) with a non-empty constant k / elements known on the path
//	index sources:        strings.Index*, LastIndex*(x, …) ∈ [-1, len(x)-1]; utf8.DecodeRune*(x) size ∈ [0, len(x)];
//	                      len(y) for a y known to be a prefix/suffix cut of x is not attempted
//	library guarantees:   the int parameters of a less function handed to sort.Slice / SliceStable, and of
//	                      Less / Swap of a sort.Interface, index the sorted collection
//
// A site that cannot be shown in range in its own function is accepted if the function is
// unexported and the site is in range on every path of every caller that inlines it.

func init() {
	register("P-BOUNDS", "every index and slice expression of package jen is in range on every path, by the comparisons made before it and the documented ranges of the library routines its operands come from (an out-of-range index is a panic)", 4, rulePXBounds)
}

type boundsVerdict struct {
	ok  bool
	why string
}

func rulePXBounds(c *Ctx) []Obligation {
	o := c.newObs("P-BOUNDS")
	type obs struct {
		root  *ssa.Function
		depth int
		v     boundsVerdict
		trace string
	}
	seen := map[ssa.Instruction][]obs{}
	var roots []*ssa.Function
	for _, f := range c.allFuncs(c.Jen) {
		if f.Blocks == nil || c.isGeneratedFunc(f) {
			continue
		}
		if f.TypeParams().Len() > 0 && f.Origin() == nil {
			continue // a generic body: judged through its instances
		}
		roots = append(roots, f)
	}
	for _, f := range c.CG().Funcs {
		if f.Origin() != nil && f.Blocks != nil && f.Pkg == nil && c.inModule(f) && !c.isGeneratedFunc(f) && !c.isTestPos(f.Pos()) {
			roots = append(roots, f)
		}
	}
	sort.Slice(roots, func(i, j int) bool { return fname(roots[i]) < fname(roots[j]) })
	nPaths := 0
	// first the functions that contain such an expression themselves; their callers only if a site
	// cannot be shown in range on its own
	analysed := map[*ssa.Function]bool{}
	var queue []*ssa.Function
	for _, f := range roots {
		if len(boundsSites(f)) > 0 {
			queue = append(queue, f)
		}
	}
	needCallers := func() []*ssa.Function {
		var out []*ssa.Function
		for in, obsl := range seen {
			fn := in.Parent()
			bad := false
			for _, ob := range obsl {
				if ob.root == fn && !ob.v.ok {
					bad = true
				}
			}
			if !bad || c.sortCallbackIndex(in) {
				continue
			}
			for _, cl := range c.CG().callersOf(fn) {
				if !analysed[cl] && cl.Blocks != nil && !c.isGeneratedFunc(cl) {
					out = append(out, cl)
				}
			}
		}
		sort.Slice(out, func(i, j int) bool { return fname(out[i]) < fname(out[j]) })
		return out
	}
	for round := 0; round < 2; round++ {
		if round == 1 {
			queue = needCallers()
		}
		for _, f := range queue {
			if analysed[f] {
				continue
			}
			analysed[f] = true
			var paths []*PXPath
			trunc := true
			for _, cfg := range []PXConfig{
				{Bounds: true, Opaque: c.stdOpaque(), MaxVisits: 3, MaxDepth: 3, MaxIndex: 3, MaxPaths: 30000},
				{Bounds: true, Opaque: c.stdOpaque(), MaxVisits: 2, MaxDepth: 2, MaxIndex: 2, MaxPaths: 30000},
				{Bounds: true, Opaque: c.stdOpaque(), MaxVisits: 2, MaxDepth: 1, MaxIndex: 2, MaxPaths: 30000},
			} {
				paths, trunc = c.Paths(f, cfg)
				if !trunc && len(paths) > 0 {
					break
				}
			}
			if trunc || len(paths) == 0 {
				o.undecided(fname(f), "path enumeration", f.Pos(), "%d paths, truncated %v", len(paths), trunc)
				continue
			}
			nPaths += len(paths)
			for _, p := range paths {
				for _, e := range p.Events {
					if e.Kind != "index" && e.Kind != "slice" {
						continue
					}
					if !isBoundsSite(e.In) || !c.inModule(e.In.Parent()) {
						continue // library code evaluated in line is not what is judged
					}
					v := c.inBounds(p, e)
					seen[e.In] = append(seen[e.In], obs{f, e.Depth, v, traceOf(p)})
				}
			}
		}
	}
	// one obligation per syntactic site
	var sites []ssa.Instruction
	for in := range seen {
		sites = append(sites, in)
	}
	sort.Slice(sites, func(i, j int) bool { return sites[i].Pos() < sites[j].Pos() })
	perFn := map[string]int{}
	for _, in := range sites {
		fn := in.Parent()
		perFn[fname(fn)]++
		construct := fmt.Sprintf("%s expression #%d", map[bool]string{true: "slice", false: "index"}[isSliceInstr(in)], perFn[fname(fn)])
		if c.sortCallbackIndex(in) {
			o.add(Discharged, fname(fn), construct, in.Pos(), true, "the index parameters of a sort callback are in range of the sorted collection (library guarantee)")
			continue
		}
		ownOK, ownSeen := true, false
		var firstBad *obs
		for i := range seen[in] {
			ob := &seen[in][i]
			if ob.root == fn {
				ownSeen = true
				if !ob.v.ok {
					ownOK = false
					if firstBad == nil {
						firstBad = ob
					}
				}
			}
		}
		if ownSeen && ownOK {
			o.add(Discharged, fname(fn), construct, in.Pos(), true, "in range on every path of the function")
			continue
		}
		// guarded by every caller?
		callerOK, nCallers := true, 0
		for _, ob := range seen[in] {
			if ob.root != fn {
				nCallers++
				if !ob.v.ok {
					callerOK = false
					if firstBad == nil {
						ob2 := ob
						firstBad = &ob2
					}
				}
			}
		}
		exported := fn.Parent() == nil && isExportedName(fn.Name()) && (fn.Signature.Recv() == nil || isExportedName(recvTypeName(fn)))
		if !exported && nCallers > 0 && callerOK && c.allCallersInline(fn, func(r *ssa.Function) bool {
			for _, ob := range seen[in] {
				if ob.root == r {
					return true
				}
			}
			return false
		}) {
			o.add(Discharged, fname(fn), construct, in.Pos(), true, "in range on every path of every caller (the function is unexported and is only reached through them)")
			continue
		}
		why, tr := "not reached by the enumeration", ""
		if firstBad != nil {
			why, tr = firstBad.v.why, firstBad.trace
		}
		o.add(Violated, fname(fn), construct, in.Pos(), true, "path %s: %s — an index out of range panics; invalid input must be reported as an error, never a panic", tr, why)
	}
	c.stats["bounds_paths"] = nPaths
	return o.list
}

func isSliceInstr(in ssa.Instruction) bool {
	_, ok := in.(*ssa.Slice)
	return ok
}

func recvTypeName(f *ssa.Function) string {
	if f.Signature.Recv() == nil {
		return ""
	}
	t := f.Signature.Recv().Type()
	if p, ok := t.(*types.Pointer); ok {
		t = p.Elem()
	}
	if n, ok := t.(*types.Named); ok {
		return n.Obj().Name()
	}
	return ""
}

func (c *Ctx) isGeneratedFunc(f *ssa.Function) bool {
	if f.Pos() == token.NoPos {
		return false
	}
	fn := c.Prog.Fset.Position(f.Pos()).Filename
	return strings.HasSuffix(fn, "generated.go") || strings.HasSuffix(fn, "hints.go")
}

// hasIndexExpr: f (or a module function it calls, a few levels deep) contains an index or slice
// expression on a slice or string.
func hasIndexExpr(c *Ctx, f *ssa.Function, depth int, busy map[*ssa.Function]bool) bool {
	if f == nil || f.Blocks == nil || busy[f] || depth > 3 {
		return false
	}
	busy[f] = true
	for _, b := range f.Blocks {
		for _, in := range b.Instrs {
			switch x := in.(type) {
			case *ssa.IndexAddr, *ssa.Index, *ssa.Slice:
				return true
			case *ssa.Lookup:
				if bt, ok := x.X.Type().Underlying().(*types.Basic); ok && bt.Info()&types.IsString != 0 {
					return true
				}
			case ssa.CallInstruction:
				if sc := x.Common().StaticCallee(); sc != nil && c.inModule(sc) && hasIndexExpr(c, sc, depth+1, busy) {
					return true
				}
			}
		}
	}
	return false
}

// allCallersInline: every module function that statically calls fn was analysed with fn inlined.
func (c *Ctx) allCallersInline(fn *ssa.Function, analysed func(*ssa.Function) bool) bool {
	n := 0
	for _, cl := range c.CG().callersOf(fn) {
		n++
		if !analysed(cl) {
			return false
		}
	}
	// its address must not be taken either (a function value may be called from anywhere)
	if _, taken := c.addrTaken()[fn]; taken {
		return false
	}
	return n > 0
}

// sortCallbackIndex: the index expression uses an int parameter of a less function handed directly
// to sort.Slice / sort.SliceStable (indexing the very slice that is sorted), or of a Less / Swap
// method of a type with the three sort.Interface methods (indexing the receiver).
func (c *Ctx) sortCallbackIndex(in ssa.Instruction) bool {
	fn := in.Parent()
	var base, idx ssa.Value
	switch x := in.(type) {
	case *ssa.IndexAddr:
		base, idx = x.X, x.Index
	case *ssa.Index:
		base, idx = x.X, x.Index
	default:
		return false
	}
	p, ok := idx.(*ssa.Parameter)
	if !ok {
		return false
	}
	// Less / Swap of a sort.Interface: receiver indexed by a parameter
	if fn.Signature.Recv() != nil && (fn.Name() == "Less" || fn.Name() == "Swap") && len(fn.Params) == 3 {
		ms := c.Prog.MethodSets.MethodSet(fn.Signature.Recv().Type())
		has := map[string]bool{}
		for i := 0; i < ms.Len(); i++ {
			has[ms.At(i).Obj().Name()] = true
		}
		if has["Len"] && has["Less"] && has["Swap"] {
			b := stripLoads(base)
			return b == fn.Params[0] && (p == fn.Params[1] || p == fn.Params[2])
		}
	}
	// function literal handed to sort.Slice(x, less): x must be the slice indexed
	if fn.Parent() == nil {
		return false
	}
	for _, b := range fn.Parent().Blocks {
		for _, pin := range b.Instrs {
			call, ok := pin.(*ssa.Call)
			if !ok || call.Call.StaticCallee() == nil || len(call.Call.Args) != 2 {
				continue
			}
			n := call.Call.StaticCallee().String()
			if n != "sort.Slice" && n != "sort.SliceStable" {
				continue
			}
			mc, ok := call.Call.Args[1].(*ssa.MakeClosure)
			if !ok || mc.Fn != fn {
				continue
			}
			// the sorted slice (behind its interface conversion) and the indexed free variable denote
			// the same variable of the enclosing function
			sorted := stripConv(call.Call.Args[0])
			fv, ok := stripLoads(base).(*ssa.FreeVar)
			if !ok {
				continue
			}
			for i, v := range fn.FreeVars {
				if v == fv && i < len(mc.Bindings) {
					if ld, ok := sorted.(*ssa.UnOp); ok && ld.Op == token.MUL && ld.X == mc.Bindings[i] {
						return true
					}
					if sorted == mc.Bindings[i] {
						return true
					}
				}
			}
		}
	}
	return false
}

func stripLoads(v ssa.Value) ssa.Value {
	for {
		u, ok := v.(*ssa.UnOp)
		if !ok || u.Op != token.MUL {
			return v
		}
		v = u.X
	}
}

// ---- the decision for one event -----------------------------------------------------------------

// inBounds decides an index / slice event from the facts established before it.
func (c *Ctx) inBounds(p *PXPath, e Ev) boundsVerdict {
	F := p.FactsAt(e)
	base := e.Args[0]
	// an element of a tail x[lo:] with constant lo is element lo+i of x
	if e.Kind == "index" && base.Op == "slice" && len(base.A) == 3 && !base.HasEl && base.A[2].Op == "sym" {
		if lo, ok := base.A[1].intVal(); ok {
			if n, ok := e.Args[1].intVal(); ok {
				e.Args = []*T{base.A[0], cInt(lo + n)}
				base = e.Args[0]
			}
		}
	}
	// arrays reached through a pointer: the bound is static
	staticLen := int64(-1)
	switch x := e.In.(type) {
	case *ssa.IndexAddr:
		if pt, ok := x.X.Type().Underlying().(*types.Pointer); ok {
			if at, ok := pt.Elem().Underlying().(*types.Array); ok {
				staticLen = at.Len()
			}
		}
	case *ssa.Index:
		if at, ok := x.X.Type().Underlying().(*types.Array); ok {
			staticLen = at.Len()
		}
	case *ssa.Slice:
		if pt, ok := x.X.Type().Underlying().(*types.Pointer); ok {
			if at, ok := pt.Elem().Underlying().(*types.Array); ok {
				staticLen = at.Len()
			}
		}
	}
	lo, exact := c.lenBounds(p, F, base)
	if staticLen >= 0 {
		lo, exact = staticLen, true
	}
	if e.Kind == "index" {
		return indexOK(F, base, e.Args[1], lo, exact)
	}
	// slice: 0 <= low <= high <= len (cap for slices: len is the conservative bound)
	low, high := e.Args[1], e.Args[2]
	if high != nil {
		if v := upperOK(F, base, high, lo, exact); !v.ok {
			return v
		}
	}
	if low != nil {
		if v := upperOK(F, base, low, lo, exact); !v.ok {
			return v
		}
		if v := nonNegative(F, low); !v.ok {
			return v
		}
		if high != nil {
			// low <= high
			l, okl := low.intVal()
			h, okh := high.intVal()
			switch {
			case okl && okh && l <= h:
			case okl && l == 0:
			case F.Has("lt("+high.String()+","+low.String()+")", false):
			case low.String() == high.String():
			default:
				if !(okl && lenMinus(high, base) >= 0 && lo >= l+lenMinus(high, base)) {
					return boundsVerdict{false, fmt.Sprintf("low bound %s is not known to be at most high bound %s", low, high)}
				}
			}
		}
	} else if high != nil {
		if v := nonNegative(F, high); !v.ok {
			return v
		}
	}
	return boundsVerdict{true, ""}
}

// lenMinus: t is len(base) - k for a constant k >= 0: returns k; -1 otherwise.
func lenMinus(t, base *T) int64 {
	if t.Op == "len" && len(t.A) == 1 && t.A[0].String() == base.String() {
		return 0
	}
	if t.Op == "binop" && t.Aux == "-" && len(t.A) == 2 && t.A[0].Op == "len" && len(t.A[0].A) == 1 && t.A[0].A[0].String() == base.String() {
		if k, ok := t.A[1].intVal(); ok && k >= 0 {
			return k
		}
	}
	return -1
}

// lenBounds: a lower bound of len(base) known on the path (exact: the length itself is known).
func (c *Ctx) lenBounds(p *PXPath, F Facts, base *T) (int64, bool) {
	if s, ok := base.strVal(); ok {
		return int64(len(s)), true
	}
	if base.HasEl {
		return int64(len(base.Elems)), true
	}
	bs := base.String()
	if n, ok := p.Mem["#len:"+bs]; ok {
		if v, isN := n.intVal(); isN {
			return v, true
		}
	}
	lo := int64(0)
	up := func(n int64) {
		if n > lo {
			lo = n
		}
	}
	for atom, pol := range F {
		switch {
		case atom == "empty("+bs+")" && !pol:
			up(1)
		case strings.HasPrefix(atom, "lt(") && strings.HasSuffix(atom, ",len("+bs+"))") && pol:
			if n, err := strconv.ParseInt(atom[3:len(atom)-len(",len("+bs+"))")], 10, 64); err == nil {
				up(n + 1)
			}
		case strings.HasPrefix(atom, "lt(len("+bs+"),") && !pol: // ¬(len < n)  ⇒  len >= n
			if n, err := strconv.ParseInt(atom[len("lt(len("+bs+"),"):len(atom)-1], 10, 64); err == nil {
				up(n)
			}
		case strings.HasPrefix(atom, "eq(") && strings.HasSuffix(atom, ",len("+bs+"))") && pol:
			if n, err := strconv.ParseInt(atom[3:len(atom)-len(",len("+bs+"))")], 10, 64); err == nil {
				return n, true
			}
		}
		// an index search in base that found something: base is not empty
		for _, fn := range []string{"Index", "IndexByte", "IndexRune", "IndexAny", "IndexFunc", "LastIndex", "LastIndexByte", "LastIndexAny", "LastIndexFunc"} {
			for _, pk := range []string{"strings.", "bytes."} {
				call := pk + fn + "(" + bs + ","
				switch {
				case strings.HasPrefix(atom, "lt("+call) && strings.HasSuffix(atom, ",0)") && !pol,
					strings.HasPrefix(atom, "lt(-1,"+call) && pol,
					strings.HasPrefix(atom, "eq(-1,"+call) && !pol:
					up(1)
				}
			}
		}
		if pol {
			// HasPrefix / HasSuffix / Contains with a constant operand: at least that long
			for _, fn := range []string{"strings.HasPrefix", "strings.HasSuffix", "strings.Contains", "bytes.HasPrefix", "bytes.HasSuffix", "bytes.Contains"} {
				if strings.HasPrefix(atom, fn+"("+bs+", ") {
					arg := strings.TrimSuffix(atom[len(fn+"("+bs+", "):], ")")
					if i := strings.LastIndex(arg, ")@"); i >= 0 {
						arg = arg[:i]
					}
					if k, err := strconv.Unquote(arg); err == nil {
						up(int64(len(k)))
					} else {
						_ = err
					}
				}
			}
			for _, fn := range []string{"strings.ContainsRune", "strings.ContainsAny", "bytes.ContainsRune", "bytes.ContainsAny"} {
				if strings.HasPrefix(atom, fn+"("+bs+", ") {
					up(1)
				}
			}
		}
	}
	// what the term itself says about its length
	if n := termLenLower(p, F, base, 0); n > lo {
		lo = n
	}
	return lo, false
}

// predCall: the call term a boolean fact is about (possibly negated).
func predCall(t *T) *T {
	for t != nil {
		switch t.Op {
		case "not":
			t = t.A[0]
			continue
		case "call":
			return t
		}
		return nil
	}
	return nil
}

// idxRange: what is known of an index term relative to base: it is at most len(base)+off
// (off <= 0 typically) and whether it is known non-negative.
func idxUpper(F Facts, base, idx *T) (off int64, ok bool) {
	bs := base.String()
	// len(base) - k
	if k := lenMinus(idx, base); k >= 0 {
		return -k, true
	}
	// strings.Index*(base, …), LastIndex*(base, …): at most len-1
	if idx.Op == "call" && len(idx.A) >= 1 && idx.A[0].String() == bs {
		switch idx.Aux {
		case "strings.Index", "strings.IndexByte", "strings.IndexRune", "strings.IndexAny", "strings.IndexFunc",
			"strings.LastIndex", "strings.LastIndexByte", "strings.LastIndexAny", "strings.LastIndexFunc",
			"bytes.Index", "bytes.IndexByte", "bytes.IndexRune", "bytes.IndexAny", "bytes.IndexFunc",
			"bytes.LastIndex", "bytes.LastIndexByte", "bytes.LastIndexAny", "bytes.LastIndexFunc":
			return -1, true
		}
	}
	// size result of utf8.DecodeRune*(base): at most len
	if idx.Op == "extract" && idx.Aux == "1" && len(idx.A) == 1 {
		if cc := idx.A[0]; cc.Op == "call" && len(cc.A) == 1 && cc.A[0].String() == bs {
			switch cc.Aux {
			case "unicode/utf8.DecodeRuneInString", "unicode/utf8.DecodeRune", "unicode/utf8.DecodeLastRuneInString", "unicode/utf8.DecodeLastRune":
				return 0, true
			}
		}
	}
	// t + k
	if idx.Op == "binop" && (idx.Aux == "+" || idx.Aux == "-") && len(idx.A) == 2 {
		if k, isK := idx.A[1].intVal(); isK {
			if o, ok := idxUpper(F, base, idx.A[0]); ok {
				if idx.Aux == "+" {
					return o + k, true
				}
				return o - k, true
			}
		}
	}
	// the length of a part of base is at most the length of base
	if idx.Op == "len" && len(idx.A) == 1 && idx.A[0].Op == "slice" && len(idx.A[0].A) == 3 && idx.A[0].A[0].String() == bs {
		return 0, true
	}
	// an explicit comparison: idx < len(base)
	if F.Has("lt("+idx.String()+",len("+bs+"))", true) {
		return -1, true
	}
	if F.Has("lt(len("+bs+"),"+idx.String()+")", false) { // ¬(len < idx): idx <= len
		return 0, true
	}
	return 0, false
}

func nonNegative(F Facts, t *T) boundsVerdict {
	if n, ok := t.intVal(); ok {
		if n >= 0 {
			return boundsVerdict{true, ""}
		}
		return boundsVerdict{false, fmt.Sprintf("constant index %d is negative", n)}
	}
	switch t.Op {
	case "len":
		return boundsVerdict{true, ""}
	case "extract":
		// sizes of DecodeRune are never negative
		if t.Aux == "1" && len(t.A) == 1 && t.A[0].Op == "call" && strings.HasPrefix(t.A[0].Aux, "unicode/utf8.Decode") {
			return boundsVerdict{true, ""}
		}
	case "binop":
		if len(t.A) == 2 {
			if k, ok := t.A[1].intVal(); ok {
				// Index*(…) + 1 >= 0 ; x + k with x >= 0 and k >= 0
				if t.Aux == "+" && k >= 1 && t.A[0].Op == "call" && (strings.Contains(t.A[0].Aux, ".Index") || strings.Contains(t.A[0].Aux, ".LastIndex")) {
					return boundsVerdict{true, ""}
				}
				if t.Aux == "+" && k >= 0 {
					return nonNegative(F, t.A[0])
				}
				if t.Aux == "-" && k >= 0 {
					// len(x) - k needs len(x) >= k: left to the caller's lower bound; x - k with ¬(x < k)
					if F.Has("lt("+t.A[0].String()+","+strconv.FormatInt(k, 10)+")", false) || F.Has("lt("+strconv.FormatInt(k-1, 10)+","+t.A[0].String()+")", true) {
						return boundsVerdict{true, ""}
					}
					if t.A[0].Op == "len" {
						return boundsVerdict{true, "len"} // checked against the length's lower bound by the caller
					}
				}
			}
		}
	}
	ts := t.String()
	if F.Has("lt("+ts+",0)", false) || F.Has("lt(-1,"+ts+")", true) || F.Has("eq(-1,"+ts+")", false) && strings.Contains(t.Aux, "Index") {
		return boundsVerdict{true, ""}
	}
	return boundsVerdict{false, fmt.Sprintf("%s is not known to be non-negative", t)}
}

// indexOK: 0 <= idx < len(base).
func indexOK(F Facts, base, idx *T, lo int64, exact bool) boundsVerdict {
	if n, ok := idx.intVal(); ok {
		if n < 0 {
			return boundsVerdict{false, fmt.Sprintf("constant index %d is negative", n)}
		}
		if n < lo {
			return boundsVerdict{true, ""}
		}
		return boundsVerdict{false, fmt.Sprintf("index %d of %s, whose length is only known to be at least %d", n, short(base.String(), 60), lo)}
	}
	off, ok := idxUpper(F, base, idx)
	if !ok {
		return boundsVerdict{false, fmt.Sprintf("index %s is not known to be below len(%s)", short(idx.String(), 80), short(base.String(), 60))}
	}
	if off > -1 {
		return boundsVerdict{false, fmt.Sprintf("index %s may reach len(%s)", short(idx.String(), 80), short(base.String(), 60))}
	}
	// lower side: len(base)+off >= 0 needs len >= -off; other shapes need their own non-negativity
	if k := lenMinus(idx, base); k >= 0 {
		if lo >= k {
			return boundsVerdict{true, ""}
		}
		return boundsVerdict{false, fmt.Sprintf("index len-%d of %s, whose length is only known to be at least %d", k, short(base.String(), 60), lo)}
	}
	return nonNegative(F, idx)
}

// upperOK: bound <= len(base) (a slice bound).
func upperOK(F Facts, base, b *T, lo int64, exact bool) boundsVerdict {
	if n, ok := b.intVal(); ok {
		if n < 0 {
			return boundsVerdict{false, fmt.Sprintf("constant bound %d is negative", n)}
		}
		if n <= lo {
			return boundsVerdict{true, ""}
		}
		return boundsVerdict{false, fmt.Sprintf("bound %d of %s, whose length is only known to be at least %d", n, short(base.String(), 60), lo)}
	}
	if k := lenMinus(b, base); k >= 0 {
		if lo >= k {
			return boundsVerdict{true, ""}
		}
		return boundsVerdict{false, fmt.Sprintf("bound len-%d of %s, whose length is only known to be at least %d", k, short(base.String(), 60), lo)}
	}
	off, ok := idxUpper(F, base, b)
	if !ok {
		return boundsVerdict{false, fmt.Sprintf("bound %s is not known to be at most len(%s)", short(b.String(), 80), short(base.String(), 60))}
	}
	if off > 0 {
		return boundsVerdict{false, fmt.Sprintf("bound %s may exceed len(%s)", short(b.String(), 80), short(base.String(), 60))}
	}
	return boundsVerdict{true, ""}
}

// isBoundsSite: an index or slice expression written in the source whose bound is not static (the
// compiler's own variadic-argument arrays and constant indexes into arrays are not of interest).
func isBoundsSite(in ssa.Instruction) bool {
	if in.Pos() == token.NoPos {
		return false
	}
	arrLen := func(t types.Type) int64 {
		if pt, ok := t.Underlying().(*types.Pointer); ok {
			t = pt.Elem()
		}
		if at, ok := t.Underlying().(*types.Array); ok {
			return at.Len()
		}
		return -1
	}
	switch x := in.(type) {
	case *ssa.IndexAddr:
		if n := arrLen(x.X.Type()); n >= 0 {
			if k, ok := constInt(x.Index); ok && k >= 0 && k < n {
				return false
			}
		}
		return true
	case *ssa.Index:
		if n := arrLen(x.X.Type()); n >= 0 {
			if k, ok := constInt(x.Index); ok && k >= 0 && k < n {
				return false
			}
		}
		return true
	case *ssa.Slice:
		if n := arrLen(x.X.Type()); n >= 0 && x.Low == nil && x.High == nil {
			return false
		}
		return true
	case *ssa.Lookup:
		if bt, ok := x.X.Type().Underlying().(*types.Basic); ok && bt.Info()&types.IsString != 0 {
			return true
		}
	}
	return false
}

func boundsSites(f *ssa.Function) []ssa.Instruction {
	var out []ssa.Instruction
	for _, b := range f.Blocks {
		for _, in := range b.Instrs {
			if isBoundsSite(in) {
				out = append(out, in)
			}
		}
	}
	return out
}

// termLenLower: a lower bound of the length of the value a term denotes, from its construction:
// quoting adds two quotes, appending and concatenation add lengths, a slice made with the length of
// a map has as many elements as the range over that map has yielded on this path.
func termLenLower(p *PXPath, F Facts, t *T, depth int) int64 {
	if t == nil || depth > 6 {
		return 0
	}
	if s, ok := t.strVal(); ok {
		return int64(len(s))
	}
	if t.HasEl {
		return int64(len(t.Elems))
	}
	switch t.Op {
	case "binop":
		if t.Aux == "+" && len(t.A) == 2 {
			return termLenLower(p, F, t.A[0], depth+1) + termLenLower(p, F, t.A[1], depth+1)
		}
	case "append":
		n := int64(0)
		for _, a := range t.A {
			n += termLenLower(p, F, a, depth+1)
		}
		return n
	case "call":
		switch t.Aux {
		case "strconv.Quote", "strconv.QuoteToASCII", "strconv.QuoteToGraphic", "strconv.QuoteRune", "strconv.QuoteRuneToASCII":
			return 2
		case "strconv.AppendQuote", "strconv.AppendQuoteToASCII", "strconv.AppendQuoteRune", "strconv.AppendQuoteToGraphic":
			if len(t.A) >= 1 {
				return termLenLower(p, F, t.A[0], depth+1) + 2
			}
			return 2
		case "strconv.AppendInt", "strconv.AppendUint", "strconv.AppendBool", "strconv.AppendFloat":
			if len(t.A) >= 1 {
				return termLenLower(p, F, t.A[0], depth+1) + 1
			}
		case "strconv.Itoa", "strconv.FormatInt", "strconv.FormatUint", "strconv.FormatBool", "strconv.FormatFloat":
			return 1
		case "strings.Split", "bytes.Split", "strings.SplitN", "bytes.SplitN":
			// with a non-empty separator the result has at least one element
			if len(t.A) >= 2 {
				if k, ok := t.A[1].strVal(); ok && k != "" {
					return 1
				}
			}
		}
	case "make":
		// make([]T, n): n elements
		if len(t.A) == 1 {
			return intTermLower(p, F, t.A[0])
		}
	case "slice":
		// x[lo:hi] has hi-lo elements: with a constant lo and hi = k + Index*(…) known to have found
		// something (>= 0), at least k - lo
		if len(t.A) == 3 {
			lo, okLo := t.A[1].intVal()
			if !okLo {
				return 0
			}
			hi := t.A[2]
			if h, ok := hi.intVal(); ok {
				if h-lo > 0 {
					return h - lo
				}
				return 0
			}
			if hi.Op == "binop" && hi.Aux == "+" && len(hi.A) == 2 {
				for k := 0; k < 2; k++ {
					if c0, ok := hi.A[k].intVal(); ok {
						other := hi.A[1-k]
						if other.Op == "call" && (strings.Contains(other.Aux, ".Index") || strings.Contains(other.Aux, ".LastIndex")) {
							os := other.String()
							if F.Has("lt("+os+",0)", false) || F.Has("lt(-1,"+os+")", true) || F.Has("eq(-1,"+os+")", false) {
								if c0-lo > 0 {
									return c0 - lo
								}
							}
						}
					}
				}
			}
		}
	}
	return 0
}

// intTermLower: a lower bound of an integer term: constants, len(x) (see lenBounds for maps: the
// number of entries a range over the untouched map has yielded on this path).
func intTermLower(p *PXPath, F Facts, t *T) int64 {
	if n, ok := t.intVal(); ok {
		return n
	}
	if t.Op == "len" && len(t.A) == 1 {
		x := t.A[0]
		xs := x.String()
		n := int64(0)
		for atom, pol := range F {
			if pol && strings.HasPrefix(atom, "next(range("+xs+"))@") && strings.HasSuffix(atom, "#0") {
				// one successful step of a range over x: count per range instance, take the largest
				_ = atom
			}
		}
		// count successful steps per range instance
		per := map[string]int64{}
		for atom, pol := range F {
			if pol && strings.HasPrefix(atom, "next(range("+xs+"))@") && strings.HasSuffix(atom, "#0") {
				if rg := rangeOfNextAtom(p.Terms[atom]); rg != nil {
					per[strconv.Itoa(rg.Inst)]++
				}
			}
		}
		for _, k := range per {
			if k > n {
				n = k
			}
		}
		if F.Has("empty("+xs+")", false) && n < 1 {
			n = 1
		}
		return n
	}
	return 0
}
