package main

import (
	"go/types"

	"golang.org/x/tools/go/ssa"
)

// Anchors that are unexported (and may therefore be renamed freely) are resolved by role; the
// current name is only tried first as a shortcut. Exported API names are resolved by name.

var roleCache = map[*Ctx]map[string]*ssa.Function{}

// renderName / nullName: the two methods of the Code interface, told apart by signature.
func (c *Ctx) renderName() string { r, _ := c.codeMethodNames(); return r }
func (c *Ctx) nullName() string   { _, n := c.codeMethodNames(); return n }

func (c *Ctx) codeMethodNames() (string, string) {
	it := c.codeIface().Underlying().(*types.Interface)
	r, n := "", ""
	for i := 0; i < it.NumMethods(); i++ {
		m := it.Method(i)
		sig := m.Type().(*types.Signature)
		hasWriter := false
		for j := 0; j < sig.Params().Len(); j++ {
			if isWriterType(sig.Params().At(j).Type()) {
				hasWriter = true
			}
		}
		if hasWriter {
			r = m.Name()
		} else if sig.Results().Len() == 1 {
			if b, ok := sig.Results().At(0).Type().Underlying().(*types.Basic); ok && b.Kind() == types.Bool {
				n = m.Name()
			}
		}
	}
	if r == "" || n == "" {
		broken("anchor lost: the Code interface no longer has a render (io.Writer) and a null-test (bool) method")
	}
	return r, n
}

func isFileMethod(c *Ctx, f *ssa.Function) bool {
	if f == nil || f.Signature.Recv() == nil {
		return false
	}
	p, ok := f.Signature.Recv().Type().(*types.Pointer)
	return ok && types.Identical(p.Elem(), c.fileType())
}

func sigIs(f *ssa.Function, params []types.BasicKind, results []types.BasicKind) bool {
	s := f.Signature
	if s.Params().Len() != len(params) || s.Results().Len() != len(results) {
		return false
	}
	for i, k := range params {
		b, ok := s.Params().At(i).Type().Underlying().(*types.Basic)
		if !ok || b.Kind() != k {
			return false
		}
	}
	for i, k := range results {
		b, ok := s.Results().At(i).Type().Underlying().(*types.Basic)
		if !ok || b.Kind() != k {
			return false
		}
	}
	return true
}

func (c *Ctx) staticCallees(f *ssa.Function) []*ssa.Function {
	var out []*ssa.Function
	seen := map[*ssa.Function]bool{}
	if f == nil {
		return nil
	}
	for _, ci := range c.FA(f).calls() {
		if sc := ci.Common().StaticCallee(); sc != nil && !ci.Common().IsInvoke() && !seen[sc] && c.CG().Sum[sc] != nil {
			seen[sc] = true
			out = append(out, sc)
		}
	}
	return out
}

// role resolves an unexported helper by what it does.
func (c *Ctx) role(name string) *ssa.Function {
	if roleCache[c] == nil {
		roleCache[c] = map[string]*ssa.Function{}
	}
	if f, ok := roleCache[c][name]; ok {
		return f
	}
	f := c.role0(name)
	roleCache[c][name] = f
	return f
}

func (c *Ctx) role0(name string) *ssa.Function {
	reg := c.registerFn()
	hasMapRangeOrReserved := func(f *ssa.Function) bool {
		if len(mapLoops(f)) > 0 {
			return true
		}
		for _, cal := range c.staticCallees(f) {
			if cal.Name() == "IsReservedWord" {
				return true
			}
		}
		return false
	}
	switch name {
	case "isValidAlias":
		for _, cal := range c.staticCallees(reg) {
			if isFileMethod(c, cal) && sigIs(cal, []types.BasicKind{types.String}, []types.BasicKind{types.Bool}) && hasMapRangeOrReserved(cal) {
				return cal
			}
		}
	case "isLocal":
		for _, cal := range c.staticCallees(reg) {
			if isFileMethod(c, cal) && sigIs(cal, []types.BasicKind{types.String}, []types.BasicKind{types.Bool}) && !hasMapRangeOrReserved(cal) {
				return cal
			}
		}
	case "isDotImport":
		loc := c.role("isLocal")
		for _, tn := range c.codeImpls(c.nullName()) {
			for _, cal := range c.staticCallees(tn) {
				if isFileMethod(c, cal) && cal != loc && sigIs(cal, []types.BasicKind{types.String}, []types.BasicKind{types.Bool}) {
					return cal
				}
			}
		}
	case "guessAlias":
		for _, cal := range c.staticCallees(reg) {
			if cal.Signature.Recv() == nil && sigIs(cal, []types.BasicKind{types.String}, []types.BasicKind{types.String}) {
				return cal
			}
		}
	case "renderImports":
		for _, cal := range c.staticCallees(c.method("File", "Render")) {
			if isFileMethod(c, cal) && c.writerParam(cal) != nil && cal.Signature.Params().Len() == 1 {
				return cal
			}
		}
	case "newStatement":
		var best *ssa.Function
		for _, f := range c.allFuncs(c.Jen) {
			if f.Parent() != nil || f.Signature.Recv() != nil || f.Signature.Params().Len() != 0 || f.Signature.Results().Len() != 1 {
				continue
			}
			if types.TypeString(f.Signature.Results().At(0).Type(), shortQual) != "*jen.Statement" {
				continue
			}
			if len(c.staticCallees(f)) == 0 && len(f.Blocks) == 1 {
				if best == nil || !isExportedName(f.Name()) {
					best = f
				}
			}
		}
		return best
	case "renderItems":
		for _, f := range c.allFuncs(c.Jen) {
			if f.Parent() != nil || f.Signature.Recv() == nil || types.TypeString(f.Signature.Recv().Type(), shortQual) != "*jen.Group" {
				continue
			}
			if f.Signature.Results().Len() == 2 && c.writerParam(f) != nil && len(c.FA(f).invokes(c.renderName())) > 0 {
				return f
			}
		}
		// the render call may sit in a helper of the list renderer
		for _, f := range c.allFuncs(c.Jen) {
			if f.Parent() != nil || f.Signature.Recv() == nil || types.TypeString(f.Signature.Recv().Type(), shortQual) != "*jen.Group" {
				continue
			}
			if f.Signature.Results().Len() == 2 && c.writerParam(f) != nil && f != c.method("Group", c.renderName()) {
				if b, ok := f.Signature.Results().At(0).Type().Underlying().(*types.Basic); ok && b.Kind() == types.Bool {
					return f
				}
			}
		}
	case "isNullItems":
		if gf := c.method("Group", c.nullName()); gf != nil {
			for _, cal := range c.staticCallees(gf) {
				if sigBool(cal) && (len(c.FA(cal).invokes(c.nullName())) > 0 || len(c.staticCallees(cal)) > 0) && cal.Signature.Recv() != nil {
					return cal
				}
			}
		}
	case "previous":
		var search func(f *ssa.Function, depth int) *ssa.Function
		search = func(f *ssa.Function, depth int) *ssa.Function {
			if f == nil || depth > 2 {
				return nil
			}
			for _, cal := range c.staticCallees(f) {
				if cal.Signature.Recv() != nil && cal.Signature.Params().Len() == 1 && cal.Signature.Results().Len() == 1 &&
					isCodeType(c, cal.Signature.Params().At(0).Type()) && isCodeType(c, cal.Signature.Results().At(0).Type()) {
					return cal
				}
			}
			for _, cal := range c.staticCallees(f) {
				if cal == c.role("renderItems") {
					continue
				}
				if r := search(cal, depth+1); r != nil {
					return r
				}
			}
			return nil
		}
		return search(c.method("Group", c.renderName()), 0)
	}
	return nil
}

func isExportedName(n string) bool { return len(n) > 0 && n[0] >= 'A' && n[0] <= 'Z' }

func sigBool(f *ssa.Function) bool {
	if f.Signature.Results().Len() != 1 {
		return false
	}
	b, ok := f.Signature.Results().At(0).Type().Underlying().(*types.Basic)
	return ok && b.Kind() == types.Bool
}
