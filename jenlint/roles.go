package main

import (
	"go/types"
	"strings"

	"golang.org/x/tools/go/ssa"
)

// Anchors that are unexported (and may therefore be renamed freely) are resolved by role; the
// current name is only tried first as a shortcut. Exported API names are resolved by name.

var roleCache = map[*Ctx]map[string]*ssa.Function{}

// renderName / nullName: the two methods of the Code interface, told apart by signature.
func (c *Ctx) renderName() string { r, _ := c.codeMethodNames(); return r }
func (c *Ctx) nullName() string   { _, n := c.codeMethodNames(); return n }

func (c *Ctx) codeMethodNames() (string, string) {
	it := c.codeIface().Underlying().(*types.Interface)
	r, n := "", ""
	for i := 0; i < it.NumMethods(); i++ {
		m := it.Method(i)
		sig := m.Type().(*types.Signature)
		hasWriter := false
		for j := 0; j < sig.Params().Len(); j++ {
			if isWriterType(sig.Params().At(j).Type()) {
				hasWriter = true
			}
		}
		if hasWriter {
			r = m.Name()
		} else if sig.Results().Len() == 1 {
			if b, ok := sig.Results().At(0).Type().Underlying().(*types.Basic); ok && b.Kind() == types.Bool {
				n = m.Name()
			}
		}
	}
	if r == "" || n == "" {
		broken("anchor lost: the Code interface no longer has a render (io.Writer) and a null-test (bool) method")
	}
	return r, n
}

func isFileMethod(c *Ctx, f *ssa.Function) bool {
	if f == nil || f.Signature.Recv() == nil {
		return false
	}
	p, ok := f.Signature.Recv().Type().(*types.Pointer)
	return ok && types.Identical(p.Elem(), c.fileType())
}

func sigIs(f *ssa.Function, params []types.BasicKind, results []types.BasicKind) bool {
	s := f.Signature
	if s.Params().Len() != len(params) || s.Results().Len() != len(results) {
		return false
	}
	for i, k := range params {
		b, ok := s.Params().At(i).Type().Underlying().(*types.Basic)
		if !ok || b.Kind() != k {
			return false
		}
	}
	for i, k := range results {
		b, ok := s.Results().At(i).Type().Underlying().(*types.Basic)
		if !ok || b.Kind() != k {
			return false
		}
	}
	return true
}

// calleesWithin: module functions statically reachable from f within depth calls (f excluded).
func (c *Ctx) calleesWithin(f *ssa.Function, depth int) []*ssa.Function {
	seen := map[*ssa.Function]bool{f: true}
	var out []*ssa.Function
	var walk func(g *ssa.Function, d int)
	walk = func(g *ssa.Function, d int) {
		if d > depth {
			return
		}
		for _, cal := range c.staticCallees(g) {
			if !seen[cal] {
				seen[cal] = true
				out = append(out, cal)
				walk(cal, d+1)
			}
		}
	}
	walk(f, 1)
	return out
}

func (c *Ctx) staticCallees(f *ssa.Function) []*ssa.Function {
	var out []*ssa.Function
	seen := map[*ssa.Function]bool{}
	if f == nil {
		return nil
	}
	for _, ci := range c.FA(f).calls() {
		if sc := ci.Common().StaticCallee(); sc != nil && !ci.Common().IsInvoke() && !seen[sc] && c.CG().Sum[sc] != nil {
			seen[sc] = true
			out = append(out, sc)
		}
	}
	return out
}

// role resolves an unexported helper by what it does.
func (c *Ctx) role(name string) *ssa.Function {
	if roleCache[c] == nil {
		roleCache[c] = map[string]*ssa.Function{}
	}
	if f, ok := roleCache[c][name]; ok {
		return f
	}
	f := c.role0(name)
	roleCache[c][name] = f
	return f
}

func (c *Ctx) role0(name string) *ssa.Function {
	reg := c.registerFn()
	hasMapRangeOrReserved := func(f *ssa.Function) bool {
		if len(mapLoops(f)) > 0 {
			return true
		}
		for _, cal := range c.staticCallees(f) {
			if cal.Name() == "IsReservedWord" {
				return true
			}
		}
		return false
	}
	switch name {
	case "isValidAlias":
		for _, cal := range c.calleesWithin(reg, 2) {
			if isFileMethod(c, cal) && sigIs(cal, []types.BasicKind{types.String}, []types.BasicKind{types.Bool}) && hasMapRangeOrReserved(cal) {
				return cal
			}
		}
	case "isLocal":
		for _, cal := range c.calleesWithin(reg, 2) {
			if isFileMethod(c, cal) && sigIs(cal, []types.BasicKind{types.String}, []types.BasicKind{types.Bool}) && !hasMapRangeOrReserved(cal) {
				return cal
			}
		}
	case "isDotImport":
		loc := c.role("isLocal")
		for _, tn := range c.codeImpls(c.nullName()) {
			for _, cal := range c.staticCallees(tn) {
				if isFileMethod(c, cal) && cal != loc && sigIs(cal, []types.BasicKind{types.String}, []types.BasicKind{types.Bool}) {
					return cal
				}
			}
		}
	case "guessAlias":
		for _, cal := range c.calleesWithin(reg, 2) {
			if cal.Signature.Recv() == nil && sigIs(cal, []types.BasicKind{types.String}, []types.BasicKind{types.String}) {
				return cal
			}
		}
	case "renderImports":
		// the File method with a writer parameter, called (possibly behind a helper that assembles the
		// source) by File.Render, that reads the import table
		readsImports := func(f *ssa.Function) bool {
			imp := "jen.File." + c.ff("imports")
			for _, b := range f.Blocks {
				for _, in := range b.Instrs {
					if fa, ok := in.(*ssa.FieldAddr); ok && fieldOf(fa) == imp {
						return true
					}
				}
			}
			return false
		}
		for _, cal := range c.staticCallees(c.method("File", "Render")) {
			if isFileMethod(c, cal) && c.writerParam(cal) != nil && cal.Signature.Params().Len() == 1 && readsImports(cal) {
				return cal
			}
		}
		for _, cal := range c.calleesWithin(c.method("File", "Render"), 2) {
			if isFileMethod(c, cal) && c.writerParam(cal) != nil && cal.Signature.Params().Len() == 1 && cal.Signature.Results().Len() <= 1 && readsImports(cal) {
				return cal
			}
		}
		// the printer split into "the block" and "the cgo import": the method File.Render calls is the
		// one whose helpers read the table
		for _, cal := range c.staticCallees(c.method("File", "Render")) {
			if !(isFileMethod(c, cal) && c.writerParam(cal) != nil && cal.Signature.Params().Len() == 1) {
				continue
			}
			for _, h := range c.staticCallees(cal) {
				if isFileMethod(c, h) && c.writerParam(h) != nil && readsImports(h) {
					return cal
				}
			}
		}
		// reached through a function value (a list of section writers): the one unexported File method
		// with a writer parameter that reads the import table
		var found []*ssa.Function
		for _, cal := range c.allFuncs(c.Jen) {
			if cal.Parent() == nil && isFileMethod(c, cal) && !isExportedName(cal.Name()) && c.writerParam(cal) != nil && cal.Signature.Params().Len() == 1 && cal.Signature.Results().Len() <= 1 && readsImports(cal) {
				found = append(found, cal)
			}
		}
		if len(found) == 1 {
			return found[0]
		}
		// the block written through a context object (a small struct holding the source buffer and a
		// sticky error) instead of a writer: an unexported File method with exactly one parameter, a
		// pointer to a struct of the module, called by File.Render, that reads the import table
		found = nil
		for _, cal := range c.calleesWithin(c.method("File", "Render"), 2) {
			if cal.Parent() != nil || !isFileMethod(c, cal) || isExportedName(cal.Name()) || cal.Signature.Params().Len() != 1 || cal.Signature.Results().Len() > 1 || !readsImports(cal) {
				continue
			}
			if ctxStructParam(cal.Signature.Params().At(0).Type()) {
				dup := false
				for _, x := range found {
					if x == cal {
						dup = true
					}
				}
				if !dup {
					found = append(found, cal)
				}
			}
		}
		if len(found) == 1 {
			return found[0]
		}
		// the block returned as text instead of written: a File method without parameters, returning
		// a string (and possibly an error), that reads the import table
		found = nil
		for _, cal := range c.allFuncs(c.Jen) {
			if cal.Parent() != nil || !isFileMethod(c, cal) || isExportedName(cal.Name()) || cal.Signature.Params().Len() != 0 || !readsImports(cal) {
				continue
			}
			rs := cal.Signature.Results()
			if rs.Len() < 1 || rs.Len() > 2 {
				continue
			}
			if b, ok := rs.At(0).Type().Underlying().(*types.Basic); ok && b.Kind() == types.String {
				found = append(found, cal)
			}
		}
		if len(found) == 1 {
			return found[0]
		}
	case "newStatement":
		var best *ssa.Function
		for _, f := range c.allFuncs(c.Jen) {
			if f.Parent() != nil || f.Signature.Recv() != nil || f.Signature.Params().Len() != 0 || f.Signature.Results().Len() != 1 {
				continue
			}
			if types.TypeString(f.Signature.Results().At(0).Type(), shortQual) != "*jen.Statement" {
				continue
			}
			if len(c.staticCallees(f)) == 0 && len(f.Blocks) == 1 {
				if best == nil || !isExportedName(f.Name()) {
					best = f
				}
			}
		}
		return best
	case "renderItems":
		for _, f := range c.allFuncs(c.Jen) {
			if f.Parent() != nil || f.Signature.Recv() == nil || types.TypeString(f.Signature.Recv().Type(), shortQual) != "*jen.Group" {
				continue
			}
			if f.Signature.Results().Len() == 2 && c.writerParam(f) != nil && len(c.FA(f).invokes(c.renderName())) > 0 {
				return f
			}
		}
		// the render call may sit in a helper of the list renderer
		for _, f := range c.allFuncs(c.Jen) {
			if f.Parent() != nil || f.Signature.Recv() == nil || types.TypeString(f.Signature.Recv().Type(), shortQual) != "*jen.Group" {
				continue
			}
			if f.Signature.Results().Len() == 2 && c.writerParam(f) != nil && f != c.method("Group", c.renderName()) {
				if b, ok := f.Signature.Results().At(0).Type().Underlying().(*types.Basic); ok && b.Kind() == types.Bool {
					return f
				}
			}
		}
		// the list renderer moved to a helper type (a context object holding File and writer): any
		// function with a *Group parameter or receiver, results (bool | int, error), that reaches an
		// interface call of Code.render within two static calls — other than Group.render itself
		for _, f := range c.allFuncs(c.Jen) {
			if f.Parent() != nil || f == c.method("Group", c.renderName()) || f.Signature.Results().Len() != 2 {
				continue
			}
			if b, ok := f.Signature.Results().At(0).Type().Underlying().(*types.Basic); !ok || (b.Kind() != types.Bool && b.Kind() != types.Int) {
				continue
			}
			hasGroup := false
			for _, prm := range f.Params {
				if types.TypeString(prm.Type(), shortQual) == "*jen.Group" {
					hasGroup = true
				}
			}
			if !hasGroup {
				continue
			}
			reaches := len(c.FA(f).invokes(c.renderName())) > 0
			for _, cal := range c.calleesWithin(f, 2) {
				if len(c.FA(cal).invokes(c.renderName())) > 0 {
					reaches = true
				}
			}
			if reaches {
				return f
			}
		}
	case "isNullItems":
		if gf := c.method("Group", c.nullName()); gf != nil {
			for _, cal := range c.staticCallees(gf) {
				if sigBool(cal) && (len(c.FA(cal).invokes(c.nullName())) > 0 || len(c.staticCallees(cal)) > 0) && cal.Signature.Recv() != nil {
					return cal
				}
			}
		}
	case "previous":
		var search func(f *ssa.Function, depth int) *ssa.Function
		search = func(f *ssa.Function, depth int) *ssa.Function {
			if f == nil || depth > 2 {
				return nil
			}
			for _, cal := range c.staticCallees(f) {
				if cal.Signature.Recv() != nil && cal.Signature.Params().Len() == 1 && cal.Signature.Results().Len() == 1 &&
					isCodeType(c, cal.Signature.Params().At(0).Type()) && isCodeType(c, cal.Signature.Results().At(0).Type()) {
					return cal
				}
			}
			for _, cal := range c.staticCallees(f) {
				if cal == c.role("renderItems") {
					continue
				}
				if r := search(cal, depth+1); r != nil {
					return r
				}
			}
			return nil
		}
		return search(c.method("Group", c.renderName()), 0)
	}
	return nil
}

func isExportedName(n string) bool { return len(n) > 0 && n[0] >= 'A' && n[0] <= 'Z' }

func sigBool(f *ssa.Function) bool {
	if f.Signature.Results().Len() != 1 {
		return false
	}
	b, ok := f.Signature.Results().At(0).Type().Underlying().(*types.Basic)
	return ok && b.Kind() == types.Bool
}

// ff resolves the unexported field names of File / importdef by role.
func (c *Ctx) ff(role string) string {
	key := "field:" + role
	if roleNames[c] == nil {
		roleNames[c] = map[string]string{}
	}
	if n, ok := roleNames[c][key]; ok {
		return n
	}
	n := c.ff0(role)
	if n == "" {
		broken("anchor lost: cannot resolve the File field playing the role %q", role)
	}
	roleNames[c][key] = n
	return n
}

var roleNames = map[*Ctx]map[string]string{}

func (c *Ctx) ff0(role string) string {
	ft := c.fileType().Underlying().(*types.Struct)
	mapFields := func() []*types.Var {
		var out []*types.Var
		for i := 0; i < ft.NumFields(); i++ {
			if m, ok := ft.Field(i).Type().Underlying().(*types.Map); ok {
				if _, isStruct := m.Elem().Underlying().(*types.Struct); isStruct {
					out = append(out, ft.Field(i))
				}
			}
		}
		return out
	}
	switch role {
	case "imports":
		reg := c.registerFn()
		for _, b := range reg.Blocks {
			for _, in := range b.Instrs {
				if mu, ok := in.(*ssa.MapUpdate); ok {
					if f := fieldOf(mu.Map); strings.HasPrefix(f, "jen.File.") {
						return strings.TrimPrefix(f, "jen.File.")
					}
				}
			}
		}
		// … or through a helper the map is handed to (f.imports.put(path, …))
		for _, ef := range c.CG().Sum[reg].sortedEffects() {
			if ef.Kind == "mapupdate" && strings.HasPrefix(ef.Field, "jen.File.") {
				return strings.TrimPrefix(ef.Field, "jen.File.")
			}
		}
	case "hints":
		imp := c.ff("imports")
		for _, v := range mapFields() {
			if v.Name() != imp {
				return v.Name()
			}
		}
	case "path", "name":
		ctor := c.jenFunc("NewFilePathName")
		if ctor == nil || len(ctor.Params) != 2 {
			return ""
		}
		want := ctor.Params[0]
		if role == "name" {
			want = ctor.Params[1]
		}
		var find func(f *ssa.Function, want ssa.Value, depth int) string
		find = func(f *ssa.Function, want ssa.Value, depth int) string {
			for _, b := range f.Blocks {
				for _, in := range b.Instrs {
					if st, ok := in.(*ssa.Store); ok && st.Val == want {
						if fl := fieldOf(st.Addr); strings.HasPrefix(fl, "jen.File.") {
							return strings.TrimPrefix(fl, "jen.File.")
						}
					}
					if call, ok := in.(*ssa.Call); ok && depth < 2 {
						if sc := call.Call.StaticCallee(); sc != nil && c.inModule(sc) && sc.Blocks != nil {
							for i, ar := range call.Call.Args {
								if ar == want && i < len(sc.Params) {
									if r := find(sc, sc.Params[i], depth+1); r != "" {
										return r
									}
								}
							}
						}
					}
				}
			}
			return ""
		}
		return find(ctor, want, 0)
	case "headers", "comments", "preamble":
		m := map[string]string{"headers": "HeaderComment", "comments": "PackageComment", "preamble": "CgoPreamble"}[role]
		if f := c.method("File", m); f != nil {
			var find func(f *ssa.Function, depth int) string
			find = func(f *ssa.Function, depth int) string {
				for _, b := range f.Blocks {
					for _, in := range b.Instrs {
						if st, ok := in.(*ssa.Store); ok {
							if fl := fieldOf(st.Addr); strings.HasPrefix(fl, "jen.File.") {
								return strings.TrimPrefix(fl, "jen.File.")
							}
							// a field of a struct held by value in the File (f.doc.headers)
							if fp := fileFieldPath(st.Addr); fp != "" {
								return fp
							}
						}
					}
				}
				if depth < 2 {
					for _, cal := range c.staticCallees(f) {
						if r := find(cal, depth+1); r != "" {
							return r
						}
					}
				}
				return ""
			}
			if r := find(f, 0); r != "" {
				return r
			}
			// the field handed by address to a helper that appends to it (f.headers.add(text))
			for _, b := range f.Blocks {
				for _, in := range b.Instrs {
					if ci, ok := in.(ssa.CallInstruction); ok {
						for _, a := range ci.Common().Args {
							if fa, ok := a.(*ssa.FieldAddr); ok {
								if fl := fieldOf(fa); strings.HasPrefix(fl, "jen.File.") {
									return strings.TrimPrefix(fl, "jen.File.")
								}
							}
						}
					}
				}
			}
		}
	case "defname", "defalias":
		for i := 0; i < ft.NumFields(); i++ {
			if ft.Field(i).Name() != c.ff("imports") {
				continue
			}
			st := ft.Field(i).Type().Underlying().(*types.Map).Elem().Underlying().(*types.Struct)
			for j := 0; j < st.NumFields(); j++ {
				b, ok := st.Field(j).Type().Underlying().(*types.Basic)
				if !ok {
					continue
				}
				if role == "defname" && b.Kind() == types.String {
					return st.Field(j).Name()
				}
				if role == "defalias" && b.Kind() == types.Bool {
					return st.Field(j).Name()
				}
			}
		}
	}
	return ""
}

// commentField: the name of the text field of the comment item type (the struct type whose render
// implementation is the comment renderer) — found by type, so renaming the field does not matter.
func (c *Ctx) commentField() string {
	if v, ok := c.extra("commentField"); ok {
		return v.(string)
	}
	name := "comment"
	if f := c.implOf(c.renderName(), "jen.comment"); f != nil && f.Signature.Recv() != nil {
		if st, ok := f.Signature.Recv().Type().Underlying().(*types.Struct); ok {
			for i := 0; i < st.NumFields(); i++ {
				if b, ok := st.Field(i).Type().Underlying().(*types.Basic); ok && b.Info()&types.IsString != 0 {
					name = st.Field(i).Name()
					break
				}
			}
		}
	}
	c.setExtra("commentField", name)
	return name
}

func (c *Ctx) extra(k string) (interface{}, bool) {
	if c.memo == nil {
		return nil, false
	}
	v, ok := c.memo[k]
	return v, ok
}

func (c *Ctx) setExtra(k string, v interface{}) {
	if c.memo == nil {
		c.memo = map[string]interface{}{}
	}
	c.memo[k] = v
}

// ctxStructParam: a pointer to a struct type declared in the module (a context object).
func ctxStructParam(t types.Type) bool {
	pt, ok := t.Underlying().(*types.Pointer)
	if !ok {
		return false
	}
	n, ok := pt.Elem().(*types.Named)
	if !ok || n.Obj().Pkg() == nil || !strings.HasPrefix(n.Obj().Pkg().Path(), modulePath) {
		return false
	}
	_, isStruct := n.Underlying().(*types.Struct)
	return isStruct
}

// fileFieldPath: for the address of a field reached from a *File through structs held by value
// (f.doc.headers), the dotted path below the File ("doc.headers"); "" otherwise.
func fileFieldPath(addr ssa.Value) string {
	path := ""
	cur := addr
	for {
		fa, ok := cur.(*ssa.FieldAddr)
		if !ok {
			break
		}
		name := fieldName(fa.X.Type(), fa.Field)
		if path == "" {
			path = name
		} else {
			path = name + "." + path
		}
		cur = fa.X
	}
	if path == "" || !strings.Contains(path, ".") {
		return ""
	}
	if types.TypeString(cur.Type(), shortQual) != "*jen.File" {
		return ""
	}
	return path
}
