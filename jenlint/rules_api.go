package main

import (
	"go/token"
	"go/types"
	"strconv"
	"strings"

	"golang.org/x/tools/go/ssa"
)

func init() {
	register("P-CLONE", "Statement.Clone returns a freshly allocated statement whose slice has a fresh backing array (one-element wrap of the original, or an element-wise copy) — never the original's slice header or a re-slice of it", 2, ruleClone)
	register("P-API-FORMS", "every construct (enumerated from the *Statement method set) exists as a package function and a *Group method with the same parameters; the function form is the method applied to a new statement, the Group form builds the statement from the same arguments, appends it to the group exactly once and returns it; the Statement form appends in place and returns its receiver", 300, rulePXAPIForms)
	register("T-GENNAMES", "gennames: the fields of the `go list` template are read back from the positions they were written to (ImportPath is the key, Name the value of the table) and the table is emitted as path: name", 4, ruleGenNames)
}

func ruleClone(c *Ctx) []Obligation {
	o := c.newObs("P-CLONE")
	f := c.method("Statement", "Clone")
	if f == nil {
		o.undecided("(*jen.Statement).Clone", "anchor", token.NoPos, "anchor lost")
		return o.list
	}
	a := c.FA(f)
	fn := fname(f)
	for _, r := range a.returns() {
		res := r.Results[0]
		al, ok := res.(*ssa.Alloc)
		if !ok || !al.Heap {
			// built through helpers (newStatement().Add(s)): judged on the paths with those inlined
			if ok2, why := c.cloneOnPaths(f); ok2 {
				o.add(Discharged, fn, "returns a freshly allocated statement", r.Pos(), true, "%s", why)
				o.add(Discharged, fn, "the clone's slice has a fresh backing array", r.Pos(), true, "%s", why)
				continue
			}
			o.add(Violated, fn, "returns a freshly allocated statement", r.Pos(), true, "returns %s — the clone must not be the original", a.Desc(res))
			continue
		}
		o.add(Discharged, fn, "returns a freshly allocated statement", r.Pos(), true, "")
		// the slice stored into it
		var stored []ssa.Value
		for _, ref := range nonDebugRefs(al) {
			if st, ok := ref.(*ssa.Store); ok && st.Addr == ssa.Value(al) {
				stored = append(stored, st.Val)
			}
		}
		if len(stored) == 0 {
			o.add(Violated, fn, "the clone holds the original's items", r.Pos(), true, "nothing is stored into the clone: it would render empty")
			continue
		}
		for _, v := range stored {
			ok, why := freshBacking(a, v, f.Params[0], 0)
			o.req(ok, fn, "the clone's slice has a fresh backing array", r.Pos(), "%s — with a shared backing array, appends to the original and to the clone overwrite each other whenever capacity exceeds length", why)
		}
	}
	return o.list
}

// freshBacking: does slice value v have a backing array allocated in this call, holding the
// original (wrap) or its elements (copy)?
func freshBacking(a *FnA, v ssa.Value, recv *ssa.Parameter, depth int) (bool, string) {
	if depth > 4 {
		return false, "too deep"
	}
	v = stripConvKeepIface(v)
	switch x := v.(type) {
	case *ssa.Slice:
		// slice of a fresh local array (composite literal)
		if al, ok := x.X.(*ssa.Alloc); ok {
			if _, isArr := al.Type().Underlying().(*types.Pointer).Elem().Underlying().(*types.Array); isArr {
				return true, "slice literal over a new array"
			}
		}
		return false, "re-slice of " + a.Desc(x.X)
	case *ssa.Call:
		if bi, ok := x.Call.Value.(*ssa.Builtin); ok && bi.Name() == "append" {
			base := stripConvKeepIface(x.Call.Args[0])
			if isNilConst(base) {
				return true, "append to nil"
			}
			if ms, ok := base.(*ssa.MakeSlice); ok {
				_ = ms
				return true, "append to a new slice"
			}
			if sl, ok := base.(*ssa.Slice); ok {
				if al, ok := sl.X.(*ssa.Alloc); ok {
					if arr, isArr := al.Type().Underlying().(*types.Pointer).Elem().Underlying().(*types.Array); isArr && arr.Len() == 0 {
						return true, "append to an empty slice literal"
					}
				}
			}
			return false, "append to " + a.Desc(base) + " may write into an existing backing array"
		}
		return false, "result of " + calleeName(&x.Call)
	case *ssa.MakeSlice:
		return true, "make"
	case *ssa.UnOp:
		if x.Op == token.MUL {
			if al, ok := x.X.(*ssa.Alloc); ok {
				if st := a.singleStore(al); st != nil {
					return freshBacking(a, st, recv, depth+1)
				}
			}
			return false, "the slice header of " + a.obj(x.X) + " is copied"
		}
	case *ssa.Phi:
		for _, e := range x.Edges {
			if ok, why := freshBacking(a, e, recv, depth+1); !ok {
				return false, why
			}
		}
		return true, "all alternatives fresh"
	}
	return false, "unrecognised construction " + a.Desc(v)
}

func stripConvKeepIface(v ssa.Value) ssa.Value {
	for {
		switch x := v.(type) {
		case *ssa.Convert:
			v = x.X
		case *ssa.ChangeType:
			v = x.X
		default:
			return v
		}
	}
}

// ---------------------------------------------------------------------------------------------

var nonConstructs = map[string]bool{"Clone": true, "Render": true, "RenderWithFile": true, "GoString": true, "Save": true}

func methodsOf(c *Ctx, typeName string) map[string]*ssa.Function {
	out := map[string]*ssa.Function{}
	obj := c.Jen.Pkg.Scope().Lookup(typeName)
	if obj == nil {
		return out
	}
	ms := c.Prog.MethodSets.MethodSet(types.NewPointer(obj.Type()))
	for i := 0; i < ms.Len(); i++ {
		sel := ms.At(i)
		if len(sel.Index()) > 1 || !token.IsExported(sel.Obj().Name()) {
			continue
		}
		if fn := c.Prog.MethodValue(sel); fn != nil && fn.Synthetic == "" {
			out[sel.Obj().Name()] = fn
		}
	}
	return out
}

func sameParams(a, b *types.Signature) bool {
	if a.Params().Len() != b.Params().Len() || a.Variadic() != b.Variadic() || a.Results().Len() != b.Results().Len() {
		return false
	}
	for i := 0; i < a.Params().Len(); i++ {
		if !types.Identical(a.Params().At(i).Type(), b.Params().At(i).Type()) {
			return false
		}
	}
	for i := 0; i < a.Results().Len(); i++ {
		if !types.Identical(a.Results().At(i).Type(), b.Results().At(i).Type()) {
			return false
		}
	}
	return true
}

// ---------------------------------------------------------------------------------------------

func ruleGenNames(c *Ctx) []Obligation {
	o := c.newObs("T-GENNAMES")
	sp := c.SSA[modulePath+"/gennames"]
	if sp == nil {
		o.undecided("gennames", "package", token.NoPos, "anchor lost")
		return o.list
	}
	gp := sp.Func("getPackages")
	hf := sp.Func("hints")
	if gp == nil || hf == nil {
		o.undecided("gennames", "getPackages / hints", token.NoPos, "anchor lost")
		return o.list
	}
	a := c.FA(gp)
	fn := fname(gp)
	// the template
	var tmpl string
	var tpos token.Pos
	// the command may be built in getPackages itself or in a helper it calls
	var cmdCalls []ssa.CallInstruction
	cmdCalls = append(cmdCalls, a.calls()...)
	for _, cal := range c.calleesWithin(gp, 2) {
		if cal.Pkg == sp && cal.Blocks != nil {
			cmdCalls = append(cmdCalls, c.FA(cal).calls()...)
		}
	}
	for _, ci := range cmdCalls {
		sc := ci.Common().StaticCallee()
		if sc == nil || sc.String() != "os/exec.Command" {
			continue
		}
		args := ci.Common().Args
		all := append([]ssa.Value{}, args[:1]...)
		if va, ok := varargs(args[1]); ok {
			all = append(all, va...)
		}
		for _, ar := range all {
			if s, ok := constString(ar); ok && strings.Contains(s, "{{") {
				tmpl = s
				tpos = ci.Pos()
			}
		}
	}
	if tmpl == "" {
		o.undecided(fn, "go list template", gp.Pos(), "no template constant passed to exec.Command")
		return o.list
	}
	// fields in order and separators
	var fields []string
	rest := tmpl
	seps := []string{}
	for {
		i := strings.Index(rest, "{{")
		if i < 0 {
			break
		}
		j := strings.Index(rest[i:], "}}")
		if j < 0 {
			break
		}
		if len(fields) > 0 {
			seps = append(seps, rest[:i])
		}
		fields = append(fields, strings.TrimPrefix(strings.TrimSpace(rest[i+2:i+j]), "."))
		rest = rest[i+j+2:]
	}
	idx := map[string]int{}
	for i, f := range fields {
		idx[f] = i
	}
	// the split separator
	var splitSep string
	var parts ssa.Value
	for _, ci := range a.calls() {
		if sc := ci.Common().StaticCallee(); sc != nil && sc.String() == "strings.Split" && inCycle(ci.Block()) {
			splitSep, _ = constString(ci.Common().Args[1])
			parts = callValue(ci)
		}
	}
	okSep := parts != nil
	for _, s := range seps {
		if s != splitSep {
			okSep = false
		}
	}
	o.req(okSep, fn, "each line is split by the separator the template writes between fields", tpos, "template %q split by %q", tmpl, splitSep)
	// map update packages[key] = value: which parts index flows into each
	var upd *ssa.MapUpdate
	for _, b := range gp.Blocks {
		for _, in := range b.Instrs {
			if mu, ok := in.(*ssa.MapUpdate); ok {
				upd = mu
			}
		}
	}
	if upd == nil || parts == nil {
		o.undecided(fn, "table update", gp.Pos(), "no map update found")
		return o.list
	}
	ki, kok := partsIndex(upd.Key, parts, 0)
	vi, vok := partsIndex(upd.Value, parts, 0)
	ip, okIP := idx["ImportPath"]
	nm, okNM := idx["Name"]
	o.req(kok && okIP && ki == ip, fn, "the table key is the ImportPath field", upd.Pos(), "key comes from parts[%d] (resolved %v); template field order %v", ki, kok, fields)
	o.req(vok && okNM && vi == nm, fn, "the table value is the Name field", upd.Pos(), "value comes from parts[%d] (resolved %v); template field order %v", vi, vok, fields)
	// hints(): d[Lit(path)] = Lit(name) over the ranged table
	okEmit := false
	// … in a function literal handed to DictFunc, or in hints itself filling a Dict it has made
	for _, an := range append([]*ssa.Function{hf}, hf.AnonFuncs...) {
		aa := c.FA(an)
		for _, ml := range mapLoops(an) {
			for b := range ml.blocks {
				for _, in := range b.Instrs {
					mu, ok := in.(*ssa.MapUpdate)
					if !ok {
						continue
					}
					k, okk := litOf(stripConv(mu.Key))
					v, okv := litOf(stripConv(mu.Value))
					if okk && okv && k == ml.key && v == ml.val {
						okEmit = true
					}
					_ = aa
				}
			}
		}
	}
	o.req(okEmit, fname(hf), "the table is emitted as Lit(path): Lit(name) for every entry", hf.Pos(), "")
	return o.list
}

// partsIndex: which constant index of the parts slice does v come from (through phis, module
// helper calls and re-slicing)?
func partsIndex(v ssa.Value, parts ssa.Value, depth int) (int, bool) {
	if depth > 5 {
		return 0, false
	}
	v = stripConv(v)
	switch x := v.(type) {
	case *ssa.UnOp:
		if x.Op == token.MUL {
			if ia, ok := x.X.(*ssa.IndexAddr); ok && ia.X == parts {
				if n, ok := constInt(ia.Index); ok {
					return int(n), true
				}
			}
		}
	case *ssa.Phi:
		res, set := 0, false
		for _, e := range x.Edges {
			i, ok := partsIndex(e, parts, depth+1)
			if !ok || (set && i != res) {
				return 0, false
			}
			res, set = i, true
		}
		return res, set
	case *ssa.Call:
		// a helper applied to the field (unvendorPath)
		if len(x.Call.Args) == 1 && !x.Call.IsInvoke() {
			return partsIndex(x.Call.Args[0], parts, depth+1)
		}
	case *ssa.Slice:
		return partsIndex(x.X, parts, depth+1)
	}
	return 0, false
}

// litOf: v is jen.Lit(x); returns x (interface-stripped).
func litOf(v ssa.Value) (ssa.Value, bool) {
	call, ok := v.(*ssa.Call)
	if !ok || call.Call.StaticCallee() == nil || call.Call.StaticCallee().Name() != "Lit" || len(call.Call.Args) != 1 {
		return nil, false
	}
	return stripConv(call.Call.Args[0]), true
}

// cloneOnPaths: on every path of Clone (helpers inlined) the result is an object allocated on that
// path whose slice value is built there — a list of elements, or an append onto nil / a new slice —
// and is never the receiver's own slice, a re-slice of it, or an append onto it.
func (c *Ctx) cloneOnPaths(f *ssa.Function) (bool, string) {
	paths, trunc := c.Paths(f, PXConfig{MaxDepth: 4, MaxVisits: 3})
	if trunc || len(paths) == 0 {
		return false, "path enumeration failed"
	}
	for _, p := range paths {
		if p.End != "return" || len(p.Ret) != 1 || p.Ret[0].Op != "alloc" {
			return false, "a path does not return a fresh object"
		}
		v, ok := p.Mem["o"+strconv.Itoa(p.Ret[0].Obj)]
		if !ok || v == nil {
			return false, "nothing is stored into the clone"
		}
		fresh := false
		switch v.Op {
		case "elems":
			fresh = len(v.Elems) > 0
		case "append":
			base := v.A[0]
			fresh = base.Nil || (base.Op == "elems") || (base.Op == "make")
		}
		if !fresh {
			return false, "the clone's slice is " + v.String()
		}
	}
	return true, "on every path (helpers inlined) the result is a new statement whose slice is built on that path"
}
