package main

import (
	"fmt"
	"go/token"
	"golang.org/x/tools/go/ssa"
	"strings"
)

// P-DICT on paths. For every feasible success path of Dict.render (the map range unrolled up to 3
// entries), each entry is classified from the path's facts as live (key and value known non-nil and
// known not null) or dead (one of those known true); the events of the path must then be exactly:
// render(key) of every live entry into a private buffer (the sort text), one sort call, and the
// output stream  ["\n" if n>1]  { render(key) ":" render(value) [",\n" if n>1] }  over the live
// entries — each key followed by its own value.

type dictEntry struct {
	k, v   string
	live   bool
	dead   bool
	detail string
}

func (c *Ctx) dictEntries(p *PXPath, F Facts) []dictEntry {
	var out []dictEntry
	for _, atom := range p.Order {
		if !strings.HasPrefix(atom, "next(range(recv))@") || !strings.HasSuffix(atom, "#0") || !F[atom] {
			continue
		}
		base := strings.TrimSuffix(atom, "#0")
		e := dictEntry{k: base + "#1", v: base + "#2"}
		nilK, nilV := fact3(F, eqAtom(e.k, "nil")), fact3(F, eqAtom(e.v, "nil"))
		nullOf := func(x string) [2]bool {
			for a, pol := range F {
				if strings.HasPrefix(a, "invoke."+c.nullName()+"("+x+", ") {
					return [2]bool{pol, true}
				}
			}
			return [2]bool{}
		}
		nullK, nullV := nullOf(e.k), nullOf(e.v)
		kn := func(x [2]bool) bool { return x[1] && !x[0] }
		kt := func(x [2]bool) bool { return x[1] && x[0] }
		e.live = kn(nilK) && kn(nilV) && kn(nullK) && kn(nullV)
		e.dead = kt(nilK) || kt(nilV) || kt(nullK) || kt(nullV)
		e.detail = fmt.Sprintf("key nil %v null %v, value nil %v null %v", nilK, nullK, nilV, nullV)
		out = append(out, e)
	}
	return out
}

func rulePXDict(c *Ctx) []Obligation {
	o := c.newObs("P-DICT")
	// ---- render
	if f := c.implOf(c.renderName(), "jen.Dict"); f != nil {
		fn := fname(f)
		paths, trunc := c.Paths(f, PXConfig{SkipErrEdges: true, Opaque: c.stdOpaque(), MaxVisits: 4, MaxDepth: 3, MaxPaths: 60000})
		if trunc || len(paths) == 0 {
			o.undecided(fn, "path enumeration", f.Pos(), "%d paths, truncated %v", len(paths), trunc)
		}
		c.stats["paths:"+fn] = len(paths)
		t := newTally(o, fn, f.Pos())
		maxLive := 0
		for _, p := range paths {
			if p.End == "panic" {
				t.note("Dict rendering does not panic", false, "path %s panics", traceOf(p))
				continue
			}
			if !successPath(p) {
				continue
			}
			ents := c.dictEntries(p, p.Facts)
			var live []dictEntry
			classified := true
			for _, e := range ents {
				if e.live {
					live = append(live, e)
				} else if !e.dead {
					classified = false
					t.note("a pair is kept iff key and value are both non-nil and not null", false, "path %s: pair %s is neither known live nor known dead (%s)", traceOf(p), e.k, e.detail)
				}
			}
			if !classified {
				continue
			}
			n := len(live)
			if n > maxLive {
				maxLive = n
			}
			// the event stream
			var got []string
			sorted := -1
			otherFile := ""
			for _, e := range p.Events {
				switch e.Kind {
				case "write":
					if e.Writer.String() != "p1" {
						got = append(got, "write to "+e.Writer.String())
						continue
					}
					got = append(got, "W:"+segsText(e.Segs))
				case "invoke":
					if e.Name == c.renderName() && len(e.Args) >= 2 {
						if e.Args[1].String() == "p1" {
							got = append(got, "R:"+e.Recv.String())
						} else if isPrivBuf(e.Args[1]) {
							got = append(got, "B:"+e.Recv.String())
						} else {
							got = append(got, "render to "+e.Args[1].String())
						}
						if e.Args[0].String() != "p0" {
							got = append(got, "render with file "+e.Args[0].String())
							otherFile = e.Recv.String() + " against " + e.Args[0].String()
						}
					}
				case "call":
					if strings.HasPrefix(e.Name, "sort.") || strings.HasPrefix(e.Name, "slices.Sort") {
						got = append(got, "SORT")
						if len(e.Args) > 0 {
							if el, ok := elemsOf(e.Args[0]); ok {
								sorted = len(el)
								// "in key order": ascending by the rendered text of each pair's own key
								if ci, isCI := e.In.(ssa.CallInstruction); isCI && len(el) >= 2 {
									okAsc, whyAsc := ascendingNaturalOrder(c, ci)
									t.note("the pairs are sorted in ascending order of their keys' rendered text", okAsc, "path %s: %s", traceOf(p), whyAsc)
									fld, _ := sortField(c, ci)
									for _, x := range el {
										if x.Op != "struct" {
											continue
										}
										kt := ""
										for _, lv := range live {
											for _, fv := range x.Fields {
												if fv.String() == lv.k {
													kt = lv.k
												}
											}
										}
										if fld == "" || kt == "" || x.Fields[fld] == nil {
											continue
										}
										okText := strings.HasPrefix(x.Fields[fld].String(), "rendered(invoke."+c.renderName()+"("+kt+",") && strings.Count(x.Fields[fld].String(), "rendered(") == 1
										t.note("the sort key of a pair is the rendered text of that pair's key", okText, "path %s: the pair with key %s is sorted by %s", traceOf(p), kt, x.Fields[fld])
									}
								}
							}
						}
					}
				case "store", "mapupdate":
					got = append(got, e.Kind+" "+e.Recv.String())
				}
			}
			// merge adjacent writes
			var merged []string
			for _, g := range got {
				if strings.HasPrefix(g, "W:") && len(merged) > 0 && strings.HasPrefix(merged[len(merged)-1], "W:") {
					merged[len(merged)-1] += g[2:]
					continue
				}
				merged = append(merged, g)
			}
			var want []string
			for _, e := range live {
				want = append(want, "B:"+e.k)
			}
			want = append(want, "SORT")
			if n > 1 {
				want = append(want, "W:\n")
			}
			for i, e := range live {
				want = append(want, "R:"+e.k, "W::", "R:"+e.v)
				if n > 1 {
					if i+1 < n {
						want = append(want, "W:,\n")
					} else {
						want = append(want, "W:,\n")
					}
				}
			}
			// without the sort (n<=1 needs none)
			okStream := sameList(merged, want)
			if !okStream && n <= 1 {
				var w2 []string
				for _, x := range want {
					if x != "SORT" {
						w2 = append(w2, x)
					}
				}
				okStream = sameList(merged, w2)
			}
			t.note(fmt.Sprintf("with %s the output is %s", arity(n), dictForm(n)), okStream, "path %s (%d live pair(s)) produces %v, expected %v", traceOf(p), n, merged, want)
			// the ordering text and the output come from the same File: a key rendered against another File
			// (a scratch copy, a fresh one) resolves package names differently, so two keys that print
			// differently can tie in the ordering and keep the map's iteration order (C07-s23)
			if n >= 1 {
				t.note("every key and value is rendered against the file the Dict is rendered against", otherFile == "", "path %s: renders %s", traceOf(p), otherFile)
			}
			if n >= 2 {
				t.note("all live pairs are sorted together before anything is written", sorted == n, "path %s: the sort call is handed %d of the %d live pairs", traceOf(p), sorted, n)
			}
		}
		t.require("with no pair the output is nothing", "with one pair the output is key:value", "with several pairs the output is \\n then key:value,\\n per pair")
		if maxLive < 2 {
			o.undecided(fn, "coverage", f.Pos(), "no path with two live pairs was explored")
		}
		t.flush()
		c.checkArityIndependence(o, f)
	} else {
		o.undecided("(jen.Dict).render", "anchor", token.NoPos, "anchor lost")
	}
	// ---- isNull
	if f := c.implOf(c.nullName(), "jen.Dict"); f != nil {
		fn := fname(f)
		paths, trunc := c.Paths(f, PXConfig{Opaque: c.stdOpaque(), MaxVisits: 4, MaxDepth: 3})
		if trunc || len(paths) == 0 {
			o.undecided(fn, "path enumeration", f.Pos(), "%d paths, truncated %v", len(paths), trunc)
		}
		t := newTally(o, fn, f.Pos())
		for _, p := range paths {
			if p.End != "return" {
				t.note("Dict.isNull does not panic", false, "path %s ends in %s", traceOf(p), p.End)
				continue
			}
			for _, e := range p.Events {
				if e.Kind == "store" || e.Kind == "mapupdate" || e.Kind == "write" {
					t.note("Dict.isNull has no effect", false, "path %s: %s", traceOf(p), e.Kind)
				}
			}
			outs, ok := boolOutcomes(p)
			if !ok {
				t.note("the result is decided on every path", false, "path %s returns %v", traceOf(p), p.Ret)
				continue
			}
			for _, oc := range outs {
				F := oc.F
				ents := c.dictEntries(p, F)
				anyLive, allDead := false, true
				for _, e := range ents {
					if e.live {
						anyLive = true
					}
					if !e.dead {
						allDead = false
					}
				}
				exhausted := false
				for a, pol := range F {
					if strings.HasPrefix(a, "next(range(recv))@") && strings.HasSuffix(a, "#0") && !pol {
						exhausted = true
					}
					if pol && (a == "empty(recv)" || a == eqAtom("nil", "recv")) {
						exhausted = true
					}
				}
				if oc.Val {
					t.note("null only if every pair has a nil / null side (all pairs examined)", allDead && exhausted, "path %s returns true with %d pairs examined, all dead %v, map exhausted %v (facts %s)", traceOf(p), len(ents), allDead, exhausted, F)
				} else {
					t.note("not null only if some pair has key and value both non-nil and not null", anyLive, "path %s returns false without a live pair (facts %s)", traceOf(p), F)
				}
			}
		}
		t.require("null only if every pair has a nil / null side (all pairs examined)", "not null only if some pair has key and value both non-nil and not null")
		t.flush()
	} else {
		o.undecided("(jen.Dict).isNull", "anchor", token.NoPos, "anchor lost")
	}
	return o.list
}

func arity(n int) string {
	switch n {
	case 0:
		return "no pair"
	case 1:
		return "one pair"
	}
	return "several pairs"
}

func dictForm(n int) string {
	switch n {
	case 0:
		return "nothing"
	case 1:
		return "key:value"
	}
	return "\\n then key:value,\\n per pair"
}
