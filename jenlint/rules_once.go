package main

import (
	"fmt"
	"go/token"
	"go/types"
	"sort"
	"strings"

	"golang.org/x/tools/go/ssa"
)

// Initialise-once state. The stateless rules (W-GLOBALS-RO, W-NO-CONCURRENCY, W-RENDER-STORES) reduce
// "no hidden shared state" to "no store to memory that outlives the call". A value built on first
// use behind sync.Once leaves that shape and keeps the property, provided
//
//	(W) every store to the guarded locations lies in the function handed to Do (or what only it calls),
//	(R) every read of a guarded location outside it is dominated by a call of Do on the same Once,
//	(D) every call of Do on that Once passes the same function,
//	(P) that function is deterministic: it stores to nothing but the guarded locations and fresh
//	    memory and calls nothing but pure library routines and module helpers of the same kind.
//
// Then the guarded locations hold, for every reader, the one value the initialiser computes — a
// constant of the program — and sync.Once publishes it race-free. Two shapes are recognised: a
// package-level sync.Once guarding package-level variables, and a sync.Once field guarding other
// fields of the same struct value (a lazily compiled regexp, the cached text of an error).

type onceFacts struct {
	globals map[string]bool // package-level variables that are a verified Once or guarded by one
	fields  map[string]bool // "Type.field": a verified Once field or a field guarded by one
	sites   int
	bad     []string // why a use of sync.Once could not be verified
	other   []string // uses of package sync other than Once / Do
}

func (c *Ctx) onceFacts() *onceFacts {
	if v, ok := c.extra("onceFacts"); ok {
		return v.(*onceFacts)
	}
	of := &onceFacts{globals: map[string]bool{}, fields: map[string]bool{}}
	c.setExtra("onceFacts", of)
	// ---- every use of package sync in jen
	if c.JenP != nil {
		seen := map[string]bool{}
		for id, obj := range c.JenP.TypesInfo.Uses {
			if obj == nil || obj.Pkg() == nil || obj.Pkg().Path() != "sync" {
				continue
			}
			if f := c.JenP.Fset.Position(id.Pos()).Filename; strings.HasSuffix(f, "_test.go") {
				continue
			}
			n := obj.Name()
			if fn, ok := obj.(*types.Func); ok {
				if r := fn.Type().(*types.Signature).Recv(); r != nil {
					n = types.TypeString(r.Type(), shortQual) + "." + n
				}
			}
			if n == "Once" || n == "*sync.Once.Do" {
				continue
			}
			if !seen[n] {
				seen[n] = true
				of.other = append(of.other, "sync."+n)
			}
		}
		sort.Strings(of.other)
	}
	// ---- the calls of Do
	type site struct {
		f      *ssa.Function
		call   *ssa.Call
		key    string      // "G:name" or "F:Type.field"
		base   ssa.Value   // shape F: the struct value whose field the Once is
		target *ssa.Function
		bind   []ssa.Value
	}
	var sites []site
	fail := func(format string, a ...interface{}) { of.bad = append(of.bad, fmt.Sprintf(format, a...)) }
	for _, f := range c.allFuncs(c.Jen) {
		for _, b := range f.Blocks {
			for _, in := range b.Instrs {
				call, ok := in.(*ssa.Call)
				if !ok {
					continue
				}
				sc := call.Call.StaticCallee()
				if sc == nil || sc.String() != "(*sync.Once).Do" || len(call.Call.Args) != 2 {
					continue
				}
				s := site{f: f, call: call}
				switch a := call.Call.Args[0].(type) {
				case *ssa.Global:
					s.key = "G:" + a.Name()
				case *ssa.FieldAddr:
					s.key = "F:" + fieldKey(a)
					s.base = a.X
				case *ssa.FreeVar:
					s.key = "F:closure." + a.Name() // a Once captured by the closures of one helper
				default:
					fail("%s: the Once at %s is neither a package-level variable nor a field", fname(f), c.pos(call.Pos()))
					continue
				}
				switch t := call.Call.Args[1].(type) {
				case *ssa.MakeClosure:
					s.target, _ = t.Fn.(*ssa.Function)
					s.bind = t.Bindings
				case *ssa.Function:
					s.target = t
				}
				if s.target == nil || s.target.Blocks == nil {
					fail("%s: the function handed to Do at %s is not known", fname(f), c.pos(call.Pos()))
					continue
				}
				sites = append(sites, s)
			}
		}
	}
	of.sites = len(sites)
	if len(sites) == 0 {
		return of
	}
	// ---- per Once: the initialiser, what it stores to, purity
	byKey := map[string][]site{}
	for _, s := range sites {
		byKey[s.key] = append(byKey[s.key], s)
	}
	type guard struct {
		init    map[*ssa.Function]bool
		globals map[string]bool
		fields  map[string]bool
	}
	guards := map[string]*guard{}
	var keys []string
	for k := range byKey {
		keys = append(keys, k)
	}
	sort.Strings(keys)
	for _, k := range keys {
		ss := byKey[k]
		for _, s := range ss[1:] {
			if s.target != ss[0].target {
				fail("Once %s: Do is called with different functions (%s, %s)", k, fname(ss[0].target), fname(s.target))
			}
		}
		g := &guard{init: map[*ssa.Function]bool{}, globals: map[string]bool{}, fields: map[string]bool{}}
		guards[k] = g
		okInit := true
		var walk func(fn *ssa.Function, depth int)
		walk = func(fn *ssa.Function, depth int) {
			if g.init[fn] || depth > 4 {
				return
			}
			g.init[fn] = true
			for _, b := range fn.Blocks {
				for _, in := range b.Instrs {
					switch x := in.(type) {
					case *ssa.Store:
						switch loc, name := storeTarget(x.Addr); loc {
						case "global":
							g.globals[name] = true
						case "field":
							g.fields[name] = true
						case "fresh":
						default:
							okInit = false
							fail("Once %s: its initialiser %s stores to %s at %s", k, fname(fn), name, c.pos(x.Pos()))
						}
					case *ssa.MapUpdate:
						if loc, name := storeTarget(x.Map); loc != "fresh" {
							okInit = false
							fail("Once %s: its initialiser %s updates the map %s at %s", k, fname(fn), name, c.pos(x.Pos()))
						}
					case *ssa.Go, *ssa.Send, *ssa.Defer:
						okInit = false
						fail("Once %s: its initialiser %s uses go / defer / channels", k, fname(fn))
					case ssa.CallInstruction:
						cc := x.Common()
						if _, isB := cc.Value.(*ssa.Builtin); isB {
							continue
						}
						sc := cc.StaticCallee()
						if sc == nil {
							// a call of a function value bound by the closure (the build function of a
							// generic once-value helper) is judged where it is resolved; an interface
							// call is not accepted
							if cc.IsInvoke() {
								okInit = false
								fail("Once %s: its initialiser %s makes an interface call at %s", k, fname(fn), c.pos(x.Pos()))
								continue
							}
							ts, ok := c.CG().resolveFuncValue(fn, cc.Value, 0, map[ssa.Value]bool{})
							if !ok || len(ts) == 0 {
								okInit = false
								fail("Once %s: its initialiser %s calls an unknown function value at %s", k, fname(fn), c.pos(x.Pos()))
								continue
							}
							for _, t := range ts {
								walk(t, depth+1)
							}
							continue
						}
						if sc.Blocks != nil && c.inModule(sc) {
							walk(sc, depth+1)
							continue
						}
						n := sc.String()
						if pureExternal[n] || purePkgs[pkgPathOf(sc)] || readOnlyStd(sc) || n == "regexp.MustCompile" || n == "regexp.Compile" || strings.HasPrefix(n, "(*regexp.Regexp).") {
							continue
						}
						okInit = false
						fail("Once %s: its initialiser %s calls %s at %s", k, fname(fn), n, c.pos(x.Pos()))
					}
				}
			}
		}
		walk(ss[0].target, 0)
		if !okInit {
			delete(guards, k)
		}
	}
	// ---- (W) and (R) over the module
	inInit := func(k string, f *ssa.Function) bool {
		for p := f; p != nil; p = p.Parent() {
			if guards[k] != nil && guards[k].init[p] {
				return true
			}
		}
		return false
	}
	ownerOf := func(loc, name string) string {
		for _, k := range keys {
			g := guards[k]
			if g == nil {
				continue
			}
			if (loc == "global" && g.globals[name]) || (loc == "field" && g.fields[name]) {
				return k
			}
		}
		return ""
	}
	dominatedByDo := func(k string, f *ssa.Function, at ssa.Instruction, base ssa.Value) bool {
		for _, s := range byKey[k] {
			if s.f != f {
				continue
			}
			if s.base != nil && base != nil && s.base != base {
				continue
			}
			cb, ab := s.call.Block(), at.Block()
			if cb == ab {
				for _, in := range cb.Instrs {
					if in == ssa.Instruction(s.call) {
						return true
					}
					if in == at {
						break
					}
				}
				continue
			}
			if cb.Dominates(ab) {
				return true
			}
		}
		return false
	}
	for _, f := range c.allFuncs(c.Jen) {
		if f.Name() == "init" && f.Parent() == nil {
			continue
		}
		for _, b := range f.Blocks {
			for _, in := range b.Instrs {
				switch x := in.(type) {
				case *ssa.Store:
					loc, name := storeTarget(x.Addr)
					if k := ownerOf(loc, name); k != "" && !inInit(k, f) {
						fail("Once %s: %s is also stored to in %s at %s", k, name, fname(f), c.pos(x.Pos()))
						delete(guards, k)
					}
				case *ssa.UnOp:
					if x.Op != token.MUL {
						continue
					}
					loc, name := storeTarget(x.X)
					k := ownerOf(loc, name)
					if k == "" || inInit(k, f) {
						continue
					}
					var base ssa.Value
					if fa, ok := x.X.(*ssa.FieldAddr); ok {
						base = fa.X
					}
					if !dominatedByDo(k, f, x, base) {
						fail("Once %s: %s is read in %s at %s without a preceding Do", k, name, fname(f), c.pos(x.Pos()))
						delete(guards, k)
					}
				}
			}
		}
	}
	for k, g := range guards {
		if strings.HasPrefix(k, "G:") {
			of.globals[k[2:]] = true
		} else {
			of.fields[k[2:]] = true
		}
		for n := range g.globals {
			of.globals[n] = true
		}
		for n := range g.fields {
			of.fields[n] = true
		}
	}
	sort.Strings(of.bad)
	return of
}

// syncVerified: package sync is used for nothing but initialise-once state, and every such use was
// verified.
func (of *onceFacts) syncVerified() bool {
	return len(of.other) == 0 && len(of.bad) == 0 && of.sites > 0
}

func fieldKey(fa *ssa.FieldAddr) string {
	pt, ok := fa.X.Type().Underlying().(*types.Pointer)
	if !ok {
		return "?"
	}
	st, ok := pt.Elem().Underlying().(*types.Struct)
	if !ok || fa.Field >= st.NumFields() {
		return "?"
	}
	return types.TypeString(pt.Elem(), shortQual) + "." + st.Field(fa.Field).Name()
}

// storeTarget classifies an address: a package-level variable, a field of a struct reached through a
// parameter / receiver / captured variable / package-level pointer, fresh memory of this call, or other.
func storeTarget(addr ssa.Value) (loc, name string) {
	switch a := addr.(type) {
	case *ssa.Global:
		return "global", a.Name()
	case *ssa.Alloc:
		return "fresh", "local"
	case *ssa.FieldAddr:
		switch root, name := storeTarget(a.X); {
		case root == "fresh":
			return "fresh", "local"
		case root == "global":
			if _, direct := a.X.(*ssa.Global); direct {
				return "global", name // a field of a package-level struct value
			}
		}
		return "field", fieldKey(a)
	case *ssa.IndexAddr:
		loc, name = storeTarget(a.X)
		return loc, name
	case *ssa.FreeVar:
		// a variable of the enclosing function captured by reference: the cell belongs to whatever
		// owns the closure — treated like a field of that owner, named after the variable
		return "field", "closure." + a.Name()
	case *ssa.UnOp:
		if a.Op == token.MUL {
			return storeTarget(a.X)
		}
	case *ssa.MakeMap, *ssa.MakeSlice:
		return "fresh", "local"
	case *ssa.Phi, *ssa.Parameter:
		return "other", a.Name()
	}
	return "other", addr.Name()
}
