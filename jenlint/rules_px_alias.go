package main

import (
	"fmt"
	"go/ast"
	"go/token"
	"go/types"
	"regexp/syntax"
	"strconv"
	"strings"
	"unicode"

	"golang.org/x/tools/go/ssa"
)

// T-REGEX on paths: an abstract interpretation of the alias guesser over the domain "set of runes a
// string may contain". For every feasible return path the returned term must (1) contain only runes
// that are legal in a Go identifier (unicode letters and digits; '_' is refused because "_" alone
// would be the blank import), (2) be known non-empty, (3) be known not to start with a digit.

type runeSet []bool // indexed by rune, len unicode.MaxRune+1; nil = every rune

const nRunes = unicode.MaxRune + 1

func rsAny() runeSet   { return nil }
func rsEmpty() runeSet { return make(runeSet, nRunes) }
func rsOfString(s string) runeSet {
	r := rsEmpty()
	for _, x := range s {
		r[x] = true
	}
	return r
}
func (a runeSet) has(r rune) bool { return a == nil || a[r] }
func rsUnion(a, b runeSet) runeSet {
	if a == nil || b == nil {
		return nil
	}
	out := rsEmpty()
	for i := range out {
		out[i] = a[i] || b[i]
	}
	return out
}
func rsFilter(a runeSet, keep func(rune) bool) runeSet {
	out := rsEmpty()
	for i := range out {
		out[i] = a.has(rune(i)) && keep(rune(i))
	}
	return out
}
func (a runeSet) firstBad(ok func(rune) bool) (rune, bool) {
	for i := rune(0); i < nRunes; i++ {
		if a.has(i) && !ok(i) {
			return i, true
		}
	}
	return 0, false
}

type aliasAbs struct {
	c     *Ctx
	F     Facts
	notes []string
	nSan  int // sanitising steps recognised
}

// charSet: the values a byte / rune term may have on this path — every value consistent with the
// comparisons of that very term with constants among the path's facts.
func (aa *aliasAbs) charSet(t *T) runeSet {
	bs := t.String()
	limit := rune(nRunes)
	if b, ok := t.Typ.Underlying().(*types.Basic); ok && b.Kind() == types.Uint8 {
		limit = 256
	}
	type test struct {
		kind string // "lt-left" (t < n), "lt-right" (n < t), "eq"
		n    int64
		pol  bool
	}
	var tests []test
	constrained := false
	for atom, pol := range aa.F {
		if len(atom) < 5 || atom[len(atom)-1] != ')' {
			continue
		}
		body := atom[3 : len(atom)-1]
		var kind string
		var num string
		switch {
		case strings.HasPrefix(atom, "lt(") && strings.HasPrefix(body, bs+","):
			kind, num = "lt-left", body[len(bs)+1:]
		case strings.HasPrefix(atom, "lt(") && strings.HasSuffix(body, ","+bs):
			kind, num = "lt-right", body[:len(body)-len(bs)-1]
		case strings.HasPrefix(atom, "eq(") && strings.HasPrefix(body, bs+","):
			kind, num = "eq", body[len(bs)+1:]
		case strings.HasPrefix(atom, "eq(") && strings.HasSuffix(body, ","+bs):
			kind, num = "eq", body[:len(body)-len(bs)-1]
		default:
			continue
		}
		n, err := strconv.ParseInt(num, 10, 64)
		if err != nil {
			continue
		}
		tests = append(tests, test{kind, n, pol})
		constrained = true
	}
	if !constrained {
		if limit == 256 {
			out := rsEmpty()
			for r := rune(0); r < 256; r++ {
				out[r] = true
			}
			return out
		}
		return rsAny()
	}
	out := rsEmpty()
	for r := rune(0); r < limit; r++ {
		ok := true
		for _, ts := range tests {
			var v bool
			switch ts.kind {
			case "lt-left":
				v = int64(r) < ts.n
			case "lt-right":
				v = ts.n < int64(r)
			case "eq":
				v = int64(r) == ts.n
			}
			if v != ts.pol {
				ok = false
				break
			}
		}
		out[r] = ok
	}
	return out
}

// regexpPattern resolves the term of a *regexp.Regexp to its constant pattern.
func (aa *aliasAbs) regexpPattern(t *T) (string, bool) {
	switch t.Op {
	case "call":
		if (t.Aux == "regexp.MustCompile" || t.Aux == "regexp.Compile" || t.Aux == "regexp.MustCompilePOSIX") && len(t.A) == 1 {
			return t.A[0].strVal()
		}
	case "extract":
		if t.Aux == "0" && len(t.A) == 1 {
			return aa.regexpPattern(t.A[0])
		}
	case "global":
		name := t.Aux
		if i := strings.LastIndex(name, "."); i >= 0 {
			name = name[i+1:]
		}
		init, _ := varInit(aa.c.JenP, name)
		call, ok := init.(*ast.CallExpr)
		if !ok || len(call.Args) != 1 {
			return "", false
		}
		se, ok := call.Fun.(*ast.SelectorExpr)
		if !ok || !(se.Sel.Name == "MustCompile" || se.Sel.Name == "Compile") {
			return "", false
		}
		if id, ok := se.X.(*ast.Ident); !ok || aa.c.JenP.TypesInfo.Uses[id] == nil || aa.c.JenP.TypesInfo.Uses[id].String() != "package regexp" {
			return "", false
		}
		// the variable must not be reassigned anywhere
		for _, f := range aa.c.CG().Funcs {
			for _, e := range aa.c.CG().Sum[f].sortedEffects() {
				if e.Kind == "store" && e.Root.Kind == "global" && strings.HasSuffix(e.Root.Name, name) && e.Field == "" && !strings.HasSuffix(fname(f), "init") {
					return "", false
				}
			}
		}
		return constStr(aa.c.JenP.TypesInfo, call.Args[0])
	}
	return "", false
}

// mapperRange: the runes a strings.Map mapping function can return (negative results drop the rune).
func (aa *aliasAbs) mapperRange(f *ssa.Function) (runeSet, bool) {
	if f == nil || f.Blocks == nil || len(f.Params) != 1 {
		return nil, false
	}
	paths, trunc := aa.c.Paths(f, PXConfig{})
	if trunc || len(paths) == 0 {
		return nil, false
	}
	out := rsEmpty()
	for _, p := range paths {
		if p.End != "return" || len(p.Ret) != 1 {
			return nil, false
		}
		// the runes p0 for which this path is feasible
		feasible := func(r rune) bool {
			for atom, pol := range p.Facts {
				if v, known := evalRuneAtom(atom, r); known && v != pol {
					return false
				}
			}
			return true
		}
		ret := p.Ret[0]
		if n, ok := ret.intVal(); ok {
			if n >= 0 && n < nRunes {
				out[n] = true
			}
			continue
		}
		var image func(rune) rune
		rs := ret.String()
		if i := strings.LastIndex(rs, ")@"); i >= 0 {
			rs = rs[:i+1]
		}
		switch rs {
		case "p0":
			image = func(r rune) rune { return r }
		case "unicode.ToLower(p0)":
			image = unicode.ToLower
		case "unicode.ToUpper(p0)":
			image = unicode.ToUpper
		default:
			return nil, false
		}
		for r := rune(0); r < nRunes; r++ {
			if feasible(r) {
				out[image(r)] = true
			}
		}
	}
	return out, true
}

// evalRuneAtom evaluates a fact atom about the rune parameter p0 for one concrete rune.
func evalRuneAtom(atom string, r rune) (val, known bool) {
	num := func(s string) (int64, bool) {
		if i := strings.LastIndex(s, ")@"); i >= 0 && i+2 <= len(s) {
			s = s[:i+1]
		}
		switch s {
		case "p0":
			return int64(r), true
		case "unicode.ToLower(p0)":
			return int64(unicode.ToLower(r)), true // the mapping function folds the case first, then tests
		case "unicode.ToUpper(p0)":
			return int64(unicode.ToUpper(r)), true
		}
		n, err := strconv.ParseInt(s, 10, 64)
		return n, err == nil
	}
	two := func(body string) (int64, int64, bool) {
		i := strings.Index(body, ",")
		if i < 0 {
			return 0, 0, false
		}
		a, ok1 := num(body[:i])
		b, ok2 := num(body[i+1:])
		return a, b, ok1 && ok2
	}
	switch {
	case strings.HasPrefix(atom, "lt(") && strings.HasSuffix(atom, ")"):
		if a, b, ok := two(atom[3 : len(atom)-1]); ok {
			return a < b, true
		}
	case strings.HasPrefix(atom, "eq(") && strings.HasSuffix(atom, ")"):
		if a, b, ok := two(atom[3 : len(atom)-1]); ok {
			return a == b, true
		}
	}
	preds := map[string]func(rune) bool{"unicode.IsLetter(p0)": unicode.IsLetter, "unicode.IsDigit(p0)": unicode.IsDigit, "unicode.IsLower(p0)": unicode.IsLower,
		"unicode.IsUpper(p0)": unicode.IsUpper, "unicode.IsNumber(p0)": unicode.IsNumber, "unicode.IsSpace(p0)": unicode.IsSpace, "unicode.IsPunct(p0)": unicode.IsPunct}
	base := atom
	if i := strings.LastIndex(base, ")@"); i >= 0 {
		base = base[:i+1]
	}
	if f, ok := preds[base]; ok {
		return f(r), true
	}
	return false, false
}

// cs: the runes the string term may contain.
func (aa *aliasAbs) cs(t *T) runeSet {
	if t == nil {
		return rsAny()
	}
	if s, ok := t.strVal(); ok {
		return rsOfString(s)
	}
	if t.Op == "call" && strings.HasPrefix(t.Aux, "conv<") && len(t.A) == 1 && t.A[0].Typ != nil {
		// byte(r): the rune's values, provided the comparisons on the path confine it to one byte's
		// worth of ASCII (otherwise the conversion truncates and anything may come out)
		if ib, ok := t.A[0].Typ.Underlying().(*types.Basic); ok && (ib.Kind() == types.Int32 || ib.Kind() == types.Uint8) {
			set := aa.charSet(t.A[0])
			if set == nil {
				aa.notes = append(aa.notes, short(t.String(), 60)+" converts a rune that is not confined by comparisons")
				return rsAny()
			}
			if _, bad := set.firstBad(func(r rune) bool { return r < 0x80 }); bad {
				aa.notes = append(aa.notes, short(t.String(), 60)+" may truncate a rune ≥ 0x80")
				return rsAny()
			}
			aa.nSan++
			return set
		}
	}
	if t.Typ != nil && t.Op != "binop" {
		if b, ok := t.Typ.Underlying().(*types.Basic); ok && (b.Kind() == types.Uint8 || b.Kind() == types.Int32) {
			// one byte / rune of the text: a byte below 0x80 is that character; bytes from 0x80 up are
			// pieces of multi-byte runes and are never legal on their own
			set := aa.charSet(t)
			if b.Kind() == types.Uint8 {
				if _, bad := set.firstBad(func(r rune) bool { return r < 0x80 }); bad {
					aa.notes = append(aa.notes, "byte "+short(t.String(), 60)+" may be ≥ 0x80")
					return rsAny()
				}
			}
			aa.nSan++
			return set
		}
	}
	switch t.Op {
	case "elems":
		// a byte / rune slice assembled element by element
		out := rsEmpty()
		for _, e := range t.Elems {
			es := aa.cs(e)
			if es == nil {
				return nil
			}
			out = rsUnion(out, es)
		}
		return out
	case "slice":
		return aa.cs(t.A[0])
	case "binop":
		if t.Aux == "+" {
			return rsUnion(aa.cs(t.A[0]), aa.cs(t.A[1]))
		}
	case "call":
		switch t.Aux {
		case "strings.ToLower":
			in := aa.cs(t.A[0])
			if in == nil {
				return nil
			}
			out := rsEmpty()
			for r := rune(0); r < nRunes; r++ {
				if in[r] {
					out[unicode.ToLower(r)] = true
				}
			}
			return out
		case "strings.TrimLeft", "strings.TrimRight", "strings.Trim", "strings.TrimPrefix", "strings.TrimSuffix", "strings.TrimSpace", "strings.TrimLeftFunc", "strings.TrimRightFunc", "strings.TrimFunc":
			return aa.cs(t.A[0])
		case "(*regexp.Regexp).ReplaceAllString", "(*regexp.Regexp).ReplaceAllLiteralString":
			if len(t.A) != 3 {
				return nil
			}
			pat, ok := aa.regexpPattern(t.A[0])
			if !ok {
				aa.notes = append(aa.notes, "regexp of "+t.Aux+" is not a constant pattern")
				return nil
			}
			re, err := syntax.Parse(pat, syntax.Perl)
			if err != nil {
				aa.notes = append(aa.notes, fmt.Sprintf("pattern %q does not parse", pat))
				return nil
			}
			kept, ok := keptRunes(re.Simplify())
			if !ok {
				aa.notes = append(aa.notes, fmt.Sprintf("pattern %q is not a single character class", pat))
				return nil
			}
			aa.nSan++
			in := aa.cs(t.A[1])
			k := rsEmpty()
			for _, iv := range kept {
				for r := iv[0]; r <= iv[1]; r++ {
					k[r] = in.has(r)
				}
			}
			aa.notes = append(aa.notes, fmt.Sprintf("regexp %q keeps %s", pat, describeSet(k)))
			return rsUnion(k, aa.cs(t.A[2]))
		case "strings.Map":
			if len(t.A) != 2 {
				return nil
			}
			rng, ok := aa.mapperRange(t.A[0].Fn)
			if !ok {
				aa.notes = append(aa.notes, "mapping function "+t.A[0].String()+" could not be summarised")
				return nil
			}
			aa.nSan++
			aa.notes = append(aa.notes, fmt.Sprintf("strings.Map(%s) yields %s", t.A[0], describeSet(rng)))
			return rng
		}
	}
	return rsAny()
}

func describeSet(a runeSet) string {
	if a == nil {
		return "any rune"
	}
	var parts []string
	for r := rune(0); r < nRunes; r++ {
		if !a[r] {
			continue
		}
		e := r
		for e+1 < nRunes && a[e+1] {
			e++
		}
		if e == r {
			parts = append(parts, fmt.Sprintf("%q", r))
		} else {
			parts = append(parts, fmt.Sprintf("%q-%q", r, e))
		}
		r = e
		if len(parts) > 6 {
			parts = append(parts, "…")
			break
		}
	}
	return "{" + strings.Join(parts, " ") + "}"
}

func rulePXRegex(c *Ctx) []Obligation {
	o := c.newObs("T-REGEX")
	f := c.role("guessAlias")
	if f == nil {
		o.undecided("jen.guessAlias", "anchor", token.NoPos, "anchor lost: alias guesser (the string->string function called by the registration function) not found")
		return o.list
	}
	fn := fname(f)
	paths, trunc := c.Paths(f, PXConfig{MaxVisits: 3})
	if trunc || len(paths) == 0 {
		o.undecided(fn, "path enumeration", f.Pos(), "%d paths, truncated %v", len(paths), trunc)
		return o.list
	}
	t := newTally(o, fn, f.Pos())
	identRune := func(r rune) bool { return unicode.IsLetter(r) || unicode.IsDigit(r) }
	nSan := 0
	for _, p := range paths {
		if p.End != "return" || len(p.Ret) != 1 {
			t.note("the guesser returns normally", false, "path %s ends in %s", traceOf(p), p.End)
			continue
		}
		R := p.Ret[0]
		rs := R.String()
		aa := &aliasAbs{c: c, F: p.Facts}
		set := aa.cs(R)
		nSan += aa.nSan
		bad, isBad := set.firstBad(identRune)
		what := fmt.Sprintf("may contain %q", bad)
		if set == nil {
			what = "may contain any rune"
		}
		t.note("the guessed name contains only letters and digits", !isBad, "path %s returns %s, which %s (%s) — not legal in a Go identifier ('_' alone would be the blank import)", traceOf(p), short(rs, 160), what, strings.Join(aa.notes, "; "))
		// non-empty
		ne := false
		if s, ok := R.strVal(); ok {
			ne = s != ""
		} else if p.Facts.Has("empty("+rs+")", false) || knownNonEmpty(R) {
			ne = true
		}
		t.note("the guessed name is never empty", ne, "path %s returns %s with no fact that it is non-empty (facts %s)", traceOf(p), short(rs, 160), short(p.Facts.String(), 300))
		// first rune
		first := false
		why := ""
		if s, ok := R.strVal(); ok {
			first = s != "" && !unicode.IsDigit([]rune(s)[0])
		} else {
			// the leftmost piece of a concatenation decides the first character
			left := R
			for (left.Op == "binop" && left.Aux == "+") || (left.Op == "elems" && len(left.Elems) > 0) {
				if left.Op == "elems" {
					left = left.Elems[0]
				} else {
					left = left.A[0]
				}
			}
			if left != R {
				ls := aa.cs(left)
				if ls != nil {
					if _, any := rsFilter(ls, unicode.IsDigit).firstBad(func(rune) bool { return false }); !any && knownNonEmpty(left) {
						first = true
					}
				}
			} else if left.Typ != nil && left.Op != "binop" {
				if b, ok := left.Typ.Underlying().(*types.Basic); ok && (b.Kind() == types.Uint8 || b.Kind() == types.Int32) {
					if _, any := rsFilter(set, unicode.IsDigit).firstBad(func(rune) bool { return false }); !any {
						first = true
					}
				}
			}
			digits := rsFilter(set, unicode.IsDigit)
			if set == nil {
				digits = rsFilter(nil, unicode.IsDigit)
			}
			if _, any := digits.firstBad(func(rune) bool { return false }); !any {
				first = true // no digit can occur at all
			}
			for atom, pol := range p.Facts {
				if !pol && strings.HasPrefix(atom, "unicode.IsDigit(unicode/utf8.DecodeRuneInString("+rs+")") && strings.Contains(atom[len("unicode.IsDigit(unicode/utf8.DecodeRuneInString("+rs+")"):], "#0)") {
					first = true
				}
			}
			if R.Op == "call" && (R.Aux == "strings.TrimLeft" || R.Aux == "strings.Trim") && len(R.A) == 2 {
				if cut, ok := R.A[1].strVal(); ok {
					cutset := rsOfString(cut)
					if r, bad := digits.firstBad(func(r rune) bool { return cutset[r] }); !bad {
						first = true
					} else {
						why = fmt.Sprintf("the cutset %q leaves %q in front", cut, r)
					}
				}
			}
			if R.Op == "call" && (R.Aux == "strings.TrimLeftFunc" || R.Aux == "strings.TrimFunc") && len(R.A) == 2 && R.A[1].String() == "func:unicode.IsDigit" {
				first = true
			}
		}
		t.note("the guessed name does not start with a digit", first, "path %s returns %s: no fact ¬unicode.IsDigit(first rune), no digit-trimming of the returned value %s", traceOf(p), short(rs, 160), why)
		for _, e := range p.Events {
			if e.Kind == "panic" {
				t.note("the guesser returns normally", false, "path %s may panic", traceOf(p))
			}
		}
	}
	t.require("the guessed name contains only letters and digits", "the guessed name is never empty", "the guessed name does not start with a digit")
	t.flush()
	c.checkArityIndependence(o, f)
	o.req(nSan > 0, fn, "a sanitising step (character-class regexp replacement or strings.Map) is on the returned value's path", f.Pos(), "no sanitising step recognised")
	return o.list
}

func short(s string, n int) string {
	if len(s) > n {
		return s[:n] + "…"
	}
	return s
}
