package main

import (
	"crypto/sha256"
	"encoding/hex"
	"encoding/json"
	"fmt"
	"os"
	"os/exec"
	"path/filepath"
	"sort"
	"strings"
	"sync"
)

// Self-test corpus (thorough tier): stored breaking patches must make the property's check fire,
// stored behaviour-preserving patches must leave it silent. Each variant is a scratch copy of /repo
// outside /repo and /verif, analysed by a fresh jenlint subprocess, removed immediately.
//
// Corpus results gate the run only when /repo is the tree the corpus was authored against
// (selftest/AUTHORED_TREE); then a failure means the *checker* regressed: SELFTEST-FAIL, exit 2.
// On an edited /repo they are informational.

type corpusCase struct {
	Name     string `json:"name"`
	Kind     string `json:"kind"` // mutant | seeded | benign
	Patch    string `json:"-"`
	Property string `json:"property"`
	Result   string `json:"result"` // fired | silent | skipped:<why>
	OK       bool   `json:"ok"`
}

func corpusFor(prop string) []corpusCase {
	v := verifDir()
	var out []corpusCase
	ms, _ := filepath.Glob(filepath.Join(v, "selftest", "mutants", prop+"-*.patch"))
	for _, m := range ms {
		out = append(out, corpusCase{Name: filepath.Base(m), Kind: "mutant", Patch: m, Property: prop})
	}
	ss, _ := filepath.Glob(filepath.Join(v, "seeded", "*", "meta.json"))
	for _, s := range ss {
		b, err := os.ReadFile(s)
		if err != nil {
			continue
		}
		var meta struct {
			Property string `json:"property"`
			Detected bool   `json:"detected_by_check"`
		}
		if json.Unmarshal(b, &meta) != nil || meta.Property != prop || !meta.Detected {
			continue
		}
		out = append(out, corpusCase{Name: filepath.Base(filepath.Dir(s)), Kind: "seeded", Patch: filepath.Join(filepath.Dir(s), "patch.diff"), Property: prop})
	}
	bs, _ := filepath.Glob(filepath.Join(v, "selftest", "benign", "*.patch"))
	ba, _ := filepath.Glob(filepath.Join(v, "selftest", "benign-agents", "*.patch"))
	bs = append(bs, ba...)
	for _, b := range bs {
		out = append(out, corpusCase{Name: filepath.Base(b), Kind: "benign", Patch: b, Property: prop})
	}
	sort.Slice(out, func(i, j int) bool { return out[i].Kind+out[i].Name < out[j].Kind+out[j].Name })
	return out
}

func repoTreeState(repo string) string {
	out, err := exec.Command("git", "-C", repo, "rev-parse", "HEAD^{tree}").Output()
	if err != nil {
		return "unknown"
	}
	st, _ := exec.Command("git", "-C", repo, "status", "--porcelain").Output()
	if len(strings.TrimSpace(string(st))) > 0 {
		return strings.TrimSpace(string(out)) + "+dirty"
	}
	return strings.TrimSpace(string(out))
}

// benign variants are evaluated for all properties at once (one load of the variant) and the
// per-property outcome is cached under evidence/cache, keyed by the checker binary, the state of
// /repo and the patch — so the twenty thorough commands share one evaluation of each benign patch.
func benignCacheKey(cc *corpusCase, repo string) string {
	h := sha256.New()
	if exe, err := os.Executable(); err == nil {
		if b, err := os.ReadFile(exe); err == nil {
			h.Write(b)
		}
	}
	h.Write([]byte(repoTreeState(repo)))
	if out, err := exec.Command("git", "-C", repo, "diff", "HEAD").Output(); err == nil {
		h.Write(out)
	}
	if b, err := os.ReadFile(cc.Patch); err == nil {
		h.Write(b)
	}
	if b, err := os.ReadFile(filepath.Join(verifDir(), "known_findings.json")); err == nil {
		h.Write(b)
	}
	return hex.EncodeToString(h.Sum(nil))[:32]
}

func runBenignAll(cc *corpusCase, repo string) map[string]string {
	cdir := filepath.Join(verifDir(), "evidence", "cache")
	cfile := filepath.Join(cdir, "benign-"+benignCacheKey(cc, repo)+".json")
	if b, err := os.ReadFile(cfile); err == nil {
		var m map[string]string
		if json.Unmarshal(b, &m) == nil && len(m) > 0 {
			return m
		}
	}
	res := map[string]string{}
	d, err := os.MkdirTemp("", "jenlint-selftest-")
	if err != nil {
		return map[string]string{"*": "skipped:mktemp"}
	}
	defer os.RemoveAll(d)
	if err := exec.Command("rsync", "-a", "--exclude", ".git", repo+"/", d+"/repo/").Run(); err != nil {
		return map[string]string{"*": "skipped:copy"}
	}
	pf, err := os.Open(cc.Patch)
	if err != nil {
		return map[string]string{"*": "skipped:nopatch"}
	}
	defer pf.Close()
	pc := exec.Command("patch", "-p1", "-F0", "--no-backup-if-mismatch", "-s")
	pc.Dir = filepath.Join(d, "repo")
	pc.Stdin = pf
	if err := pc.Run(); err != nil {
		return map[string]string{"*": "skipped:patch does not apply to this tree"}
	}
	exe, _ := os.Executable()
	run := exec.Command(exe, "check", "all", "--tier", "quick")
	run.Env = append(os.Environ(), "JENLINT_REPO="+filepath.Join(d, "repo"), "JENLINT_VERIF="+filepath.Join(d, "verif"), "JENLINT_KNOWN="+filepath.Join(verifDir(), "known_findings.json"))
	out, err := run.CombinedOutput()
	code := 0
	if ee, ok := err.(*exec.ExitError); ok {
		code = ee.ExitCode()
	}
	if code == 2 {
		if strings.Contains(string(out), "type-check failure") {
			return map[string]string{"*": "skipped:variant does not type-check"}
		}
		return map[string]string{"*": "broken"}
	}
	for _, line := range strings.Split(string(out), "\n") {
		f := strings.Fields(line)
		if len(f) > 5 && strings.HasPrefix(f[1], "tier=") && strings.HasPrefix(f[0], "C") {
			r := "silent"
			for _, kv := range f {
				if strings.HasPrefix(kv, "violations=") && kv != "violations=0" {
					r = "fired"
				}
			}
			res[f[0]] = r
		}
	}
	if len(res) > 0 {
		os.MkdirAll(cdir, 0o755)
		if b, err := json.Marshal(res); err == nil {
			os.WriteFile(cfile, b, 0o644)
		}
	}
	return res
}

func runCase(cc *corpusCase, repo string) {
	if cc.Kind == "benign" {
		m := runBenignAll(cc, repo)
		r, ok := m[cc.Property]
		if !ok {
			r = m["*"]
		}
		if r == "" {
			r = "broken"
		}
		cc.Result = r
		switch {
		case strings.HasPrefix(r, "skipped"):
			cc.OK = true
		case r == "silent":
			cc.OK = true
		default:
			cc.OK = false
		}
		return
	}
	d, err := os.MkdirTemp("", "jenlint-selftest-")
	if err != nil {
		cc.Result = "skipped:mktemp"
		return
	}
	defer os.RemoveAll(d)
	cp := exec.Command("rsync", "-a", "--exclude", ".git", repo+"/", d+"/repo/")
	if err := cp.Run(); err != nil {
		cc.Result = "skipped:copy"
		return
	}
	pf, err := os.Open(cc.Patch)
	if err != nil {
		cc.Result = "skipped:nopatch"
		return
	}
	defer pf.Close()
	pc := exec.Command("patch", "-p1", "-F0", "--no-backup-if-mismatch", "-s")
	pc.Dir = filepath.Join(d, "repo")
	pc.Stdin = pf
	if err := pc.Run(); err != nil {
		cc.Result = "skipped:patch does not apply to this tree"
		return
	}
	exe, _ := os.Executable()
	run := exec.Command(exe, "check", cc.Property, "--tier", "quick")
	run.Env = append(os.Environ(), "JENLINT_REPO="+filepath.Join(d, "repo"), "JENLINT_VERIF="+filepath.Join(d, "verif"), "JENLINT_KNOWN="+filepath.Join(verifDir(), "known_findings.json"))
	out, err := run.CombinedOutput()
	code := 0
	if ee, ok := err.(*exec.ExitError); ok {
		code = ee.ExitCode()
	} else if err != nil {
		cc.Result = "skipped:exec " + err.Error()
		return
	}
	switch {
	case code == 2 && strings.Contains(string(out), "type-check failure"):
		cc.Result = "skipped:variant does not type-check"
	case code == 2:
		cc.Result = "broken"
		cc.OK = false
	case code == 1:
		cc.Result = "fired"
		cc.OK = cc.Kind != "benign"
	default:
		cc.Result = "silent"
		cc.OK = cc.Kind == "benign"
	}
	if strings.HasPrefix(cc.Result, "skipped") {
		cc.OK = true
	}
}

// runSelftest runs the corpus for one property; returns a summary for the evidence file and whether
// the run must be declared broken.
// pruneBenignCache drops cached outcomes computed by an older build of the checker.
func pruneBenignCache() {
	exe, err := os.Executable()
	if err != nil {
		return
	}
	st, err := os.Stat(exe)
	if err != nil {
		return
	}
	fs, _ := filepath.Glob(filepath.Join(verifDir(), "evidence", "cache", "benign-*.json"))
	for _, f := range fs {
		if fi, err := os.Stat(f); err == nil && fi.ModTime().Before(st.ModTime()) {
			os.Remove(f)
		}
	}
}

func runSelftest(prop string, repo string, repoClean bool) (map[string]interface{}, bool) {
	pruneBenignCache()
	cases := corpusFor(prop)
	authored := ""
	if b, err := os.ReadFile(filepath.Join(verifDir(), "selftest", "AUTHORED_TREE")); err == nil {
		authored = strings.TrimSpace(string(b))
	}
	state := repoTreeState(repo)
	gating := authored != "" && state == authored
	sem := make(chan struct{}, 10)
	var wg sync.WaitGroup
	for i := range cases {
		wg.Add(1)
		go func(cc *corpusCase) {
			defer wg.Done()
			sem <- struct{}{}
			defer func() { <-sem }()
			runCase(cc, repo)
		}(&cases[i])
	}
	wg.Wait()
	fired, nm, silent, nb, skipped := 0, 0, 0, 0, 0
	var failures []string
	for _, cc := range cases {
		if strings.HasPrefix(cc.Result, "skipped") {
			skipped++
			continue
		}
		if cc.Kind == "benign" {
			nb++
			if cc.Result == "silent" {
				silent++
			}
		} else {
			nm++
			if cc.Result == "fired" {
				fired++
			}
		}
		if !cc.OK {
			failures = append(failures, fmt.Sprintf("%s %s: %s", cc.Kind, cc.Name, cc.Result))
		}
	}
	sum := map[string]interface{}{
		"summary":       fmt.Sprintf("breaking variants fired %d/%d, benign variants silent %d/%d, skipped %d", fired, nm, silent, nb, skipped),
		"cases":         cases,
		"repo_tree":     state,
		"authored_tree": authored,
		"gating":        gating,
		"failures":      failures,
	}
	if len(failures) > 0 && gating {
		for _, f := range failures {
			fmt.Printf("SELFTEST-FAIL: %s %s\n", prop, f)
		}
		return sum, true
	}
	if len(failures) > 0 {
		fmt.Printf("selftest (informational, /repo differs from the tree the corpus was authored against): %v\n", failures)
	}
	return sum, false
}
