package main

// pathx: path-sensitive abstract evaluation (DESIGN 1.2 P11, generalised).
//
// A function is unfolded into its feasible control paths (loops bounded, module-local helpers
// inlined to a bounded depth). Along one path every SSA value is a *term*: a constant (flat
// constant lattice with folding of integer / boolean / string operations) or an opaque symbolic
// descriptor; phis are resolved by the edge taken; local variables and composite literals live in a
// small per-path memory. Branch conditions become literals over terms; a path that would assert a
// literal and its negation is dropped. Calls that matter (writes to a writer, interface calls,
// calls of designated opaque functions, stores to non-local memory) are recorded as events in order.
// No constraint solving, no interpretation of unknown values: an unknown condition simply forks.
//
// Rules then state, for every feasible path, what the event sequence must be given the path's facts.

import (
	"fmt"
	"go/constant"
	"go/token"
	"go/types"
	"sort"
	"strconv"
	"strings"

	"golang.org/x/tools/go/ssa"
)

type T struct {
	Op     string
	Aux    string
	A      []*T
	C      constant.Value
	Nil    bool
	Typ    types.Type
	Site   ssa.Instruction
	Inst   int
	Obj    int
	Fields map[string]*T
	Elems  []*T
	HasEl  bool
	Fn     *ssa.Function // closure / function value
	Bind   []*T          // closure bindings
	s      string
}

func (t *T) String() string {
	if t == nil {
		return "<nil>"
	}
	if t.s != "" {
		return t.s
	}
	t.s = t.str()
	return t.s
}

func (t *T) str() string {
	arg := func(i int) string {
		if i < len(t.A) {
			return t.A[i].String()
		}
		return "?"
	}
	switch t.Op {
	case "const":
		if t.Nil {
			return "nil"
		}
		switch t.C.Kind() {
		case constant.String:
			return strconv.Quote(constant.StringVal(t.C))
		case constant.Bool:
			if constant.BoolVal(t.C) {
				return "true"
			}
			return "false"
		}
		return t.C.ExactString()
	case "param", "sym":
		return t.Aux
	case "field":
		return arg(0) + "." + t.Aux
	case "index", "lookup":
		return arg(0) + "[" + arg(1) + "]"
	case "has":
		return "has(" + arg(0) + "," + arg(1) + ")"
	case "deref":
		return arg(0)
	case "call":
		var as []string
		for _, a := range t.A {
			as = append(as, a.String())
		}
		s := t.Aux + "(" + strings.Join(as, ", ") + ")"
		if t.Inst > 0 {
			s += "@" + strconv.Itoa(t.Inst)
		}
		return s
	case "extract":
		return arg(0) + "#" + t.Aux
	case "tuple":
		var as []string
		for _, a := range t.A {
			as = append(as, a.String())
		}
		return "(" + strings.Join(as, ", ") + ")"
	case "binop":
		l, r := arg(0), arg(1)
		switch t.Aux {
		case "==", "!=", "&", "|", "^", "*":
			if r < l {
				l, r = r, l
			}
		case "+":
			if b, ok := t.Typ.Underlying().(*types.Basic); ok && b.Info()&types.IsString == 0 && r < l {
				l, r = r, l
			}
		}
		return "(" + l + " " + t.Aux + " " + r + ")"
	case "not":
		return "!" + arg(0)
	case "neg":
		return "-" + arg(0)
	case "is":
		return "is<" + t.Aux + ">(" + arg(0) + ")"
	case "assert":
		return "assert<" + t.Aux + ">(" + arg(0) + ")"
	case "alloc":
		return "alloc#" + strconv.Itoa(t.Obj)
	case "faddr":
		return "&" + arg(0) + "." + t.Aux
	case "iaddr":
		return "&" + arg(0) + "[" + arg(1) + "]"
	case "mapview":
		return "clone#" + strconv.Itoa(t.Inst) + "(" + arg(0) + ")"
	case "typeconst":
		return "type:" + t.Aux
	case "constmap":
		if t.Aux != "" {
			return "global:" + t.Aux
		}
		return "table#" + strconv.Itoa(len(t.Elems)/2)
	case "global":
		return "global:" + t.Aux
	case "gaddr":
		return "&global:" + t.Aux
	case "closure", "func":
		return t.Op + ":" + t.Aux
	case "make":
		return "make#" + strconv.Itoa(t.Inst)
	case "range":
		return "range(" + arg(0) + ")"
	case "next":
		return "next(" + arg(0) + ")@" + strconv.Itoa(t.Inst)
	case "len":
		return "len(" + arg(0) + ")"
	case "append":
		var as []string
		for _, a := range t.A {
			as = append(as, a.String())
		}
		return "append(" + strings.Join(as, ", ") + ")"
	case "slice":
		return arg(0) + "[" + arg(1) + ":" + arg(2) + "]"
	case "struct":
		var ks []string
		for k := range t.Fields {
			ks = append(ks, k)
		}
		sort.Strings(ks)
		var ps []string
		for _, k := range ks {
			ps = append(ps, k+":"+t.Fields[k].String())
		}
		return "{" + strings.Join(ps, ",") + "}"
	case "elems":
		var as []string
		for _, a := range t.Elems {
			as = append(as, a.String())
		}
		return "[" + strings.Join(as, ",") + "]"
	case "zero":
		return "zero<" + t.Aux + ">"
	case "unknown":
		return "?" + t.Aux
	}
	return t.Op + "?"
}

func cStr(s string) *T {
	return &T{Op: "const", C: constant.MakeString(s), Typ: types.Typ[types.String]}
}
func cBool(b bool) *T      { return &T{Op: "const", C: constant.MakeBool(b), Typ: types.Typ[types.Bool]} }
func cInt(i int64) *T      { return &T{Op: "const", C: constant.MakeInt64(i), Typ: types.Typ[types.Int]} }
func (t *T) isConst() bool { return t != nil && t.Op == "const" && !t.Nil && t.C != nil }
func (t *T) strVal() (string, bool) {
	if t.isConst() && t.C.Kind() == constant.String {
		return constant.StringVal(t.C), true
	}
	return "", false
}
func (t *T) boolVal() (bool, bool) {
	if t.isConst() && t.C.Kind() == constant.Bool {
		return constant.BoolVal(t.C), true
	}
	return false, false
}
func (t *T) intVal() (int64, bool) {
	if t.isConst() && t.C.Kind() == constant.Int {
		v, ok := constant.Int64Val(t.C)
		return v, ok
	}
	return 0, false
}

// Ev is one recorded event of a path.
type Ev struct {
	Kind   string // write | call | invoke | store | mapupdate | panic | defer | go | funcvalue
	Name   string
	Fn     *ssa.Function // callee (static)
	In     ssa.Instruction
	Within *ssa.Function // function in which the event occurs
	Recv   *T
	Args   []*T
	Writer *T
	Segs   []pseg
	Data   *T // the term written (write events)
	Res    *T
	Depth  int
	NF     int // number of facts established before the event
}

type pseg struct {
	Lit  string
	Verb string
	Val  *T
	Bits int
}

func (p pseg) String() string {
	if p.Val == nil {
		return strconv.Quote(p.Lit)
	}
	if p.Bits != 0 {
		return fmt.Sprintf("%%%s/%d(%s)", p.Verb, p.Bits, p.Val)
	}
	return "%" + p.Verb + "(" + p.Val.String() + ")"
}

type PXPath struct {
	Mem    map[string]*T
	Terms  map[string]*T
	Order  []string
	Facts  Facts
	Events []Ev
	Ret    []*T
	End    string // return | panic
	Trace  []string
}

type PXConfig struct {
	MaxDepth      int
	MaxVisits     int
	NoRetry       bool // do not repeat the enumeration with a larger iteration bound
	MaxPaths      int
	LocalWrites   bool                       // writes into path-local buffers are (also) reported as write events
	Bounds        bool                       // index and slice expressions are reported as events (P-BOUNDS)
	MaxDetermined int                        // iterations of a loop whose bound is determined on the path that are free (default 64)
	MaxIndex      int                        // paths that touch element MaxIndex (or beyond) of a slice of unknown contents are not explored (0: no bound)
	Opaque        func(f *ssa.Function) bool // do not inline; record a call event
	Assume        []Lit                      // facts taken as given at entry (a case of a case split made by the rule)
	Args          []*T                       // parameters bound to given terms (evaluation of a call with constant arguments)
	SkipErrEdges  bool                       // do not follow the failure edge of an error test
	KeepEdge      func(l Lit) bool           // override: follow even if it is an error edge
}

type pxState struct {
	terms  map[string]*T // the condition term each fact atom came from
	order  []string      // facts in the order they were established
	facts  Facts
	mem    map[string]*T
	heap   map[string]*T
	events []Ev
	visits map[string]int
	trace  []string
	inst   *int
	objs   *int
}

// mapTouched: the path has already updated (or handed to an opaque callee) the map m.
func (s *pxState) mapTouched(m *T) bool {
	ms := m.String()
	for _, e := range s.events {
		if e.Kind == "mapupdate" && e.Recv != nil && e.Recv.String() == ms {
			return true
		}
		if e.Kind == "call" || e.Kind == "invoke" {
			// an opaque callee may have changed it if it was handed anything rooted where m is
			root := ms
			if i := strings.IndexAny(root, ".[("); i > 0 {
				root = root[:i]
			}
			ts := append([]*T{e.Recv}, e.Args...)
			for _, a := range ts {
				if a != nil && strings.Contains(a.String(), root) {
					return true
				}
			}
			if e.Kind == "invoke" {
				return true
			}
		}
	}
	return false
}

func (s *pxState) emit(e Ev) {
	e.NF = len(s.order)
	s.events = append(s.events, e)
	// opaque calls that are handed a private buffer leave unknown rendered text in it
	if e.Kind == "call" || e.Kind == "invoke" {
		for _, a := range e.Args {
			if a == nil || e.Res == nil {
				continue
			}
			marker := &T{Op: "call", Aux: "rendered", A: []*T{e.Res}, Typ: types.Typ[types.String]}
			if isPrivBuf(a) {
				s.bufAppend(a, marker)
				continue
			}
			// a path-local context object (`sw := &sourceWriter{…}`) handed to an opaque routine of the
			// module: the buffers it holds by value receive unknown text, and an error it carries
			// ("errors are values": the first error sticks) may have been set
			if a.Op != "alloc" || e.Fn == nil || e.Fn.Pkg == nil || !strings.HasPrefix(e.Fn.Pkg.Pkg.Path(), modulePath) {
				continue
			}
			pt, ok := a.Typ.Underlying().(*types.Pointer)
			if !ok {
				continue
			}
			stt, ok := pt.Elem().Underlying().(*types.Struct)
			if !ok {
				continue
			}
			for i := 0; i < stt.NumFields(); i++ {
				fld := stt.Field(i)
				key := "o" + strconv.Itoa(a.Obj) + "." + fld.Name()
				switch ts := types.TypeString(fld.Type(), nil); {
				case ts == "bytes.Buffer" || ts == "strings.Builder":
					if old, ok := s.mem[key+"$text"]; ok {
						s.mem[key+"$text"] = &T{Op: "binop", Aux: "+", A: []*T{old, marker}, Typ: types.Typ[types.String]}
					} else {
						s.mem[key+"$text"] = marker
					}
				case isErrorType(fld.Type()):
					if old, ok := s.mem[key]; ok && !old.Nil {
						if pol, known := s.facts[eqAtom(old.String(), "nil")]; known && !pol {
							continue // already failed on this path: the error sticks
						}
					}
					s.mem[key] = &T{Op: "call", Aux: "errAfter", A: []*T{e.Res}, Typ: fld.Type(), Inst: e.Res.Inst}
				}
			}
		}
	}
}

func isBufferPtr(t types.Type) bool {
	if t == nil {
		return false
	}
	s := types.TypeString(t, nil)
	return s == "*bytes.Buffer" || s == "*strings.Builder"
}

// privBufKey: the memory key of the text of a private in-memory buffer — a *bytes.Buffer /
// *strings.Builder that is a fresh allocation of this path, or a buffer-typed field (by value) of
// one (`sw := &sourceWriter{}; sw.buf.WriteString(..)`).
func privBufKey(t *T) (string, bool) {
	if t == nil || !isBufferPtr(t.Typ) {
		return "", false
	}
	switch t.Op {
	case "alloc":
		return "o" + strconv.Itoa(t.Obj) + "$text", true
	case "faddr":
		path := ""
		cur := t
		for cur.Op == "faddr" && len(cur.A) == 1 {
			path = "." + cur.Aux + path
			cur = cur.A[0]
		}
		if cur.Op == "alloc" {
			return "o" + strconv.Itoa(cur.Obj) + path + "$text", true
		}
	}
	return "", false
}

func isPrivBuf(t *T) bool {
	_, ok := privBufKey(t)
	return ok
}

func (s *pxState) bufAppend(buf *T, piece *T) {
	key, _ := privBufKey(buf)
	if old, ok := s.mem[key]; ok {
		s.mem[key] = &T{Op: "binop", Aux: "+", A: []*T{old, piece}, Typ: types.Typ[types.String]}
	} else {
		s.mem[key] = piece
	}
}

func (s *pxState) bufText(buf *T) *T {
	if k, ok := privBufKey(buf); ok {
		if v, ok := s.mem[k]; ok {
			return v
		}
	}
	return cStr("")
}

// PathFactsAt: the facts established before event e of path p.
func (p *PXPath) FactsAt(e Ev) Facts {
	f := Facts{}
	for i := 0; i < e.NF && i < len(p.Order); i++ {
		f[p.Order[i]] = p.Facts[p.Order[i]]
	}
	return f
}

func (s *pxState) clone() *pxState {
	n := &pxState{facts: Facts{}, mem: map[string]*T{}, heap: map[string]*T{}, visits: map[string]int{}, inst: s.inst, objs: s.objs, terms: map[string]*T{}}
	for k, v := range s.terms {
		n.terms[k] = v
	}
	for k, v := range s.facts {
		n.facts[k] = v
	}
	for k, v := range s.mem {
		n.mem[k] = v
	}
	for k, v := range s.heap {
		n.heap[k] = v
	}
	for k, v := range s.visits {
		n.visits[k] = v
	}
	n.events = append([]Ev{}, s.events...)
	n.trace = append([]string{}, s.trace...)
	n.order = append([]string{}, s.order...)
	return n
}

type pxFrame struct {
	id     int
	fn     *ssa.Function
	env    map[ssa.Value]*T
	args   []*T
	bind   []*T
	parent *pxFrame
	depth  int
}

type pxRun struct {
	c       *Ctx
	cfg     PXConfig
	paths   []*PXPath
	trunc   bool
	frameID int
	steps   int
	// coverage of exits: the functions executed (root and inlined), the return / panic instructions
	// some path reached, and whether a path was dropped at the iteration bound
	entered map[*ssa.Function]bool
	exits   map[ssa.Instruction]bool
	cut     bool
}

// Paths enumerates the feasible paths of fn.
// pxGlobalConst resolves a package-level variable of jen to the value of its read-only table
// initialiser (pathx_globals.go); set by Paths.
var pxGlobalConst func(name string) *T

// pxGlobalFieldConst resolves a never-reassigned field of a package-level struct variable to the
// value its initialiser gives it; set by Paths.
var pxGlobalFieldConst func(global, field string) *T

func globalNameOf(addr, base *T) string {
	if addr != nil && addr.Op == "gaddr" {
		return addr.Aux
	}
	if base != nil && base.Op == "global" {
		return base.Aux
	}
	return ""
}

// Paths enumerates the paths of fn under cfg. Loops are unrolled up to the iteration bound; paths that
// need more iterations are dropped. If that left an exit of an executed function unreached — a return
// that only a longer run of the loop gets to (`if len(x) < 3 { … }; for … { … }; return raw`) — the
// enumeration is repeated once with a larger bound and the richer result is kept.
func (c *Ctx) Paths(fn *ssa.Function, cfg PXConfig) ([]*PXPath, bool) {
	paths, trunc, r := c.paths1(fn, cfg)
	if trunc || !r.cut || cfg.NoRetry {
		return paths, trunc
	}
	miss := r.unreachedExits()
	if miss == 0 {
		return paths, trunc
	}
	cfg2 := cfg
	cfg2.MaxVisits = r.cfg.MaxVisits + 2
	paths2, trunc2, r2 := c.paths1(fn, cfg2)
	if !trunc2 && r2.unreachedExits() < miss {
		return paths2, trunc2
	}
	return paths, trunc
}

func (r *pxRun) unreachedExits() int {
	n := 0
	for f := range r.entered {
		for _, b := range f.Blocks {
			if len(b.Instrs) == 0 {
				continue
			}
			if ret, ok := b.Instrs[len(b.Instrs)-1].(*ssa.Return); ok && !r.exits[ret] {
				n++
			}
		}
	}
	return n
}

func (c *Ctx) paths1(fn *ssa.Function, cfg PXConfig) ([]*PXPath, bool, *pxRun) {
	pxGlobalConst = c.globalConst
	pxGlobalFieldConst = c.globalFieldConst
	if cfg.MaxDepth == 0 {
		cfg.MaxDepth = 3
	}
	if cfg.MaxVisits == 0 {
		cfg.MaxVisits = 3
	}
	if cfg.MaxPaths == 0 {
		cfg.MaxPaths = 20000
	}
	r := &pxRun{c: c, cfg: cfg, entered: map[*ssa.Function]bool{fn: true}, exits: map[ssa.Instruction]bool{}}
	inst, objs := 0, 0
	st := &pxState{facts: Facts{}, mem: map[string]*T{}, heap: map[string]*T{}, visits: map[string]int{}, inst: &inst, objs: &objs, terms: map[string]*T{}}
	for _, l := range cfg.Assume {
		st.facts[l.Atom] = l.Pol
		st.order = append(st.order, l.Atom)
	}
	fr := &pxFrame{id: 0, fn: fn, env: map[ssa.Value]*T{}}
	for i, p := range fn.Params {
		name := fmt.Sprintf("p%d", i)
		if fn.Signature.Recv() != nil {
			if i == 0 {
				name = "recv"
			} else {
				name = fmt.Sprintf("p%d", i-1)
			}
		}
		if i < len(cfg.Args) && cfg.Args[i] != nil {
			fr.args = append(fr.args, cfg.Args[i]) // evaluation with given (constant) arguments
			continue
		}
		fr.args = append(fr.args, &T{Op: "param", Aux: name, Typ: p.Type()})
	}
	r.block(st, fr, fn.Blocks[0], nil, func(st *pxState, _ *pxFrame, res []*T, end string) {
		r.paths = append(r.paths, &PXPath{Facts: st.facts, Mem: st.mem, Terms: st.terms, Order: st.order, Events: st.events, Ret: res, End: end, Trace: st.trace})
	})
	return r.paths, r.trunc, r
}

func (r *pxRun) over() bool {
	if len(r.paths) >= r.cfg.MaxPaths || r.steps > 40000000 {
		r.trunc = true
		return true
	}
	return false
}

// block executes block b of frame fr entered from pred.
func (r *pxRun) block(st *pxState, fr *pxFrame, b, pred *ssa.BasicBlock, done func(*pxState, *pxFrame, []*T, string)) {
	if r.over() {
		return
	}
	key := fmt.Sprintf("%d.%d", fr.id, b.Index)
	if st.visits[key] >= r.cfg.MaxVisits {
		// iterations whose loop condition was determined on this path are free
		bonus := 0
		pre := fmt.Sprintf("!%d.", fr.id)
		for k, n := range st.visits {
			if strings.HasPrefix(k, pre) {
				if hi, err := strconv.Atoi(k[len(pre):]); err == nil && hi < len(fr.fn.Blocks) && fr.fn.Blocks[hi].Dominates(b) {
					bonus += n
				}
			}
		}
		if st.visits[key] >= r.cfg.MaxVisits+bonus {
			r.cut = true
			return
		}
	}
	st.visits[key]++
	if fr.depth == 0 {
		st.trace = append(st.trace, strconv.Itoa(b.Index))
	}
	// phis: parallel assignment
	var phis []*ssa.Phi
	var vals []*T
	for _, in := range b.Instrs {
		phi, ok := in.(*ssa.Phi)
		if !ok {
			break
		}
		idx := -1
		for i, p := range b.Preds {
			if p == pred {
				idx = i
			}
		}
		if idx < 0 {
			vals = append(vals, &T{Op: "unknown", Aux: phi.Name(), Typ: phi.Type()})
		} else {
			vals = append(vals, r.val(st, fr, phi.Edges[idx]))
		}
		phis = append(phis, phi)
	}
	for i, phi := range phis {
		fr.env[phi] = vals[i]
	}
	r.instrs(st, fr, b, len(phis), done)
}

func (r *pxRun) instrs(st *pxState, fr *pxFrame, b *ssa.BasicBlock, from int, done func(*pxState, *pxFrame, []*T, string)) {
	for i := from; i < len(b.Instrs); i++ {
		r.steps++
		if _, dead := st.mem["#abort"]; dead {
			return
		}
		in := b.Instrs[i]
		switch x := in.(type) {
		case *ssa.DebugRef:
			continue
		case *ssa.If:
			cond := r.val(st, fr, x.Cond)
			r.branch(st, fr, b, cond, done)
			return
		case *ssa.Jump:
			r.block(st, fr, b.Succs[0], b, done)
			return
		case *ssa.Return:
			var res []*T
			for _, v := range x.Results {
				res = append(res, r.val(st, fr, v))
			}
			r.exits[in] = true
			done(st, fr, res, "return")
			return
		case *ssa.Panic:
			st.emit(Ev{Kind: "panic", In: in, Within: fr.fn, Args: []*T{r.val(st, fr, x.X)}, Depth: fr.depth})
			done(st, fr, nil, "panic")
			return
		case *ssa.Store:
			r.store(st, fr, r.val(st, fr, x.Addr), r.val(st, fr, x.Val), in)
		case *ssa.MapUpdate:
			m := r.val(st, fr, x.Map)
			if m.Op == "make" && isMapType(m.Typ) {
				st.mapSet(m, r.val(st, fr, x.Key), r.val(st, fr, x.Value))
				continue
			}
			st.emit(Ev{Kind: "mapupdate", In: in, Within: fr.fn, Recv: m, Args: []*T{r.val(st, fr, x.Key), r.val(st, fr, x.Value)}, Depth: fr.depth})
		case *ssa.RunDefers:
		case *ssa.Defer:
			st.emit(Ev{Kind: "defer", In: in, Within: fr.fn, Name: calleeName(x.Common()), Depth: fr.depth})
		case *ssa.Go:
			st.emit(Ev{Kind: "go", In: in, Within: fr.fn, Name: calleeName(x.Common()), Depth: fr.depth})
		case *ssa.Send:
			st.emit(Ev{Kind: "send", In: in, Within: fr.fn, Depth: fr.depth})
		case *ssa.Call:
			// may inline: continuation resumes after the call, in the (possibly forked) caller frame
			idx := i
			if r.call(st, fr, x, func(st2 *pxState, fr2 *pxFrame, res *T) {
				fr2.env[x] = res
				r.instrs(st2, fr2, b, idx+1, done)
			}) {
				return
			}
		case *ssa.TypeAssert:
			t := r.eval(st, fr, x)
			if !x.CommaOk {
				// an assertion that panics unless the dynamic type is the asserted one
				st.emit(Ev{Kind: "assert", Name: typeName(x.AssertedType), In: in, Within: fr.fn, Recv: t.A[0], Depth: fr.depth})
			}
			fr.env[x] = t
		default:
			if v, ok := in.(ssa.Value); ok {
				fr.env[v] = r.eval(st, fr, v)
			}
		}
	}
}

func (f *pxFrame) copy() *pxFrame {
	n := &pxFrame{id: f.id, fn: f.fn, env: map[ssa.Value]*T{}, args: f.args, bind: f.bind, depth: f.depth}
	for k, v := range f.env {
		n.env[k] = v
	}
	if f.parent != nil {
		n.parent = f.parent.copy()
	}
	return n
}

// substLens replaces len(X) by its value where the path has established it (a map range that ran to
// exhaustion has counted the map's entries) and re-folds the enclosing comparisons.
func (st *pxState) substLens(t *T) *T {
	if t == nil {
		return t
	}
	has := false
	for k := range st.mem {
		if strings.HasPrefix(k, "#len:") {
			has = true
			break
		}
	}
	if !has {
		return t
	}
	var walk func(t *T) *T
	walk = func(t *T) *T {
		switch t.Op {
		case "len":
			if n, ok := st.mem["#len:"+t.A[0].String()]; ok {
				return n
			}
		case "not":
			a := walk(t.A[0])
			if a != t.A[0] {
				if b, ok := a.boolVal(); ok {
					return cBool(!b)
				}
				return &T{Op: "not", A: []*T{a}, Typ: t.Typ}
			}
		case "binop":
			a, b := walk(t.A[0]), walk(t.A[1])
			if a != t.A[0] || b != t.A[1] {
				ops := map[string]token.Token{"+": token.ADD, "-": token.SUB, "*": token.MUL, "==": token.EQL, "!=": token.NEQ, "<": token.LSS, ">": token.GTR, "<=": token.LEQ, ">=": token.GEQ}
				if op, ok := ops[t.Aux]; ok {
					return foldBin(op, a, b, t.Typ)
				}
			}
		}
		return t
	}
	return walk(t)
}

func (r *pxRun) branch(st *pxState, fr *pxFrame, b *ssa.BasicBlock, cond *T, done func(*pxState, *pxFrame, []*T, string)) {
	cond = st.substLens(cond)
	cond = r.tokenTypeTest(st, cond)
	cond = r.zeroOptionCond(st, cond)
	if bv, ok := cond.boolVal(); ok {
		i := 1
		if bv {
			i = 0
		}
		// a decision that is determined on this path (e.g. the bound of a loop over a slice whose
		// elements are known) does not use up the unrolling budget of its block — up to a hard cap
		// … only for a loop header whose own condition is an index / counter comparison
		isHeader := false
		if iff, ok := b.Instrs[len(b.Instrs)-1].(*ssa.If); ok {
			if bo, ok := iff.Cond.(*ssa.BinOp); ok && (bo.Op == token.LSS || bo.Op == token.LEQ || bo.Op == token.GTR || bo.Op == token.GEQ || bo.Op == token.NEQ) {
				for _, p := range b.Preds {
					if b.Dominates(p) {
						isHeader = true
					}
				}
				// … and the condition is the loop's exit test: one of the two edges leaves the loop
				// (`for i := 0; ; i++ { if i > 0 {…} … }` tests the counter without bounding the loop)
				if isHeader && blockReaches(b.Succs[0], b) && blockReaches(b.Succs[1], b) {
					isHeader = false
				}
			}
		}
		capDet := 64
		if r.cfg.MaxDetermined > 0 {
			capDet = r.cfg.MaxDetermined
		}
		if hk := fmt.Sprintf("!%d.%d", fr.id, b.Index); isHeader && st.visits[hk] < capDet {
			st.visits[hk]++
		}
		r.block(st, fr, b.Succs[i], b, done)
		return
	}
	type alt struct {
		i    int
		lits []Lit
	}
	var alts []alt
	for i := 0; i < 2; i++ {
		ls := termLits(cond, i == 0)
		ok := true
		for _, l := range ls {
			if old, has := st.facts[l.Atom]; has && old != l.Pol {
				ok = false
			}
			if l.Pol && contradictsKnown(st.facts, l.Atom) {
				ok = false
			}
		}
		if ok && r.cfg.SkipErrEdges {
			for _, l := range ls {
				if !l.Pol && isErrNilAtom(cond, l) && !(r.cfg.KeepEdge != nil && r.cfg.KeepEdge(l)) {
					ok = false
				}
			}
		}
		if ok {
			alts = append(alts, alt{i, ls})
		}
	}
	for k, a := range alts {
		s2, f2 := st, fr
		if k < len(alts)-1 {
			s2, f2 = st.clone(), fr.copy()
		}
		infeasible := false
		for _, l := range a.lits {
			if _, had := s2.facts[l.Atom]; !had {
				s2.order = append(s2.order, l.Atom)
				s2.terms[l.Atom] = cond
			}
			s2.facts[l.Atom] = l.Pol
			// len(x) == c (or len(x)-k == c): the length is known from here on
			if xs, n, ok := lenEquation(cond, a.i == 0); ok && len(a.lits) == 1 {
				s2.mem["#len:"+xs] = cInt(n)
			}
			if !s2.refineLen(l) {
				infeasible = true
			}
			// a map range that has just run to exhaustion has counted the map's entries
			if !l.Pol {
				if rg := rangeOfNextAtom(cond); rg != nil && len(rg.A) == 1 && rg.A[0].Op != "make" && !s2.mapTouched(rg.A[0]) {
					m := 0
					for atom, pol := range s2.facts {
						if pol && atom != l.Atom {
							if r2 := rangeOfNextAtom(s2.terms[atom]); r2 != nil && r2.Inst == rg.Inst {
								m++
							}
						}
					}
					s2.mem["#len:"+rg.A[0].String()] = cInt(int64(m))
				}
			}
		}
		if infeasible {
			continue
		}
		r.block(s2, f2, b.Succs[a.i], b, done)
	}
}

// refineLen keeps integer bounds on len(x) from the comparisons of the path (c < len(x), x == "" …);
// when they meet the length is known, and every earlier fact about len(x) must agree with it —
// otherwise the path is infeasible (false is returned).
func (st *pxState) refineLen(l Lit) bool {
	var x string
	lo, hi := int64(-1), int64(-1)
	a := l.Atom
	switch {
	case strings.HasPrefix(a, "empty(") && strings.HasSuffix(a, ")"):
		x = a[6 : len(a)-1]
		if l.Pol {
			hi = 0
		} else {
			lo = 1
		}
	case strings.HasPrefix(a, "lt(") && strings.HasSuffix(a, "))"):
		body := a[3 : len(a)-1]
		if i := strings.Index(body, ",len("); i > 0 {
			if c, err := strconv.ParseInt(body[:i], 10, 64); err == nil {
				x = body[i+5 : len(body)-1]
				if l.Pol {
					lo = c + 1
				} else {
					hi = c
				}
			}
		}
	case strings.HasPrefix(a, "eq(") && strings.HasSuffix(a, "))") && strings.Contains(a, ",len("):
		// eq(C,len(X))
		body := a[3 : len(a)-1]
		if i := strings.Index(body, ",len("); i > 0 {
			if c, err := strconv.ParseInt(body[:i], 10, 64); err == nil {
				x = body[i+5 : len(body)-1]
				if l.Pol {
					lo, hi = c, c
				} else {
					// len(x) != c: only useful once the bounds have closed on c
					curLo, okLo := st.mem["#lo:"+x]
					curHi, okHi := st.mem["#hi:"+x]
					if okLo && okHi {
						a1, _ := curLo.intVal()
						b1, _ := curHi.intVal()
						if a1 == c && b1 == c {
							return false
						}
					}
					if kn, ok := st.mem["#len:"+x]; ok {
						if n, ok := kn.intVal(); ok && n == c {
							return false
						}
					}
					return true
				}
			}
		}
	case strings.HasPrefix(a, "lt(len("):
		body := a[3 : len(a)-1]
		if i := strings.LastIndex(body, "),"); i > 0 {
			if c, err := strconv.ParseInt(body[i+2:], 10, 64); err == nil {
				x = body[4:i]
				if l.Pol {
					hi = c - 1
				} else {
					lo = c
				}
			}
		}
	}
	if x == "" || (lo < 0 && hi < 0) {
		return true
	}
	get := func(k string, d int64) int64 {
		if v, ok := st.mem[k]; ok {
			if n, ok := v.intVal(); ok {
				return n
			}
		}
		return d
	}
	curLo, curHi := get("#lo:"+x, 0), get("#hi:"+x, 1<<40)
	if lo > curLo {
		curLo = lo
	}
	if hi >= 0 && hi < curHi {
		curHi = hi
	}
	st.mem["#lo:"+x], st.mem["#hi:"+x] = cInt(curLo), cInt(curHi)
	if curLo > curHi {
		return false
	}
	if kn, ok := st.mem["#len:"+x]; ok {
		if n, ok := kn.intVal(); ok && (n < curLo || n > curHi) {
			return false
		}
	}
	if curLo == curHi {
		st.mem["#len:"+x] = cInt(curLo)
		// every single-literal fact about len(x) must agree
		for atom, pol := range st.facts {
			if !strings.Contains(atom, "len("+x+")") {
				continue
			}
			t := st.terms[atom]
			if t == nil {
				continue
			}
			ls := termLits(t, true)
			if len(ls) != 1 || ls[0].Atom != atom {
				continue
			}
			truth := pol == ls[0].Pol
			if b, ok := st.substLens(t).boolVal(); ok && b != truth {
				return false
			}
		}
	}
	return true
}

// isErrNilAtom: the literal tests an error-typed call result against nil.
func isErrNilAtom(cond *T, l Lit) bool {
	var find func(t *T) bool
	find = func(t *T) bool {
		if t == nil {
			return false
		}
		if t.Op == "binop" && (t.Aux == "==" || t.Aux == "!=") && len(t.A) == 2 {
			for k := 0; k < 2; k++ {
				x, y := t.A[k], t.A[1-k]
				if y.Nil && !x.Nil && x.Typ != nil && isErrorType(x.Typ) {
					return true
				}
			}
		}
		if t.Op == "not" {
			return find(t.A[0])
		}
		return false
	}
	return strings.HasPrefix(l.Atom, "eq(") && find(cond)
}

// termLits decomposes a boolean term into literals (same normal forms as FnA.lits).
func termLits(t *T, pol bool) []Lit {
	switch t.Op {
	case "not":
		return termLits(t.A[0], !pol)
	case "const":
		return nil
	case "binop":
		l, r := t.A[0], t.A[1]
		switch t.Aux {
		case "==", "!=":
			p := pol
			if t.Aux == "!=" {
				p = !p
			}
			if s, ok := r.strVal(); ok && s == "" {
				return []Lit{{"empty(" + l.String() + ")", p}}
			}
			if s, ok := l.strVal(); ok && s == "" {
				return []Lit{{"empty(" + r.String() + ")", p}}
			}
			if n, ok := r.intVal(); ok && n == 0 && l.Op == "len" {
				return []Lit{{"empty(" + l.A[0].String() + ")", p}}
			}
			if n, ok := l.intVal(); ok && n == 0 && r.Op == "len" {
				return []Lit{{"empty(" + r.A[0].String() + ")", p}}
			}
			if b, ok := r.boolVal(); ok {
				return termLits(l, p == b)
			}
			if b, ok := l.boolVal(); ok {
				return termLits(r, p == b)
			}
			ls, rs := l.String(), r.String()
			if rs < ls {
				ls, rs = rs, ls
			}
			return []Lit{{"eq(" + ls + "," + rs + ")", p}}
		case "<", ">", "<=", ">=":
			p := pol
			switch t.Aux {
			case ">":
				l, r = r, l
			case "<=":
				l, r = r, l
				p = !p
			case ">=":
				p = !p
			}
			// n < len(x) - k  is  n+k < len(x);  len(x) - k < n  is  len(x) < n+k
			if r.Op == "binop" && r.Aux == "-" && len(r.A) == 2 && r.A[0].Op == "len" {
				if k, ok := r.A[1].intVal(); ok {
					if n, ok := l.intVal(); ok {
						l, r = cInt(n+k), r.A[0]
					}
				}
			}
			if l.Op == "binop" && l.Aux == "-" && len(l.A) == 2 && l.A[0].Op == "len" {
				if k, ok := l.A[1].intVal(); ok {
					if n, ok := r.intVal(); ok {
						l, r = l.A[0], cInt(n+k)
					}
				}
			}
			if n, ok := l.intVal(); ok && n == 0 && r.Op == "len" {
				return []Lit{{"empty(" + r.A[0].String() + ")", !p}}
			}
			if n, ok := r.intVal(); ok && n == 1 && l.Op == "len" {
				return []Lit{{"empty(" + l.A[0].String() + ")", p}}
			}
			// index tests: IndexByte(s, c) >= 0 etc. are left as lt atoms
			return []Lit{{"lt(" + l.String() + "," + r.String() + ")", p}}
		}
	}
	if t.Op == "has" && t.HasEl && !pol && len(t.A) == 2 {
		ls := []Lit{{t.String(), false}}
		for _, key := range t.Elems {
			ls = append(ls, Lit{eqAtom(t.A[1].String(), key.String()), false})
		}
		return ls
	}
	return []Lit{{t.String(), pol}}
}

func (r *pxRun) val(st *pxState, fr *pxFrame, v ssa.Value) *T {
	if t, ok := fr.env[v]; ok {
		return t
	}
	switch x := v.(type) {
	case *ssa.Const:
		if x.Value == nil {
			if _, isStruct := x.Type().Underlying().(*types.Struct); isStruct {
				return zeroTerm(x.Type()) // the zero value of a struct type
			}
			return &T{Op: "const", Nil: true, Typ: x.Type()}
		}
		return &T{Op: "const", C: x.Value, Typ: x.Type()}
	case *ssa.Parameter:
		for i, p := range fr.fn.Params {
			if p == x && i < len(fr.args) {
				return fr.args[i]
			}
		}
	case *ssa.FreeVar:
		for i, p := range fr.fn.FreeVars {
			if p == x && i < len(fr.bind) {
				return fr.bind[i]
			}
		}
		return &T{Op: "sym", Aux: "free:" + x.Name(), Typ: x.Type()}
	case *ssa.Global:
		return &T{Op: "gaddr", Aux: x.Name(), Typ: x.Type()}
	case *ssa.Function:
		return &T{Op: "func", Aux: fname(x), Fn: x, Typ: x.Type()}
	case *ssa.Builtin:
		return &T{Op: "sym", Aux: "builtin." + x.Name()}
	}
	t := r.eval(st, fr, v)
	fr.env[v] = t
	return t
}

func typeName(t types.Type) string { return types.TypeString(t, shortQual) }

func (r *pxRun) eval(st *pxState, fr *pxFrame, v ssa.Value) *T {
	switch x := v.(type) {
	case *ssa.Alloc:
		*st.objs++
		return &T{Op: "alloc", Obj: *st.objs, Typ: x.Type(), Aux: x.Comment}
	case *ssa.FieldAddr:
		return &T{Op: "faddr", A: []*T{r.val(st, fr, x.X)}, Aux: fieldName(x.X.Type(), x.Field), Typ: x.Type()}
	case *ssa.IndexAddr:
		base, idx := r.val(st, fr, x.X), r.val(st, fr, x.Index)
		// an element of a tail x[lo:] is element lo+i of x
		if base.Op == "slice" && len(base.A) == 3 && !base.HasEl {
			if lo, ok := base.A[1].intVal(); ok {
				if n, ok := idx.intVal(); ok {
					base, idx = base.A[0], cInt(lo+n)
				}
			}
		}
		if n, ok := idx.intVal(); ok && r.cfg.MaxIndex > 0 && int(n) >= r.cfg.MaxIndex && !base.HasEl && base.Op != "alloc" && base.Op != "make" {
			st.mem["#abort"] = cBool(true) // beyond the number of items this exploration looks at
		}
		if r.cfg.Bounds {
			st.emit(Ev{Kind: "index", In: x, Within: fr.fn, Args: []*T{r.val(st, fr, x.X), r.val(st, fr, x.Index)}, Depth: fr.depth})
		}
		return &T{Op: "iaddr", A: []*T{base, idx}, Typ: x.Type()}
	case *ssa.Field:
		return fieldOfTerm(r.val(st, fr, x.X), fieldName(x.X.Type(), x.Field), x.Type())
	case *ssa.Index:
		if r.cfg.Bounds {
			st.emit(Ev{Kind: "index", In: x, Within: fr.fn, Args: []*T{r.val(st, fr, x.X), r.val(st, fr, x.Index)}, Depth: fr.depth})
		}
		return indexTerm(r.val(st, fr, x.X), r.val(st, fr, x.Index), x.Type())
	case *ssa.Lookup:
		m, k := r.val(st, fr, x.X), r.val(st, fr, x.Index)
		if m.Op == "mapview" && len(m.A) == 1 {
			deleted := false
			dk := "mv" + strconv.Itoa(m.Inst) + "#del"
			if v, ok := st.mem[dk+"n"]; ok {
				y, _ := v.intVal()
				for j := 0; j < int(y); j++ {
					if d, ok := st.mem[dk+strconv.Itoa(j)]; ok && d.String() == k.String() {
						deleted = true
					}
				}
			}
			if !deleted {
				m = m.A[0]
			}
		}
		if r.cfg.Bounds {
			if bt, ok := x.X.Type().Underlying().(*types.Basic); ok && bt.Info()&types.IsString != 0 {
				st.emit(Ev{Kind: "index", In: x, Within: fr.fn, Args: []*T{m, k}, Depth: fr.depth})
			}
		}
		if m.Op == "constmap" && (k.isConst() || k.Op == "typeconst") {
			// a read-only table looked up with a key that is constant on this path
			var elemT types.Type
			if mt, ok := x.X.Type().Underlying().(*types.Map); ok {
				elemT = mt.Elem()
			}
			var hit *T
			for i := 0; i+1 < len(m.Elems); i += 2 {
				if m.Elems[i].String() == k.String() {
					hit = m.Elems[i+1]
				}
			}
			val := hit
			if val == nil {
				val = zeroTerm(elemT)
			}
			if x.CommaOk {
				return &T{Op: "tuple", A: []*T{val, cBool(hit != nil)}, Typ: x.Type()}
			}
			return val
		}
		if m.Op == "make" && isMapType(m.Typ) {
			if v, ok := st.mapGet(m, k); ok {
				if x.CommaOk {
					return &T{Op: "tuple", A: []*T{v, cBool(true)}, Typ: x.Type()}
				}
				return v
			}
			// a set kept as map[K]bool whose stored values are all true: m[k] is "k is present"
			if !x.CommaOk {
				if bt, ok := x.Type().Underlying().(*types.Basic); ok && bt.Kind() == types.Bool {
					es := st.mapEntries(m)
					allTrue := true
					for i := 1; i < len(es); i += 2 {
						if b, isB := es[i].boolVal(); !isB || !b {
							allTrue = false
						}
					}
					if len(es) == 0 {
						return cBool(false)
					}
					if allTrue {
						h := &T{Op: "has", A: []*T{m, k}, Typ: types.Typ[types.Bool], HasEl: true}
						for i := 0; i+1 < len(es); i += 2 {
							h.Elems = append(h.Elems, es[i])
						}
						return h
					}
				}
			}
			// a path-local map whose keys are all known (possibly symbolic): presence of k is "k
			// equals one of them"; absence refutes every one of those equalities
			if x.CommaOk {
				es := st.mapEntries(m)
				tt := x.Type().(*types.Tuple)
				val := &T{Op: "lookup", A: []*T{m, k}, Typ: tt.At(0).Type()}
				if len(es) == 0 {
					return &T{Op: "tuple", A: []*T{zeroTerm(tt.At(0).Type()), cBool(false)}, Typ: x.Type()}
				}
				h := &T{Op: "has", A: []*T{m, k}, Typ: types.Typ[types.Bool], HasEl: true}
				for i := 0; i+1 < len(es); i += 2 {
					h.Elems = append(h.Elems, es[i])
				}
				return &T{Op: "tuple", A: []*T{val, h}, Typ: x.Type()}
			}
		}
		// m[k] where k is the key the enclosing range over the same (unmodified, non-local) map yielded:
		// that is the range's own value
		if k.Op == "extract" && k.Aux == "1" && len(k.A) == 1 && k.A[0].Op == "next" && len(k.A[0].A) == 1 && k.A[0].A[0].Op == "range" &&
			len(k.A[0].A[0].A) == 1 && k.A[0].A[0].A[0].String() == m.String() && !st.mapTouched(m) {
			if tt, ok := k.A[0].Typ.(*types.Tuple); ok && tt.Len() == 3 {
				v := &T{Op: "extract", A: []*T{k.A[0]}, Aux: "2", Typ: tt.At(2).Type()}
				if x.CommaOk {
					return &T{Op: "tuple", A: []*T{v, cBool(true)}, Typ: x.Type()}
				}
				return v
			}
		}
		val := &T{Op: "lookup", A: []*T{m, k}, Typ: x.Type()}
		if x.CommaOk {
			tt := x.Type().(*types.Tuple)
			val.Typ = tt.At(0).Type()
			return &T{Op: "tuple", A: []*T{val, {Op: "has", A: []*T{m, k}, Typ: types.Typ[types.Bool]}}, Typ: x.Type()}
		}
		return val
	case *ssa.UnOp:
		a := r.val(st, fr, x.X)
		switch x.Op {
		case token.MUL:
			return r.load(st, a, x.Type())
		case token.NOT:
			if b, ok := a.boolVal(); ok {
				return cBool(!b)
			}
			return &T{Op: "not", A: []*T{a}, Typ: x.Type()}
		case token.SUB:
			if n, ok := a.intVal(); ok {
				return cInt(-n)
			}
			return &T{Op: "neg", A: []*T{a}, Typ: x.Type()}
		}
		return &T{Op: "unknown", Aux: x.Name(), Typ: x.Type()}
	case *ssa.BinOp:
		return foldBin(x.Op, r.val(st, fr, x.X), r.val(st, fr, x.Y), x.Type())
	case *ssa.Convert:
		return convTerm(r.val(st, fr, x.X), x.Type())
	case *ssa.ChangeType:
		return r.val(st, fr, x.X)
	case *ssa.ChangeInterface:
		return r.val(st, fr, x.X)
	case *ssa.MakeInterface:
		return r.val(st, fr, x.X)
	case *ssa.SliceToArrayPointer:
		return r.val(st, fr, x.X)
	case *ssa.Extract:
		tu := r.val(st, fr, x.Tuple)
		if tu.Op == "tuple" && x.Index < len(tu.A) {
			return tu.A[x.Index]
		}
		var typ types.Type
		if tt, ok := x.Tuple.Type().(*types.Tuple); ok && x.Index < tt.Len() {
			typ = tt.At(x.Index).Type()
		}
		return &T{Op: "extract", A: []*T{tu}, Aux: strconv.Itoa(x.Index), Typ: typ}
	case *ssa.TypeAssert:
		a := r.val(st, fr, x.X)
		tn := typeName(x.AssertedType)
		val := &T{Op: "assert", A: []*T{a}, Aux: tn, Typ: x.AssertedType}
		if types.IsInterface(x.AssertedType) {
			// an assertion to another interface type yields the same value (w.(io.StringWriter) is w)
			val = a
		} else if a.Typ != nil && !types.IsInterface(a.Typ) && a.Op != "const" {
			// the operand is a value of known concrete type boxed into an interface (a receiver
			// handed to a helper that takes Code): the test is decided by that type
			same := types.Identical(a.Typ, x.AssertedType)
			if same {
				val = a
			}
			if x.CommaOk {
				return &T{Op: "tuple", A: []*T{val, cBool(same)}, Typ: x.Type()}
			}
			if same {
				return val
			}
		}
		if x.CommaOk {
			return &T{Op: "tuple", A: []*T{val, {Op: "is", A: []*T{a}, Aux: tn, Typ: types.Typ[types.Bool]}}, Typ: x.Type()}
		}
		return val
	case *ssa.Slice:
		base := r.val(st, fr, x.X)
		if r.cfg.Bounds {
			var lo, hi *T
			if x.Low != nil {
				lo = r.val(st, fr, x.Low)
			}
			if x.High != nil {
				hi = r.val(st, fr, x.High)
			}
			st.emit(Ev{Kind: "slice", In: x, Within: fr.fn, Args: []*T{base, lo, hi}, Depth: fr.depth})
		}
		// slice of a local array: capture its elements
		if base.Op == "alloc" {
			if arr, ok := x.X.Type().Underlying().(*types.Pointer).Elem().Underlying().(*types.Array); ok {
				from, to, known := int64(0), arr.Len(), true
				if x.Low != nil {
					if n, ok := r.val(st, fr, x.Low).intVal(); ok {
						from = n
					} else {
						known = false
					}
				}
				if x.High != nil {
					if n, ok := r.val(st, fr, x.High).intVal(); ok {
						to = n
					} else {
						known = false
					}
				}
				if known && 0 <= from && from <= to && to <= arr.Len() {
					t := &T{Op: "elems", HasEl: true, Typ: x.Type()}
					for i := from; i < to; i++ {
						key := fmt.Sprintf("o%d[%d]", base.Obj, i)
						if e, ok := st.mem[key]; ok {
							t.Elems = append(t.Elems, e)
						} else {
							t.Elems = append(t.Elems, zeroTerm(arr.Elem()))
						}
					}
					return t
				}
			}
			if arr, ok := x.X.Type().Underlying().(*types.Pointer).Elem().Underlying().(*types.Array); ok && x.Low == nil && x.High == nil {
				t := &T{Op: "elems", HasEl: true, Typ: x.Type()}
				for i := int64(0); i < arr.Len(); i++ {
					key := fmt.Sprintf("o%d[%d]", base.Obj, i)
					if e, ok := st.mem[key]; ok {
						t.Elems = append(t.Elems, e)
					} else {
						t.Elems = append(t.Elems, zeroTerm(arr.Elem()))
					}
				}
				return t
			}
		}
		lo, hi := cInt(0), &T{Op: "sym", Aux: ""}
		if x.Low != nil {
			lo = r.val(st, fr, x.Low)
		}
		if x.High != nil {
			hi = r.val(st, fr, x.High)
		}
		if x.Low == nil && x.High == nil {
			return base
		}
		if l, ok := lo.intVal(); ok && l == 0 && x.High == nil {
			return base // x[0:]
		}
		if h, ok := hi.intVal(); ok && h == 0 && x.High != nil {
			return &T{Op: "elems", HasEl: true, Typ: x.Type()} // x[:0]: an empty slice
		}
		if base.Op == "elems" && base.HasEl {
			// a slice of a slice whose elements are known, with known bounds
			l, ok1 := lo.intVal()
			h, ok2 := hi.intVal()
			if x.High == nil {
				h, ok2 = int64(len(base.Elems)), true
			}
			if ok1 && ok2 && 0 <= l && l <= h && int(h) <= len(base.Elems) {
				return &T{Op: "elems", HasEl: true, Elems: append([]*T{}, base.Elems[l:h]...), Typ: x.Type()}
			}
		}
		if s, ok := base.strVal(); ok {
			l, ok1 := lo.intVal()
			h, ok2 := hi.intVal()
			if ok1 && x.High == nil && int(l) <= len(s) {
				return cStr(s[l:])
			}
			if ok1 && ok2 && l <= h && int(h) <= len(s) {
				return cStr(s[l:h])
			}
		}
		return &T{Op: "slice", A: []*T{base, lo, hi}, Typ: x.Type()}
	case *ssa.MakeMap, *ssa.MakeSlice, *ssa.MakeChan:
		*st.inst++
		t := &T{Op: "make", Inst: *st.inst, Typ: x.Type()}
		if ms, ok := x.(*ssa.MakeSlice); ok {
			l := r.val(st, fr, ms.Len)
			if n, ok := l.intVal(); ok && n == 0 {
				t.HasEl = true
			} else if ok && n > 0 && n <= 64 {
				// a slice of known length: its (zero) elements, to be overwritten slot by slot
				el := &T{Op: "elems", HasEl: true, Typ: x.Type()}
				if sl, isS := x.Type().Underlying().(*types.Slice); isS {
					for i := int64(0); i < n; i++ {
						el.Elems = append(el.Elems, zeroTerm(sl.Elem()))
					}
					return el
				}
			} else {
				t.A = []*T{l} // a slice of (possibly symbolic) length whose elements are stored one by one
			}
		}
		return t
	case *ssa.MakeClosure:
		fn := x.Fn.(*ssa.Function)
		t := &T{Op: "closure", Aux: fname(fn), Fn: fn, Typ: x.Type()}
		for _, b := range x.Bindings {
			t.Bind = append(t.Bind, r.val(st, fr, b))
		}
		return t
	case *ssa.Range:
		*st.inst++
		over := r.val(st, fr, x.X)
		var view *T
		if over.Op == "mapview" && len(over.A) == 1 {
			view, over = over, over.A[0]
		}
		rt := &T{Op: "range", A: []*T{over}, Inst: *st.inst, Typ: x.Type()}
		if view != nil {
			st.mem["r"+strconv.Itoa(rt.Inst)+"#view"] = view
		}
		if over.Op == "make" && isMapType(over.Typ) {
			// a path-local map: iterate the entries it has now (in insertion order, as a canonical order)
			rt.HasEl = true
			rt.Elems = st.mapEntries(over)
		}
		return rt
	case *ssa.Next:
		*st.inst++
		it := r.val(st, fr, x.Iter)
		if it.Op == "range" && it.HasEl {
			key := "r" + strconv.Itoa(it.Inst) + "#i"
			i := 0
			if v, ok := st.mem[key]; ok {
				n, _ := v.intVal()
				i = int(n)
			}
			st.mem[key] = cInt(int64(i + 1))
			tt := x.Type().(*types.Tuple)
			if 2*i+1 < len(it.Elems) {
				return &T{Op: "tuple", A: []*T{cBool(true), it.Elems[2*i], it.Elems[2*i+1]}, Typ: x.Type()}
			}
			return &T{Op: "tuple", A: []*T{cBool(false), zeroTerm(tt.At(1).Type()), zeroTerm(tt.At(2).Type())}, Typ: x.Type()}
		}
		n := &T{Op: "next", A: []*T{it}, Inst: *st.inst, Typ: x.Type()}
		tt := x.Type().(*types.Tuple)
		tu := &T{Op: "tuple", Typ: x.Type()}
		for i := 0; i < tt.Len(); i++ {
			tu.A = append(tu.A, &T{Op: "extract", A: []*T{n}, Aux: strconv.Itoa(i), Typ: tt.At(i).Type()})
		}
		// ranging over a clone from which keys were deleted: an entry that is yielded has none of them
		if it.Op == "range" {
			if view, ok := st.mem["r"+strconv.Itoa(it.Inst)+"#view"]; ok && tt.Len() >= 2 {
				dk := "mv" + strconv.Itoa(view.Inst) + "#del"
				nd := 0
				if v, ok := st.mem[dk+"n"]; ok {
					y, _ := v.intVal()
					nd = int(y)
				}
				for j := 0; j < nd; j++ {
					if d, ok := st.mem[dk+strconv.Itoa(j)]; ok {
						atom := eqAtom(d.String(), tu.A[1].String())
						if _, had := st.facts[atom]; !had {
							st.order = append(st.order, atom)
						}
						st.facts[atom] = false
					}
				}
			}
		}
		return tu
	case *ssa.Phi:
		return &T{Op: "unknown", Aux: "phi:" + x.Name(), Typ: x.Type()}
	case *ssa.Select:
		return &T{Op: "unknown", Aux: "select", Typ: x.Type()}
	}
	return &T{Op: "unknown", Aux: v.Name(), Typ: v.Type()}
}

func zeroTerm(t types.Type) *T {
	switch u := t.Underlying().(type) {
	case *types.Basic:
		switch {
		case u.Info()&types.IsString != 0:
			return &T{Op: "const", C: constant.MakeString(""), Typ: t}
		case u.Info()&types.IsBoolean != 0:
			return &T{Op: "const", C: constant.MakeBool(false), Typ: t}
		case u.Info()&types.IsInteger != 0:
			return &T{Op: "const", C: constant.MakeInt64(0), Typ: t}
		}
	case *types.Pointer, *types.Slice, *types.Map, *types.Interface, *types.Signature, *types.Chan:
		return &T{Op: "const", Nil: true, Typ: t}
	case *types.Struct:
		return &T{Op: "struct", Fields: map[string]*T{}, Typ: t, Aux: typeName(t)}
	}
	return &T{Op: "zero", Aux: typeName(t), Typ: t}
}

func convTerm(a *T, to types.Type) *T {
	// string(byte slice) / []byte(string) / numeric conversions: value-transparent for our purposes,
	// except that constants keep their value under the new type
	if a.isConst() {
		return &T{Op: "const", C: a.C, Typ: to}
	}
	// a numeric conversion that does not keep every value (narrowing, a change of signedness that
	// can wrap, float → int, a wide integer → float, float64 → float32) is a computation of its own
	// … unless it undoes the conversion before it: intN → uintM → intK (or uintN → intM → uintK)
	// with N ≤ K ≤ M reinterprets the same bits twice and yields the original value
	if a.Op == "call" && strings.HasPrefix(a.Aux, "conv<") && len(a.A) == 1 && a.A[0].Typ != nil && a.Typ != nil {
		if xb, ok1 := a.A[0].Typ.Underlying().(*types.Basic); ok1 {
			if ub, ok2 := a.Typ.Underlying().(*types.Basic); ok2 {
				if tb, ok3 := to.Underlying().(*types.Basic); ok3 && xb.Info()&types.IsInteger != 0 && ub.Info()&types.IsInteger != 0 && tb.Info()&types.IsInteger != 0 {
					xu, uu, tu := xb.Info()&types.IsUnsigned != 0, ub.Info()&types.IsUnsigned != 0, tb.Info()&types.IsUnsigned != 0
					n, m, k := intBits(xb), intBits(ub), intBits(tb)
					if xu == tu && xu != uu && n <= k && k <= m {
						return a.A[0]
					}
				}
			}
		}
	}
	// string(r) of an integer is the text of a code point, a value of another kind altogether
	if a.Typ != nil {
		if fb, ok := a.Typ.Underlying().(*types.Basic); ok && fb.Info()&types.IsInteger != 0 {
			if tb, ok := to.Underlying().(*types.Basic); ok && tb.Info()&types.IsString != 0 {
				return &T{Op: "call", Aux: "conv<string>", A: []*T{a}, Typ: to}
			}
		}
	}
	if a.Typ != nil && lossyNumericConv(a.Typ, to) {
		return &T{Op: "call", Aux: "conv<" + types.TypeString(to, nil) + ">", A: []*T{a}, Typ: to}
	}
	return a
}

func lossyNumericConv(from, to types.Type) bool {
	fb, ok1 := from.Underlying().(*types.Basic)
	tb, ok2 := to.Underlying().(*types.Basic)
	if !ok1 || !ok2 || fb.Info()&types.IsNumeric == 0 || tb.Info()&types.IsNumeric == 0 {
		return false
	}
	size := func(b *types.Basic) int {
		switch b.Kind() {
		case types.Int8, types.Uint8:
			return 8
		case types.Int16, types.Uint16:
			return 16
		case types.Int32, types.Uint32, types.Float32:
			return 32
		case types.Complex64:
			return 32 // per part
		}
		return 64
	}
	fi, ti := fb.Info(), tb.Info()
	switch {
	case fi&types.IsInteger != 0 && ti&types.IsInteger != 0:
		fu, tu := fi&types.IsUnsigned != 0, ti&types.IsUnsigned != 0
		switch {
		case fu == tu:
			return size(tb) < size(fb)
		case fu && !tu:
			return size(tb) <= size(fb)
		default: // signed → unsigned: negative values wrap
			return true
		}
	case fi&types.IsInteger != 0 && ti&types.IsFloat != 0:
		mant := 53
		if size(tb) == 32 {
			mant = 24
		}
		return size(fb) > mant
	case fi&types.IsFloat != 0 && ti&types.IsInteger != 0:
		return true
	case fi&types.IsFloat != 0 && ti&types.IsFloat != 0, fi&types.IsComplex != 0 && ti&types.IsComplex != 0:
		return size(tb) < size(fb)
	}
	return false
}

func fieldOfTerm(x *T, f string, typ types.Type) *T {
	if x.Op == "struct" {
		if v, ok := x.Fields[f]; ok {
			return v
		}
		return zeroTerm(typ)
	}
	return &T{Op: "field", A: []*T{x}, Aux: f, Typ: typ}
}

func indexTerm(x, i *T, typ types.Type) *T {
	// an element of a tail x[lo:] (or x[lo:hi]) with constant lo is element lo+i of x
	if x.Op == "slice" && len(x.A) == 3 && !x.HasEl {
		if lo, ok := x.A[1].intVal(); ok {
			if n, ok := i.intVal(); ok {
				return indexTerm(x.A[0], cInt(lo+n), typ)
			}
		}
	}
	if x.HasEl {
		if n, ok := i.intVal(); ok && int(n) < len(x.Elems) && n >= 0 {
			return x.Elems[n]
		}
	}
	if s, ok := x.strVal(); ok {
		if n, ok := i.intVal(); ok && n >= 0 && int(n) < len(s) {
			return &T{Op: "const", C: constant.MakeInt64(int64(s[n])), Typ: typ}
		}
	}
	return &T{Op: "index", A: []*T{x, i}, Typ: typ}
}

func foldBin(op token.Token, a, b *T, typ types.Type) *T {
	if a.isConst() && b.isConst() {
		switch op {
		case token.ADD, token.SUB, token.MUL, token.QUO, token.REM, token.AND, token.OR, token.XOR:
			if a.C.Kind() == b.C.Kind() && (a.C.Kind() == constant.Int || a.C.Kind() == constant.String && op == token.ADD) {
				if op == token.QUO {
					if n, _ := b.intVal(); n == 0 {
						break
					}
					op = token.QUO_ASSIGN // integer division
				}
				return &T{Op: "const", C: constant.BinaryOp(a.C, op, b.C), Typ: typ}
			}
		case token.EQL, token.NEQ, token.LSS, token.GTR, token.LEQ, token.GEQ:
			if a.C.Kind() == b.C.Kind() {
				return cBool(constant.Compare(a.C, op, b.C))
			}
		}
	}
	if a.Nil && b.Nil {
		switch op {
		case token.EQL:
			return cBool(true)
		case token.NEQ:
			return cBool(false)
		}
	}
	// comparing a fresh allocation / known non-nil value with nil
	if (op == token.EQL || op == token.NEQ) && (a.Nil || b.Nil) {
		o := a
		if a.Nil {
			o = b
		}
		if o.Op == "alloc" || o.Op == "make" || o.Op == "closure" || o.Op == "func" || o.isConst() || (o.Op == "call" && (o.Aux == "fmt.Errorf" || o.Aux == "errors.New")) || o.Op == "struct" {
			return cBool(op == token.NEQ)
		}
	}
	// emptiness of a text with a known non-empty literal part
	if op == token.EQL || op == token.NEQ || op == token.GTR || op == token.LSS || op == token.LEQ || op == token.GEQ {
		var x *T
		if s, ok := b.strVal(); ok && s == "" {
			x = a
		} else if s, ok := a.strVal(); ok && s == "" {
			x = b
		}
		if x != nil && knownNonEmpty(x) && (op == token.EQL || op == token.NEQ) {
			return cBool(op == token.NEQ)
		}
		// len(x) <op> 0 / 0 <op> len(x)
		if a.Op == "len" && knownNonEmpty(a.A[0]) {
			if n, ok := b.intVal(); ok && n == 0 {
				switch op {
				case token.EQL, token.LEQ, token.LSS:
					return cBool(false)
				case token.NEQ, token.GTR, token.GEQ:
					return cBool(true)
				}
			}
		}
		if b.Op == "len" && knownNonEmpty(b.A[0]) {
			if n, ok := a.intVal(); ok && n == 0 {
				switch op {
				case token.EQL, token.GEQ, token.GTR:
					return cBool(false)
				case token.NEQ, token.LSS, token.LEQ:
					return cBool(true)
				}
			}
		}
	}
	// x + "" / "" + x
	if op == token.ADD {
		if s, ok := a.strVal(); ok && s == "" {
			return b
		}
		if s, ok := b.strVal(); ok && s == "" {
			return a
		}
	}
	// identical pure terms
	if (op == token.EQL || op == token.NEQ) && a.String() == b.String() && !strings.Contains(a.String(), "?") {
		if bt, ok := a.Typ.Underlying().(*types.Basic); ok && bt.Info()&types.IsFloat == 0 {
			return cBool(op == token.EQL)
		}
	}
	return &T{Op: "binop", Aux: op.String(), A: []*T{a, b}, Typ: typ}
}

// ---- memory

// addrKey: key of a local address (rooted at an alloc), or "" if not local.
func addrKey(a *T) string {
	switch a.Op {
	case "alloc":
		return "o" + strconv.Itoa(a.Obj)
	case "make":
		if len(a.A) == 1 && !isMapType(a.Typ) {
			return "s" + strconv.Itoa(a.Inst)
		}
	case "faddr":
		if k := addrKey(a.A[0]); k != "" {
			return k + "." + a.Aux
		}
	case "iaddr":
		if k := addrKey(a.A[0]); k != "" {
			return k + "[" + a.A[1].String() + "]"
		}
	}
	return ""
}

// loadTerm: the symbolic value read through a non-local address.
func loadTerm(a *T, typ types.Type) *T {
	switch a.Op {
	case "faddr":
		base := loadBase(a.A[0])
		// a field of a package-level struct (or pointer to one) that nothing stores to after the
		// variable's initialiser: the value the initialiser gave it
		if gn := globalNameOf(a.A[0], base); gn != "" && pxGlobalFieldConst != nil {
			if t := pxGlobalFieldConst(gn, a.Aux); t != nil {
				return t
			}
		}
		return fieldOfTerm(base, a.Aux, typ)
	case "iaddr":
		base := a.A[0]
		if base.Op == "faddr" || base.Op == "iaddr" || base.Op == "gaddr" || base.Op == "alloc" {
			base = loadBase(base)
		}
		return indexTerm(base, a.A[1], typ)
	case "gaddr":
		if pxGlobalConst != nil {
			if t := pxGlobalConst(a.Aux); t != nil {
				return t
			}
		}
		return &T{Op: "global", Aux: a.Aux, Typ: typ}
	}
	return &T{Op: "deref", A: []*T{a}, Typ: typ}
}

// loadBase: the object a pointer-typed address term designates (pointer and pointee share a name).
func loadBase(a *T) *T {
	switch a.Op {
	case "faddr", "iaddr", "gaddr":
		return loadTerm(a, nil)
	}
	return a
}

func (r *pxRun) load(st *pxState, a *T, typ types.Type) *T {
	if k := addrKey(a); k != "" {
		if v, ok := st.mem[k]; ok {
			return v
		}
		// an ancestor holding a whole value
		for p := k; ; {
			i := strings.LastIndexAny(p, ".[")
			if i < 0 {
				break
			}
			rest := k[i:]
			p = p[:i]
			if v, ok := st.mem[p]; ok {
				return projectTerm(v, rest, typ)
			}
		}
		// components stored individually: assemble a struct value
		if stt, ok := typ.Underlying().(*types.Struct); ok {
			t := &T{Op: "struct", Fields: map[string]*T{}, Typ: typ, Aux: typeName(typ)}
			for i := 0; i < stt.NumFields(); i++ {
				fn := stt.Field(i).Name()
				if v, ok := st.mem[k+"."+fn]; ok {
					t.Fields[fn] = v
				} else {
					t.Fields[fn] = zeroTerm(stt.Field(i).Type())
				}
			}
			return t
		}
		return zeroTerm(typ)
	}
	lt := loadTerm(a, typ)
	if v, ok := st.heap[lt.String()]; ok {
		return v
	}
	return lt
}

func projectTerm(v *T, path string, typ types.Type) *T {
	for path != "" {
		switch path[0] {
		case '.':
			j := strings.IndexAny(path[1:], ".[")
			name := path[1:]
			if j >= 0 {
				name = path[1 : j+1]
				path = path[j+1:]
			} else {
				path = ""
			}
			v = fieldOfTerm(v, name, typ)
		case '[':
			j := strings.Index(path, "]")
			idx := path[1:j]
			path = path[j+1:]
			if n, err := strconv.Atoi(idx); err == nil {
				v = indexTerm(v, cInt(int64(n)), typ)
			} else {
				v = &T{Op: "index", A: []*T{v, {Op: "sym", Aux: idx}}, Typ: typ}
			}
		default:
			return &T{Op: "unknown", Aux: "proj"}
		}
	}
	return v
}

func (r *pxRun) store(st *pxState, fr *pxFrame, a, v *T, in ssa.Instruction) {
	// element store into a slice whose elements are known on this path: every reference to that
	// slice value held by the frames / memory of this path sees the new element
	if a.Op == "iaddr" && a.A[0].Op == "elems" && a.A[0].HasEl {
		if n, ok := a.A[1].intVal(); ok && n >= 0 && int(n) < len(a.A[0].Elems) {
			old := a.A[0]
			nw := &T{Op: "elems", HasEl: true, Typ: old.Typ, Elems: append([]*T{}, old.Elems...)}
			nw.Elems[n] = v
			for f := fr; f != nil; f = f.parent {
				for k, t := range f.env {
					if t == old {
						f.env[k] = nw
					}
				}
				for i, t := range f.args {
					if t == old {
						f.args = append([]*T{}, f.args...)
						f.args[i] = nw
					}
				}
			}
			for k, t := range st.mem {
				if t == old {
					st.mem[k] = nw
				}
			}
			return
		}
	}
	if k := addrKey(a); k != "" {
		for key := range st.mem {
			if strings.HasPrefix(key, k+".") || strings.HasPrefix(key, k+"[") {
				delete(st.mem, key)
			}
		}
		// a field of an object that is held as one whole struct value: update that value
		if i := strings.LastIndex(k, "."); i > 0 && !strings.Contains(k[i:], "[") {
			if whole, ok := st.mem[k[:i]]; ok && whole.Op != "struct" && whole.Typ != nil {
				// a symbolic struct value: open it up into its fields
				if stt, isS := whole.Typ.Underlying().(*types.Struct); isS {
					ex := &T{Op: "struct", Fields: map[string]*T{}, Typ: whole.Typ, Aux: typeName(whole.Typ)}
					for j := 0; j < stt.NumFields(); j++ {
						ex.Fields[stt.Field(j).Name()] = fieldOfTerm(whole, stt.Field(j).Name(), stt.Field(j).Type())
					}
					st.mem[k[:i]] = ex
				}
			}
			if whole, ok := st.mem[k[:i]]; ok && whole.Op == "struct" {
				nw := &T{Op: "struct", Fields: map[string]*T{}, Typ: whole.Typ, Aux: whole.Aux}
				for fk, fv := range whole.Fields {
					nw.Fields[fk] = fv
				}
				nw.Fields[k[i+1:]] = v
				st.mem[k[:i]] = nw
				return
			}
		}
		st.mem[k] = v
		return
	}
	lt := loadTerm(a, v.Typ)
	st.heap[lt.String()] = v
	st.emit(Ev{Kind: "store", In: in, Within: fr.fn, Recv: lt, Args: []*T{v}, Depth: fr.depth})
}

// ---- calls

var pxPure = map[string]bool{"fmt.Sprintf": true, "fmt.Sprint": true, "fmt.Errorf": true, "errors.New": true, "fmt.Appendf": true, "fmt.Append": true, "reflect.TypeOf": true}

func pxPureCallee(sc *ssa.Function) bool {
	if sc == nil {
		return false
	}
	pk := ""
	pk = pkgPathOf(sc)
	n := sc.String()
	return pxPure[n] || purePkgs[pk] || pk == "unicode" || pk == "unicode/utf8" ||
		n == "(*bytes.Buffer).Bytes" || n == "(*bytes.Buffer).String" || n == "(*bytes.Buffer).Len" || n == "(*strings.Builder).String" || n == "(*strings.Builder).Len"
}

// call evaluates a call; returns true if control continues through the continuation k (inlined
// callee with several paths), false if the result was bound directly and execution goes on.
func (r *pxRun) call(st *pxState, fr *pxFrame, x *ssa.Call, k func(*pxState, *pxFrame, *T)) bool {
	cc := &x.Call
	var args []*T
	for _, a := range cc.Args {
		args = append(args, r.val(st, fr, a))
	}
	resTyp := x.Type()
	bind := func(t *T) bool { fr.env[x] = t; return false }
	// fmt prints an operand that has a String method through that method: a value of a module type
	// handed to Fprintf / Sprintf / Fprint … is replaced by what its String method returns (evaluated
	// like a helper of the module, once per operand; the call is then taken up again)
	if sc := cc.StaticCallee(); sc != nil && sc.Pkg != nil && sc.Pkg.Pkg.Path() == "fmt" && fr.depth < r.cfg.MaxDepth+1 {
		for ai, a := range args {
			if !a.HasEl {
				continue
			}
			for ei, el := range a.Elems {
				if el == nil || el.Typ == nil || el.isConst() {
					continue
				}
				key := "#str:" + el.String()
				if sv, ok := st.mem[key]; ok {
					na := *a
					na.Elems = append([]*T{}, a.Elems...)
					na.Elems[ei] = sv
					args[ai] = &na
					a = &na
					continue
				}
				sm := stringerOf(r.c, el.Typ)
				if sm == nil {
					continue
				}
				elv := el
				return r.inlineCall(st, fr, x, sm, nil, []*T{elv}, types.Typ[types.String], func(st2 *pxState, fr2 *pxFrame, res *T) {
					st2.mem["#str:"+elv.String()] = res
					delete(fr2.env, x)
					if !r.call(st2, fr2, x, k) {
						k(st2, fr2, fr2.env[x])
					}
				})
			}
		}
	}
	if bi, ok := cc.Value.(*ssa.Builtin); ok {
		switch bi.Name() {
		case "len":
			a := args[0]
			if s, ok := a.strVal(); ok {
				return bind(cInt(int64(len(s))))
			}
			if a.HasEl {
				return bind(cInt(int64(len(a.Elems))))
			}
			if a.Nil {
				return bind(cInt(0))
			}
			if a.Op == "make" && isMapType(a.Typ) {
				return bind(cInt(int64(len(st.mapEntries(a)) / 2)))
			}
			if a.Op == "make" && len(a.A) == 1 {
				return bind(a.A[0])
			}
			if n, ok := st.mem["#len:"+a.String()]; ok {
				return bind(n)
			}
			// the length of a tail x[lo:] with constant lo is len(x) - lo
			if a.Op == "slice" && len(a.A) == 3 && a.A[2].Op == "sym" {
				if lo, ok := a.A[1].intVal(); ok && lo > 0 {
					var base *T
					if n, ok := st.mem["#len:"+a.A[0].String()]; ok {
						base = n
					} else {
						base = &T{Op: "len", A: []*T{a.A[0]}, Typ: resTyp}
					}
					return bind(foldBin(token.SUB, base, cInt(lo), resTyp))
				}
			}
			return bind(&T{Op: "len", A: []*T{a}, Typ: resTyp})
		case "append":
			base := args[0]
			if len(args) == 2 && (base.Nil || base.HasEl) && args[1].HasEl {
				t := &T{Op: "elems", HasEl: true, Typ: resTyp}
				t.Elems = append(append([]*T{}, base.Elems...), args[1].Elems...)
				return bind(t)
			}
			if len(args) == 2 && args[1].Nil {
				return bind(base)
			}
			// append(append(x, a...), b...) is append(x, a..., b...)
			if len(args) == 2 && base.Op == "append" && len(base.A) == 2 && base.A[1].HasEl && args[1].HasEl {
				el := &T{Op: "elems", HasEl: true, Typ: args[1].Typ, Elems: append(append([]*T{}, base.A[1].Elems...), args[1].Elems...)}
				return bind(&T{Op: "append", A: []*T{base.A[0], el}, Typ: resTyp})
			}
			return bind(&T{Op: "append", A: args, Typ: resTyp})
		case "cap":
			return bind(&T{Op: "call", Aux: "cap", A: args, Typ: resTyp})
		case "delete":
			if args[0].Op == "make" && isMapType(args[0].Typ) {
				st.mapDel(args[0], args[1])
				return bind(&T{Op: "tuple", Typ: resTyp})
			}
			if args[0].Op == "mapview" {
				k := "mv" + strconv.Itoa(args[0].Inst) + "#del"
				n := 0
				if v, ok := st.mem[k+"n"]; ok {
					x, _ := v.intVal()
					n = int(x)
				}
				st.mem[k+strconv.Itoa(n)] = args[1]
				st.mem[k+"n"] = cInt(int64(n + 1))
				return bind(&T{Op: "tuple", Typ: resTyp})
			}
			st.emit(Ev{Kind: "call", Name: "builtin.delete", In: x, Within: fr.fn, Args: args, Depth: fr.depth})
			return bind(&T{Op: "unknown", Aux: "delete", Typ: resTyp})
		case "copy", "clear":
			// copy(dst, src) into a fresh slice made with exactly len(src): dst now holds src
			if bi.Name() == "copy" && len(args) == 2 && args[0].Op == "make" && len(args[0].A) == 1 && args[0].A[0].String() == "len("+args[1].String()+")" {
				old := args[0]
				for f := fr; f != nil; f = f.parent {
					for k, t := range f.env {
						if t == old {
							f.env[k] = args[1]
						}
					}
				}
				for k, t := range st.mem {
					if t == old {
						st.mem[k] = args[1]
					}
				}
				return bind(old.A[0])
			}
			st.emit(Ev{Kind: "call", Name: "builtin." + bi.Name(), In: x, Within: fr.fn, Args: args, Depth: fr.depth})
			return bind(&T{Op: "unknown", Aux: bi.Name(), Typ: resTyp})
		case "min", "max":
			return bind(&T{Op: "call", Aux: bi.Name(), A: args, Typ: resTyp})
		}
		return bind(&T{Op: "unknown", Aux: bi.Name(), Typ: resTyp})
	}
	newRes := func(name string, as []*T, impure bool) *T {
		t := &T{Op: "call", Aux: name, A: as, Typ: resTyp, Site: x}
		if impure {
			*st.inst++
			t.Inst = *st.inst
		}
		return t
	}
	if cc.IsInvoke() {
		recv := r.val(st, fr, cc.Value)
		// a writer made on this path whose type is the module's own (a byte collector with a Write
		// method): its method is evaluated like any other helper, what it stores stays on the path
		localWriter := false
		if recv.Op == "alloc" && !isPrivBuf(recv) && recv.Typ != nil && !types.IsInterface(recv.Typ) && fr.depth < r.cfg.MaxDepth {
			if fn := r.c.Prog.LookupMethod(recv.Typ, cc.Method.Pkg(), cc.Method.Name()); fn != nil && fn.Blocks != nil && r.c.inModule(fn) {
				localWriter = true
			}
		}
		if s := sinkOf(x); s != nil && !localWriter {
			if isPrivBuf(recv) {
				st.bufAppend(recv, args[0])
				if r.cfg.LocalWrites {
					st.emit(Ev{Kind: "write", Name: cc.Method.Name(), In: x, Within: fr.fn, Writer: recv, Segs: termTemplate(args[0]), Data: args[0], Depth: fr.depth})
				}
				return bind(&T{Op: "tuple", A: []*T{{Op: "len", A: []*T{args[0]}, Typ: types.Typ[types.Int]}, {Op: "const", Nil: true, Typ: errorType()}}, Typ: resTyp})
			}
			res := newRes("invoke."+cc.Method.Name(), append([]*T{recv}, args...), true)
			st.emit(Ev{Kind: "write", Name: cc.Method.Name(), In: x, Within: fr.fn, Writer: recv, Segs: termTemplate(args[0]), Data: args[0], Res: res, Depth: fr.depth})
			return bind(res)
		}
		// a method called through an interface on a value whose concrete module type is known on this
		// path (a receiver handed to a helper as a small interface): the method of that type, inlined
		// like a static call — unless it is one the rules want to see as an opaque event
		devirt := (*ssa.Function)(nil)
		if recv.Typ != nil && !types.IsInterface(recv.Typ) && fr.depth < r.cfg.MaxDepth {
			if fn := r.c.Prog.LookupMethod(recv.Typ, cc.Method.Pkg(), cc.Method.Name()); fn != nil && fn.Blocks != nil && r.c.inModule(fn) && (r.cfg.Opaque == nil || !r.cfg.Opaque(fn)) {
				devirt = fn
			}
		}
		if devirt == nil {
			res := newRes("invoke."+cc.Method.Name(), append([]*T{recv}, args...), true)
			st.emit(Ev{Kind: "invoke", Name: cc.Method.Name(), In: x, Within: fr.fn, Recv: recv, Args: args, Res: res, Depth: fr.depth})
			return bind(res)
		}
		args = append([]*T{recv}, args...)
		return r.inlineCall(st, fr, x, devirt, nil, args, resTyp, k)
	}
	sc := cc.StaticCallee()
	var callee *ssa.Function
	var cbind []*T
	if sc != nil {
		callee = sc
		if mc, ok := cc.Value.(*ssa.MakeClosure); ok {
			for _, b := range mc.Bindings {
				cbind = append(cbind, r.val(st, fr, b))
			}
		}
	} else {
		fv := r.val(st, fr, cc.Value)
		if (fv.Op == "closure" || fv.Op == "func") && fv.Fn != nil {
			callee, cbind = fv.Fn, fv.Bind
		} else {
			res := newRes("funcvalue:"+fv.String(), args, true)
			st.emit(Ev{Kind: "funcvalue", Name: fv.String(), In: x, Within: fr.fn, Recv: fv, Args: args, Res: res, Depth: fr.depth})
			return bind(res)
		}
	}
	name := fname(callee)
	inModule := callee.Blocks != nil && r.c.inModule(callee)
	// the generic algorithm packages of the library are instantiated with bodies of their own:
	// their read-only routines (slices.Contains, Index, ContainsFunc, IndexFunc, Equal, cmp.Compare …)
	// are evaluated like helpers of the module; sorting and the mutators stay library calls
	if !inModule && callee.Blocks != nil && inlinableStd(callee) && fr.depth < r.cfg.MaxDepth+2 {
		inModule = true
	}
	if !inModule {
		// external
		// (*sync.Once).Do(f): what f does, every time — the initialisers accepted by W-ONCE are
		// deterministic and idempotent, so "has run" and "runs now" leave the same state
		if name == "(*sync.Once).Do" && len(args) == 2 {
			if fv := args[1]; (fv.Op == "closure" || fv.Op == "func") && fv.Fn != nil && fv.Fn.Blocks != nil && r.c.inModule(fv.Fn) && fr.depth < r.cfg.MaxDepth+1 {
				return r.inlineCall(st, fr, x, fv.Fn, fv.Bind, nil, resTyp, k)
			}
		}
		// locks do not change what sequential code computes (their discipline is W-LOCKS' business)
		switch name {
		case "(*sync.Mutex).Lock", "(*sync.Mutex).Unlock", "(*sync.RWMutex).Lock", "(*sync.RWMutex).Unlock", "(*sync.RWMutex).RLock", "(*sync.RWMutex).RUnlock":
			return bind(&T{Op: "tuple", Typ: resTyp})
		}
		// reflect.TypeOf(x) where the path knows the dynamic type of x (from a type test, or as the
		// case the rule assumed): that type; where it knows x to be none of the types it was tested
		// for: a type that equals none of them
		if name == "reflect.TypeOf" && len(args) == 1 {
			as := args[0].String()
			pos, neg := "", 0
			for atom, pol := range st.facts {
				if strings.HasPrefix(atom, "is<") && strings.HasSuffix(atom, ">("+as+")") {
					if pol {
						pos = atom[3 : len(atom)-len(">("+as+")")]
					} else {
						neg++
					}
				}
			}
			if pos != "" {
				return bind(&T{Op: "typeconst", Aux: pos, Typ: resTyp})
			}
			if neg > 0 {
				return bind(&T{Op: "typeconst", Aux: "?other(" + as + ")", Typ: resTyp})
			}
		}
		// maps.Clone(m): a path-local map is copied entry by entry; of any other map the clone is a
		// view — the entries of m minus the keys deleted from the clone afterwards
		if baseFuncName(callee) == "maps.Clone" && len(args) == 1 {
			*st.inst++
			if args[0].Op == "make" && isMapType(args[0].Typ) {
				nm := &T{Op: "make", Inst: *st.inst, Typ: resTyp}
				es := st.mapEntries(args[0])
				for i := 0; i+1 < len(es); i += 2 {
					st.mapSet(nm, es[i], es[i+1])
				}
				return bind(nm)
			}
			return bind(&T{Op: "mapview", A: []*T{args[0]}, Inst: *st.inst, Typ: resTyp})
		}
		// a buffer made by the library constructor is a private buffer like &bytes.Buffer{}: empty for
		// a fresh zero-length slice (pre-sizing), otherwise starting with the given text
		if (name == "bytes.NewBuffer" || name == "bytes.NewBufferString") && len(args) == 1 {
			*st.objs++
			nb := &T{Op: "alloc", Obj: *st.objs, Typ: resTyp, Aux: name}
			init := args[0]
			switch {
			case init.Nil, init.Op == "make" && init.HasEl && len(init.Elems) == 0, init.Op == "elems" && init.HasEl && len(init.Elems) == 0:
			default:
				if sv, isS := init.strVal(); !isS || sv != "" {
					st.bufAppend(nb, init)
				}
			}
			return bind(nb)
		}
		wi, di, ok := extSink(x)
		// draining a private buffer into a writer: (*bytes.Buffer).WriteTo(w), io.Copy(w, buf)
		var drained *T
		switch {
		case name == "(*bytes.Buffer).WriteTo" && len(args) == 2 && isPrivBuf(args[0]):
			wi, di, ok, drained = 1, -4, true, args[0]
		case name == "io.Copy" && len(args) == 2 && isPrivBuf(args[1]):
			wi, di, ok, drained = 0, -4, true, args[1]
		}
		if ok {
			var data *T
			switch {
			case di == -4:
				data = st.bufText(drained)
				dk, _ := privBufKey(drained)
				delete(st.mem, dk)
			case di == -2: // fmt.Fprintf
				data = foldExt("fmt.Sprintf", args[1:], types.Typ[types.String], x)
			case di == -3: // fmt.Fprint / Fprintln
				data = foldExt(strings.Replace(name, "Fp", "Sp", 1), args[1:], types.Typ[types.String], x)
			default:
				data = args[di]
			}
			if isPrivBuf(args[wi]) {
				// a private in-memory buffer: its content is tracked, the write cannot fail
				st.bufAppend(args[wi], data)
				if r.cfg.LocalWrites {
					st.emit(Ev{Kind: "write", Name: name, In: x, Within: fr.fn, Writer: args[wi], Segs: termTemplate(data), Data: data, Depth: fr.depth})
				}
				if tt, ok := resTyp.(*types.Tuple); ok && tt.Len() == 2 {
					return bind(&T{Op: "tuple", A: []*T{{Op: "len", A: []*T{data}, Typ: types.Typ[types.Int]}, {Op: "const", Nil: true, Typ: errorType()}}, Typ: resTyp})
				}
				return bind(&T{Op: "const", Nil: true, Typ: errorType()})
			}
			res := newRes(name, args, true)
			st.emit(Ev{Kind: "write", Name: name, In: x, Within: fr.fn, Writer: args[wi], Segs: termTemplate(data), Data: data, Res: res, Depth: fr.depth})
			return bind(res)
		}
		if len(args) > 0 && isPrivBuf(args[0]) {
			switch name {
			case "(*bytes.Buffer).Bytes", "(*bytes.Buffer).String", "(*strings.Builder).String":
				return bind(st.bufText(args[0]))
			case "(*bytes.Buffer).Len", "(*strings.Builder).Len":
				txt := st.bufText(args[0])
				if sv, ok := txt.strVal(); ok {
					return bind(cInt(int64(len(sv))))
				}
				return bind(&T{Op: "len", A: []*T{txt}, Typ: resTyp})
			case "(*bytes.Buffer).Reset", "(*strings.Builder).Reset":
				rk, _ := privBufKey(args[0])
				delete(st.mem, rk)
				return bind(&T{Op: "tuple", Typ: resTyp})
			case "(*bytes.Buffer).Grow", "(*strings.Builder).Grow":
				return bind(&T{Op: "tuple", Typ: resTyp})
			}
		}
		if pxPureCallee(callee) {
			return bind(foldExt(name, args, resTyp, x))
		}
		res := newRes(name, args, true)
		st.emit(Ev{Kind: "call", Name: name, Fn: callee, In: x, Within: fr.fn, Args: args, Res: res, Depth: fr.depth})
		return bind(res)
	}
	// module function
	onStack := false
	for f := fr; f != nil; f = f.parent {
		if f.fn == callee {
			onStack = true
		}
	}
	if (r.cfg.Opaque != nil && r.cfg.Opaque(callee)) || fr.depth >= r.cfg.MaxDepth || onStack {
		res := newRes(name, args, true)
		st.emit(Ev{Kind: "call", Name: name, Fn: callee, In: x, Within: fr.fn, Args: args, Res: res, Depth: fr.depth})
		return bind(res)
	}
	return r.inlineCall(st, fr, x, callee, cbind, args, resTyp, k)
}

// inlineCall evaluates callee in a new frame; every return of it resumes the continuation k.
func (r *pxRun) inlineCall(st *pxState, fr *pxFrame, x *ssa.Call, callee *ssa.Function, cbind []*T, args []*T, resTyp types.Type, k func(*pxState, *pxFrame, *T)) bool {
	for f := fr; f != nil; f = f.parent {
		if f.fn == callee {
			// recursion: leave the call opaque
			*st.inst++
			res := &T{Op: "call", Aux: fname(callee), A: args, Typ: resTyp, Site: x, Inst: *st.inst}
			st.emit(Ev{Kind: "call", Name: fname(callee), Fn: callee, In: x, Within: fr.fn, Args: args, Res: res, Depth: fr.depth})
			fr.env[x] = res
			return false
		}
	}
	r.frameID++
	r.entered[callee] = true
	nf := &pxFrame{id: r.frameID, fn: callee, env: map[ssa.Value]*T{}, args: args, bind: cbind, parent: fr, depth: fr.depth + 1}
	// the caller's frame may be forked inside the callee: each return resumes in the copy that
	// belongs to its own fork (the callee frame's parent)
	r.block(st, nf, callee.Blocks[0], nil, func(st2 *pxState, cf *pxFrame, res []*T, end string) {
		if end == "panic" {
			// a panic inside a helper ends the whole path
			top := cf
			for top.parent != nil {
				top = top.parent
			}
			r.paths = append(r.paths, &PXPath{Facts: st2.facts, Mem: st2.mem, Terms: st2.terms, Order: st2.order, Events: st2.events, End: "panic", Trace: st2.trace})
			return
		}
		var t *T
		switch len(res) {
		case 0:
			t = &T{Op: "tuple", Typ: resTyp}
		case 1:
			t = res[0]
		default:
			t = &T{Op: "tuple", A: res, Typ: resTyp}
		}
		k(st2, cf.parent, t)
	})
	return true
}

// extSink: external writer routines. Returns writer arg index and data arg index
// (-2: Fprintf-style format+args from index 1; -3: Fprint-style).
func extSink(ci ssa.CallInstruction) (int, int, bool) {
	sc := ci.Common().StaticCallee()
	if sc == nil {
		return 0, 0, false
	}
	switch sc.String() {
	case "(*bytes.Buffer).Write", "(*bytes.Buffer).WriteString", "(*bytes.Buffer).WriteByte", "(*bytes.Buffer).WriteRune",
		"(*strings.Builder).Write", "(*strings.Builder).WriteString", "(*strings.Builder).WriteByte", "(*strings.Builder).WriteRune",
		"(*bufio.Writer).Write", "(*bufio.Writer).WriteString", "(*os.File).Write", "(*os.File).WriteString", "io.WriteString":
		return 0, 1, true
	case "fmt.Fprintf":
		return 0, -2, true
	case "fmt.Fprint", "fmt.Fprintln":
		return 0, -3, true
	}
	return 0, 0, false
}

// foldExt folds a few pure external calls on constants; otherwise a pure call term.
func foldExt(name string, args []*T, typ types.Type, site ssa.Instruction) *T {
	str := func(i int) (string, bool) {
		if i < len(args) {
			return args[i].strVal()
		}
		return "", false
	}
	switch name {
	case "strings.ToLower":
		if s, ok := str(0); ok {
			return cStr(strings.ToLower(s))
		}
	case "strings.HasPrefix":
		a, ok1 := str(0)
		b, ok2 := str(1)
		if ok1 && ok2 {
			return cBool(strings.HasPrefix(a, b))
		}
	case "strings.Contains":
		a, ok1 := str(0)
		b, ok2 := str(1)
		if ok1 && ok2 {
			return cBool(strings.Contains(a, b))
		}
	}
	if name == "strings.Join" && len(args) == 2 && args[0].HasEl {
		var acc *T
		for i, e := range args[0].Elems {
			if i == 0 {
				acc = e
				continue
			}
			acc = foldBin(token.ADD, foldBin(token.ADD, acc, args[1], types.Typ[types.String]), e, types.Typ[types.String])
		}
		if acc == nil {
			return cStr("")
		}
		return acc
	}
	// a variadic slice (always the last argument) is flattened into the argument list
	var as []*T
	for i, a := range args {
		if a.HasEl && a.Op == "elems" && i == len(args)-1 && !strings.HasPrefix(name, "strconv.Append") {
			as = append(as, a.Elems...)
		} else {
			as = append(as, a)
		}
	}
	return &T{Op: "call", Aux: name, A: as, Typ: typ, Site: site}
}

// termTemplate normalises a string / byte-slice term into literal and value segments.
func termTemplate(t *T) []pseg {
	var out []pseg
	add := func(p pseg) {
		if p.Val == nil && p.Lit == "" {
			return
		}
		if p.Val == nil && len(out) > 0 && out[len(out)-1].Val == nil {
			out[len(out)-1].Lit += p.Lit
			return
		}
		out = append(out, p)
	}
	var walk func(t *T)
	walk = func(t *T) {
		if s, ok := t.strVal(); ok {
			add(pseg{Lit: s})
			return
		}
		if t.isConst() && t.C.Kind() == constant.Int {
			// a byte / rune written with WriteByte / WriteRune
			if n, ok := t.intVal(); ok && n >= 0 && n < 0x110000 {
				add(pseg{Lit: string(rune(n))})
				return
			}
		}
		switch t.Op {
		case "slice":
			// x[L:] with a constant L: the text of x without its first L bytes, if those are literal
			if len(t.A) == 3 && t.A[2].Op == "sym" {
				if L, ok := t.A[1].intVal(); ok && L >= 0 {
					inner := termTemplate(t.A[0])
					if len(inner) > 0 && inner[0].Val == nil && int64(len(inner[0].Lit)) >= L {
						inner[0].Lit = inner[0].Lit[L:]
						for _, sg := range inner {
							add(sg)
						}
						return
					}
				}
			}
		case "binop":
			if t.Aux == "+" {
				walk(t.A[0])
				walk(t.A[1])
				return
			}
		case "append":
			// append([]byte(a), b...)
			allBytes := true
			for _, a := range t.A {
				_ = a
			}
			if allBytes {
				for _, a := range t.A {
					if a.Nil || (a.HasEl && len(a.Elems) == 0) {
						continue
					}
					walk(a)
				}
				return
			}
		case "elems":
			for _, e := range t.Elems {
				walk(e)
			}
			return
		case "call":
			// arity of the routines understood below (a term with fewer arguments is left opaque)
			if need, ok := map[string]int{"strconv.Quote": 1, "strconv.AppendQuote": 2, "strconv.QuoteRune": 1, "strconv.QuoteRuneToASCII": 1, "strconv.QuoteRuneToGraphic": 1,
				"strconv.AppendQuoteRune": 2, "strconv.AppendQuoteRuneToASCII": 2, "strconv.Itoa": 1, "strconv.FormatBool": 1, "strconv.FormatInt": 2, "strconv.FormatUint": 2,
				"strconv.AppendInt": 3, "strconv.AppendUint": 3, "strconv.FormatFloat": 4, "strconv.FormatComplex": 4, "strconv.AppendBool": 2, "strconv.AppendFloat": 5,
				"(*bytes.Buffer).Bytes": 1, "(*bytes.Buffer).String": 1, "(*strings.Builder).String": 1}[t.Aux]; ok && len(t.A) < need {
				add(pseg{Verb: "s", Val: t})
				return
			}
			if t.Aux == "fmt.Appendf" && len(t.A) >= 2 {
				if !t.A[0].Nil && !(t.A[0].HasEl && len(t.A[0].Elems) == 0) {
					walk(t.A[0])
				}
				walk(&T{Op: "call", Aux: "fmt.Sprintf", A: t.A[1:], Typ: types.Typ[types.String]})
				return
			}
			switch t.Aux {
			case "fmt.Sprintf":
				if len(t.A) >= 1 {
					if f, ok := t.A[0].strVal(); ok {
						lits, verbs := parseFormat(f)
						// explicit argument indexes (%[1]v): resolve them, as fmt does
						argOf := make([]int, len(verbs))
						okIdx := true
						next := 0
						for i, vb := range verbs {
							if strings.Contains(vb, "*") {
								okIdx = false
							}
							if a := strings.Index(vb, "["); a >= 0 {
								b := strings.Index(vb, "]")
								n, err := strconv.Atoi(vb[a+1 : max2i(b, a+1)])
								if b < a || err != nil || n < 1 {
									okIdx = false
								} else {
									next = n - 1
									verbs[i] = vb[:a] + vb[b+1:]
								}
							}
							argOf[i] = next
							next++
							if argOf[i] >= len(t.A)-1 {
								okIdx = false
							}
						}
						used := map[int]bool{}
						for _, k := range argOf {
							used[k] = true
						}
						if okIdx && len(used) == len(t.A)-1 {
							for i, vb := range verbs {
								add(pseg{Lit: lits[i]})
								arg := t.A[argOf[i]+1]
								if (vb == "s" || vb == "v") && arg.Typ != nil {
									if b, ok := arg.Typ.Underlying().(*types.Basic); ok && b.Info()&types.IsString != 0 && (arg.Op == "call" || arg.Op == "binop" || arg.isConst()) {
										walk(arg) // %s of a string that is itself built: flatten
										continue
									}
								}
								add(pseg{Verb: vb, Val: arg})
							}
							add(pseg{Lit: lits[len(lits)-1]})
							return
						}
					}
				}
			case "fmt.Sprint":
				allStr := true
				for _, a := range t.A {
					if a.Typ == nil {
						allStr = false
						continue
					}
					if b, ok := a.Typ.Underlying().(*types.Basic); !ok || b.Info()&types.IsString == 0 {
						allStr = false
					}
				}
				if allStr {
					for _, a := range t.A {
						walk(a)
					}
					return
				}
				if len(t.A) == 1 {
					add(pseg{Verb: "v", Val: t.A[0]})
					return
				}
			case "strconv.Quote":
				add(pseg{Verb: "q", Val: t.A[0]})
				return
			case "strconv.AppendQuote":
				if !t.A[0].Nil && !(t.A[0].HasEl && len(t.A[0].Elems) == 0) {
					walk(t.A[0])
				}
				add(pseg{Verb: "q", Val: t.A[1]})
				return
			case "strconv.QuoteRune", "strconv.QuoteRuneToASCII", "strconv.QuoteRuneToGraphic":
				add(pseg{Verb: "qr", Val: t.A[0]})
				return
			case "strconv.AppendQuoteRune", "strconv.AppendQuoteRuneToASCII":
				if !t.A[0].Nil {
					walk(t.A[0])
				}
				add(pseg{Verb: "qr", Val: t.A[1]})
				return
			case "strconv.Itoa":
				add(pseg{Verb: "d", Val: t.A[0]})
				return
			case "strconv.FormatBool":
				add(pseg{Verb: "t", Val: t.A[0]})
				return
			case "strconv.FormatInt", "strconv.FormatUint":
				if b, ok := t.A[1].intVal(); ok && (b == 10 || b == 16) {
					vb := "d"
					if b == 16 {
						vb = "x"
					}
					add(pseg{Verb: vb, Val: t.A[0]})
					return
				}
			case "strconv.AppendInt", "strconv.AppendUint":
				if b, ok := t.A[2].intVal(); ok && (b == 10 || b == 16) {
					if !t.A[0].Nil {
						walk(t.A[0])
					}
					vb := "d"
					if b == 16 {
						vb = "x"
					}
					add(pseg{Verb: vb, Val: t.A[1]})
					return
				}
			case "strconv.AppendBool":
				if !t.A[0].Nil && !(t.A[0].HasEl && len(t.A[0].Elems) == 0) {
					walk(t.A[0])
				}
				add(pseg{Verb: "t", Val: t.A[1]})
				return
			case "strconv.AppendFloat":
				f, ok1 := t.A[2].intVal()
				p, ok2 := t.A[3].intVal()
				bits, ok3 := t.A[4].intVal()
				if ok1 && ok2 && ok3 && f == 'g' && p == -1 {
					if !t.A[0].Nil && !(t.A[0].HasEl && len(t.A[0].Elems) == 0) {
						walk(t.A[0])
					}
					add(pseg{Verb: "g", Val: t.A[1], Bits: int(bits)})
					return
				}
			case "strconv.FormatFloat", "strconv.FormatComplex":
				f, ok1 := t.A[1].intVal()
				p, ok2 := t.A[2].intVal()
				bits, ok3 := t.A[3].intVal()
				if ok1 && ok2 && ok3 && f == 'g' && p == -1 {
					add(pseg{Verb: "g", Val: t.A[0], Bits: int(bits)})
					return
				}
			case "(*bytes.Buffer).Bytes", "(*bytes.Buffer).String", "(*strings.Builder).String":
				add(pseg{Verb: "buf", Val: t.A[0]})
				return
			}
		}
		// a single byte / rune that is part of a text (WriteByte, WriteRune, append of a byte)
		if t.Typ != nil {
			if b, ok := t.Typ.Underlying().(*types.Basic); ok && (b.Kind() == types.Uint8 || b.Kind() == types.Int32) {
				add(pseg{Verb: "c", Val: t})
				return
			}
		}
		add(pseg{Verb: "s", Val: t})
	}
	walk(t)
	return out
}

var errType types.Type

func errorType() types.Type {
	if errType == nil {
		errType = types.Universe.Lookup("error").Type()
	}
	return errType
}

// knownNonEmpty: the text has a non-empty literal part.
func knownNonEmpty(t *T) bool {
	if t == nil || t.Typ == nil {
		return false
	}
	if b, ok := t.Typ.Underlying().(*types.Basic); !ok || b.Info()&types.IsString == 0 {
		if ok && (b.Kind() == types.Uint8 || b.Kind() == types.Int32) {
			return true // a text consisting of one byte / rune (the first piece written to a buffer)
		}
		if _, isSlice := t.Typ.Underlying().(*types.Slice); !isSlice {
			return false
		}
	}
	for _, sg := range termTemplate(t) {
		if sg.Val == nil && sg.Lit != "" {
			return true
		}
		if sg.Val != nil && (sg.Verb == "q" || sg.Verb == "qr" || sg.Verb == "c") {
			return true // a quoted value has at least its quotes; a byte / rune is one character
		}
	}
	return false
}

// contradictsKnown: a new positive literal that cannot hold together with the positive literals
// already established: x equal to two different constants, or a value of two different dynamic types.
func contradictsKnown(f Facts, atom string) bool {
	if strings.HasPrefix(atom, "eq(") && strings.HasSuffix(atom, ")") {
		body := atom[3 : len(atom)-1]
		// constants sort first in our normal form ("…" or digits)
		if c1, x, ok := splitConstEq(body); ok {
			for a2, pol := range f {
				if !pol || !strings.HasPrefix(a2, "eq(") || a2 == atom {
					continue
				}
				if c2, x2, ok := splitConstEq(a2[3 : len(a2)-1]); ok && x2 == x && c2 != c1 {
					return true
				}
			}
		}
	}
	if strings.HasPrefix(atom, "is<") {
		i := strings.Index(atom, ">(")
		if i > 0 {
			x := atom[i+1:]
			// a nil interface value has no dynamic type
			if x == "(nil)" {
				return true
			}
			if v, ok := f[eqAtom(x[1:len(x)-1], "nil")]; ok && v {
				return true
			}
			for a2, pol := range f {
				if pol && a2 != atom && strings.HasPrefix(a2, "is<") && strings.HasSuffix(a2, x) {
					j := strings.Index(a2, ">(")
					if j > 0 && a2[j+1:] == x && !strings.Contains(atom[:i], "interface") && !strings.Contains(a2[:j], "interface") {
						return true
					}
				}
			}
		}
	}
	return false
}

func splitConstEq(body string) (c, x string, ok bool) {
	if c, x, ok = splitConstEq0(body); ok {
		return
	}
	// constant second: "x,42" / `x,"text"`
	if i := strings.LastIndex(body, ","); i > 0 && i+1 < len(body) {
		suf := body[i+1:]
		num := true
		for _, ch := range suf {
			if !(ch >= '0' && ch <= '9' || ch == '-') {
				num = false
			}
		}
		if num {
			return suf, body[:i], true
		}
	}
	if strings.HasSuffix(body, `"`) {
		for i := len(body) - 2; i > 0; i-- {
			if body[i] == '"' && body[i-1] == ',' {
				if _, err := strconv.Unquote(body[i:]); err == nil {
					return body[i:], body[:i-1], true
				}
			}
		}
	}
	return "", "", false
}

func splitConstEq0(body string) (c, x string, ok bool) {
	if len(body) == 0 {
		return
	}
	if body[0] == '"' {
		// find the closing quote of the Go-quoted constant
		for i := 1; i < len(body); i++ {
			if body[i] == '\\' {
				i++
				continue
			}
			if body[i] == '"' {
				if i+1 < len(body) && body[i+1] == ',' {
					return body[:i+1], body[i+2:], true
				}
				return
			}
		}
		return
	}
	if body[0] >= '0' && body[0] <= '9' || body[0] == '-' {
		i := strings.Index(body, ",")
		if i > 0 {
			for _, ch := range body[:i] {
				if !(ch >= '0' && ch <= '9' || ch == '-') {
					return
				}
			}
			return body[:i], body[i+1:], true
		}
	}
	return
}

// Deep renders a term with pointers to path-local objects replaced by their final contents, so that
// values built by different code (different allocation numbers) compare equal.
func (p *PXPath) Deep(t *T) string { return p.deep(t, 0) }

func (p *PXPath) deep(t *T, depth int) string {
	if t == nil {
		return "<nil>"
	}
	if depth > 6 {
		return "…"
	}
	switch t.Op {
	case "alloc":
		k := "o" + strconv.Itoa(t.Obj)
		if v, ok := p.Mem[k]; ok {
			return "&" + p.deep(v, depth+1)
		}
		var fs []string
		for key, v := range p.Mem {
			if strings.HasPrefix(key, k+".") && !strings.ContainsAny(key[len(k)+1:], ".[") {
				fs = append(fs, key[len(k)+1:]+":"+p.deep(v, depth+1))
			}
		}
		sort.Strings(fs)
		if txt, ok := p.Mem[k+"$text"]; ok {
			return "&buffer(" + p.deep(txt, depth+1) + ")"
		}
		return "&{" + strings.Join(fs, ",") + "}"
	case "struct":
		var ks []string
		for k := range t.Fields {
			ks = append(ks, k)
		}
		sort.Strings(ks)
		var ps []string
		for _, k := range ks {
			ps = append(ps, k+":"+p.deep(t.Fields[k], depth+1))
		}
		return "{" + strings.Join(ps, ",") + "}"
	case "elems":
		var as []string
		for _, a := range t.Elems {
			as = append(as, p.deep(a, depth+1))
		}
		return "[" + strings.Join(as, ",") + "]"
	case "append":
		var as []string
		for _, a := range t.A {
			as = append(as, p.deep(a, depth+1))
		}
		return "append(" + strings.Join(as, ", ") + ")"
	case "call":
		if len(t.A) > 0 {
			var as []string
			for _, a := range t.A {
				as = append(as, p.deep(a, depth+1))
			}
			s := t.Aux + "(" + strings.Join(as, ", ") + ")"
			if t.Inst > 0 {
				s += "@"
			}
			return s
		}
	}
	return t.String()
}

func isMapType(t types.Type) bool {
	if t == nil {
		return false
	}
	_, ok := t.Underlying().(*types.Map)
	return ok
}

// path-local maps: entries kept in insertion order under "m<inst>#<i>k" / "m<inst>#<i>v".
func (s *pxState) mapEntries(m *T) []*T {
	var out []*T
	pre := "m" + strconv.Itoa(m.Inst) + "#"
	n := 0
	if v, ok := s.mem[pre+"n"]; ok {
		x, _ := v.intVal()
		n = int(x)
	}
	for i := 0; i < n; i++ {
		k, ok := s.mem[pre+strconv.Itoa(i)+"k"]
		if !ok {
			continue
		}
		out = append(out, k, s.mem[pre+strconv.Itoa(i)+"v"])
	}
	return out
}

func (s *pxState) mapSet(m, k, v *T) {
	pre := "m" + strconv.Itoa(m.Inst) + "#"
	n := 0
	if x, ok := s.mem[pre+"n"]; ok {
		y, _ := x.intVal()
		n = int(y)
	}
	for i := 0; i < n; i++ {
		if e, ok := s.mem[pre+strconv.Itoa(i)+"k"]; ok && e.String() == k.String() {
			s.mem[pre+strconv.Itoa(i)+"v"] = v
			return
		}
	}
	s.mem[pre+strconv.Itoa(n)+"k"] = k
	s.mem[pre+strconv.Itoa(n)+"v"] = v
	s.mem[pre+"n"] = cInt(int64(n + 1))
}

func (s *pxState) mapGet(m, k *T) (*T, bool) {
	es := s.mapEntries(m)
	for i := 0; i+1 < len(es); i += 2 {
		if es[i].String() == k.String() {
			return es[i+1], true
		}
	}
	return nil, false
}

func (s *pxState) mapDel(m, k *T) {
	pre := "m" + strconv.Itoa(m.Inst) + "#"
	n := 0
	if x, ok := s.mem[pre+"n"]; ok {
		y, _ := x.intVal()
		n = int(y)
	}
	for i := 0; i < n; i++ {
		if e, ok := s.mem[pre+strconv.Itoa(i)+"k"]; ok && e.String() == k.String() {
			delete(s.mem, pre+strconv.Itoa(i)+"k")
			delete(s.mem, pre+strconv.Itoa(i)+"v")
		}
	}
}

func max2i(a, b int) int {
	if a > b {
		return a
	}
	return b
}

// rangeOfNextAtom: for the condition "the k-th Next of a range yielded an entry", the range term.
func rangeOfNextAtom(cond *T) *T {
	for cond != nil && cond.Op == "not" {
		cond = cond.A[0]
	}
	if cond == nil || cond.Op != "extract" || cond.Aux != "0" || len(cond.A) != 1 || cond.A[0].Op != "next" || len(cond.A[0].A) != 1 || cond.A[0].A[0].Op != "range" {
		return nil
	}
	return cond.A[0].A[0]
}

// lenEquation: the branch taken establishes len(x) = n (from len(x) == c, len(x)-k == c, c == len(x)+k …).
func lenEquation(cond *T, taken bool) (string, int64, bool) {
	for cond != nil && cond.Op == "not" {
		cond = cond.A[0]
		taken = !taken
	}
	if cond == nil || cond.Op != "binop" || len(cond.A) != 2 {
		return "", 0, false
	}
	if !((cond.Aux == "==" && taken) || (cond.Aux == "!=" && !taken)) {
		return "", 0, false
	}
	for k := 0; k < 2; k++ {
		c, okc := cond.A[k].intVal()
		if !okc {
			continue
		}
		t := cond.A[1-k]
		if t.Op == "len" && len(t.A) == 1 {
			return t.A[0].String(), c, c >= 0
		}
		if t.Op == "binop" && (t.Aux == "-" || t.Aux == "+") && len(t.A) == 2 {
			if d, okd := t.A[1].intVal(); okd && t.A[0].Op == "len" {
				n := c + d
				if t.Aux == "+" {
					n = c - d
				}
				return t.A[0].A[0].String(), n, n >= 0
			}
			if d, okd := t.A[0].intVal(); okd && t.A[1].Op == "len" && t.Aux == "+" {
				return t.A[1].A[0].String(), c - d, c-d >= 0
			}
		}
	}
	return "", 0, false
}

// blockReaches reports whether to is reachable from from along CFG edges.
func blockReaches(from, to *ssa.BasicBlock) bool {
	seen := map[*ssa.BasicBlock]bool{}
	var walk func(b *ssa.BasicBlock) bool
	walk = func(b *ssa.BasicBlock) bool {
		if b == to {
			return true
		}
		if seen[b] {
			return false
		}
		seen[b] = true
		for _, s := range b.Succs {
			if walk(s) {
				return true
			}
		}
		return false
	}
	return walk(from)
}

func intBits(b *types.Basic) int {
	switch b.Kind() {
	case types.Int8, types.Uint8:
		return 8
	case types.Int16, types.Uint16:
		return 16
	case types.Int32, types.Uint32:
		return 32
	}
	return 64
}

// inlinableStd: an instantiated routine of slices / maps / cmp that only reads its arguments and
// whose body is plain Go (no runtime intrinsics).
func inlinableStd(f *ssa.Function) bool {
	pk := pkgPathOf(f)
	if pk != "slices" && pk != "maps" && pk != "cmp" {
		return false
	}
	n := baseFuncName(f)
	if stdMutators[n] {
		return false
	}
	switch n {
	case "maps.Clone", "maps.Keys", "maps.Values", "maps.All", "maps.Collect", "slices.Sorted", "slices.SortedFunc", "slices.SortedStableFunc", "slices.Collect", "slices.Values", "slices.All",
		"slices.BinarySearch", "slices.BinarySearchFunc", "slices.Clone", "slices.Concat", "slices.Repeat", "slices.Chunk":
		return false
	}
	return true
}

// tokenTypeTest: a comma-ok type test of a token's content, on a path that knows the token's type,
// is decided by how tokens are built: the token struct and its fields are unexported, so every token
// there is was made by one of the package's own builders, and those give each token type content of
// one static type (the table of T-TOKCONTENT). `s, ok := t.content.(string)` under typ == "package"
// is ok; the branch for !ok does not exist.
func (r *pxRun) tokenTypeTest(st *pxState, cond *T) *T {
	t, neg := cond, false
	for t != nil && t.Op == "not" && len(t.A) == 1 {
		t, neg = t.A[0], !neg
	}
	if t == nil || t.Op != "is" || len(t.A) != 1 || t.A[0].Op != "field" || t.A[0].Aux != "content" || len(t.A[0].A) != 1 {
		return cond
	}
	x := t.A[0].A[0].String()
	typ := ""
	for atom, pol := range st.facts {
		if pol && strings.HasPrefix(atom, `eq("`) && strings.HasSuffix(atom, `",`+x+`.typ)`) {
			typ = atom[4 : len(atom)-len(`",`+x+`.typ)`)]
		}
	}
	if typ == "" {
		return cond
	}
	inv := r.c.tokenContentInvariant()
	set := inv[typ]
	if len(set) == 0 || set["?"] {
		return cond // nothing known, or content of statically unknown type (a literal's value)
	}
	want := normTypeName(t.Aux)
	val, known := false, false
	if set[want] && len(set) == 1 {
		val, known = true, true
	} else if !set[want] {
		val, known = false, true
	}
	if !known {
		return cond
	}
	if neg {
		val = !val
	}
	return cBool(val)
}

func normTypeName(s string) string {
	switch s {
	case "rune", "untyped rune":
		return "int32"
	case "byte":
		return "uint8"
	case "untyped string":
		return "string"
	}
	return s
}

// tokenContentInvariant: token type -> the static types of the content the package's builders give
// tokens of that type. Empty while it is being computed (the builders are themselves evaluated on
// paths) and when some builder's token type is not a constant.
func (c *Ctx) tokenContentInvariant() map[string]map[string]bool {
	if v, ok := c.extra("tokenContentInvariant"); ok {
		return v.(map[string]map[string]bool)
	}
	c.setExtra("tokenContentInvariant", map[string]map[string]bool{}) // guard against recursion
	out := map[string]map[string]bool{}
	okAll := true
	for _, bt := range c.allBuiltTokens() {
		if !bt.ok {
			okAll = false
			break
		}
		if out[bt.typ] == nil {
			out[bt.typ] = map[string]bool{}
		}
		if bt.content == nil || bt.content.Nil {
			out[bt.typ]["<nil>"] = true
			continue
		}
		if bt.content.Typ == nil {
			out[bt.typ]["?"] = true
			continue
		}
		tn := normTypeName(types.TypeString(bt.content.Typ, shortQual))
		if types.IsInterface(bt.content.Typ) {
			tn = "?" // content of statically unknown type (Lit takes interface{})
		}
		out[bt.typ][tn] = true
	}
	if !okAll {
		out = map[string]map[string]bool{}
	}
	c.setExtra("tokenContentInvariant", out)
	return out
}

// stringerOf: the String() string method of a named type of the module (value or pointer receiver),
// if it has a body.
func stringerOf(c *Ctx, t types.Type) *ssa.Function {
	if t == nil || types.IsInterface(t) {
		return nil
	}
	n, ok := t.(*types.Named)
	if !ok {
		if p, isP := t.(*types.Pointer); isP {
			n, ok = p.Elem().(*types.Named)
		}
		if !ok {
			return nil
		}
	}
	if n.Obj().Pkg() == nil || !strings.HasPrefix(n.Obj().Pkg().Path(), modulePath) {
		return nil
	}
	ms := c.Prog.MethodSets.MethodSet(t)
	sel := ms.Lookup(n.Obj().Pkg(), "String")
	if sel == nil {
		return nil
	}
	sig, ok := sel.Type().(*types.Signature)
	if !ok || sig.Params().Len() != 0 || sig.Results().Len() != 1 {
		return nil
	}
	if b, ok := sig.Results().At(0).Type().Underlying().(*types.Basic); !ok || b.Kind() != types.String {
		return nil
	}
	fn := c.Prog.MethodValue(sel)
	if fn == nil || fn.Blocks == nil {
		return nil
	}
	return fn
}
