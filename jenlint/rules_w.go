package main

import (
	"fmt"
	"go/token"
	"go/types"
	"os"
	"sort"
	"strings"

	"golang.org/x/tools/go/ssa"
)

// ---------------------------------------------------------------------------------------------
// anchors shared by several rules (resolved by role, falling back to name)

func (c *Ctx) fileType() *types.Named {
	o := c.Jen.Pkg.Scope().Lookup("File")
	if o == nil {
		broken("anchor lost: type jen.File")
	}
	return o.Type().(*types.Named)
}

func (c *Ctx) codeIface() *types.Named {
	o := c.Jen.Pkg.Scope().Lookup("Code")
	if o == nil {
		broken("anchor lost: type jen.Code")
	}
	n := o.Type().(*types.Named)
	if _, ok := n.Underlying().(*types.Interface); !ok {
		broken("anchor lost: jen.Code is not an interface")
	}
	return n
}

// fieldWrites lists MapUpdate / delete / Store instructions on the named field of File, module-wide.
type fieldWrite struct {
	fn   *ssa.Function
	in   ssa.Instruction
	kind string // mapupdate | delete | store
}

func (c *Ctx) fileFieldWrites(field string) []fieldWrite {
	var out []fieldWrite
	want := "jen.File." + field
	for _, f := range c.CG().Funcs {
		for _, b := range f.Blocks {
			for _, in := range b.Instrs {
				switch x := in.(type) {
				case *ssa.MapUpdate:
					if fieldOf(x.Map) == want {
						out = append(out, fieldWrite{f, in, "mapupdate"})
					}
				case *ssa.Store:
					if fieldOf(x.Addr) == want {
						out = append(out, fieldWrite{f, in, "store"})
					}
				case ssa.CallInstruction:
					cc := x.Common()
					if bi, ok := cc.Value.(*ssa.Builtin); ok && (bi.Name() == "delete" || bi.Name() == "clear") && len(cc.Args) > 0 && fieldOf(cc.Args[0]) == want {
						out = append(out, fieldWrite{f, in, bi.Name()})
					}
				}
			}
		}
	}
	return out
}

// registration function: the method (recv *File, string) string that updates File.imports.
func (c *Ctx) registerFn() *ssa.Function {
	if c.regFn != nil {
		return c.regFn
	}
	var cands []*ssa.Function
	seen := map[*ssa.Function]bool{}
	for _, f := range c.CG().Funcs {
		if seen[f] || !isFileMethod(c, f) {
			continue
		}
		sig := f.Signature
		if sig.Params().Len() != 1 || sig.Results().Len() < 1 || sig.Results().Len() > 2 {
			continue
		}
		if b, ok := sig.Params().At(0).Type().Underlying().(*types.Basic); !ok || b.Kind() != types.String {
			continue
		}
		// the result is the name, or the import entry that holds it
		switch rt := sig.Results().At(0).Type().Underlying().(type) {
		case *types.Basic:
			if rt.Kind() != types.String {
				continue
			}
		case *types.Struct:
			hasStr := false
			for i := 0; i < rt.NumFields(); i++ {
				if b, ok := rt.Field(i).Type().Underlying().(*types.Basic); ok && b.Kind() == types.String {
					hasStr = true
				}
			}
			if !hasStr {
				continue
			}
		default:
			continue
		}
		if isExportedName(f.Name()) {
			continue
		}
		// updates a map field of File itself, or through a helper it calls
		upd := false
		for _, ef := range c.CG().Sum[f].Effects {
			if ef.Kind == "mapupdate" && strings.HasPrefix(ef.Field, "jen.File.") && ef.Root.Kind == "param" && ef.Root.Idx == 0 {
				upd = true
			}
		}
		if upd {
			seen[f] = true
			cands = append(cands, f)
		}
	}
	if len(cands) > 1 {
		// a wrapper that delegates to the function doing the work (a locking wrapper, a thin
		// adapter): the outermost one is the registration function, the others are its helpers
		inner := map[*ssa.Function]bool{}
		for _, a := range cands {
			for _, b := range c.calleesWithin(a, 2) {
				if b != a {
					inner[b] = true
				}
			}
		}
		var outer []*ssa.Function
		for _, a := range cands {
			if !inner[a] {
				outer = append(outer, a)
			}
		}
		if len(outer) == 1 {
			cands = outer
		}
	}
	if len(cands) != 1 {
		broken("anchor lost: expected exactly one registration function (method (*File)(string) string updating a map field of File), found %d", len(cands))
	}
	c.regFn = cands[0]
	return c.regFn
}

// implementations of a Code method.
func (c *Ctx) codeImpls(method string) []*ssa.Function {
	iface := c.codeIface().Underlying().(*types.Interface)
	var out []*ssa.Function
	seen := map[*ssa.Function]bool{}
	for _, sp := range c.SSA {
		for _, m := range sp.Members {
			tm, ok := m.(*ssa.Type)
			if !ok {
				continue
			}
			if _, isI := tm.Type().Underlying().(*types.Interface); isI {
				continue
			}
			for _, t := range []types.Type{tm.Type(), types.NewPointer(tm.Type())} {
				if !types.Implements(t, iface) {
					continue
				}
				sel := c.Prog.MethodSets.MethodSet(t).Lookup(c.Jen.Pkg, method)
				if sel == nil {
					continue
				}
				fn := c.Prog.MethodValue(sel)
				if fn != nil && !seen[fn] {
					seen[fn] = true
					out = append(out, fn)
				}
			}
		}
	}
	sort.Slice(out, func(i, j int) bool { return out[i].String() < out[j].String() })
	if len(out) == 0 {
		broken("anchor lost: no implementation of Code.%s", method)
	}
	return out
}

// writerEntryPoints: exported methods of jen with an io.Writer parameter.
func (c *Ctx) writerEntryPoints() []*ssa.Function {
	var out []*ssa.Function
	for _, f := range c.allFuncs(c.Jen) {
		if f.Parent() != nil || !token.IsExported(f.Name()) {
			continue
		}
		sig := f.Signature
		for i := 0; i < sig.Params().Len(); i++ {
			if isWriterType(sig.Params().At(i).Type()) {
				out = append(out, f)
				break
			}
		}
	}
	return out
}

func (c *Ctx) productionEntryPoints() []*ssa.Function {
	out := c.writerEntryPoints()
	if s := c.method("File", "Save"); s != nil {
		out = append(out, s)
	}
	return out
}

// ---------------------------------------------------------------------------------------------

func init() {
	register("W-RENDER-STORES", "everything reachable from a Code.render / Code.isNull implementation, File.Render, renderImports and the fragment renderers stores only to the writer, to fresh memory, and to File.imports via the registration function (mod-ref summaries over the module call graph)", 12, ruleRenderStores)
	register("W-IMPORTS-WRITERS", "File.imports is written only by the registration function, Anon (constant {\"_\",true}) and the constructors; File.hints only by ImportName/ImportNames/ImportAlias and the constructors; no delete/clear/re-assignment", 9, ruleImportsWriters)
	register("W-REGISTER-CALLERS", "the registration function is called only from the package-token case of token.render and the package-token pre-pass of Group.renderItems", 2, ruleRegisterCallers)
	register("W-ISNULL-PURE", "every Code.isNull implementation and everything it reaches has an empty mod-ref summary, writes to no writer and never reaches the registration function", 6, ruleIsNullPure)
	register("W-GLOBALS-RO", "every package-level variable of jen is only read outside init (no store, map update, element store, address escape)", 2, ruleGlobalsRO)
	register("W-NO-CONCURRENCY", "jen has no go statement, select, channel operation and does not import sync, sync/atomic, unsafe or reflect (zero-count rule with positive control)", 2, ruleNoConcurrency)
	register("W-NONDET-API", "nothing in jen calls time, math/rand, crypto/rand, os environment / process identity or runtime, and no format verb prints an address", 2, ruleNondetAPI)
	register("W-FS-EFFECTS", "file-system mutations in jen occur only in File.Save, after Render into a fresh buffer has succeeded, writing exactly that buffer", 2, ruleFSEffects)
	register("W-CALLBACK", "every callback parameter is invoked exactly once, synchronously, on every normal path, never stored, captured, deferred or spawned; nothing reachable from render/isNull calls a function value", 60, ruleCallback)
	register("W-PANICS", "explicit panics reachable from Render / RenderWithFile / Save are only the documented ones (unsupported Lit type)", 2, rulePanics)
}

func ruleRenderStores(c *Ctx) []Obligation {
	o := c.newObs("W-RENDER-STORES")
	g := c.CG()
	reg := c.registerFn()
	var entries []*ssa.Function
	entries = append(entries, c.codeImpls(c.renderName())...)
	entries = append(entries, c.codeImpls(c.nullName())...)
	entries = append(entries, c.productionEntryPoints()...)
	for _, n := range []string{"renderImports", "GoString"} {
		for _, t := range []string{"File", "Group", "Statement"} {
			if f := c.method(t, n); f != nil {
				entries = append(entries, f)
			}
		}
	}
	if ri := c.role("renderImports"); ri != nil {
		entries = append(entries, ri)
	}
	reported := map[string]bool{}
	seenE := map[*ssa.Function]bool{}
	for _, e := range entries {
		if seenE[e] || g.Sum[e] == nil {
			continue
		}
		seenE[e] = true
		// an unexported helper (the import block printer) all of whose callers are entries themselves
		// is judged in their context: what it stores into an object its caller has just made (a
		// context object carrying the buffer and a sticky error) is fresh memory there
		if !isExportedName(e.Name()) && e.Signature.Recv() != nil && !isCodeImpl(c, e) {
			callers := g.callersOf(e)
			covered := len(callers) > 0
			for _, cl := range callers {
				isEntry := false
				for _, e2 := range entries {
					if e2 != e && g.Reach(e2)[cl] {
						isEntry = true
					}
				}
				if !isEntry {
					covered = false
				}
			}
			if covered {
				o.add(Discharged, fname(e), "judged in the context of its callers", e.Pos(), true, "every caller (%d) is reachable from another render entry; effects on parameters are mapped to the callers' arguments there", len(callers))
				continue
			}
		}
		bad := 0
		total := 0
		for _, ef := range g.Sum[e].sortedEffects() {
			switch ef.Kind {
			case "store", "mapupdate", "extmut", "appendto":
			default:
				continue
			}
			total++
			if c.onceEffect(ef) {
				continue // verified initialise-once state: the same value whoever gets there first
			}
			if ef.Kind == "mapupdate" && ef.Field == "jen.File."+c.ff("imports") && ef.Via == fname(reg) {
				continue
			}
			if ef.Kind == "mapupdate" && ef.Field == "jen.File."+c.ff("imports") && c.viaOnlyFromRegister(e, ef.Via) {
				continue // a helper of the registration function that nothing else reachable from here calls
			}
			if ef.Kind == "extmut" && ef.Root.Kind == "param" && isWriterParam(e, ef.Root.Idx) {
				continue // handing the writer on to an external writer routine
			}
			bad++
			k := ef.Via + "|" + ef.Kind + "|" + ef.What
			if reported[k] {
				continue
			}
			reported[k] = true
			o.add(Violated, ef.Via, ef.Kind+" "+ef.What+" at render time", ef.Pos, true,
				"reachable from %s: %s to non-fresh memory (root %s, field %s); rendering must not change the tree or the File other than adding imports", fname(e), ef.Kind, ef.Root, ef.Field)
		}
		if bad == 0 {
			o.add(Discharged, fname(e), "mod-ref summary confined to writer / fresh memory / File.imports via registration", e.Pos(), true,
				"%d store-like effects reachable, all allowed; %d functions reachable", total, len(g.Reach(e)))
		}
	}
	return o.list
}

func isWriterParam(f *ssa.Function, idx int) bool {
	if idx < 0 || idx >= len(f.Params) {
		return false
	}
	return isWriterType(f.Params[idx].Type())
}

// structLit recovers the field values of a struct value built by a composite literal.
func (a *FnA) structLit(v ssa.Value) (map[string]ssa.Value, bool) {
	v = stripConv(v)
	u, ok := v.(*ssa.UnOp)
	if !ok || u.Op != token.MUL {
		return nil, false
	}
	al, ok := u.X.(*ssa.Alloc)
	if !ok {
		return nil, false
	}
	st, ok := al.Type().Underlying().(*types.Pointer).Elem().Underlying().(*types.Struct)
	if !ok {
		return nil, false
	}
	out := map[string]ssa.Value{}
	for _, r := range *al.Referrers() {
		switch x := r.(type) {
		case *ssa.FieldAddr:
			for _, rr := range *x.Referrers() {
				if s, ok := rr.(*ssa.Store); ok && s.Addr == x {
					name := st.Field(x.Field).Name()
					if _, dup := out[name]; dup {
						return nil, false
					}
					out[name] = s.Val
				} else if _, isLoad := rr.(*ssa.UnOp); !isLoad {
					return nil, false
				}
			}
		case *ssa.UnOp, *ssa.DebugRef:
		case *ssa.Store:
			if x.Addr == al {
				return nil, false
			}
		default:
			return nil, false
		}
	}
	return out, true
}

func isFreshFileAlloc(c *Ctx, addr ssa.Value) bool {
	fa, ok := addr.(*ssa.FieldAddr)
	if !ok {
		return false
	}
	al, ok := fa.X.(*ssa.Alloc)
	if !ok {
		return false
	}
	return types.Identical(al.Type().Underlying().(*types.Pointer).Elem(), c.fileType())
}

func ruleImportsWriters(c *Ctx) []Obligation {
	o := c.newObs("W-IMPORTS-WRITERS")
	reg := c.registerFn()
	hintSetters := map[string]bool{"ImportName": true, "ImportNames": true, "ImportAlias": true}
	for _, fieldRole := range []string{"imports", "hints"} {
		field := c.ff(fieldRole)
		ws := c.fileFieldWrites(field)
		if len(ws) == 0 {
			o.undecided("jen.File."+field, "no writer found", token.NoPos, "anchor lost: File.%s is never written", field)
		}
		for i, w := range ws {
			a := c.FA(w.fn)
			fn := fname(w.fn)
			construct := fmt.Sprintf("%s of File.%s", w.kind, field)
			_ = i
			switch w.kind {
			case "delete", "clear":
				o.add(Violated, fn, construct, w.in.Pos(), true, "an entry of File.%s is removed: a registered import would be forgotten / a hint dropped", field)
			case "store":
				st := w.in.(*ssa.Store)
				_, fresh := st.Val.(*ssa.MakeMap)
				ok := fresh && isFreshFileAlloc(c, st.Addr)
				o.req(ok, fn, construct, w.in.Pos(), "re-assignment of File.%s is allowed only as initialisation of a freshly allocated File with a fresh empty map (value %s)", field, a.Desc(st.Val))
			case "mapupdate":
				mu := w.in.(*ssa.MapUpdate)
				switch {
				case fieldRole == "imports" && w.fn == reg:
					o.add(Discharged, fn, construct, w.in.Pos(), true, "registration function (key %s)", a.Desc(mu.Key))
				case fieldRole == "imports" && c.importsStoreHelperOK(w.fn, mu, reg):
					o.add(Discharged, fn, construct, w.in.Pos(), true, "the single write point of the table: every call outside the registration function passes the anonymous-import entry")
				case fieldRole == "imports":
					// Anon idiom: constant {"_", true}
					fs, ok := a.structLit(mu.Value)
					name, _ := constString(fs[c.ff("defname")])
					al, _ := constBool(fs[c.ff("defalias")])
					ok = ok && fs[c.ff("defname")] != nil && name == "_" && fs[c.ff("defalias")] != nil && al
					o.req(ok, fn, construct, w.in.Pos(), "outside the registration function only the anonymous-import entry {name:\"_\", alias:true} may be stored (Anon); found value %s — imports must be added lazily by rendering a reference", a.Desc(mu.Value))
				case fieldRole == "hints":
					ok := c.onlyReachedFrom(w.fn, func(f *ssa.Function) bool {
						return hintSetters[f.Name()] && f.Signature.Recv() != nil && isFileMethod(c, f)
					}, 3)
					o.req(ok, fn, construct, w.in.Pos(), "File.hints may only be updated by ImportName / ImportNames / ImportAlias (or an unexported helper called only by them)")
				}
			}
		}
	}
	// hint setters must not touch imports: covered above (any mapupdate on imports outside register/Anon shape is a violation)
	c.hintSetterPaths(o)
	c.anonPaths(o)
	return o.list
}

func ruleRegisterCallers(c *Ctx) []Obligation {
	o := c.newObs("W-REGISTER-CALLERS")
	reg := c.registerFn()
	n := 0
	for _, f := range c.CG().Funcs {
		a := c.FA(f)
		for _, ci := range a.callsTo(reg) {
			n++
			facts := a.FactsOf(ci)
			// the caller must be handling a package token: typ == packageToken on the token whose content is the argument
			arg := a.Desc(ci.Common().Args[1])
			okTok := false
			for atom, pol := range facts {
				if pol && strings.HasPrefix(atom, "eq(\"package\",") && strings.Contains(atom, ".typ") {
					okTok = true
				}
			}
			okArg := strings.Contains(arg, ".content")
			if !okArg {
				// through an accessor of the token that returns its content (t.text(), packagePath(code))
				if call, isCall := stripConv(ci.Common().Args[1]).(*ssa.Call); isCall {
					okArg = c.returnsTokenContent(call)
				} else if ex, isEx := stripConv(ci.Common().Args[1]).(*ssa.Extract); isEx {
					if call, isCall := ex.Tuple.(*ssa.Call); isCall {
						okArg = c.returnsTokenContent(call)
					}
				}
			}
			isRender := false
			for _, r := range c.codeImpls(c.renderName()) {
				if r == f {
					isRender = true
				}
			}
			isItems := (len(a.invokes(a.c.renderName())) > 0 && len(a.invokes(a.c.nullName())) > 0) || f == c.role("renderItems") // the list renderer
			if f.Parent() != nil && f.Parent() == c.role("renderItems") {
				isItems = true // a function literal inside the list renderer
			}
			isTokRender := func(g *ssa.Function) bool {
				for _, r := range c.codeImpls(c.renderName()) {
					if r == g && g.Signature.Recv() != nil && types.TypeString(g.Signature.Recv().Type(), shortQual) == "jen.token" {
						return true
					}
				}
				return false
			}
			// token.render itself, the list renderer, or an unexported helper called only by token.render
			isListRenderer := func(g *ssa.Function) bool {
				if g == c.role("renderItems") {
					return true // also when its null test and its render call sit in helpers
				}
				ga := c.FA(g)
				return len(ga.invokes(c.renderName())) > 0 && len(ga.invokes(c.nullName())) > 0
			}
			okCaller := (isRender && isTokRender(f)) || isItems || (!isRender && c.onlyReachedFrom(f, func(g *ssa.Function) bool { return isTokRender(g) || isListRenderer(g) }, 2))
			// in a helper that only token.render reaches, the token-type test may sit in the caller (a
			// dispatch on the type): P-TOKEN shows on token.render's own paths that only package tokens
			// register
			if !okTok && !isRender && c.onlyReachedFrom(f, isTokRender, 2) {
				okTok = true
			}
			// the test may sit in a comma-ok accessor: `path, ok := packagePath(code)` answers ok only
			// for a package token
			if !okTok {
				for atom, pol := range facts {
					if !pol {
						continue
					}
					for _, b := range f.Blocks {
						for _, in := range b.Instrs {
							call, isCall := in.(*ssa.Call)
							if !isCall || !strings.HasPrefix(atom, a.Desc(call)) {
								continue
							}
							if sc := call.Call.StaticCallee(); sc != nil && c.inModule(sc) && c.okOnlyForPackageToken(sc) {
								okTok = true
							}
						}
					}
				}
			}
			o.req(okTok && okArg && okCaller, fname(f), "call of registration function", ci.Pos(),
				"registration must happen only while a package token is being rendered (token.render) or pre-registered by the list renderer; facts=%s arg=%s", facts, arg)
		}
		// method values / closures over register
		for _, b := range f.Blocks {
			for _, in := range b.Instrs {
				if mc, ok := in.(*ssa.MakeClosure); ok {
					if fn, ok := mc.Fn.(*ssa.Function); ok && strings.HasPrefix(fn.Name(), reg.Name()+"$bound") {
						o.add(Violated, fname(f), "method value of registration function", in.Pos(), true, "registration function escapes as a function value")
					}
				}
			}
		}
	}
	if n < 2 {
		o.undecided(fname(reg), "call sites", reg.Pos(), "expected at least the two known call sites, found %d", n)
	}
	return o.list
}

func ruleIsNullPure(c *Ctx) []Obligation {
	o := c.newObs("W-ISNULL-PURE")
	g := c.CG()
	reg := c.registerFn()
	for _, f := range c.codeImpls(c.nullName()) {
		if f.Synthetic != "" && g.Sum[f] == nil {
			continue
		}
		sum := g.Sum[f]
		if sum == nil {
			o.undecided(fname(f), "summary", f.Pos(), "no summary")
			continue
		}
		bad := 0
		reach := g.Reach(f)
		// the summaries are flow-insensitive (a hook field that is nil here counts as callable): when
		// they object, the paths of this very implementation (helpers inlined) get the last word
		impure := reach[reg] || sum.FuncVal
		for _, ef := range sum.sortedEffects() {
			if ef.Kind != "panic" {
				impure = true
			}
		}
		if impure {
			if ok, why := c.pureOnPaths(f); ok {
				o.add(Discharged, fname(f), "pure", f.Pos(), true, "%s", why)
				continue
			}
		}
		for _, ef := range sum.sortedEffects() {
			if ef.Kind == "panic" {
				continue
			}
			bad++
			o.add(Violated, fname(f), "null test has effect: "+ef.Kind+" "+ef.What+" in "+ef.Via, ef.Pos, true, "isNull must be a pure test (root %s)", ef.Root)
		}
		if reach[reg] {
			bad++
			o.add(Violated, fname(f), "null test reaches the registration function", f.Pos(), true, "an element judged null must not register an import")
		}
		if sum.FuncVal {
			bad++
			o.add(Violated, fname(f), "null test calls a function value", f.Pos(), true, "")
		}
		if bad == 0 {
			o.add(Discharged, fname(f), "pure", f.Pos(), true, "no store, map update, write, external mutation; %d functions reachable, registration not among them", len(reach))
		}
	}
	return o.list
}

// ---------------------------------------------------------------------------------------------

// readOnlyUse classifies the transitive uses of a loaded global (or an address derived from it).
func (c *Ctx) globalUseOK(v ssa.Value, depth int) (bool, string) {
	if depth > 6 {
		return false, "use chain too deep"
	}
	refs := v.Referrers()
	if refs == nil {
		return true, ""
	}
	for _, r := range *refs {
		switch x := r.(type) {
		case *ssa.DebugRef:
		case *ssa.UnOp:
			if x.Op == token.MUL {
				// load: value of aggregate type may be read further
				if isPointerLike(x.Type()) {
					if ok, why := c.globalUseOK(x, depth+1); !ok {
						return false, why
					}
				}
				continue
			}
			continue
		case *ssa.Lookup, *ssa.Range, *ssa.Index, *ssa.BinOp, *ssa.Field, *ssa.Next, *ssa.Extract, *ssa.If, *ssa.Phi, *ssa.TypeAssert:
			if vv, ok := r.(ssa.Value); ok && isPointerLike(vv.Type()) {
				if ok, why := c.globalUseOK(vv, depth+1); !ok {
					return false, why
				}
			}
		case *ssa.IndexAddr, *ssa.FieldAddr:
			if ok, why := c.globalUseOK(r.(ssa.Value), depth+1); !ok {
				return false, why
			}
		case *ssa.Slice:
			if ok, why := c.globalUseOK(x, depth+1); !ok {
				return false, why
			}
		case *ssa.Store:
			if x.Addr == v {
				return false, "store at " + c.pos(x.Pos())
			}
			return false, "value derived from the global is stored elsewhere (escape) at " + c.pos(x.Pos())
		case *ssa.MapUpdate:
			return false, "map update at " + c.pos(x.Pos())
		case *ssa.Return:
			if isErrorIface(v.Type()) {
				// a sentinel error: an interface value whose dynamic value no caller can modify
				// (every store to the variable is judged separately)
				continue
			}
			return false, "returned (escape) at " + c.pos(x.Pos())
		case ssa.CallInstruction:
			cc := x.Common()
			if bi, ok := cc.Value.(*ssa.Builtin); ok {
				switch bi.Name() {
				case "len", "cap":
					continue
				case "append":
					// appending to a global slice value may write into its backing array
					if len(cc.Args) > 0 && cc.Args[0] == v {
						return false, "append to global at " + c.pos(x.Pos())
					}
					continue
				default:
					return false, "builtin " + bi.Name() + " at " + c.pos(x.Pos())
				}
			}
			if sc := cc.StaticCallee(); sc != nil && !cc.IsInvoke() {
				n := sc.String()
				if strings.HasPrefix(n, "(*regexp.Regexp).") {
					continue // documented safe for concurrent use
				}
				pk := ""
				pk = pkgPathOf(sc)
				if pureExternal[n] || purePkgs[pk] || readOnlyStd(sc) {
					continue
				}
				if sum := c.CG().Sum[sc]; sum != nil {
					// module callee: must not store through that parameter
					bad := false
					for i, ar := range cc.Args {
						if ar != v {
							continue
						}
						for _, ef := range sum.Effects {
							if ef.Root.Kind == "param" && ef.Root.Idx == i && (ef.Kind == "store" || ef.Kind == "mapupdate" || ef.Kind == "extmut") {
								if c.onceEffect(ef) {
									continue // initialise-once state of the value passed
								}
								bad = true
							}
						}
						if sum.Returns[Root{Kind: "param", Idx: i}] {
							// an accessor of initialise-once state hands out the guarded value, which
							// nothing stores to after its initialiser ran
							if !(c.onceFacts().syncVerified() && c.returnsOnlyOnceFields(sc)) {
								bad = true
							}
						}
					}
					if !bad {
						continue
					}
				}
				return false, "passed to " + n + " at " + c.pos(x.Pos())
			}
			return false, "passed to a dynamic / interface call at " + c.pos(x.Pos())
		case *ssa.MakeInterface, *ssa.MakeClosure, *ssa.ChangeType, *ssa.Convert:
			return false, fmt.Sprintf("escapes via %T at %s", r, c.pos(r.Pos()))
		default:
			return false, fmt.Sprintf("unrecognised use %T at %s", r, c.pos(r.Pos()))
		}
	}
	return true, ""
}

func globalViolations(c *Ctx, pkg *ssa.Package, funcs []*ssa.Function) (ok map[string]int, bad map[string]string, pos map[string]token.Pos) {
	ok, bad, pos = map[string]int{}, map[string]string{}, map[string]token.Pos{}
	for _, m := range pkg.Members {
		if gl, isG := m.(*ssa.Global); isG {
			if strings.HasPrefix(gl.Name(), "init$") {
				continue
			}
			ok[gl.Name()] = 0
			pos[gl.Name()] = gl.Pos()
		}
	}
	for _, f := range funcs {
		for _, b := range f.Blocks {
			for _, in := range b.Instrs {
				for _, op := range in.Operands(nil) {
					gl, isG := (*op).(*ssa.Global)
					if !isG || gl.Pkg != pkg {
						continue
					}
					if _, tracked := ok[gl.Name()]; !tracked {
						continue
					}
					ok[gl.Name()]++
					switch x := in.(type) {
					case *ssa.UnOp:
						if x.Op == token.MUL {
							if isPointerLike(x.Type()) {
								if good, why := c.globalUseOK(x, 0); !good {
									bad[gl.Name()] = why + " (in " + fname(f) + ")"
								}
							}
							continue
						}
						bad[gl.Name()] = "unexpected operator on global in " + fname(f)
					case *ssa.Store:
						bad[gl.Name()] = "store to package-level variable in " + fname(f) + " at " + c.pos(x.Pos())
					case *ssa.FieldAddr, *ssa.IndexAddr:
						if good, why := c.globalUseOK(in.(ssa.Value), 0); !good {
							bad[gl.Name()] = why + " (in " + fname(f) + ")"
						}
					default:
						bad[gl.Name()] = fmt.Sprintf("address of package-level variable escapes (%T) in %s at %s", in, fname(f), c.pos(in.Pos()))
					}
				}
			}
		}
	}
	return
}

func ruleGlobalsRO(c *Ctx) []Obligation {
	o := c.newObs("W-GLOBALS-RO")
	okc, bad, pos := globalViolations(c, c.Jen, c.allFuncs(c.Jen))
	var names []string
	for n := range okc {
		names = append(names, n)
	}
	sort.Strings(names)
	for _, n := range names {
		if of := c.onceFacts(); of.globals[n] && len(of.bad) == 0 {
			o.add(Discharged, "jen."+n, "package-level variable is initialise-once state", pos[n], true, "a sync.Once, or written only by the function handed to its Do and read only after a Do")
			continue
		}
		if why, isBad := bad[n]; isBad {
			o.add(Violated, "jen."+n, "package-level variable is not read-only", pos[n], true, "%s — hidden global state makes one File's output depend on others / races", why)
		} else {
			o.add(Discharged, "jen."+n, "package-level variable only read", pos[n], true, "%d uses outside init, all loads feeding lookups / ranges / comparisons", okc[n])
		}
	}
	// positive control
	ctl := controlPackage(c)
	_, cbad, _ := globalViolations(c, ctl, c.ctlFuncs(ctl))
	if len(cbad) < 2 {
		o.undecided("<control>", "positive control", token.NoPos, "the matcher no longer recognises the seeded global store / map update in the control package (%v)", cbad)
	} else {
		o.add(Discharged, "<control>", "positive control matched", token.NoPos, false, "%d seeded global mutations recognised", len(cbad))
	}
	return o.list
}

func concurrencyUses(c *Ctx, funcs []*ssa.Function) []string {
	var out []string
	for _, f := range funcs {
		for _, b := range f.Blocks {
			for _, in := range b.Instrs {
				switch x := in.(type) {
				case *ssa.Go:
					out = append(out, "go statement in "+fname(f)+" at "+c.pos(x.Pos()))
				case *ssa.Select:
					out = append(out, "select in "+fname(f)+" at "+c.pos(x.Pos()))
				case *ssa.Send:
					out = append(out, "channel send in "+fname(f)+" at "+c.pos(x.Pos()))
				case *ssa.MakeChan:
					out = append(out, "make(chan) in "+fname(f)+" at "+c.pos(x.Pos()))
				case *ssa.UnOp:
					if x.Op == token.ARROW {
						out = append(out, "channel receive in "+fname(f)+" at "+c.pos(x.Pos()))
					}
				}
			}
		}
	}
	return out
}

func ruleNoConcurrency(c *Ctx) []Obligation {
	o := c.newObs("W-NO-CONCURRENCY")
	uses := concurrencyUses(c, c.allFuncs(c.Jen))
	if len(uses) == 0 {
		o.add(Discharged, "jen", "no go / select / channel operation", token.NoPos, true, "%d functions scanned", len(c.allFuncs(c.Jen)))
	}
	for _, u := range uses {
		o.add(Violated, "jen", u, token.NoPos, true, "the library is documented and relied upon as sequential, state-free code; concurrency primitives introduce shared state")
	}
	forbidden := map[string]bool{"sync": true, "sync/atomic": true, "unsafe": true}
	var imps []string
	for _, p := range c.Jen.Pkg.Imports() {
		imps = append(imps, p.Path())
		if forbidden[p.Path()] {
			if of := c.onceFacts(); p.Path() == "sync" && of.syncVerified() {
				// the one use of shared state that keeps the library's shape: values built on first
				// use, verified by W-ONCE's conditions (rules_once.go)
				o.add(Discharged, "jen", "sync is used for initialise-once state only", token.NoPos, true, "%d calls of (*sync.Once).Do; every store to the guarded locations lies in the initialiser, every read follows a Do, the initialisers are deterministic", of.sites)
				continue
			} else if p.Path() == "sync" && of.sites > 0 {
				o.add(Violated, "jen", "imports "+p.Path(), token.NoPos, true, "shared-state package imported by jen; its use is not the verified initialise-once idiom: %s %s", strings.Join(of.other, ", "), strings.Join(of.bad, "; "))
				continue
			}
			o.add(Violated, "jen", "imports "+p.Path(), token.NoPos, true, "shared-state / unsafe package imported by jen")
		}
		if p.Path() == "reflect" {
			// reflection is tolerated as a way of *looking at* values (reflect.TypeOf, Type and Kind
			// queries, reading a Value): anything that can write through a Value, make addressable
			// storage or call a function dynamically would defeat the store and call-graph rules
			bad := reflectWrites(c)
			for _, b := range bad {
				o.add(Violated, "jen", "uses reflect to write or call: "+b, token.NoPos, true, "reflection that writes through values or calls functions is invisible to the store / call-graph rules")
			}
			if len(bad) == 0 {
				o.add(Discharged, "jen", "reflect is used read-only", token.NoPos, true, "only type queries and reads of reflect.Value")
			}
		}
	}
	sort.Strings(imps)
	o.add(Discharged, "jen", "import set scanned", token.NoPos, true, "imports: %s", strings.Join(imps, " "))
	ctl := controlPackage(c)
	if n := len(concurrencyUses(c, c.ctlFuncs(ctl))); n < 3 {
		o.undecided("<control>", "positive control", token.NoPos, "matcher recognised only %d of the seeded concurrency constructs", n)
	} else {
		o.add(Discharged, "<control>", "positive control matched", token.NoPos, false, "%d seeded constructs recognised", n)
	}
	return o.list
}

// ---------------------------------------------------------------------------------------------

var nondetPkgs = map[string]bool{"time": true, "math/rand": true, "math/rand/v2": true, "crypto/rand": true, "runtime": true, "runtime/debug": true, "os/user": true}
var nondetFuncs = map[string]bool{"os.Getenv": true, "os.LookupEnv": true, "os.Environ": true, "os.Getpid": true, "os.Getppid": true, "os.Hostname": true,
	"os.Getwd": true, "os.Getuid": true, "os.Executable": true, "os.ReadFile": true, "os.Open": true, "os.Stat": true, "os.ReadDir": true, "os.UserHomeDir": true, "os.Args": true}

// fmtVerbs parses a format string into its verbs (with flags), in operand order.
func fmtVerbs(f string) []string {
	var out []string
	for i := 0; i < len(f); i++ {
		if f[i] != '%' {
			continue
		}
		j := i + 1
		for j < len(f) && strings.ContainsRune("+-# 0123456789.*[]", rune(f[j])) {
			j++
		}
		if j < len(f) {
			if f[j] != '%' {
				out = append(out, f[i:j+1])
			}
			i = j
		}
	}
	return out
}

type fmtCall struct {
	ci     ssa.CallInstruction
	format string
	konst  bool
	args   []ssa.Value
	name   string
}

func fmtCallOf(ci ssa.CallInstruction) *fmtCall {
	cc := ci.Common()
	sc := cc.StaticCallee()
	if sc == nil || cc.IsInvoke() {
		return nil
	}
	fi := -1
	switch sc.String() {
	case "fmt.Sprintf", "fmt.Errorf", "fmt.Printf":
		fi = 0
	case "fmt.Fprintf":
		fi = 1
	default:
		return nil
	}
	fc := &fmtCall{ci: ci, name: sc.String()}
	fc.format, fc.konst = constString(cc.Args[fi])
	if va, ok := varargs(cc.Args[fi+1]); ok {
		fc.args = va
	} else {
		fc.args = nil
	}
	return fc
}

func isAddrType(t types.Type) bool {
	switch t.Underlying().(type) {
	case *types.Pointer, *types.Map, *types.Chan, *types.Signature:
		return true
	}
	if b, ok := t.Underlying().(*types.Basic); ok && b.Kind() == types.UnsafePointer {
		return true
	}
	return false
}

func nondetUses(c *Ctx, funcs []*ssa.Function) []string {
	var out []string
	for _, f := range funcs {
		a := c.FA(f)
		for _, ci := range a.calls() {
			cc := ci.Common()
			if sc := cc.StaticCallee(); sc != nil && !cc.IsInvoke() {
				pk := pkgPathOf(sc)
				if pk != "" {
				} else if r := sc.Signature.Recv(); r != nil {
					t := r.Type()
					if p, ok := t.(*types.Pointer); ok {
						t = p.Elem()
					}
					if n, ok := t.(*types.Named); ok && n.Obj().Pkg() != nil {
						pk = n.Obj().Pkg().Path()
					}
				}
				if nondetPkgs[pk] || nondetFuncs[sc.String()] {
					out = append(out, fmt.Sprintf("%s calls %s at %s", fname(f), sc.String(), c.pos(ci.Pos())))
				}
			}
			if fc := fmtCallOf(ci); fc != nil && fc.konst {
				verbs := fmtVerbs(fc.format)
				for i, v := range verbs {
					last := v[len(v)-1]
					if last == 'p' {
						out = append(out, fmt.Sprintf("%s formats an address with %%p at %s", fname(f), c.pos(ci.Pos())))
						continue
					}
					if i < len(fc.args) && strings.ContainsRune("vsdxX", rune(last)) {
						if mi, ok := fc.args[i].(*ssa.MakeInterface); ok && isAddrType(mi.X.Type()) {
							// pointer to struct prints &{...} for %v (contents) – still an address for maps/chans/funcs and for %d/%x
							if _, isPtr := mi.X.Type().Underlying().(*types.Pointer); isPtr && (last == 'v' || last == 's') {
								pt := mi.X.Type().Underlying().(*types.Pointer).Elem().Underlying()
								if _, isStruct := pt.(*types.Struct); isStruct {
									if !hasMethod(mi.X.Type(), "String") && !hasMethod(mi.X.Type(), "Error") && !hasMethod(mi.X.Type(), "GoString") {
										// nested pointers inside would still print addresses; report conservatively
										out = append(out, fmt.Sprintf("%s formats a pointer-typed operand (%s) with %s at %s", fname(f), mi.X.Type(), v, c.pos(ci.Pos())))
									}
									continue
								}
							}
							if hasMethod(mi.X.Type(), "Error") || hasMethod(mi.X.Type(), "String") {
								continue
							}
							out = append(out, fmt.Sprintf("%s formats an address-typed operand (%s) with %s at %s", fname(f), mi.X.Type(), v, c.pos(ci.Pos())))
						}
					}
				}
			}
		}
		// reads of os.Args etc.
		for _, b := range f.Blocks {
			for _, in := range b.Instrs {
				for _, op := range in.Operands(nil) {
					if gl, ok := (*op).(*ssa.Global); ok && gl.Pkg != nil && gl.Pkg.Pkg.Path() == "os" && (gl.Name() == "Args") {
						out = append(out, fmt.Sprintf("%s reads os.%s at %s", fname(f), gl.Name(), c.pos(in.Pos())))
					}
				}
			}
		}
	}
	return out
}

func hasMethod(t types.Type, name string) bool {
	ms := types.NewMethodSet(t)
	for i := 0; i < ms.Len(); i++ {
		if ms.At(i).Obj().Name() == name {
			return true
		}
	}
	return false
}

func ruleNondetAPI(c *Ctx) []Obligation {
	o := c.newObs("W-NONDET-API")
	funcs := c.allFuncs(c.Jen)
	uses := nondetUses(c, funcs)
	nfmt := 0
	for _, f := range funcs {
		for _, ci := range c.FA(f).calls() {
			if fmtCallOf(ci) != nil {
				nfmt++
			}
		}
	}
	if len(uses) == 0 {
		o.add(Discharged, "jen", "no clock / randomness / environment / address formatting", token.NoPos, true, "%d functions, %d format calls inspected", len(funcs), nfmt)
	}
	for _, u := range uses {
		o.add(Violated, "jen", u, token.NoPos, true, "output would depend on incidental state")
	}
	ctl := controlPackage(c)
	if n := len(nondetUses(c, c.ctlFuncs(ctl))); n < 1 {
		o.undecided("<control>", "positive control", token.NoPos, "matcher did not recognise the seeded %%p format")
	} else {
		o.add(Discharged, "<control>", "positive control matched", token.NoPos, false, "%d seeded constructs recognised", n)
	}
	return o.list
}

// ---------------------------------------------------------------------------------------------

func ruleFSEffects(c *Ctx) []Obligation {
	o := c.newObs("W-FS-EFFECTS")
	save := c.method("File", "Save")
	render := c.method("File", "Render")
	if save == nil || render == nil {
		o.undecided("jen.File", "Save/Render", token.NoPos, "anchor lost: File.Save or File.Render not found")
		return o.list
	}
	nfs := 0
	for _, f := range c.allFuncs(c.Jen) {
		a := c.FA(f)
		for _, ci := range a.calls() {
			sc := ci.Common().StaticCallee()
			if sc == nil || ci.Common().IsInvoke() || !fsMutators[sc.String()] {
				continue
			}
			nfs++
			construct := "file-system call " + sc.String()
			if sc.String() == "os.OpenFile" {
				// opening the target for writing must truncate it (or refuse to reuse it)
				if fl, ok := constInt(ci.Common().Args[1]); ok {
					const oWRONLY, oRDWR, oAPPEND, oCREATE, oEXCL, oTRUNC = 0x1, 0x2, 0x400, 0x40, 0x80, 0x200
					writes := fl&(oWRONLY|oRDWR) != 0
					okFl := !writes || fl&(oTRUNC|oEXCL) != 0
					if fl&oAPPEND != 0 {
						okFl = false
					}
					o.req(okFl, fname(f), construct+" truncates the target", ci.Pos(), "flags %#x: without O_TRUNC (or O_EXCL) the tail of a longer existing file survives — the saved file is not exactly the rendered output", fl)
				} else {
					o.undecided(fname(f), construct+" truncates the target", ci.Pos(), "flags are not constant")
				}
			}
			if f != save {
				o.add(Violated, fname(f), construct, ci.Pos(), true, "file-system mutation outside File.Save")
				continue
			}
			// must be dominated by the success edge of Render into a fresh buffer
			rcalls := a.callsTo(render)
			if len(rcalls) != 1 {
				// Save does not go through Render (a shared helper produces the bytes): the same
				// requirement is judged on the paths of Save with everything inlined
				c.saveOnPaths(o, save)
				continue
			}
			rc := rcalls[0]
			rv := callValue(rc)
			buf := stripConv(rc.Common().Args[1])
			al, fresh := buf.(*ssa.Alloc)
			facts := a.FactsOf(ci)
			rd := a.Desc(rv)
			succ := facts.Has("eq("+min2(rd, "nil")+","+max2(rd, "nil")+")", true)
			o.req(succ, fname(f), construct+" only after Render succeeded", ci.Pos(), "facts at the call: %s; needs %s == nil — otherwise a failed render clobbers the existing target", facts, rd)
			o.req(fresh, fname(f), construct+": Render target is a fresh private buffer", ci.Pos(), "Render writes to %s", a.Desc(buf))
			// data argument
			for i, ar := range ci.Common().Args {
				t := ar.Type().Underlying()
				isBytes := false
				if sl, ok := t.(*types.Slice); ok {
					if b, ok := sl.Elem().Underlying().(*types.Basic); ok && b.Kind() == types.Byte {
						isBytes = true
					}
				}
				if !isBytes {
					continue
				}
				okData := false
				if call, ok := stripConv(ar).(*ssa.Call); ok && fresh {
					if sc2 := call.Call.StaticCallee(); sc2 != nil && sc2.String() == "(*bytes.Buffer).Bytes" && call.Call.Args[0] == al {
						okData = true
					}
				}
				o.req(okData, fname(f), fmt.Sprintf("%s: data argument %d is the rendered buffer", construct, i), ci.Pos(), "data = %s", a.Desc(ar))
			}
			// no error edge reaches it: implied by dominance of the success edge
		}
	}
	if nfs == 0 {
		o.undecided(fname(save), "file-system call", save.Pos(), "anchor lost: Save performs no recognised file-system write")
	}
	// Save's own error propagation is P-ERR-PROP
	return o.list
}

func min2(a, b string) string {
	if a < b {
		return a
	}
	return b
}
func max2(a, b string) string {
	if a < b {
		return b
	}
	return a
}

// ---------------------------------------------------------------------------------------------

func ruleCallback(c *Ctx) []Obligation {
	o := c.newObs("W-CALLBACK")
	g := c.CG()
	var fns []*ssa.Function
	for _, f := range c.allFuncs(c.Jen) {
		if f.Parent() != nil {
			continue
		}
		fns = append(fns, f)
	}
	okHandoff := map[*ssa.Function]map[int]bool{}
	type pend struct {
		f   *ssa.Function
		idx int
		to  *ssa.Function
		ti  int
		pos token.Pos
	}
	var pending []pend
	status := map[string]bool{}
	for _, f := range fns {
		for pi, p := range f.Params {
			if _, ok := p.Type().Underlying().(*types.Signature); !ok {
				continue
			}
			key := fmt.Sprintf("callback parameter %d (%s)", pi, types.TypeString(p.Type(), shortQual))
			// internal plumbing: a parameter that only ever receives the module's own functions (every
			// caller is known, every argument resolves) is not a user's callback; what those functions
			// do is in the summaries of the callers
			if ts, ok := g.resolveFuncValue(f, p, 0, map[ssa.Value]bool{}); ok && len(ts) > 0 {
				var ns []string
				for _, t := range ts {
					ns = append(ns, fname(t))
				}
				o.add(Discharged, fname(f), key, f.Pos(), true, "not a user callback: every value that reaches this parameter is one of the module's own functions (%s)", strings.Join(ns, ", "))
				continue
			} else if os.Getenv("JENLINT_DEBUG") != "" {
				ix := g.fvIdx()
				fmt.Fprintln(os.Stderr, "W-CALLBACK resolve failed", fname(f), pi, "instances", len(ix.instances[f]), "sites", len(ix.sites[f]), "callersKnown", g.allCallersKnown(f))
				for _, t := range ix.instances[f] {
					fmt.Fprintln(os.Stderr, "   instance", t.String(), "sites", len(ix.sites[t]), "known", g.allCallersKnown(t), "valueUse", ix.valueUse[t], ix.valueUse[f])
				}
			}
			refs := *p.Referrers()
			var uses []ssa.Instruction
			for _, r := range refs {
				if _, ok := r.(*ssa.DebugRef); ok {
					continue
				}
				uses = append(uses, r)
			}
			if len(uses) != 1 {
				o.add(Violated, fname(f), key, f.Pos(), true, "callback has %d uses; it must be invoked exactly once (or handed to exactly one sibling form)", len(uses))
				continue
			}
			u := uses[0]
			ci, isCall := u.(*ssa.Call)
			if !isCall {
				o.add(Violated, fname(f), key, u.Pos(), true, "callback is not called directly but used by %T (stored, captured, deferred, spawned or converted) — it would run later or not at all", u)
				continue
			}
			// position: dominates every normal exit, not in a cycle
			dom := true
			for _, r := range c.FA(f).returns() {
				if !(ci.Block() == r.Block() || ci.Block().Dominates(r.Block())) {
					dom = false
				}
			}
			if !dom || inCycle(ci.Block()) {
				o.add(Violated, fname(f), key, ci.Pos(), true, "callback invocation does not lie on every normal path exactly once (dominates exits: %v, in loop: %v)", dom, inCycle(ci.Block()))
				continue
			}
			if ci.Call.Value == p {
				if okHandoff[f] == nil {
					okHandoff[f] = map[int]bool{}
				}
				okHandoff[f][pi] = true
				status[fname(f)+"|"+key] = true
				o.add(Discharged, fname(f), key, ci.Pos(), true, "called directly, once, on every normal path, at construction time")
				continue
			}
			// hand-off
			sc := ci.Call.StaticCallee()
			ti := -1
			for i, ar := range ci.Call.Args {
				if ar == p {
					ti = i
				}
			}
			if sc == nil || g.Sum[sc] == nil || ti < 0 || ci.Call.IsInvoke() {
				o.add(Violated, fname(f), key, ci.Pos(), true, "callback handed to %s which is not a module function taking it as a parameter", calleeName(&ci.Call))
				continue
			}
			pending = append(pending, pend{f, pi, sc, ti, ci.Pos()})
		}
	}
	// resolve hand-offs (chains of length <= 3)
	for round := 0; round < 4 && len(pending) > 0; round++ {
		var next []pend
		for _, p := range pending {
			key := fmt.Sprintf("callback parameter %d (%s)", p.idx, types.TypeString(p.f.Params[p.idx].Type(), shortQual))
			if okHandoff[p.to][p.ti] {
				if okHandoff[p.f] == nil {
					okHandoff[p.f] = map[int]bool{}
				}
				okHandoff[p.f][p.idx] = true
				o.add(Discharged, fname(p.f), key, p.pos, true, "handed once, on every normal path, to %s which satisfies the rule", fname(p.to))
			} else {
				next = append(next, p)
			}
		}
		pending = next
	}
	for _, p := range pending {
		key := fmt.Sprintf("callback parameter %d (%s)", p.idx, types.TypeString(p.f.Params[p.idx].Type(), shortQual))
		o.add(Violated, fname(p.f), key, p.pos, true, "callback handed to %s which does not invoke it exactly once", fname(p.to))
	}
	// render-time: no function value is called
	for _, e := range append(c.codeImpls(c.renderName()), c.codeImpls(c.nullName())...) {
		if g.Sum[e] == nil {
			continue
		}
		okFV := !g.Sum[e].FuncVal
		if !okFV {
			// flow-insensitive; on the paths of this implementation (helpers inlined, hooks resolved
			// where the path knows them) no call through an unknown function value may occur
			ok, why := c.noFuncValueOnPaths(e)
			if ok {
				okFV = true
			} else if os.Getenv("JENLINT_DEBUG") != "" {
				fmt.Fprintln(os.Stderr, "noFuncValueOnPaths", fname(e), why)
			}
		}
		o.req(okFV, fname(e), "no function value is called at render time", e.Pos(), "a user callback must never run during rendering")
	}
	return o.list
}

// ---------------------------------------------------------------------------------------------

func rulePanics(c *Ctx) []Obligation {
	o := c.newObs("W-PANICS")
	g := c.CG()
	seen := map[string]bool{}
	tokRender := ""
	for _, f := range c.codeImpls(c.renderName()) {
		if f.Signature.Recv() != nil && types.TypeString(f.Signature.Recv().Type(), shortQual) == "jen.token" && f.Synthetic == "" {
			tokRender = fname(f)
		}
	}
	for _, e := range c.productionEntryPoints() {
		sum := g.Sum[e]
		if sum == nil {
			continue
		}
		n := 0
		for _, ef := range sum.sortedEffects() {
			if ef.Kind != "panic" {
				continue
			}
			n++
			k := ef.Via + "|" + ef.What
			if seen[k] {
				continue
			}
			seen[k] = true
			// documented exception: default case of the literal type switch in token.render
			_ = tokRender
			if unreach, why := c.panicUnreachableOnPaths(ef); unreach {
				o.add(Discharged, ef.Via, "panic site not reached on any path of the renderers that lead to it", ef.Pos, true, "%s", why)
				continue
			}
			if c.mustHelperPanic(ef) {
				o.add(Discharged, ef.Via, "panic of a Must… helper with the error of the call it wraps", ef.Pos, true, "an exported function whose name starts with Must panics by convention instead of returning the error; the error-returning form is what the property speaks about")
				continue
			}
			if c.isLitDefaultPanic(ef) || c.litPanicOnPaths(ef.Pos) {
				o.add(Discharged, ef.Via, "panic for unsupported literal type (documented: \"Passing any other type will panic\")", ef.Pos, true, "reachable from %s", fname(e))
				continue
			}
			o.add(Violated, ef.Via, "panic reachable from a render entry point: "+ef.What, ef.Pos, true, "reachable from %s; invalid compositions must be reported as an error, never a panic", fname(e))
		}
		o.add(Discharged, fname(e), "explicit panics reachable are documented ones", e.Pos(), true, "%d panic sites reachable", n)
	}
	// implicit: integer division / remainder by a divisor that may be zero, anywhere in the package
	// (index and slice bounds are P-BOUNDS, type assertions T-TOKCONTENT, nil items P-NILGUARD)
	ndiv := 0
	for _, f := range c.allFuncs(c.Jen) {
		if f.Blocks == nil {
			continue
		}
		a := c.FA(f)
		for _, b := range f.Blocks {
			for _, in := range b.Instrs {
				bo, ok := in.(*ssa.BinOp)
				if !ok || (bo.Op != token.QUO && bo.Op != token.REM) {
					continue
				}
				bt, ok := bo.Type().Underlying().(*types.Basic)
				if !ok || bt.Info()&types.IsInteger == 0 {
					continue
				}
				ndiv++
				construct := fmt.Sprintf("integer division #%d", ndiv)
				if k, isC := constInt(bo.Y); isC {
					o.req(k != 0, fname(f), construct, bo.Pos(), "constant divisor %d", k)
					continue
				}
				d := a.Desc(bo.Y)
				F := a.FactsAt(b)
				okDiv := F.Has("eq(0,"+d+")", false) || F.Has("lt(0,"+d+")", true)
				if call, isCall := stripConv(bo.Y).(*ssa.Call); isCall {
					if bi, isB := call.Call.Value.(*ssa.Builtin); isB && bi.Name() == "len" && len(call.Call.Args) == 1 {
						x := a.Desc(call.Call.Args[0])
						if F.Has("empty("+x+")", false) {
							okDiv = true
						}
					}
				}
				o.req(okDiv, fname(f), construct, bo.Pos(), "divisor %s is not known to be non-zero at this point (facts %s): a division by zero panics", d, F)
			}
		}
	}
	o.add(Discharged, "jen", "integer divisions scanned", token.NoPos, true, "%d integer division / remainder operations in the package", ndiv)
	return o.list
}

// isLitDefaultPanic: the panic lies in the default branch of a type switch over the token content
// (all `is<T>` facts negative, at least the 17 documented types).
func (c *Ctx) isLitDefaultPanic(ef Effect) bool {
	for _, f := range c.CG().Funcs {
		if fname(f) != ef.Via {
			continue
		}
		a := c.FA(f)
		for _, b := range f.Blocks {
			for _, in := range b.Instrs {
				if in.Pos() != ef.Pos {
					continue
				}
				// default branch of a type switch over one value that refutes the 17 documented literal
				// types (in token.render itself or in a helper the switch was extracted into)
				neg := map[string]int{}
				for atom, pol := range a.FactsAt(b) {
					if strings.HasPrefix(atom, "is<") {
						i := strings.Index(atom, ">(")
						if pol || i < 0 {
							return false
						}
						for _, dt := range documentedLitTypes {
							if atom[3:i] == dt {
								neg[atom[i+1:]]++
							}
						}
					}
				}
				for _, n := range neg {
					if n >= len(documentedLitTypes) {
						return true
					}
				}
				return false
			}
		}
	}
	return false
}

// ---------------------------------------------------------------------------------------------

func init() {
	register("W-FILE-ARGS", "exported File methods neither retain nor modify a map handed in by the caller (hint tables are copied entry by entry), so Files built from one shared table stay independent", 1, ruleFileArgs)
}

func ruleFileArgs(c *Ctx) []Obligation {
	o := c.newObs("W-FILE-ARGS")
	g := c.CG()
	for _, f := range c.allFuncs(c.Jen) {
		if f.Parent() != nil || !isFileMethod(c, f) || !isExportedName(f.Name()) {
			continue
		}
		sum := g.Sum[f]
		for pi, p := range f.Params {
			if pi == 0 {
				continue
			}
			if _, isMap := p.Type().Underlying().(*types.Map); !isMap {
				continue
			}
			construct := fmt.Sprintf("map parameter %d (%s)", pi-1, p.Name())
			bad := ""
			// modified?
			for _, ef := range sum.sortedEffects() {
				if ef.Root.Kind == "param" && ef.Root.Idx == pi && (ef.Kind == "store" || ef.Kind == "mapupdate" || ef.Kind == "extmut") {
					bad = fmt.Sprintf("the caller's map is modified (%s %s in %s)", ef.Kind, ef.What, ef.Via)
				}
			}
			// retained? the parameter value itself (or a phi / conversion of it) is stored or returned
			var retained func(v ssa.Value, depth int) string
			retained = func(v ssa.Value, depth int) string {
				if depth > 3 {
					return ""
				}
				for _, r := range nonDebugRefs(v) {
					switch x := r.(type) {
					case *ssa.Store:
						if x.Val == v {
							return "the caller's map is kept (stored into " + c.FA(f).obj(x.Addr) + ")"
						}
					case *ssa.MapUpdate:
						if x.Value == v || x.Key == v {
							return "the caller's map is kept inside another map"
						}
					case *ssa.Return:
						return "the caller's map is returned"
					case *ssa.MakeInterface, *ssa.ChangeType, *ssa.Phi:
						if s := retained(r.(ssa.Value), depth+1); s != "" {
							return s
						}
					case *ssa.MakeClosure:
						return "the caller's map is captured by a closure"
					case ssa.CallInstruction:
						cc := x.Common()
						if _, isB := cc.Value.(*ssa.Builtin); isB {
							continue
						}
						if sc := cc.StaticCallee(); sc != nil && g.Sum[sc] != nil {
							// a module callee: it must itself only read it (checked through the summary above) and not keep it
							for i, ar := range cc.Args {
								if ar == v && i < len(sc.Params) {
									if s := retainedIn(c, sc, sc.Params[i]); s != "" {
										return s + " (via " + fname(sc) + ")"
									}
								}
							}
							continue
						}
						return "the caller's map is passed to " + calleeName(cc)
					}
				}
				return ""
			}
			if bad == "" {
				bad = retained(p, 0)
			}
			o.req(bad == "", fname(f), construct+" is only read", f.Pos(), "%s — two Files given the same table would influence each other, and the caller's table would change under its feet", bad)
		}
	}
	return o.list
}

func retainedIn(c *Ctx, f *ssa.Function, p *ssa.Parameter) string {
	for _, r := range nonDebugRefs(p) {
		switch x := r.(type) {
		case *ssa.Store:
			if x.Val == ssa.Value(p) {
				return "the caller's map is kept (stored into " + c.FA(f).obj(x.Addr) + ")"
			}
		case *ssa.Return:
			return "the caller's map is returned"
		}
	}
	return ""
}

func (c *Ctx) groupType() *types.Named {
	o := c.Jen.Pkg.Scope().Lookup("Group")
	if o == nil {
		broken("anchor lost: type jen.Group")
	}
	return o.Type().(*types.Named)
}

// onlyReachedFrom: f satisfies ok, or f is unexported, has at least one static caller in the module
// and every caller (transitively, up to depth) satisfies this too. Function values are refused.
func (c *Ctx) onlyReachedFrom(f *ssa.Function, ok func(*ssa.Function) bool, depth int) bool {
	if ok(f) {
		return true
	}
	if depth == 0 || isExportedName(f.Name()) || f.Parent() != nil {
		return false
	}
	n := 0
	internal := c.internalOnlySig(f.Signature)
	for _, g := range c.CG().Funcs {
		for _, b := range g.Blocks {
			for _, in := range b.Instrs {
				switch x := in.(type) {
				case ssa.CallInstruction:
					if x.Common().StaticCallee() == f {
						n++
						if !c.onlyReachedFrom(g, ok, depth-1) {
							return false
						}
					}
					for _, a := range x.Common().Args {
						if a == ssa.Value(f) && !internal {
							return false
						}
					}
				case *ssa.MakeClosure:
					if x.Fn == ssa.Value(f) {
						return false
					}
				}
			}
		}
	}
	if internal {
		// a function of module-internal type handed around as a value: whoever takes its address
		// counts as its caller
		for _, g := range c.addrTaken()[f] {
			n++
			if !c.onlyReachedFrom(g, ok, depth-1) {
				return false
			}
		}
	}
	return n > 0
}

// hintSetterPaths: on every path of ImportName / ImportAlias exactly one hint {name: the caller's
// name, alias: true exactly for ImportAlias} is stored under the caller's path; ImportNames stores
// one such (non-alias) hint per entry of its argument.
func (c *Ctx) hintSetterPaths(o *obs) {
	hints := "recv." + c.ff("hints")
	nameF, aliasF := c.ff("defname"), c.ff("defalias")
	for _, name := range []string{"ImportName", "ImportAlias", "ImportNames"} {
		f := c.method("File", name)
		if f == nil {
			o.undecided("(*jen.File)."+name, "anchor", token.NoPos, "anchor lost: public hint setter not found")
			continue
		}
		fn := fname(f)
		paths, trunc := c.Paths(f, PXConfig{MaxVisits: 4, MaxDepth: 3})
		if trunc || len(paths) == 0 {
			o.undecided(fn, "path enumeration", f.Pos(), "%d paths, truncated %v", len(paths), trunc)
			continue
		}
		t := newTally(o, fn, f.Pos())
		key := "File.hints receives the caller's name under the caller's path, flagged alias exactly for ImportAlias, exactly once on every path"
		for _, p := range paths {
			if p.End != "return" {
				t.note(key, false, "path %s ends in %s", traceOf(p), p.End)
				continue
			}
			type upd struct{ k, n, a string }
			var got []upd
			bad := ""
			for _, e := range p.Events {
				switch e.Kind {
				case "mapupdate":
					if e.Recv.String() != hints {
						bad = "update of " + e.Recv.String()
						continue
					}
					v := e.Args[1]
					u := upd{k: e.Args[0].String(), n: "?", a: "?"}
					if v.Op == "struct" {
						u.n, u.a = "\"\"", "false"
						if x := v.Fields[nameF]; x != nil {
							u.n = x.String()
						}
						if x := v.Fields[aliasF]; x != nil {
							u.a = x.String()
						}
					}
					got = append(got, u)
				case "store":
					if !strings.HasPrefix(e.Recv.String(), "alloc") && !strings.HasPrefix(e.Recv.String(), "&alloc") {
						bad = "store to " + e.Recv.String()
					}
				case "call", "invoke", "write", "panic", "go", "defer":
					if e.Kind == "call" && e.Fn != nil && pureExternal[e.Fn.String()] {
						continue
					}
					bad = e.Kind + " " + e.Name
				}
			}
			var want []upd
			switch name {
			case "ImportName":
				want = []upd{{"p0", "p1", "false"}}
			case "ImportAlias":
				want = []upd{{"p0", "p1", "true"}}
			case "ImportNames":
				for _, atom := range p.Order {
					if strings.HasPrefix(atom, "next(range(p0))@") && strings.HasSuffix(atom, "#0") && p.Facts[atom] {
						b := strings.TrimSuffix(atom, "#0")
						want = append(want, upd{b + "#1", b + "#2", "false"})
					}
				}
			}
			ok := bad == "" && len(got) == len(want)
			for i := range want {
				if ok && got[i] != want[i] {
					ok = false
				}
			}
			// nothing but the iteration facts may condition the update
			for atom := range p.Facts {
				if !strings.HasPrefix(atom, "next(range(p0))@") {
					ok = false
					bad += " conditioned on " + atom
				}
			}
			t.note(key, ok, "path %s stores %v, expected %v %s — an alias recorded as a plain name is printed without alias in the import block while the body still uses it; a hint recorded only for some inputs changes the meaning of the same call", traceOf(p), got, want, bad)
		}
		t.require(key)
		t.flush()
	}
}

// anonPaths: Anon records the anonymous entry for every path it is given — one update of the import
// table per element of the argument, keyed by that element, conditioned on nothing but the iteration
// (a path that is skipped because of a hint or an earlier entry is an import the user asked for and
// does not get).
func (c *Ctx) anonPaths(o *obs) {
	f := c.method("File", "Anon")
	if f == nil {
		o.undecided("(*jen.File).Anon", "anchor", token.NoPos, "anchor lost: Anon not found")
		return
	}
	fn := fname(f)
	imp := "recv." + c.ff("imports")
	nameF, aliasF := c.ff("defname"), c.ff("defalias")
	paths, trunc := c.Paths(f, PXConfig{MaxVisits: 4, MaxDepth: 3})
	if trunc || len(paths) == 0 {
		o.undecided(fn, "path enumeration", f.Pos(), "%d paths, truncated %v", len(paths), trunc)
		return
	}
	t := newTally(o, fn, f.Pos())
	key := "Anon records {\"_\", alias} for every path it is given, whatever hints or entries exist"
	for _, p := range paths {
		if p.End != "return" {
			t.note(key, false, "path %s ends in %s", traceOf(p), p.End)
			continue
		}
		var got []string
		bad := ""
		for _, e := range p.Events {
			if e.Kind != "mapupdate" || e.Recv.String() != imp {
				continue
			}
			v := e.Args[1]
			if v.Op != "struct" || v.Fields[nameF] == nil || v.Fields[nameF].String() != `"_"` || v.Fields[aliasF] == nil || v.Fields[aliasF].String() != "true" {
				bad = "stores " + v.String()
			}
			got = append(got, e.Args[0].String())
		}
		// the elements examined on this path: p0[0], p0[1], … as far as the facts say the list goes
		n := 0
		for k := 0; k < 4; k++ {
			if p.Facts.Has(fmt.Sprintf("lt(%d,len(p0))", k), true) || (k == 0 && p.Facts.Has("empty(p0)", false)) {
				n = k + 1
			}
		}
		ok := bad == "" && len(got) == n
		for i := 0; ok && i < n; i++ {
			if got[i] != fmt.Sprintf("p0[%d]", i) {
				ok = false
			}
		}
		for atom := range p.Facts {
			if !(strings.HasPrefix(atom, "lt(") && strings.HasSuffix(atom, ",len(p0))")) && atom != "empty(p0)" {
				ok = false
				bad += " conditioned on " + atom
			}
		}
		t.note(key, ok, "path %s records %v for %d path(s) %s", traceOf(p), got, n, bad)
	}
	t.require(key)
	t.flush()
}

// viaOnlyFromRegister: the function named via is a helper of the registration function (called by it,
// at most two levels down), and among everything reachable from entry only the registration
// function and those helpers call it.
func (c *Ctx) viaOnlyFromRegister(entry *ssa.Function, via string) bool {
	reg := c.registerFn()
	helpers := map[*ssa.Function]bool{reg: true}
	var target *ssa.Function
	for _, h := range c.calleesWithin(reg, 2) {
		helpers[h] = true
		if fname(h) == via {
			target = h
		}
	}
	if target == nil {
		return false
	}
	for h := range c.CG().Reach(entry) {
		if helpers[h] {
			continue
		}
		for _, b := range h.Blocks {
			for _, in := range b.Instrs {
				if ci, ok := in.(ssa.CallInstruction); ok && ci.Common().StaticCallee() == target {
					return false
				}
			}
		}
	}
	return true
}

// pureOnPaths: on every path of f (module helpers inlined, Code implementations opaque) nothing
// happens but null tests of other items, pure calls and type assertions: no write, no store or map
// update to memory that existed before the call, no registration, no render of an item, no call
// through an unresolved function value.
func (c *Ctx) pureOnPaths(f *ssa.Function) (bool, string) {
	type res struct {
		ok  bool
		why string
	}
	key := "pureOnPaths:" + f.String()
	if v, ok := c.extra(key); ok {
		r := v.(res)
		return r.ok, r.why
	}
	ok, why := c.pureOnPaths0(f)
	c.setExtra(key, res{ok, why})
	return ok, why
}

func (c *Ctx) pureOnPaths0(f *ssa.Function) (bool, string) {
	paths, trunc := c.Paths(f, PXConfig{Opaque: c.stdOpaque(), MaxVisits: 3, MaxDepth: 4, MaxIndex: 3, MaxPaths: 60000})
	if trunc || len(paths) == 0 {
		return false, "path enumeration truncated"
	}
	reg := c.registerFn()
	for _, p := range paths {
		for _, e := range p.Events {
			switch e.Kind {
			case "write", "mapupdate", "funcvalue", "go", "defer", "send":
				return false, "path " + traceOf(p) + ": " + e.Kind + " " + e.Name
			case "store":
				return false, "path " + traceOf(p) + ": store to " + e.Recv.String()
			case "invoke":
				if e.Name != c.nullName() && e.Name != "Error" && e.Name != "String" {
					return false, "path " + traceOf(p) + ": invokes " + e.Name
				}
			case "call":
				if e.Fn == reg {
					return false, "path " + traceOf(p) + ": calls the registration function"
				}
				if e.Fn != nil && c.inModule(e.Fn) {
					// an opaque module callee: only other null tests are acceptable
					isNullImpl := false
					for _, r := range c.codeImpls(c.nullName()) {
						if r == e.Fn {
							isNullImpl = true
						}
					}
					if !isNullImpl {
						return false, "path " + traceOf(p) + ": calls " + fname(e.Fn)
					}
				}
			}
		}
	}
	return true, fmt.Sprintf("flow-insensitive summary objected; on all %d paths of this implementation (helpers inlined) nothing but null tests of items and pure calls happens", len(paths))
}

// noFuncValueOnPaths: no path of f (helpers inlined) calls through a function value it cannot resolve.
func (c *Ctx) noFuncValueOnPaths(f *ssa.Function) (bool, string) {
	// only callees whose own summary contains a call through a function value can contribute such a
	// call; everything else stays opaque, which keeps the enumeration small
	g := c.CG()
	std := c.stdOpaque()
	opq := func(h *ssa.Function) bool { return std(h) || (g.Sum[h] != nil && !g.Sum[h].FuncVal) }
	paths, trunc := c.Paths(f, PXConfig{Opaque: opq, MaxVisits: 2, MaxDepth: 4, MaxIndex: 2, MaxPaths: 100000})
	if trunc || len(paths) == 0 {
		return false, "path enumeration truncated"
	}
	for _, p := range paths {
		for _, e := range p.Events {
			if e.Kind == "funcvalue" {
				return false, "path " + traceOf(p) + " calls " + e.Name
			}
		}
	}
	return true, ""
}

// saveOnPaths: W-FS-EFFECTS for a Save that does not call File.Render as such. On every path of
// Save (helpers inlined, Code implementations opaque): at most one file-system mutation; none when
// rendering, formatting or any other fallible step failed; the mutation comes after the success of
// both, and its data argument is the formatter's result (or, with NoFormat, the raw rendering).
func (c *Ctx) saveOnPaths(o *obs, save *ssa.Function) {
	fn := fname(save)
	paths, trunc := c.Paths(save, PXConfig{Opaque: c.stdOpaque(c.role("renderImports")), MaxVisits: 3, MaxDepth: 9, MaxPaths: 40000})
	if trunc || len(paths) == 0 {
		o.undecided(fn, "path enumeration", save.Pos(), "%d paths, truncated %v", len(paths), trunc)
		return
	}
	t := newTally(o, fn, save.Pos())
	for _, p := range paths {
		var fs []Ev
		var fmtEv, renderEv *Ev
		nfmt := 0
		for i := range p.Events {
			e := &p.Events[i]
			switch {
			case e.Kind == "call" && fsMutators[e.Name]:
				fs = append(fs, *e)
			case e.Kind == "call" && e.Name == "go/format.Source":
				fmtEv = e
				nfmt++
			case e.Kind == "call" && e.Fn != nil && e.Fn.Name() == c.renderName() && renderEv == nil:
				renderEv = e
			case e.Kind == "invoke" && e.Name == c.renderName() && renderEv == nil:
				re := *e
				renderEv = &re
			case e.Kind == "write":
				t.note("Save writes to no writer but the file", false, "path %s writes to %s", traceOf(p), e.Writer)
			}
		}
		F := p.Facts
		failed := false
		for _, e := range p.Events {
			if (e.Kind == "call" || e.Kind == "invoke") && e.Res != nil && !fsMutators[e.Name] {
				if e.Res.Typ != nil && isErrorType(e.Res.Typ) && F.Has(eqAtom(e.Res.String(), "nil"), false) {
					failed = true
				}
				if tt, ok := e.Res.Typ.(*types.Tuple); ok && tt.Len() == 2 && isErrorType(tt.At(1).Type()) && F.Has(eqAtom(e.Res.String()+"#1", "nil"), false) {
					failed = true
				}
			}
		}
		noFormat := F.Has("recv.NoFormat", true)
		t.note("at most one file-system mutation on a path", len(fs) <= 1, "path %s performs %d", traceOf(p), len(fs))
		if failed {
			t.note("the file system is not touched when rendering or formatting fails", len(fs) == 0, "path %s mutates the file system after a failure (facts %s)", traceOf(p), F)
			continue
		}
		if len(fs) == 0 {
			if p.End == "return" && renderEv != nil {
				t.note("the file is written on every successful path", false, "path %s succeeds without writing the file", traceOf(p))
			}
			continue
		}
		e := fs[0]
		wf := p.FactsAt(e)
		okBefore := renderEv != nil && wf.Has(eqAtom(renderEv.Res.String(), "nil"), true) && (noFormat || (fmtEv != nil && wf.Has(eqAtom(fmtEv.Res.String()+"#1", "nil"), true)))
		t.note("the file is written only after rendering and formatting have succeeded", okBefore, "path %s writes the file with facts %s", traceOf(p), wf)
		var data *T
		if ci, ok := e.In.(ssa.CallInstruction); ok {
			for i, a := range ci.Common().Args {
				if sl, ok := a.Type().Underlying().(*types.Slice); ok && i < len(e.Args) {
					if b, ok := sl.Elem().Underlying().(*types.Basic); ok && b.Kind() == types.Byte {
						data = e.Args[i]
					}
				}
			}
		}
		okData := false
		if data != nil && renderEv != nil {
			ds := data.String()
			if noFormat {
				okData = nfmt == 0 && strings.Contains(ds, "rendered("+renderEv.Res.String()+")")
			} else if fmtEv != nil && len(fmtEv.Args) == 1 {
				same := ds == fmtEv.Res.String()+"#0"
				if !same {
					ts := segsString(termTemplate(data))
					same = ts == "[%s("+fmtEv.Res.String()+"#0)]" || ts == "[%v("+fmtEv.Res.String()+"#0)]"
				}
				okData = same && strings.Contains(fmtEv.Args[0].String(), "rendered("+renderEv.Res.String()+")")
			}
		}
		t.note("the data written is exactly the rendered (and formatted) output", okData, "path %s writes %v", traceOf(p), data)
	}
	t.require("the file is written only after rendering and formatting have succeeded", "the file system is not touched when rendering or formatting fails", "the data written is exactly the rendered (and formatted) output")
	t.flush()
}

func isCodeImpl(c *Ctx, f *ssa.Function) bool {
	for _, n := range []string{c.renderName(), c.nullName()} {
		for _, g := range c.codeImpls(n) {
			if g == f {
				return true
			}
		}
	}
	return false
}

// callersOf: the module functions whose summary lists f as a callee.
func (g *CallGraph) callersOf(f *ssa.Function) []*ssa.Function {
	var out []*ssa.Function
	for _, h := range g.Funcs {
		if s := g.Sum[h]; s != nil && s.Callees[f] && h != f {
			out = append(out, h)
		}
	}
	return out
}

// reflectWrites: calls into package reflect other than the read-only ones.
func reflectWrites(c *Ctx) []string {
	readOnly := map[string]bool{"TypeOf": true, "ValueOf": true, "DeepEqual": true, "Indirect": true, "Zero": true, "PtrTo": true, "PointerTo": true}
	roMethod := func(n string) bool {
		switch {
		case strings.HasPrefix(n, "Set"), strings.HasPrefix(n, "Call"), n == "Addr", n == "UnsafeAddr", n == "UnsafePointer", n == "Pointer", n == "Send", n == "Recv", n == "TrySend", n == "TryRecv", n == "Close", n == "Grow", n == "Clear":
			return false
		}
		return true
	}
	var out []string
	for _, f := range c.allFuncs(c.Jen) {
		for _, b := range f.Blocks {
			for _, in := range b.Instrs {
				ci, ok := in.(ssa.CallInstruction)
				if !ok {
					continue
				}
				cc := ci.Common()
				if cc.IsInvoke() {
					if n, ok := cc.Value.Type().(*types.Named); ok && n.Obj().Pkg() != nil && n.Obj().Pkg().Path() == "reflect" && !roMethod(cc.Method.Name()) {
						out = append(out, fname(f)+": "+cc.Method.Name())
					}
					continue
				}
				sc := cc.StaticCallee()
				if sc == nil || sc.Pkg == nil || sc.Pkg.Pkg.Path() != "reflect" {
					continue
				}
				if sc.Signature.Recv() != nil {
					if !roMethod(sc.Name()) {
						out = append(out, fname(f)+": "+sc.String())
					}
					continue
				}
				if !readOnly[sc.Name()] {
					out = append(out, fname(f)+": "+sc.String())
				}
			}
		}
	}
	sort.Strings(out)
	return out
}

// W-NOFORMAT-READERS. C02 relates the formatted output to "what an identically built File renders
// with NoFormat set": the two modes may differ in the formatting step only. Necessary: nothing that
// renders the tree (a Code.render / Code.isNull implementation, the import-block printer, the
// registration function, or anything they reach) reads File.NoFormat; the flag is read where the
// formatter is gated.
func init() {
	register("W-NOFORMAT-READERS", "File.NoFormat is read only where the formatter is gated: nothing reachable from a Code.render / Code.isNull implementation, the import-block printer or the registration function reads it (the two modes differ in the formatting step only)", 1, ruleNoFormatReaders)
}

func ruleNoFormatReaders(c *Ctx) []Obligation {
	o := c.newObs("W-NOFORMAT-READERS")
	g := c.CG()
	var roots []*ssa.Function
	roots = append(roots, c.codeImpls(c.renderName())...)
	roots = append(roots, c.codeImpls(c.nullName())...)
	if ri := c.role("renderImports"); ri != nil {
		roots = append(roots, ri)
	}
	if reg := c.registerFn(); reg != nil {
		roots = append(roots, reg)
	}
	inTree := g.Reach(roots...)
	n := 0
	for _, f := range g.Funcs {
		if !c.inModule(f) || c.isTestPos(f.Pos()) {
			continue
		}
		for _, b := range f.Blocks {
			for _, in := range b.Instrs {
				var isRead bool
				switch x := in.(type) {
				case *ssa.FieldAddr:
					isRead = fieldOf(x) == "jen.File.NoFormat"
					if isRead {
						// a store is not a read (a constructor or option setter may set it)
						onlyStores := x.Referrers() != nil && len(*x.Referrers()) > 0
						if x.Referrers() != nil {
							for _, r := range *x.Referrers() {
								if st, ok := r.(*ssa.Store); !ok || st.Addr != ssa.Value(x) {
									if _, dbg := r.(*ssa.DebugRef); !dbg {
										onlyStores = false
									}
								}
							}
						}
						if onlyStores {
							isRead = false
						}
					}
				case *ssa.Field:
					t := x.X.Type()
					isRead = types.TypeString(t, shortQual)+"."+fieldName(t, x.Field) == "jen.File.NoFormat"
				}
				if !isRead {
					continue
				}
				n++
				o.req(!inTree[f], fname(f), fmt.Sprintf("read of File.NoFormat #%d", n), in.Pos(), "the function is reachable from the tree renderers / import printer / registration: what is rendered would depend on the formatting mode")
			}
		}
	}
	if n == 0 {
		o.undecided("jen.File", "NoFormat", token.NoPos, "anchor lost: no read of File.NoFormat found (the formatter gate)")
	}
	return o.list
}

// returnsTokenContent: the call is to a function of the module every (first) result of which is
// the content field of a token — its receiver, or a token obtained from its argument.
func (c *Ctx) returnsTokenContent(call *ssa.Call) bool {
	sc := call.Call.StaticCallee()
	if sc == nil || !c.inModule(sc) || sc.Blocks == nil {
		return false
	}
	a := c.FA(sc)
	rs := a.returns()
	if len(rs) == 0 {
		return false
	}
	n := 0
	for _, r := range rs {
		if len(r.Results) == 0 {
			return false
		}
		v := r.Results[0]
		if k, isC := v.(*ssa.Const); isC && (k.Value == nil || k.IsNil() || k.Value.String() == `""`) {
			continue // the "not a package token" answer of a comma-ok accessor
		}
		if !strings.Contains(a.Desc(v), ".content") {
			return false
		}
		n++
	}
	return n > 0
}

// okOnlyForPackageToken: a function with a trailing bool result that is true only on paths that
// have established typ == "package" for a token.
func (c *Ctx) okOnlyForPackageToken(f *ssa.Function) bool {
	rs := f.Signature.Results()
	if rs.Len() < 2 {
		return false
	}
	if b, ok := rs.At(rs.Len()-1).Type().Underlying().(*types.Basic); !ok || b.Kind() != types.Bool {
		return false
	}
	paths, trunc := c.Paths(f, PXConfig{MaxDepth: 2, MaxVisits: 2})
	if trunc || len(paths) == 0 {
		return false
	}
	sawTrue := false
	for _, p := range paths {
		if p.End != "return" || len(p.Ret) != rs.Len() {
			continue
		}
		last := p.Ret[len(p.Ret)-1]
		bv, isB := last.boolVal()
		if isB && !bv {
			continue
		}
		// true, or not known to be false: the path must know it has a package token
		has := false
		for atom, pol := range p.Facts {
			if pol && strings.HasPrefix(atom, `eq("package",`) && strings.HasSuffix(atom, ".typ)") {
				has = true
			}
		}
		if !has {
			return false
		}
		sawTrue = true
	}
	return sawTrue
}

// panicUnreachableOnPaths: the explicit panic of effect ef lies in a function that only render /
// isNull implementations (and the list renderer) reach, and no path of any of those roots, helpers
// inlined, ends at it: the branch it guards is decided the other way by what the path knows (a
// checked type assertion on a token's content whose type the token type determines).
func (c *Ctx) panicUnreachableOnPaths(ef Effect) (bool, string) {
	g := c.CG()
	var site *ssa.Function
	for _, f := range g.Funcs {
		if fname(f) == ef.Via {
			site = f
		}
	}
	if site == nil {
		return false, ""
	}
	var roots []*ssa.Function
	cands := append(append([]*ssa.Function{}, c.codeImpls(c.renderName())...), c.codeImpls(c.nullName())...)
	if ri := c.role("renderItems"); ri != nil {
		cands = append(cands, ri)
	}
	stdO := c.stdOpaque()
	// reachable by calls that the path engine evaluates in line: not through another renderer
	inlineReach := func(r *ssa.Function) map[*ssa.Function]bool {
		seen := map[*ssa.Function]bool{}
		var walk func(f *ssa.Function)
		walk = func(f *ssa.Function) {
			if f == nil || seen[f] || g.Sum[f] == nil {
				return
			}
			seen[f] = true
			for cal := range g.Sum[f].Callees {
				if cal != r && stdO(cal) {
					continue
				}
				walk(cal)
			}
		}
		walk(r)
		return seen
	}
	reachOf := map[*ssa.Function]map[*ssa.Function]bool{}
	for _, r := range cands {
		reachOf[r] = inlineReach(r)
		if r == site || reachOf[r][site] {
			roots = append(roots, r)
		}
	}
	if len(roots) == 0 {
		return false, ""
	}
	// a root that reaches the site only by way of another root adds nothing: the inner root is
	// judged without any of the outer one's assumptions
	var inner []*ssa.Function
	for _, r := range roots {
		// is the site still reachable from r when the other roots are not entered?
		seen := map[*ssa.Function]bool{}
		var walk func(f *ssa.Function) bool
		walk = func(f *ssa.Function) bool {
			if f == site {
				return true
			}
			if f == nil || seen[f] || g.Sum[f] == nil {
				return false
			}
			seen[f] = true
			for cal := range g.Sum[f].Callees {
				if cal != r && stdO(cal) {
					continue
				}
				isOther := false
				for _, r2 := range roots {
					if r2 != r && cal == r2 && !reachOf[r2][r] {
						isOther = true
					}
				}
				if isOther {
					continue
				}
				if walk(cal) {
					return true
				}
			}
			return false
		}
		if walk(r) {
			inner = append(inner, r)
		}
	}
	if len(inner) > 0 {
		roots = inner
	}
	// every caller chain into the site must start at one of these roots: the site's function is
	// unexported and only reached from them
	if site.Parent() == nil && isExportedName(site.Name()) {
		return false, ""
	}
	std := c.stdOpaque()
	n := 0
	for _, r := range roots {
		self := r
		// keep the other Code implementations opaque, but inline plain helpers
		opq := func(h *ssa.Function) bool { return h != self && std(h) }
		paths, trunc := c.Paths(r, PXConfig{Opaque: opq, MaxVisits: 3, MaxDepth: 4, MaxIndex: 3, MaxPaths: 60000})
		if trunc || len(paths) == 0 {
			return false, ""
		}
		// the site must be inlined here unless another root covers it
		for _, p := range paths {
			n++
			if p.End != "panic" || len(p.Events) == 0 {
				continue
			}
			pe := p.Events[len(p.Events)-1]
			if pe.In != nil && pe.In.Pos() == ef.Pos {
				return false, ""
			}
		}
	}
	// the direct callers of the site's function must all be among the roots' inlined closure
	for _, cl := range g.callersOf(site) {
		covered := false
		for _, r := range roots {
			if cl == r || reachOf[r][cl] {
				covered = true
			}
		}
		if !covered {
			return false, ""
		}
	}
	return true, fmt.Sprintf("%d paths of %d renderer(s) that reach %s, helpers inlined: none ends at this panic (the test that guards it is decided by the token type the path has established)", n, len(roots), ef.Via)
}

// mustHelperPanic: the panic lies in an exported function or method named Must…, and what it
// panics with is an error value returned by a call made in that function.
func (c *Ctx) mustHelperPanic(ef Effect) bool {
	for _, f := range c.CG().Funcs {
		if fname(f) != ef.Via || f.Parent() != nil || !strings.HasPrefix(f.Name(), "Must") || !isExportedName(f.Name()) {
			continue
		}
		for _, b := range f.Blocks {
			for _, in := range b.Instrs {
				pn, ok := in.(*ssa.Panic)
				if !ok || pn.Pos() != ef.Pos {
					continue
				}
				v := stripConv(pn.X)
				if mi, ok := v.(*ssa.MakeInterface); ok {
					v = stripConv(mi.X)
				}
				switch x := v.(type) {
				case *ssa.Call:
					return isErrorType(x.Type())
				case *ssa.Extract:
					return isErrorType(x.Type())
				case *ssa.Phi:
					return isErrorType(x.Type())
				}
			}
		}
	}
	return false
}

// isWriterCarrier: the parameter is a small context object of the module (not the File, a Group or
// a Statement) one of whose fields is the caller's writer.
func isWriterCarrier(f *ssa.Function, idx int) bool {
	if idx < 0 || idx >= len(f.Params) {
		return false
	}
	t := f.Params[idx].Type()
	if p, ok := t.Underlying().(*types.Pointer); ok {
		t = p.Elem()
	}
	n, ok := t.(*types.Named)
	if !ok {
		return false
	}
	switch n.Obj().Name() {
	case "File", "Group", "Statement":
		return false
	}
	st, ok := n.Underlying().(*types.Struct)
	if !ok {
		return false
	}
	for i := 0; i < st.NumFields(); i++ {
		if isWriterType(st.Field(i).Type()) {
			return true
		}
	}
	return false
}

func isErrorIface(t types.Type) bool {
	n, ok := t.(*types.Named)
	return ok && n.Obj().Pkg() == nil && n.Obj().Name() == "error"
}

// importsStoreHelperOK: h stores one of its parameters into File.imports, every call of h is a static
// call in the module, and each call is made by the registration function (or a function only it
// calls) or passes the constant anonymous-import entry {"_", true}.
func (c *Ctx) importsStoreHelperOK(h *ssa.Function, mu *ssa.MapUpdate, reg *ssa.Function) bool {
	pidx := -1
	val := mu.Value
	if u, ok := val.(*ssa.UnOp); ok && u.Op == token.MUL {
		if al, ok := u.X.(*ssa.Alloc); ok {
			if pp := allocParam(al); pp != nil {
				val = pp // a parameter spilled to the stack
			}
		}
	}
	for i, p := range h.Params {
		if val == ssa.Value(p) {
			pidx = i
		}
	}
	cg := c.CG()
	if os.Getenv("JENLINT_DEBUG") != "" {
		fmt.Fprintf(os.Stderr, "importsStoreHelperOK %s pidx=%d known=%v val=%T\n", fname(h), pidx, cg.allCallersKnown(h), mu.Value)
	}
	if pidx < 0 || !cg.allCallersKnown(h) {
		return false
	}
	ofReg := func(f *ssa.Function) bool {
		if f == reg {
			return true
		}
		cs := cg.callersOf(f)
		if len(cs) == 0 || !cg.allCallersKnown(f) {
			return false
		}
		for _, k := range cs {
			if k != reg {
				return false
			}
		}
		return true
	}
	sites := 0
	for _, f := range c.allFuncs(c.Jen) {
		for _, b := range f.Blocks {
			for _, in := range b.Instrs {
				ci, ok := in.(ssa.CallInstruction)
				if !ok || ci.Common().StaticCallee() != h {
					continue
				}
				sites++
				if ofReg(f) {
					continue
				}
				args := ci.Common().Args
				if pidx >= len(args) {
					return false
				}
				fs, ok := c.FA(f).structLit(args[pidx])
				name, _ := constString(fs[c.ff("defname")])
				al, _ := constBool(fs[c.ff("defalias")])
				if !(ok && fs[c.ff("defname")] != nil && name == "_" && fs[c.ff("defalias")] != nil && al) {
					return false
				}
			}
		}
	}
	return sites > 0
}

// onceEffect: the effect is part of verified initialise-once state (the Do call itself, or a store to
// a guarded field / package-level variable).
func (c *Ctx) onceEffect(ef Effect) bool {
	of := c.onceFacts()
	if len(of.bad) > 0 || of.sites == 0 {
		return false
	}
	if ef.Kind == "extmut" && strings.Contains(ef.What, "(*sync.Once).Do") {
		return true
	}
	if ef.Field != "" && (of.fields[ef.Field] || of.fields[strings.TrimPrefix(ef.Field, "jen.")]) {
		return true
	}
	if ef.Root.Kind == "global" && of.globals[strings.TrimPrefix(ef.Root.Name, "jen.")] && ef.Kind == "store" {
		return true
	}
	return false
}

// returnsOnlyOnceFields: every return of f yields the value of a field that is verified
// initialise-once state (loaded after the Do call: W-ONCE's read condition).
func (c *Ctx) returnsOnlyOnceFields(f *ssa.Function) bool {
	of := c.onceFacts()
	n := 0
	for _, b := range f.Blocks {
		if len(b.Instrs) == 0 {
			continue
		}
		ret, ok := b.Instrs[len(b.Instrs)-1].(*ssa.Return)
		if !ok {
			continue
		}
		for _, res := range ret.Results {
			if !isPointerLike(res.Type()) {
				continue
			}
			u, ok := res.(*ssa.UnOp)
			if !ok || u.Op != token.MUL {
				return false
			}
			loc, name := storeTarget(u.X)
			if !((loc == "field" && of.fields[name]) || (loc == "global" && of.globals[name])) {
				return false
			}
			n++
		}
	}
	return n > 0
}
