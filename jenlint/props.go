package main

// Property → rules. The explanation states which clauses of the property are decided and which
// are not (DESIGN.md section 3 and 5).

var stdTrust = []string{
	"go/packages + go/types + go/ssa (x/tools v0.29.0) model the program faithfully",
	"the standard-library routines jennifer calls behave as documented (fmt, strconv, sort, go/format, bytes.Buffer)",
}

func prop(id string, rules []string, explanation, notDecided string, extra ...string) {
	properties[id] = &Property{ID: id, Rules: rules, Explanation: explanation, NotDecided: notDecided, Assumptions: append(append([]string{}, stdTrust...), extra...)}
}

func init() {
	prop("C08", []string{"W-RENDER-STORES", "W-IMPORTS-WRITERS", "P-REGISTER", "P-FRAGMENT"},
		"Structural necessary conditions of repeatable rendering, decided on every path: (1) nothing reachable from any render / isNull implementation or render entry point stores to memory that existed before the call, except new File.imports entries made by the registration function (mod-ref summaries over the module call graph); (2) File.imports is never reset, deleted from or re-assigned; (3) the registration function returns the stored name for a known path before consulting hints (first registration wins); (4) fragment renders use the caller's File.",
		"byte equality of successive renders also relies on the determinism of fmt / go/format (trusted) and on C07's map-order clauses")
	prop("C09", []string{"W-GLOBALS-RO", "W-NO-CONCURRENCY", "W-RENDER-STORES", "W-NONDET-API"},
		"No hidden global state: every package-level variable of jen is only read (no store, map update, element store or address escape), jen uses no goroutines, channels, sync, atomic, unsafe or reflect, and every store in the render path goes to the writer, fresh memory or the File's own import table — so Files that share no Code values touch disjoint memory.",
		"data-race freedom inside the standard library is taken from its documentation; the builder API mutating a shared Code value from two goroutines is outside the property")
}
