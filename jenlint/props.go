package main

// Property → rules. The explanation states which clauses of the property are decided and which
// are not (DESIGN.md sections 3 and 5).

var stdTrust = []string{
	"go/packages + go/types + go/ssa (x/tools v0.29.0) model the program faithfully; the four packages type-check",
	"the standard-library routines jennifer calls behave as documented (fmt, strconv, sort, go/format, bytes.Buffer, regexp)",
	"decided: structural necessary conditions on every syntactic path of /repo's current source; NOT decided: value-level behaviour over unbounded inputs (see not_decided)",
}

func prop(id string, rules []string, explanation, notDecided string, extra ...string) {
	properties[id] = &Property{ID: id, Rules: rules, Explanation: explanation, NotDecided: notDecided, Assumptions: append(append([]string{}, stdTrust...), extra...)}
}

// frozen minimum obligation counts per rule (vacuity guard): measured on the tree the rules were
// confirmed against by hand, with slack for harmless restructuring.
var frozenMin = map[string]int{
	"P-API-FORMS": 300, "P-ATOMIC-WRITE": 9, "P-BOUNDS": 10, "P-CLONE": 2, "P-COMMENT": 4, "P-CTOR": 9, "P-DICT": 7, "P-ERR-PROP": 40,
	"P-FILERENDER-ORDER": 4, "P-FORMAT-GATE": 10, "P-FRAGMENT": 7, "P-GROUPRENDER": 11, "P-IMPORTBLOCK": 5, "P-ISNULL": 13,
	"P-LITCTOR": 10, "P-LOCALDOT": 0, "P-DOT-STABLE": 1, "P-MAPRANGE": 5, "P-NILGUARD": 10, "P-REGISTER": 10, "P-RENDERITEMS": 5, "P-STMTRENDER": 2,
	"P-TAG": 6, "P-TOKEN": 5, "P-VALIDALIAS": 1, "T-CONSTRUCTS": 280, "T-GENNAMES": 4, "T-KEYWORDS": 70, "T-LITFMT": 36,
	"T-REGEX": 4, "T-RESERVED": 66, "T-STDHINTS": 160, "T-TOKCONTENT": 50, "W-CALLBACK": 90, "W-FS-EFFECTS": 3, "W-GLOBALS-RO": 1,
	"W-IMPORTS-WRITERS": 5, "W-ISNULL-PURE": 6, "W-NO-CONCURRENCY": 3, "W-NONDET-API": 2, "W-PANICS": 6, "W-REGISTER-CALLERS": 2,
	"W-RENDER-STORES": 20, "W-FILE-ARGS": 1, "W-NOFORMAT-READERS": 1,
}

func init() {
	prop("C01", []string{"T-CONSTRUCTS", "T-KEYWORDS", "P-RENDERITEMS", "P-STMTRENDER", "P-GROUPRENDER", "P-TOKEN", "P-ISNULL", "T-LITFMT", "P-LITCTOR", "P-IMPORTBLOCK", "P-FILERENDER-ORDER"},
		"Necessary conditions of faithful rendering, on every path: (a) every construct of the generated API emits exactly the delimiter / separator / keyword tokens Go's grammar has for it (independent grammar table, go/scanner, go/token, types.Universe; X and XFunc twins identical); (b) the generic renderer writes open, items, separators, trailing newline, close in that order and treats every list position after the first identically — there is no edge around a separator or an item render other than {nil/null item, first item, empty separator, not multi}, so arity 4, 40 and 4,000 take the same paths; (c) keyword / identifier / package tokens write their text, `default` always gets its colon, a Block after Case / Default drops its braces exactly then; (d) literal tokens are produced only by Go-syntax formatters applied to the unmodified value (see C11 / C12).",
		"that arbitrary compositions re-parse to the original tree (depends on go/format and go/parser over all programs); literal values (C11/C12)")
	prop("C02", []string{"P-FORMAT-GATE", "P-ATOMIC-WRITE", "P-ERR-PROP", "W-PANICS", "T-TOKCONTENT", "P-NILGUARD", "P-BOUNDS", "W-NOFORMAT-READERS"},
		"No success path to the caller's writer avoids format.Source (File.Render: unless NoFormat); the formatter runs once on the private buffer and both modes draw from the same buffer; a formatter error is returned, never written as if valid; the only explicit panic reachable from Render / RenderWithFile / Save is the documented one for unsupported Lit types; token type assertions and item dereferences in the renderer cannot fail; every index and slice expression of the package is in range on every path (comparisons made before it, documented ranges of strings.Index* / utf8.DecodeRune*, lengths implied by HasPrefix / Contains / Quote, sort callbacks). Validity of the bytes then follows from format.Source's contract (trusted).",
		"that every syntactically invalid composition makes the formatter fail (a property of go/parser)")
	prop("C03", []string{"P-REGISTER", "P-VALIDALIAS", "P-TOKEN", "P-IMPORTBLOCK", "W-REGISTER-CALLERS", "W-IMPORTS-WRITERS", "W-FILE-ARGS", "T-REGEX", "T-RESERVED"},
		"Import bookkeeping decided on every path of the registration function (path enumeration, loop unrolled twice): no alias ⇒ the stored name is the raw hint or standard-library name; guessed or modified names ⇒ alias; checked = stored = returned; first registration wins; the collision test sees every entry; the qualifier written by a package token is the registered name; the import line prints that same entry's name and path, with an alias iff flagged.",
		"that names supplied by the user through ImportName are truthful")
	prop("C04", []string{"W-IMPORTS-WRITERS", "W-REGISTER-CALLERS", "W-ISNULL-PURE", "P-RENDERITEMS", "P-STMTRENDER", "P-DICT", "P-FILERENDER-ORDER", "P-IMPORTBLOCK", "P-CTOR"},
		"Only the registration function and Anon add entries to File.imports (hints never do); registration is called only while a package token is rendered or pre-registered by the list renderer; null tests are pure and cannot register; an item judged nil / null is never rendered (list renderers, Dict pairs); the body is rendered before the import block is printed and nothing registers afterwards; the block is printed from the table's keys.",
		"exactly-once per path additionally relies on map keys being unique (language guarantee)")
	prop("C05", []string{"T-RESERVED", "P-VALIDALIAS@@!the name init", "P-REGISTER", "T-REGEX"},
		"The reserved-word predicate is a pure membership test over a table containing all 25 keywords and all universe-scope identifiers of the analysing toolchain (exhaustive); the validity predicate rejects reserved words and every already registered name; the name entered in the table is the very string that passed that test (with or without PackagePrefix); guessed names consist of ASCII letters / digits, are never empty and never start with a digit.",
		"whether a user-supplied PackagePrefix is itself a legal identifier")
	prop("C06", []string{"P-LOCALDOT", "P-ISNULL", "P-VALIDALIAS@@!is never accepted", "P-REGISTER", "P-RENDERITEMS", "P-CTOR@path"},
		"isLocal is exact string equality; isDotImport is, for an unregistered path, exactly hints[path] = {\".\", alias} and otherwise exactly \"the registered name is .\"; a package token is null exactly for dot-imported or local paths; \".\" is accepted as a name unconditionally and first; prefix / numbering never touch a name not known to differ from \".\"; the list renderer registers every package token before its null test, so a dot import is still emitted.",
		"resolution of the bare identifier by the Go compiler")
	prop("C07", []string{"P-MAPRANGE", "W-NONDET-API", "P-TAG", "W-RENDER-STORES", "P-DICT@rendered against the file the Dict is rendered against", "P-DICT@sorted together before anything is written"},
		"Every range over a map in jen has only order-insensitive effects (updates keyed by the range key, collected slices sorted before any other read, no output / registration / concatenation inside the loop) and nothing in jen consults a clock, randomness, the environment or formats an address. One known finding on the pinned tree: Dict.render renders keys (and thereby registers imports) inside its map range.",
		"determinism of sort / fmt / go/format themselves; the order among Dict pairs whose keys render identically")
	prop("C08", []string{"W-RENDER-STORES", "W-IMPORTS-WRITERS", "P-REGISTER", "P-FRAGMENT", "P-GROUPRENDER", "P-DOT-STABLE", "P-MAPRANGE@@!registration function"},
		"Nothing reachable from any render / isNull implementation or render entry point stores to memory that existed before the call, except new File.imports entries made by the registration function (mod-ref summaries over the module call graph); File.imports is never reset, deleted from or re-assigned; the registration function returns the stored name for a known path before consulting hints, and the dot-import test answers from the import table for such a path; fragment renders use the caller's File; the brace-less case-block form is chosen per render from local copies.",
		"byte equality of successive renders additionally relies on C07's clauses and on the determinism of the standard library")
	prop("C09", []string{"W-GLOBALS-RO", "W-NO-CONCURRENCY", "W-RENDER-STORES", "W-NONDET-API", "W-FILE-ARGS", "P-API-FORMS@Statement form appends to its receiver in place"},
		"No hidden global state: every package-level variable of jen is only read (no store, map update, element store or address escape), jen uses no goroutines, channels, sync, atomic, unsafe or reflect, and every store on the render path goes to the writer, fresh memory or the File's own import table — so Files that share no Code values touch disjoint memory and a File's output depends on that File alone.",
		"data-race freedom inside the standard library (taken from its documentation); two goroutines mutating one shared Code value through the builder API")
	prop("C10", []string{"P-ATOMIC-WRITE", "P-ERR-PROP", "W-FS-EFFECTS", "P-FORMAT-GATE"},
		"In all five exported methods with an io.Writer parameter the caller's writer is touched only by a single sink outside any loop, unreachable from the failure edge of every fallible call, delivering the formatter's result or the private buffer unmodified; the writer is never handed to the internal renderer; every error-returning call in jen has its error tested and returned (or panicked with) on every path; File.Save touches the file system only after Render into a fresh buffer succeeded and writes exactly that buffer.",
		"the behaviour of os.WriteFile on partial writes")
	prop("C11", []string{"T-LITFMT", "P-LITCTOR", "W-CALLBACK", "W-PANICS"},
		"The literal type switch covers exactly the 17 documented types; each is formatted by a verb of the right class — bare only for the default type of its constant kind (bool, string, int, float64, complex128), all other numeric types wrapped in a conversion; the argument is the token's content and the constructor stored its parameter (or the callback's result) unmodified; the result reaches the writer unmodified, except that a float64 gets \".0\" exactly when its text has neither '.' nor 'e'; unsupported types panic (documented).",
		"that fmt prints a shortest round-tripping decimal for every value (a property of strconv over 2^64 values)")
	prop("C12", []string{"T-LITFMT", "P-LITCTOR", "T-TOKCONTENT", "P-GROUPRENDER@every path decides whether the block follows"},
		"String literals are produced only by Go-syntax quoting (%#v / %q), rune literals only by strconv.QuoteRune* / %q, byte literals only as byte(<numeric or quoted value>); the argument is the token's content, stored unmodified by the constructor, and nothing post-processes the quoted text before the single write.",
		"that strconv quoting is the inverse of the Go scanner for every byte string")
	prop("C13", []string{"P-NILGUARD", "P-RENDERITEMS", "P-STMTRENDER", "P-ISNULL", "P-GROUPRENDER"},
		"Every method call on an item drawn from a user-supplied collection is dominated by a nil test of that very value, and pointers obtained from a Code by type assertion are nil-checked before use; in both list renderers a nil or null item produces no output and no separator on any path and every other item is rendered with its separator iff an item was rendered before (no extra condition on position or arity); null-ness is the recursive conjunction with Null() a null token and Empty() a non-null empty token; an all-null type list renders nothing.",
		"what go/format does with the remaining text")
	prop("C14", []string{"P-API-FORMS", "T-CONSTRUCTS", "W-CALLBACK", "P-FRAGMENT", "P-LITCTOR"},
		"For all 120 constructs (enumerated from the type-checked *Statement method set at check time): a package function and a *Group method with the same parameters exist; the function form is the Statement method applied to a new statement with the same arguments; the Group form builds the statement from the same arguments, appends it to the group exactly once on every path and returns it; the Statement form appends in place and returns its receiver; X and XFunc build identical groups. All 79 callback parameters are invoked exactly once, synchronously, on every normal path, never stored / captured / deferred / spawned, and nothing reachable from render / isNull calls a function value. GoString, Render and RenderWithFile(new File) are the same renderer.",
		"byte equality of the rendered forms for every argument list (follows from the delegation shape, not separately evaluated)")
	prop("C15", []string{"P-COMMENT", "P-GROUPRENDER", "P-RENDERITEMS", "T-CONSTRUCTS", "P-CTOR", "P-FILERENDER-ORDER"},
		"comment.render chooses line style only for text without a newline and block style exactly otherwise, always closes a block comment and never writes the text bare; in every multi-line group (Block, Defs, Struct, Interface, case bodies, the File itself — checked on the construct table and the constructors) a newline precedes each item and, whenever items were rendered, the close token — on every path, with no condition on separator or arity; File.Render writes headers, a blank line exactly if there are headers, package comments, the package clause, `// import %q` exactly if CanonicalPath is set. Containment then follows from Go's lexical rule that a // comment ends at the next newline.",
		"go/format's re-flowing of comments")
	prop("C16", []string{"P-DICT", "P-MAPRANGE@(jen.Dict)@!registration function@!two entries may share", "P-NILGUARD@(jen.Dict)", "P-RENDERITEMS@Dict"},
		"A Dict pair is collected iff key and value are both non-nil and non-null, as an element holding its own key and value (no container keyed by rendered text); the collected slice is sorted before it is read; the emission loop writes key, colon, value of the same element and the comma-newline / leading newline exactly when there are several pairs; Dict.isNull is true iff no pair has both sides live; a Dict next to other Values items is an error.",
		"the relative order of pairs whose keys render to the same text")
	prop("C17", []string{"P-TAG", "P-MAPRANGE@(jen.tag)", "P-ISNULL@(jen.tag)"},
		"tag.render writes each pair as key:\"value\" with the value through %q and the value looked up under the printed key, pairs from the sorted key slice joined by exactly one space; the literal is back-quoted only under strconv.CanBackquote and otherwise produced by strconv.Quote; an empty tag is null.",
		"the round trip through reflect.StructTag for every value (a property of %q and reflect)")
	prop("C18", []string{"T-STDHINTS", "P-REGISTER", "T-GENNAMES", "W-IMPORTS-WRITERS", "P-IMPORTBLOCK"},
		"Every entry of the standard-library table whose package is importable equals the package clause parsed from GOROOT/src of the installed toolchain (exhaustive over the table); a table hit may be stored without alias, a guessed name never; gennames reads the go-list fields back from the positions its template wrote them to and emits path: name.",
		"the output of actually running gennames (it shells out to `go list`); packages newer than the table get a guessed alias, which the property allows")
	prop("C19", []string{"P-REGISTER", "P-IMPORTBLOCK", "P-FILERENDER-ORDER", "P-RENDERITEMS@every package token among the items is registered"},
		"The \"C\" branch of registration stores {\"C\", no alias} and returns C; hint lookup, prefix and numbering happen only on paths with path ≠ \"C\"; no import line prints an alias for \"C\"; \"C\" is left out of the main block only when a preamble exists; each preamble comment is followed by exactly one newline and `import \"C\"` is written directly after the last one, after the main block.",
		"cgo's own parsing of the preamble")
	prop("C20", []string{"P-CLONE", "P-API-FORMS", "W-RENDER-STORES@append"},
		"Clone returns a freshly allocated statement whose slice has a fresh backing array (never the original's slice header or a re-slice of it); every builder method appends in place to its own receiver and returns it, so appends to a clone cannot reach the original's backing array and vice versa.",
		"nothing further: for this property the structural condition is also sufficient")
}
