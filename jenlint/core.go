package main

import (
	"encoding/json"
	"fmt"
	"go/token"
	"go/types"
	"os"
	"path/filepath"
	"regexp"
	"sort"
	"strings"
	"time"

	"golang.org/x/tools/go/packages"
	"golang.org/x/tools/go/ssa"
	"golang.org/x/tools/go/ssa/ssautil"
)

const modulePath = "github.com/dave/jennifer"

// Status of one obligation.
type Status string

const (
	Discharged Status = "discharged"
	Violated   Status = "violated"
	Undecided  Status = "undecided" // fails closed, reported like a violation
	Info       Status = "info"      // reported, never part of the verdict
)

// Obligation is one statically decided proof obligation. Key is stable across edits that do not
// touch the construct: rule | function | construct (never a line number).
type Obligation struct {
	Rule       string `json:"rule"`
	Key        string `json:"key"`
	Pos        string `json:"pos,omitempty"`
	Status     Status `json:"status"`
	Detail     string `json:"detail,omitempty"`
	Nontrivial bool   `json:"nontrivial"`
}

// Ctx is one analysis run over one tree.
type Ctx struct {
	Repo   string
	Tier   string
	Fset   *token.FileSet
	Pkgs   map[string]*packages.Package
	Prog   *ssa.Program
	SSA    map[string]*ssa.Package
	Jen    *ssa.Package
	JenP   *packages.Package
	cache  map[string][]Obligation
	cg     *CallGraph
	fa     map[*ssa.Function]*FnA
	stats  map[string]int
	extras map[string]interface{}
	regFn  *ssa.Function
	memo   map[string]interface{}
}

func goEnv() []string {
	env := []string{}
	for _, e := range os.Environ() {
		k := strings.SplitN(e, "=", 2)[0]
		switch k {
		case "GOWORK", "GOFLAGS", "GOPROXY", "GOSUMDB", "GOTOOLCHAIN":
			continue
		}
		env = append(env, e)
	}
	return append(env, "GOWORK=off", "GOFLAGS=-mod=mod", "GOPROXY=off", "GOSUMDB=off", "GOTOOLCHAIN=local")
}

type brokenErr struct{ msg string }

func (b brokenErr) Error() string { return b.msg }

func broken(format string, a ...interface{}) {
	panic(brokenErr{fmt.Sprintf(format, a...)})
}

// Load type-checks the module at repo and builds SSA for it. Any failure makes the run "broken"
// (exit 2), never a pass.
func Load(repo, tier string, tests bool) *Ctx {
	mode := packages.LoadSyntax
	cfg := &packages.Config{Mode: mode, Dir: repo, Env: goEnv(), Tests: tests}
	// the generic algorithm packages of the library are loaded with their source, so that the
	// instantiations the module uses (slices.Contains, slices.IndexFunc, cmp.Compare …) have bodies
	// the path engine can evaluate like helpers of the module
	pkgs, err := packages.Load(cfg, "./...", "slices", "maps", "cmp")
	if err != nil {
		broken("packages.Load: %v", err)
	}
	c := &Ctx{Repo: repo, Tier: tier, Pkgs: map[string]*packages.Package{}, SSA: map[string]*ssa.Package{},
		cache: map[string][]Obligation{}, fa: map[*ssa.Function]*FnA{}, stats: map[string]int{}}
	var initial []*packages.Package
	for _, p := range pkgs {
		for _, e := range p.Errors {
			broken("type-check failure in %s: %v", p.PkgPath, e)
		}
		if p.IllTyped {
			broken("package %s is ill-typed", p.PkgPath)
		}
		if tests {
			continue // test variants are only type-checked
		}
		initial = append(initial, p)
		if p.PkgPath == "slices" || p.PkgPath == "maps" || p.PkgPath == "cmp" {
			continue // library source: part of the program, not of what is judged
		}
		c.Pkgs[p.PkgPath] = p
		c.Fset = p.Fset
	}
	if tests {
		c.stats["test_variant_packages_typechecked"] = len(pkgs)
		return c
	}
	want := []string{modulePath, modulePath + "/jen", modulePath + "/genjen", modulePath + "/gennames"}
	for _, w := range want {
		if c.Pkgs[w] == nil {
			broken("package %s not found under %s (found %d packages)", w, repo, len(c.Pkgs))
		}
	}
	prog, spkgs := ssautil.Packages(initial, ssa.InstantiateGenerics)
	prog.Build()
	c.Prog = prog
	for i, p := range initial {
		if spkgs[i] == nil {
			broken("no SSA for %s", p.PkgPath)
		}
		if p.PkgPath == "slices" || p.PkgPath == "maps" || p.PkgPath == "cmp" {
			continue
		}
		c.SSA[p.PkgPath] = spkgs[i]
	}
	c.Jen = c.SSA[modulePath+"/jen"]
	c.JenP = c.Pkgs[modulePath+"/jen"]
	return c
}

func (c *Ctx) pos(p token.Pos) string {
	if !p.IsValid() {
		return ""
	}
	pp := c.Fset.Position(p)
	rel, err := filepath.Rel(c.Repo, pp.Filename)
	if err != nil {
		rel = pp.Filename
	}
	return fmt.Sprintf("%s:%d", rel, pp.Line)
}

// isTestFile: rules never apply to _test.go code.
func (c *Ctx) isTestPos(p token.Pos) bool {
	return p.IsValid() && strings.HasSuffix(c.Fset.Position(p).Filename, "_test.go")
}

// jenFunc resolves a package-level function of jen by name; nil if absent.
func (c *Ctx) jenFunc(name string) *ssa.Function {
	return c.Jen.Func(name)
}

// method resolves a method of a named jen type (pointer or value receiver) by types.Object.
func (c *Ctx) method(typeName, method string) *ssa.Function {
	obj := c.Jen.Pkg.Scope().Lookup(typeName)
	if obj == nil {
		return nil
	}
	tn, ok := obj.(*types.TypeName)
	if !ok {
		return nil
	}
	for _, t := range []types.Type{tn.Type(), types.NewPointer(tn.Type())} {
		ms := c.Prog.MethodSets.MethodSet(t)
		for i := 0; i < ms.Len(); i++ {
			sel := ms.At(i)
			if sel.Obj().Name() == method && sel.Obj().Pkg() == c.Jen.Pkg {
				// skip promoted methods (File embeds *Group)
				if len(sel.Index()) > 1 {
					continue
				}
				if fn := c.Prog.MethodValue(sel); fn != nil {
					return fn
				}
			}
		}
	}
	return nil
}

// allFuncs returns every source function of the module packages (incl. anonymous, excl. synthetic
// wrappers and init), sorted by name for deterministic output.
func (c *Ctx) allFuncs(pkg *ssa.Package) []*ssa.Function {
	seen := map[*ssa.Function]bool{}
	var out []*ssa.Function
	var add func(f *ssa.Function)
	add = func(f *ssa.Function) {
		if f == nil || seen[f] || f.Blocks == nil || f.Synthetic != "" {
			return
		}
		if c.isTestPos(f.Pos()) {
			return
		}
		seen[f] = true
		out = append(out, f)
		for _, a := range f.AnonFuncs {
			add(a)
		}
	}
	for _, m := range pkg.Members {
		switch m := m.(type) {
		case *ssa.Function:
			add(m)
		case *ssa.Type:
			for _, t := range []types.Type{m.Type(), types.NewPointer(m.Type())} {
				ms := c.Prog.MethodSets.MethodSet(t)
				for i := 0; i < ms.Len(); i++ {
					if len(ms.At(i).Index()) > 1 {
						continue
					}
					add(c.Prog.MethodValue(ms.At(i)))
				}
			}
		}
	}
	sort.Slice(out, func(i, j int) bool { return fname(out[i]) < fname(out[j]) })
	return out
}

func fname(f *ssa.Function) string {
	if f == nil {
		return "<nil>"
	}
	s := f.String()
	s = strings.ReplaceAll(s, modulePath+"/", "")
	return s
}

// ---------------------------------------------------------------------------------------------
// obligations helpers

type obs struct {
	rule string
	list []Obligation
	c    *Ctx
}

func (c *Ctx) newObs(rule string) *obs { return &obs{rule: rule, c: c} }

func (o *obs) add(st Status, fn string, construct string, pos token.Pos, nontrivial bool, detail string, a ...interface{}) {
	o.list = append(o.list, Obligation{Rule: o.rule, Key: o.rule + " | " + fn + " | " + construct, Pos: o.c.pos(pos),
		Status: st, Detail: fmt.Sprintf(detail, a...), Nontrivial: nontrivial})
}

// req adds a discharged obligation when ok, otherwise a violated one.
func (o *obs) req(ok bool, fn string, construct string, pos token.Pos, detail string, a ...interface{}) bool {
	st := Discharged
	if !ok {
		st = Violated
	}
	o.add(st, fn, construct, pos, true, detail, a...)
	return ok
}

func (o *obs) undecided(fn, construct string, pos token.Pos, detail string, a ...interface{}) {
	o.add(Undecided, fn, construct, pos, true, detail, a...)
}

func (o *obs) info(fn, construct string, pos token.Pos, detail string, a ...interface{}) {
	o.add(Info, fn, construct, pos, false, detail, a...)
}

// ---------------------------------------------------------------------------------------------
// known findings

type KnownFinding struct {
	Property string `json:"property"`
	Key      string `json:"key"`
	KeyRegex string `json:"key_regex,omitempty"` // optional: the same construct after the enclosing method was renamed / split
	Status   string `json:"status"`              // "known" | "fixed" | "recorded"
	Commit   string `json:"commit,omitempty"`
	What     string `json:"what"`
	// status "recorded": a defect shown against the real code that no static rule decides (why is
	// given here); printed on every run of the property's check, matched against nothing
	NotDecided string `json:"not_decided_because,omitempty"`
}

func loadKnown(verif string) []KnownFinding {
	path := filepath.Join(verif, "known_findings.json")
	if k := os.Getenv("JENLINT_KNOWN"); k != "" {
		path = k
	}
	b, err := os.ReadFile(path)
	if err != nil {
		return nil
	}
	var k struct {
		Findings []KnownFinding `json:"findings"`
	}
	if err := json.Unmarshal(b, &k); err != nil {
		broken("known_findings.json: %v", err)
	}
	return k.Findings
}

// matches: the obligation key is the listed one (or matches the listed pattern for the same construct).
func (k KnownFinding) matches(key string) bool {
	if k.Key == key {
		return true
	}
	if k.KeyRegex != "" {
		if re, err := regexp.Compile(k.KeyRegex); err == nil && re.MatchString(key) {
			return true
		}
	}
	return false
}

// ---------------------------------------------------------------------------------------------
// evidence

type Evidence struct {
	PropertyID  string                 `json:"property_id"`
	Tier        string                 `json:"tier"`
	Seed        int                    `json:"seed"`
	Level       string                 `json:"level"`
	Coverage    map[string]interface{} `json:"coverage"`
	Assumptions []string               `json:"assumptions"`
	WallS       float64                `json:"wall_s"`
	Violations  int                    `json:"violations"`
}

func writeJSON(path string, v interface{}) {
	b, err := json.MarshalIndent(v, "", " ")
	if err != nil {
		broken("marshal %s: %v", path, err)
	}
	if err := os.MkdirAll(filepath.Dir(path), 0o755); err != nil {
		broken("mkdir: %v", err)
	}
	tmp := path + ".tmp"
	if err := os.WriteFile(tmp, append(b, '\n'), 0o644); err != nil {
		broken("write %s: %v", path, err)
	}
	if err := os.Rename(tmp, path); err != nil {
		broken("rename %s: %v", path, err)
	}
}

var startTime = time.Now()
