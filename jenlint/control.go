package main

import (
	"go/ast"
	"go/importer"
	"go/parser"
	"go/token"
	"go/types"
	"os"
	"path/filepath"

	"golang.org/x/tools/go/ssa"
	"golang.org/x/tools/go/ssa/ssautil"
)

// The positive-control package: seeded instances of the constructs that the zero-count rules look
// for. It is analysed on every run; if a matcher stops recognising them the rule is reported as
// undecided instead of passing vacuously. Source lives in testdata/positive/ctl.go (also embedded
// as a fallback so the binary is self-contained).
const controlSrc = `package ctl

import "fmt"

var counter int
var cache = map[string]string{}
var table = []string{"a", "b"}

type node struct{ open string; items []int }

func bump() int { counter++; return counter }

func memo(k, v string) { cache[k] = v }

func readOnly(k string) bool {
	for _, t := range table {
		if t == k {
			return true
		}
	}
	return false
}

func spawn(ch chan int) {
	go func() { ch <- 1 }()
	select {
	case v := <-ch:
		_ = v
	default:
	}
	c2 := make(chan int)
	_ = c2
}

func addr(n *node) string { return fmt.Sprintf("%p", n) }

func mutate(n *node) { n.open = "" }

func twice(f func()) { f(); f() }

func keep(n *node, f func()) { defer f() }
`

var ctlPkg *ssa.Package
var ctlFset *token.FileSet

func controlPackage(c *Ctx) *ssa.Package {
	if ctlPkg != nil {
		return ctlPkg
	}
	src := controlSrc
	if b, err := os.ReadFile(filepath.Join(verifDir(), "jenlint", "testdata", "positive", "ctl.go")); err == nil {
		src = string(b)
	}
	fset := c.Fset
	f, err := parser.ParseFile(fset, "ctl.go", src, 0)
	if err != nil {
		broken("control package: %v", err)
	}
	// "fmt" comes from the already loaded program's type information
	imp := mapImporter{}
	for _, p := range c.Prog.AllPackages() {
		imp[p.Pkg.Path()] = p.Pkg
	}
	pkg := types.NewPackage("ctl", "ctl")
	sp, _, err := ssautil.BuildPackage(&types.Config{Importer: imp}, fset, pkg, []*ast.File{f}, ssa.BuilderMode(0))
	if err != nil {
		// fall back to the default importer
		sp, _, err = ssautil.BuildPackage(&types.Config{Importer: importer.Default()}, fset, types.NewPackage("ctl", "ctl"), []*ast.File{f}, ssa.BuilderMode(0))
		if err != nil {
			broken("control package does not build: %v", err)
		}
	}
	ctlPkg = sp
	return sp
}

type mapImporter map[string]*types.Package

func (m mapImporter) Import(path string) (*types.Package, error) {
	if p, ok := m[path]; ok {
		return p, nil
	}
	return importer.Default().Import(path)
}

func (c *Ctx) ctlFuncs(p *ssa.Package) []*ssa.Function {
	var out []*ssa.Function
	var add func(f *ssa.Function)
	add = func(f *ssa.Function) {
		if f == nil || f.Blocks == nil {
			return
		}
		out = append(out, f)
		for _, a := range f.AnonFuncs {
			add(a)
		}
	}
	for _, m := range p.Members {
		if f, ok := m.(*ssa.Function); ok && f.Name() != "init" {
			add(f)
		}
	}
	return out
}
