package main

import (
	"fmt"
	"go/ast"
	"go/build"
	"go/constant"
	"go/parser"
	"go/scanner"
	"go/token"
	"go/types"
	"os"
	"os/exec"
	"path/filepath"
	"regexp/syntax"
	"runtime"
	"sort"
	"strconv"
	"strings"
	"unicode"

	"golang.org/x/tools/go/packages"
	"golang.org/x/tools/go/ssa"
)

func init() {
	register("T-RESERVED", "the reserved-word predicate is a pure membership test over a table that contains every Go keyword (go/token) and every universe-scope identifier (go/types) of the analysing toolchain", 60, ruleReserved)
	register("T-STDHINTS", "every importable entry of the standard-library name table equals the package clause parsed from GOROOT/src of the installed toolchain", 160, ruleStdHints)
	register("T-CONSTRUCTS", "every generated construct builds a Group whose open / close / separator token sequences, multi flag and name agree with an independent table of Go's grammar; X and XFunc twins are identical", 100, ruleConstructs)
	register("T-KEYWORDS", "every generated keyword / identifier method emits exactly the Go keyword or predeclared identifier it is named after, with the matching token type", 40, ruleKeywords)
	register("T-TOKCONTENT", "every token literal stores a content value of the static type that token.render / token.isNull assert for its token type (so their type assertions cannot fail)", 50, ruleTokContent)
	register("T-REGEX", "abstract interpretation of the alias guesser over rune sets: every returned name contains only identifier letters/digits, is non-empty and does not start with a digit", 4, rulePXRegex)
}

// varInit finds the initialiser expression of a package-level variable.
func varInit(p *packages.Package, name string) (ast.Expr, *ast.ValueSpec) {
	for _, f := range p.Syntax {
		for _, d := range f.Decls {
			gd, ok := d.(*ast.GenDecl)
			if !ok || gd.Tok != token.VAR {
				continue
			}
			for _, s := range gd.Specs {
				vs := s.(*ast.ValueSpec)
				for i, n := range vs.Names {
					if n.Name == name && i < len(vs.Values) {
						return vs.Values[i], vs
					}
				}
			}
		}
	}
	return nil, nil
}

func constStr(info *types.Info, e ast.Expr) (string, bool) {
	tv, ok := info.Types[e]
	if !ok || tv.Value == nil || tv.Value.Kind() != constant.String {
		return "", false
	}
	return constant.StringVal(tv.Value), true
}

// stringSetOf evaluates a []string / map[string]T composite literal to its string elements / keys.
func stringSetOf(info *types.Info, e ast.Expr) ([]string, bool) {
	cl, ok := e.(*ast.CompositeLit)
	if !ok {
		return nil, false
	}
	var out []string
	for _, el := range cl.Elts {
		if kv, ok := el.(*ast.KeyValueExpr); ok {
			if _, isMap := info.Types[cl].Type.Underlying().(*types.Map); isMap {
				s, ok := constStr(info, kv.Key)
				if !ok {
					return nil, false
				}
				// a map entry explicitly set to false is not a member
				if tv, ok := info.Types[kv.Value]; ok && tv.Value != nil && tv.Value.Kind() == constant.Bool && !constant.BoolVal(tv.Value) {
					continue
				}
				out = append(out, s)
				continue
			}
			el = kv.Value
		}
		s, ok := constStr(info, el)
		if !ok {
			return nil, false
		}
		out = append(out, s)
	}
	return out, true
}

// globalStringSet evaluates a package-level string table: a composite literal, or a table built in
// the package initialiser by copying another table (m[x] = true for x ranging over it).
func (c *Ctx) globalStringSet(gl *ssa.Global, depth int) ([]string, bool) {
	if depth > 3 {
		return nil, false
	}
	init, _ := varInit(c.JenP, gl.Name())
	if set, ok := stringSetOf(c.JenP.TypesInfo, init); ok {
		return set, true
	}
	// built by code: find the map updates / appends that fill it
	var out []string
	found := false
	var scan func(f *ssa.Function) bool
	scan = func(f *ssa.Function) bool {
		for _, a := range f.AnonFuncs {
			if !scan(a) {
				return false
			}
		}
		for _, ml := range mapLoopsAndSliceLoops(f) {
			for b := range ml.blocks {
				for _, in := range b.Instrs {
					mu, ok := in.(*ssa.MapUpdate)
					if !ok {
						continue
					}
					if bv, isB := constBool(mu.Value); isB && !bv {
						continue
					}
					// key must be the loop element of another global table
					if src, ok := ml.elemOf(stripConv(mu.Key)); ok {
						sub, ok := c.globalStringSet(src, depth+1)
						if !ok {
							return false
						}
						out = append(out, sub...)
						found = true
					}
				}
			}
		}
		return true
	}
	pinit := c.Jen.Func("init")
	if pinit == nil || !scan(pinit) || !found {
		return nil, false
	}
	// the filled map must be what is stored into gl: accept if gl is stored exactly once in init
	return out, true
}

type elemLoop struct {
	blocks map[*ssa.BasicBlock]bool
	src    *ssa.Global
	elem   ssa.Value
}

func (l *elemLoop) elemOf(v ssa.Value) (*ssa.Global, bool) {
	if l.src != nil && v == l.elem {
		return l.src, true
	}
	return nil, false
}

// mapLoopsAndSliceLoops: loops ranging over a package-level slice or map, with their element value.
func mapLoopsAndSliceLoops(f *ssa.Function) []*elemLoop {
	var out []*elemLoop
	for _, b := range f.Blocks {
		for _, in := range b.Instrs {
			// slice element load: *(&G[i]) with G a load of a global
			u, ok := in.(*ssa.UnOp)
			if !ok || u.Op != token.MUL {
				continue
			}
			ia, ok := u.X.(*ssa.IndexAddr)
			if !ok {
				continue
			}
			ld, ok := ia.X.(*ssa.UnOp)
			if !ok {
				continue
			}
			gl, ok := ld.X.(*ssa.Global)
			if !ok {
				continue
			}
			h := loopHeader(b)
			if h == nil {
				continue
			}
			l := &elemLoop{blocks: map[*ssa.BasicBlock]bool{}, src: gl, elem: u}
			for x := range reachableFrom(h, h) {
				if reachableFrom(x, nil)[h] {
					l.blocks[x] = true
				}
			}
			out = append(out, l)
		}
	}
	return out
}

func goKeywords() []string {
	var out []string
	for t := token.Token(0); t < 200; t++ {
		if t.IsKeyword() {
			out = append(out, t.String())
		}
	}
	return out
}

func ruleReserved(c *Ctx) []Obligation {
	o := c.newObs("T-RESERVED")
	fn := c.jenFunc("IsReservedWord")
	if fn == nil {
		o.undecided("jen.IsReservedWord", "anchor", token.NoPos, "anchor lost: jen.IsReservedWord not found")
		return o.list
	}
	a := c.FA(fn)
	// tables read by the predicate + constants compared with the parameter
	members := map[string]bool{}
	var tables []string
	forcePaths := false
	for _, b := range fn.Blocks {
		for _, in := range b.Instrs {
			for _, op := range in.Operands(nil) {
				if gl, ok := (*op).(*ssa.Global); ok && gl.Pkg == c.Jen {
					set, ok := c.globalStringSet(gl, 0)
					if !ok {
						// a table built by a constructor of the module from constants (a set type): the path
						// engine knows its value; membership is then decided path by path below
						if c.globalConst(gl.Name()) != nil {
							forcePaths = true
							continue
						}
						o.undecided(fname(fn), "table "+gl.Name(), gl.Pos(), "cannot evaluate the initialiser of %s as a constant string table", gl.Name())
						continue
					}
					tables = append(tables, gl.Name())
					for _, s := range set {
						members[s] = true
					}
				}
			}
			if bo, ok := in.(*ssa.BinOp); ok && bo.Op == token.EQL {
				if s, ok := constString(bo.Y); ok && a.Desc(bo.X) == "p0" {
					members[s] = true
				}
				if s, ok := constString(bo.X); ok && a.Desc(bo.Y) == "p0" {
					members[s] = true
				}
			}
		}
	}
	// shape: pure membership test
	shapeOK, why := membershipShape(a)
	if forcePaths {
		shapeOK, why = false, "the table is built by a constructor"
	}
	if !shapeOK {
		// not a table scan: evaluate the predicate path by path for every oracle word
		words := append(goKeywords(), types.Universe.Names()...)
		if res, ok, w2 := c.reservedByPaths(fn, words); ok {
			members = res
			shapeOK = true
			tables = []string{"(comparisons with constants, decided path by path)"}
		} else {
			why += "; path evaluation: " + w2
		}
	}
	if !shapeOK {
		o.undecided(fname(fn), "membership-test shape", fn.Pos(), "the predicate is not recognised as a pure membership test over its table: %s", why)
	} else {
		o.add(Discharged, fname(fn), "membership-test shape", fn.Pos(), true, "returns true exactly on a match of the parameter with an element of %v; no other condition", tables)
	}
	check := func(kind string, words []string) {
		for _, w := range words {
			o.req(members[w], fname(fn), kind+" "+w+" is reserved", fn.Pos(), "%s %q must be rejected as an import name (oracle: go/token, go/types of %s)", kind, w, runtime.Version())
		}
	}
	kw := goKeywords()
	sort.Strings(kw)
	check("keyword", kw)
	uni := types.Universe.Names()
	sort.Strings(uni)
	check("predeclared identifier", uni)
	c.stats["reserved_table_size"] = len(members)
	return o.list
}

// membershipShape accepts: every If condition is either a loop bound / iterator test or a
// comparison of the parameter with a table element / constant, `true` is returned only under a
// positive match (or is the looked-up value), `false` only with no positive match.
func membershipShape(a *FnA) (bool, string) {
	fn := a.fn
	for _, b := range fn.Blocks {
		if len(b.Instrs) == 0 {
			continue
		}
		switch t := b.Instrs[len(b.Instrs)-1].(type) {
		case *ssa.If:
			for _, l := range a.lits(t.Cond, true) {
				switch {
				case strings.HasPrefix(l.Atom, "eq(") && strings.Contains(l.Atom, "p0"):
				case strings.HasPrefix(l.Atom, "lt(") && strings.Contains(l.Atom, "len("): // range-index loop bound
				case strings.HasPrefix(l.Atom, "next(") || strings.HasPrefix(l.Atom, "has("):
				default:
					// comma-ok of map lookup keyed by the parameter
					return false, "condition " + l.Atom
				}
			}
		case *ssa.Return:
			if len(t.Results) != 1 {
				return false, "result arity"
			}
			r := t.Results[0]
			facts := a.FactsAt(b)
			pos := false
			for atom, pol := range facts {
				if pol && strings.HasPrefix(atom, "eq(") && strings.Contains(atom, "p0") {
					pos = true
				}
				if pol && strings.HasPrefix(atom, "has(") {
					pos = true
				}
			}
			if bv, ok := constBool(r); ok {
				if bv && !pos {
					return false, "returns true without a match"
				}
				if !bv && pos {
					return false, "returns false on a match"
				}
				continue
			}
			d := a.Desc(r)
			if strings.Contains(d, "[p0]") { // lookup value or comma-ok
				continue
			}
			return false, "returns " + d
		}
	}
	return true, ""
}

// ---------------------------------------------------------------------------------------------

func goroot() string {
	if g := os.Getenv("JENLINT_GOROOT"); g != "" {
		return g
	}
	out, err := exec.Command("go", "env", "GOROOT").Output()
	if err == nil {
		if g := strings.TrimSpace(string(out)); g != "" {
			return g
		}
	}
	return runtime.GOROOT()
}

// pkgClause returns the package name declared in dir (non-test files, ignoring `main` files that
// are excluded from the build and documentation-only files).
func pkgClause(dir string) (string, error) {
	ctx := build.Default
	ctx.GOROOT = goroot()
	ctx.CgoEnabled = true
	p, err := ctx.ImportDir(dir, 0)
	if err == nil && p.Name != "" {
		return p.Name, nil
	}
	// fall back: parse every non-test file, majority name other than main / documentation
	ents, e2 := os.ReadDir(dir)
	if e2 != nil {
		return "", e2
	}
	count := map[string]int{}
	fset := token.NewFileSet()
	for _, e := range ents {
		n := e.Name()
		if e.IsDir() || !strings.HasSuffix(n, ".go") || strings.HasSuffix(n, "_test.go") {
			continue
		}
		f, err := parser.ParseFile(fset, filepath.Join(dir, n), nil, parser.PackageClauseOnly)
		if err != nil {
			continue
		}
		count[f.Name.Name]++
	}
	best, bn := "", 0
	for n, k := range count {
		if n == "main" || n == "documentation" {
			continue
		}
		if k > bn || (k == bn && n < best) {
			best, bn = n, k
		}
	}
	if best == "" {
		if err != nil {
			return "", err
		}
		return "", fmt.Errorf("no package clause found")
	}
	return best, nil
}

func (c *Ctx) stdHintsTable() (map[string]string, string, token.Pos, bool) {
	reg := c.registerFn()
	// the map[string]string global read by the registration function (or a helper it calls)
	var blocks []*ssa.BasicBlock
	for _, f := range append([]*ssa.Function{reg}, c.calleesWithin(reg, 2)...) {
		blocks = append(blocks, f.Blocks...)
	}
	for _, b := range blocks {
		for _, in := range b.Instrs {
			for _, op := range in.Operands(nil) {
				gl, ok := (*op).(*ssa.Global)
				if !ok || gl.Pkg != c.Jen {
					continue
				}
				init, _ := varInit(c.JenP, gl.Name())
				cl, ok := init.(*ast.CompositeLit)
				if !ok {
					continue
				}
				if _, isMap := c.JenP.TypesInfo.Types[cl].Type.Underlying().(*types.Map); !isMap {
					continue
				}
				out := map[string]string{}
				for _, el := range cl.Elts {
					kv, ok := el.(*ast.KeyValueExpr)
					if !ok {
						return nil, "", 0, false
					}
					k, ok1 := constStr(c.JenP.TypesInfo, kv.Key)
					v, ok2 := constStr(c.JenP.TypesInfo, kv.Value)
					if !ok1 || !ok2 {
						return nil, "", 0, false
					}
					if old, dup := out[k]; dup && old != v {
						return nil, "", 0, false
					}
					out[k] = v
				}
				return out, gl.Name(), gl.Pos(), true
			}
		}
	}
	return nil, "", 0, false
}

func ruleStdHints(c *Ctx) []Obligation {
	o := c.newObs("T-STDHINTS")
	table, name, pos, ok := c.stdHintsTable()
	if !ok {
		o.undecided("jen", "standard-library table", token.NoPos, "anchor lost: the registration function reads no constant map[string]string table")
		return o.list
	}
	root := filepath.Join(goroot(), "src")
	if _, err := os.Stat(filepath.Join(root, "fmt")); err != nil {
		broken("GOROOT/src not available at %s: %v", root, err)
	}
	var paths []string
	for p := range table {
		paths = append(paths, p)
	}
	sort.Strings(paths)
	verified, unver, internalMismatch := 0, 0, 0
	for _, p := range paths {
		internal := false
		for _, el := range strings.Split(p, "/") {
			if el == "internal" || el == "vendor" {
				internal = true
			}
		}
		dir := filepath.Join(root, filepath.FromSlash(p))
		real, err := pkgClause(dir)
		if err != nil {
			unver++
			o.info("jen."+name, "entry "+p, pos, "not verifiable with this toolchain: %v", err)
			continue
		}
		if internal {
			if real != table[p] {
				internalMismatch++
				o.info("jen."+name, "entry "+p, pos, "internal package: table says %q, %s declares %q (not importable by users; reported only)", table[p], runtime.Version(), real)
			}
			continue
		}
		verified++
		o.req(real == table[p], "jen."+name, "entry "+p, pos, "table name %q, package clause in %s is %q — a wrong entry is used as qualifier without an alias", table[p], dir, real)
	}
	c.stats["stdhints_entries"] = len(table)
	c.stats["stdhints_importable_verified"] = verified
	c.stats["stdhints_unverifiable"] = unver
	c.stats["stdhints_internal_mismatch_info"] = internalMismatch
	return o.list
}

// ---------------------------------------------------------------------------------------------
// T-CONSTRUCTS

type grammar struct {
	open, close, sep string
	multi            bool
}

// Independent table of the delimiters Go's grammar has for each construct (written from the
// language specification, not from genjen/data.go). Compared as token sequences.
var grammarTable = map[string]grammar{
	"Parens":    {"(", ")", "", false},       // ( Expression )
	"List":      {"", "", ",", false},        // ExpressionList / IdentifierList
	"Values":    {"{", "}", ",", false},      // LiteralValue
	"Index":     {"[", "]", ":", false},      // Index / Slice / ArrayType length
	"Block":     {"{", "}", "", true},        // Block: statements separated by newlines
	"Defs":      {"(", ")", "", true},        // parenthesised declaration list
	"Call":      {"(", ")", ",", false},      // Arguments
	"Params":    {"(", ")", ",", false},      // Parameters
	"Assert":    {".(", ")", "", false},      // TypeAssertion
	"Map":       {"map[", "]", "", false},    // MapType key
	"If":        {"if ", "", ";", false},     // if SimpleStmt ; Expression
	"Return":    {"return ", "", ",", false}, // return ExpressionList
	"For":       {"for ", "", ";", false},    // for Init ; Cond ; Post
	"Switch":    {"switch ", "", ";", false}, // switch SimpleStmt ; Tag
	"Interface": {"interface{", "}", "", true},
	"Struct":    {"struct{", "}", "", true},
	"Case":      {"case ", ":", ",", false}, // case ExpressionList :
	"Types":     {"[", "]", ",", false},     // TypeParameters / TypeArgs
	"Union":     {"", "", "|", false},       // TypeElem union
}

var builtinCalls = []string{"append", "cap", "close", "clear", "min", "max", "complex", "copy", "delete", "imag", "len", "make", "new", "panic", "print", "println", "real", "recover"}

func scanTokens(s string) []string {
	var out []string
	if strings.TrimSpace(s) == "" {
		return out
	}
	fset := token.NewFileSet()
	f := fset.AddFile("", fset.Base(), len(s))
	var sc scanner.Scanner
	sc.Init(f, []byte(s), nil, 0)
	for {
		_, tok, lit := sc.Scan()
		if tok == token.EOF {
			break
		}
		if tok == token.SEMICOLON && lit == "\n" {
			continue
		}
		if lit != "" && tok != token.SEMICOLON {
			out = append(out, lit)
		} else {
			out = append(out, tok.String())
		}
	}
	return out
}

func sameTokens(a, b string) bool {
	x, y := scanTokens(a), scanTokens(b)
	if len(x) != len(y) {
		return false
	}
	for i := range x {
		if x[i] != y[i] {
			return false
		}
	}
	return true
}

// allocFields: field values stored into a freshly allocated struct (composite literal via &T{...}).
func allocFields(al *ssa.Alloc) (map[string]ssa.Value, bool) {
	st, ok := al.Type().Underlying().(*types.Pointer).Elem().Underlying().(*types.Struct)
	if !ok {
		return nil, false
	}
	out := map[string]ssa.Value{}
	for _, r := range *al.Referrers() {
		fa, ok := r.(*ssa.FieldAddr)
		if !ok {
			continue
		}
		for _, rr := range *fa.Referrers() {
			if s, ok := rr.(*ssa.Store); ok && s.Addr == fa {
				n := st.Field(fa.Field).Name()
				if _, dup := out[n]; dup {
					return nil, false
				}
				out[n] = s.Val
			}
		}
	}
	return out, true
}

type construct struct {
	fn                      *ssa.Function
	name                    string
	gname, open, close, sep string
	multi                   bool
	constant                bool // all delimiter fields are constants
	alloc                   *ssa.Alloc
	fields                  map[string]ssa.Value
}

// groupConstructs enumerates *Statement methods that append a freshly built *Group.
func (c *Ctx) groupConstructs() []*construct {
	var out []*construct
	gt := c.Jen.Pkg.Scope().Lookup("Group")
	if gt == nil {
		broken("anchor lost: type jen.Group")
	}
	for _, f := range c.allFuncs(c.Jen) {
		if f.Parent() != nil || f.Signature.Recv() == nil || !token.IsExported(f.Name()) {
			continue
		}
		if types.TypeString(f.Signature.Recv().Type(), shortQual) != "*jen.Statement" {
			continue
		}
		for _, b := range f.Blocks {
			for _, in := range b.Instrs {
				al, ok := in.(*ssa.Alloc)
				if !ok || !al.Heap {
					continue
				}
				if !types.Identical(al.Type().Underlying().(*types.Pointer).Elem(), gt.Type()) {
					continue
				}
				fs, ok := allocFields(al)
				if !ok {
					continue
				}
				k := &construct{fn: f, name: f.Name(), alloc: al, fields: fs, constant: true}
				get := func(n string) string {
					v, ok := fs[n]
					if !ok {
						return ""
					}
					s, ok := constString(v)
					if !ok {
						k.constant = false
					}
					return s
				}
				k.gname, k.open, k.close, k.sep = get("name"), get("open"), get("close"), get("separator")
				if v, ok := fs["multi"]; ok {
					b, ok := constBool(v)
					if !ok {
						k.constant = false
					}
					k.multi = b
				}
				out = append(out, k)
			}
		}
	}
	sort.Slice(out, func(i, j int) bool { return out[i].name < out[j].name })
	return out
}

func ruleConstructs(c *Ctx) []Obligation {
	o := c.newObs("T-CONSTRUCTS")
	cons := c.groupConstructs()
	by := map[string]*construct{}
	for _, k := range cons {
		by[k.name] = k
	}
	gtab := map[string]grammar{}
	for n, g := range grammarTable {
		gtab[n] = g
	}
	for _, b := range builtinCalls {
		gtab[strings.ToUpper(b[:1])+b[1:]] = grammar{b + "(", ")", ",", false}
	}
	universe := map[string]bool{}
	for _, n := range types.Universe.Names() {
		universe[n] = true
	}
	seen := map[string]bool{}
	for _, k := range cons {
		base := strings.TrimSuffix(k.name, "Func")
		fn := fname(k.fn)
		if !k.constant {
			// Custom / Qual-like constructs with user-supplied delimiters
			o.info(fn, "construct with non-constant delimiters", k.fn.Pos(), "not in the grammar table (user-supplied options)")
			continue
		}
		g, known := gtab[base]
		if !known {
			// unreviewed construct: generic sanity only
			bal := strings.Count(k.open, "(")+strings.Count(k.open, "[")+strings.Count(k.open, "{") == strings.Count(k.close, ")")+strings.Count(k.close, "]")+strings.Count(k.close, "}")
			if k.gname == "qual" {
				o.req(k.sep == "." && k.open == "" && k.close == "", fn, "qualified identifier is package.name", k.fn.Pos(), "open=%q close=%q separator=%q", k.open, k.close, k.sep)
				continue
			}
			if !bal {
				o.add(Violated, fn, "unreviewed construct has unbalanced delimiters", k.fn.Pos(), true, "open=%q close=%q", k.open, k.close)
			} else {
				o.info(fn, "unreviewed construct", k.fn.Pos(), "not in the grammar table: open=%q close=%q separator=%q multi=%v", k.open, k.close, k.sep, k.multi)
			}
			continue
		}
		seen[base] = true
		o.req(sameTokens(k.open, g.open), fn, "open token", k.fn.Pos(), "open %q must scan to the tokens of %q", k.open, g.open)
		o.req(sameTokens(k.close, g.close), fn, "close token", k.fn.Pos(), "close %q must scan to the tokens of %q", k.close, g.close)
		variadic := k.fn.Signature.Variadic() || strings.HasSuffix(k.name, "Func") || k.fn.Signature.Params().Len() > 1
		if variadic || g.sep == "" {
			o.req(sameTokens(k.sep, g.sep) && (k.sep == "") == (g.sep == ""), fn, "separator token", k.fn.Pos(), "separator %q must be %q (a list of more than one item is written item SEP item ...)", k.sep, g.sep)
		} else {
			o.add(Discharged, fn, "separator token", k.fn.Pos(), false, "single-item construct: separator %q never rendered", k.sep)
		}
		o.req(k.multi == g.multi, fn, "multi flag", k.fn.Pos(), "multi=%v, grammar needs %v (statement / declaration lists are separated by newlines, and only those)", k.multi, g.multi)
		// keyword-final open must end in white space: the first item follows immediately
		if toks := scanTokens(k.open); len(toks) > 0 {
			last := toks[len(toks)-1]
			if token.Lookup(last).IsKeyword() || (token.IsIdentifier(last) && !universe[last]) {
				o.req(strings.HasSuffix(k.open, " ") || strings.HasSuffix(k.open, "\t"), fn, "keyword open ends in white space", k.fn.Pos(), "open %q ends in the keyword %q; without a blank the first item would fuse with it", k.open, last)
			}
		}
		// variadic construct with empty separator must be multi (items separated by newlines)
		if variadic && k.sep == "" && g.sep == "" && k.fn.Signature.Variadic() {
			o.req(k.multi, fn, "separator-less list is multi-line", k.fn.Pos(), "items of a list without separator must be put on separate lines")
		}
		// name field drives renderer special cases
		o.req(k.gname == strings.ToLower(base), fn, "name field", k.fn.Pos(), "Group.name=%q, expected %q (the renderer special-cases block / case / types / values by this name)", k.gname, strings.ToLower(base))
		// twin agreement
		if strings.HasSuffix(k.name, "Func") {
			if t := by[base]; t != nil {
				same := t.gname == k.gname && t.open == k.open && t.close == k.close && t.sep == k.sep && t.multi == k.multi
				o.req(same, fn, "agrees with "+base, k.fn.Pos(), "%s{name:%q open:%q close:%q sep:%q multi:%v} vs %s{name:%q open:%q close:%q sep:%q multi:%v}", k.name, k.gname, k.open, k.close, k.sep, k.multi, base, t.gname, t.open, t.close, t.sep, t.multi)
			} else {
				o.add(Violated, fn, "agrees with "+base, k.fn.Pos(), true, "no non-Func twin %s", base)
			}
		}
	}
	var missing []string
	for n := range gtab {
		if !seen[n] {
			missing = append(missing, n)
		}
	}
	sort.Strings(missing)
	for _, m := range missing {
		o.add(Violated, "(*jen.Statement)."+m, "construct present", token.NoPos, true, "the grammar table lists construct %s but no *Statement method builds it", m)
	}
	// the names the renderer compares against must be produced by constructors
	for _, special := range c.rendererGroupNames() {
		found := false
		for _, k := range cons {
			if k.gname == special {
				found = true
			}
		}
		o.req(found, "jen renderer", "special-cased group name "+special+" is produced by a constructor", token.NoPos, "the renderer tests Group.name == %q; no constructor sets that name, so the special case is dead", special)
	}
	c.stats["constructs_with_group_literal"] = len(cons)
	return o.list
}

// rendererGroupNames: string constants compared with a Group.name field anywhere in jen.
func (c *Ctx) rendererGroupNames() []string {
	set := map[string]bool{}
	for _, f := range c.allFuncs(c.Jen) {
		a := c.FA(f)
		for _, b := range f.Blocks {
			for _, in := range b.Instrs {
				bo, ok := in.(*ssa.BinOp)
				if !ok || (bo.Op != token.EQL && bo.Op != token.NEQ) {
					continue
				}
				for _, pair := range [][2]ssa.Value{{bo.X, bo.Y}, {bo.Y, bo.X}} {
					if s, ok := constString(pair[1]); ok && strings.HasSuffix(a.Desc(pair[0]), ".name") && !strings.Contains(a.Desc(pair[0]), "imports") && !strings.Contains(a.Desc(pair[0]), "hints") {
						if u, isLoad := pair[0].(*ssa.UnOp); isLoad && fieldOf(u.X) == "jen.Group.name" {
							set[s] = true
						}
					}
				}
			}
		}
	}
	var out []string
	for s := range set {
		out = append(out, s)
	}
	sort.Strings(out)
	return out
}

// ---------------------------------------------------------------------------------------------

type tokenLit struct {
	fn      *ssa.Function
	alloc   *ssa.Alloc
	typ     string
	typOK   bool
	content ssa.Value
	pos     token.Pos
}

func ruleKeywords(c *Ctx) []Obligation {
	o := c.newObs("T-KEYWORDS")
	universe := map[string]bool{"err": true}
	for _, n := range types.Universe.Names() {
		universe[n] = true
	}
	kwConst, idConst := c.tokenTypeConst("keywordToken"), c.tokenTypeConst("identifierToken")
	n := 0
	for _, bt := range c.allBuiltTokens() {
		f := bt.fn
		if f.Signature.Params().Len() != 0 || !token.IsExported(f.Name()) {
			continue
		}
		content, ok := "", false
		if bt.content != nil {
			content, ok = bt.content.strVal()
		}
		if !ok || !bt.ok {
			continue
		}
		if bt.typ != kwConst && bt.typ != idConst {
			continue // Null, Empty, Line: checked by P-LITCTOR
		}
		n++
		fn := fname(f)
		o.req(strings.EqualFold(f.Name(), content), fn, "emits the word it is named after", f.Pos(), "method %s emits %q", f.Name(), content)
		if bt.typ == kwConst {
			o.req(token.Lookup(content).IsKeyword(), fn, "keyword token holds a Go keyword", f.Pos(), "%q is not a keyword", content)
		} else {
			o.req(universe[content], fn, "identifier token holds a predeclared identifier", f.Pos(), "%q is not in the universe scope (nor err)", content)
		}
	}
	c.stats["keyword_identifier_methods"] = n
	return o.list
}

// tokenTypeValues: the roles of the token-type constants and the values they had when the rules
// were written. A constant is found by name; after a renaming, by its value among the constants
// of the token type field's type.
var tokenTypeValues = map[string]string{
	"packageToken": "package", "identifierToken": "identifier", "qualifiedToken": "qualified", "keywordToken": "keyword",
	"operatorToken": "operator", "delimiterToken": "delimiter", "literalToken": "literal", "literalRuneToken": "literal_rune",
	"literalByteToken": "literal_byte", "nullToken": "null", "layoutToken": "layout",
}

func (c *Ctx) tokenTypeConst(name string) string {
	obj := c.Jen.Pkg.Scope().Lookup(name)
	if k, ok := obj.(*types.Const); ok && k.Val().Kind() == constant.String {
		return constant.StringVal(k.Val())
	}
	// renamed: the constant of the token struct's type field that still has the role's value
	want, known := tokenTypeValues[name]
	if known {
		var fieldT types.Type
		if tn, ok := c.Jen.Pkg.Scope().Lookup("token").(*types.TypeName); ok {
			if st, ok := tn.Type().Underlying().(*types.Struct); ok {
				for i := 0; i < st.NumFields(); i++ {
					if b, ok := st.Field(i).Type().Underlying().(*types.Basic); ok && b.Info()&types.IsString != 0 {
						fieldT = st.Field(i).Type()
						break
					}
				}
			}
		}
		if fieldT != nil {
			for _, n := range c.Jen.Pkg.Scope().Names() {
				if k, ok := c.Jen.Pkg.Scope().Lookup(n).(*types.Const); ok && types.Identical(k.Type(), fieldT) && k.Val().Kind() == constant.String && constant.StringVal(k.Val()) == want {
					return want
				}
			}
		}
	}
	broken("anchor lost: constant jen.%s", name)
	return ""
}

func ruleTokContent(c *Ctx) []Obligation {
	o := c.newObs("T-TOKCONTENT")
	// asserted types per token type: from the non-comma-ok assertions on a token's content, on the
	// paths of every function through which one can run (helpers inlined), each under the token-type
	// fact known at that point
	want := c.assertionSafety(o)
	for t, m := range want {
		if len(m) > 1 {
			o.add(Violated, "(jen.token).render", "conflicting assertions for token type "+t, token.NoPos, true, "%v", m)
		}
	}
	n := 0
	seenKey := map[string]bool{}
	for _, bt := range c.allBuiltTokens() {
		fn := fname(bt.fn)
		if !bt.ok {
			o.undecided(fn, "token with non-constant type", bt.fn.Pos(), "the token type is not a constant even after inlining the helpers")
			continue
		}
		ws := want[bt.typ]
		var wt string
		for k := range ws {
			wt = k
		}
		key := fn + "|" + bt.typ
		if seenKey[key] {
			continue
		}
		seenKey[key] = true
		n++
		if len(ws) == 0 {
			o.add(Discharged, fn, "token typ="+bt.typ, bt.fn.Pos(), false, "the renderer asserts no type for %s tokens", bt.typ)
			continue
		}
		if bt.content == nil || bt.content.Nil {
			o.add(Violated, fn, "token typ="+bt.typ+" has no content", bt.fn.Pos(), true, "renderer asserts content.(%s)", wt)
			continue
		}
		got := "?"
		if bt.content.Typ != nil {
			got = types.TypeString(bt.content.Typ, shortQual)
		}
		norm := func(s string) string {
			switch s {
			case "rune", "untyped rune":
				return "int32"
			case "byte":
				return "uint8"
			case "untyped string":
				return "string"
			}
			return s
		}
		o.req(norm(got) == norm(wt), fn, "token typ="+bt.typ+" content type", bt.fn.Pos(), "content %s has static type %s, the renderer asserts %s for this token type — a mismatch panics at render time", bt.content, got, wt)
	}
	c.stats["token_literals"] = n
	return o.list
}

// ---------------------------------------------------------------------------------------------

// keptRunes: for a pattern that is one character class, the rune ranges it does NOT match.
func keptRunes(re *syntax.Regexp) ([][2]rune, bool) {
	var cls []rune
	switch re.Op {
	case syntax.OpCharClass:
		cls = re.Rune
	case syntax.OpLiteral:
		if len(re.Rune) != 1 {
			return nil, false
		}
		cls = []rune{re.Rune[0], re.Rune[0]}
	case syntax.OpAnyChar, syntax.OpAnyCharNotNL:
		return nil, true
	case syntax.OpPlus, syntax.OpStar:
		if len(re.Sub) == 1 {
			return keptRunes(re.Sub[0])
		}
		return nil, false
	default:
		return nil, false
	}
	var kept [][2]rune
	next := rune(0)
	for i := 0; i+1 < len(cls); i += 2 {
		if cls[i] > next {
			kept = append(kept, [2]rune{next, cls[i] - 1})
		}
		next = cls[i+1] + 1
	}
	if next <= unicode.MaxRune {
		kept = append(kept, [2]rune{next, unicode.MaxRune})
	}
	return kept, true
}

// reservedByPaths decides IsReservedWord(w) for each given word by enumerating the predicate's paths
// (helpers inlined): w is reserved iff every path outcome consistent with p0 == w returns true. Only
// comparisons of the parameter with string constants may appear as facts; anything else is undecided.
func (c *Ctx) reservedByPaths(fn *ssa.Function, words []string) (map[string]bool, bool, string) {
	paths, trunc := c.Paths(fn, PXConfig{MaxVisits: 2, MaxDetermined: 4096, MaxDepth: 4})
	if trunc || len(paths) == 0 {
		return nil, false, fmt.Sprintf("%d paths, truncated %v", len(paths), trunc)
	}
	type member struct {
		keys map[string]bool
		pol  bool
	}
	type outcome struct {
		eqs map[string]bool // constant -> must equal / must differ
		in  []member        // parameter (not) among the keys of a constant table
		val bool
	}
	var outs []outcome
	for _, p := range paths {
		if p.End != "return" {
			return nil, false, "a path ends in " + p.End
		}
		bo, ok := boolOutcomes(p)
		if !ok {
			return nil, false, fmt.Sprintf("result %v is not decided", p.Ret)
		}
		for _, e := range p.Events {
			if e.Kind != "funcvalue" {
				return nil, false, "effect or opaque call " + e.Kind + " " + e.Name
			}
		}
		for _, oc := range bo {
			out := outcome{eqs: map[string]bool{}, val: oc.Val}
			for atom, pol := range oc.F {
				if w, ok := eqConstWithParam(atom); ok {
					out.eqs[w] = pol
					continue
				}
				// membership of the parameter in a constant table
				t := p.Terms[atom]
				if t == nil {
					// the test is the returned value itself: find the term by its spelling
					var find func(x *T, d int) *T
					find = func(x *T, d int) *T {
						if x == nil || d > 6 {
							return nil
						}
						if x.String() == atom {
							return x
						}
						for _, a := range x.A {
							if r := find(a, d+1); r != nil {
								return r
							}
						}
						return nil
					}
					for _, r := range p.Ret {
						if x := find(r, 0); x != nil {
							t = x
						}
					}
				}
				if t != nil {
					ht := t
					for ht != nil && ht.Op == "not" && len(ht.A) == 1 {
						ht = ht.A[0]
					}
					if ht != nil && ht.Op == "has" && len(ht.A) == 2 && ht.A[0].Op == "constmap" && ht.A[1].String() == "p0" {
						keys := map[string]bool{}
						okKeys := true
						for i := 0; i+1 < len(ht.A[0].Elems); i += 2 {
							k, isS := ht.A[0].Elems[i].strVal()
							if !isS {
								okKeys = false
							}
							keys[k] = true
						}
						if okKeys {
							out.in = append(out.in, member{keys, pol})
							continue
						}
					}
				}
				return nil, false, "condition " + atom
			}
			outs = append(outs, out)
		}
	}
	res := map[string]bool{}
	for _, w := range words {
		n, allTrue := 0, true
		for _, oc := range outs {
			consistent := true
			for k, pol := range oc.eqs {
				if (k == w) != pol {
					consistent = false
				}
			}
			for _, m := range oc.in {
				if m.keys[w] != m.pol {
					consistent = false
				}
			}
			if consistent {
				n++
				if !oc.val {
					allTrue = false
				}
			}
		}
		res[w] = n > 0 && allTrue
	}
	return res, true, ""
}

// eqConstWithParam: atom is eq("const",p0) (either order).
func eqConstWithParam(atom string) (string, bool) {
	if !strings.HasPrefix(atom, "eq(") || !strings.HasSuffix(atom, ")") {
		return "", false
	}
	body := atom[3 : len(atom)-1]
	var q string
	switch {
	case strings.HasSuffix(body, ",p0"):
		q = strings.TrimSuffix(body, ",p0")
	case strings.HasPrefix(body, "p0,"):
		q = strings.TrimPrefix(body, "p0,")
	default:
		return "", false
	}
	s, err := strconv.Unquote(q)
	return s, err == nil
}
