package main

import (
	"sort"
	"strings"

	"golang.org/x/tools/go/ssa"
)

// Error propagation judged on paths — the second opinion P-ERR-PROP asks for when the CFG-local
// argument (the error value is tested and returned in the same function) does not go through, e.g.
// because the error is parked in a field of a small writer object and returned by the caller later.
// On every path (failure edges followed) of every outermost function through which the call can run,
// with helpers inlined: either the facts say this error was nil, or the path returns an error that
// derives from it (the value itself, or wrapped by fmt.Errorf / errors.*), or panics.

func (c *Ctx) errRootsOf(f *ssa.Function) []*ssa.Function {
	opaque := c.stdOpaque()
	all := c.allFuncs(c.Jen)
	callers := map[*ssa.Function][]*ssa.Function{}
	for _, g := range all {
		callers[g] = c.callersIncludingValueUses(g)
	}
	roots := map[*ssa.Function]bool{}
	var climb func(g *ssa.Function, depth int)
	climb = func(g *ssa.Function, depth int) {
		if opaque(g) || isExportedName(g.Name()) || len(callers[g]) == 0 || depth >= 3 || g.Parent() != nil {
			roots[g] = true
			return
		}
		for _, h := range callers[g] {
			climb(h, depth+1)
		}
	}
	climb(f, 0)
	var out []*ssa.Function
	for g := range roots {
		out = append(out, g)
	}
	sort.Slice(out, func(i, j int) bool { return fname(out[i]) < fname(out[j]) })
	return out
}

func (c *Ctx) errHandledOnPaths(f *ssa.Function, call ssa.CallInstruction) (bool, string) {
	roots := c.errRootsOf(f)
	seen := 0
	// the callee of the call in question stays opaque, so that the call is an event of the path and
	// its error a value of its own (a module callee would otherwise be inlined and leave no trace)
	std := c.stdOpaque()
	callee := call.Common().StaticCallee()
	opq := func(g *ssa.Function) bool { return std(g) || (callee != nil && g == callee) }
	for _, r := range roots {
		paths, trunc := c.Paths(r, PXConfig{Opaque: opq, MaxVisits: 3, MaxDepth: 4, MaxPaths: 100000})
		if trunc || len(paths) == 0 {
			return false, "path enumeration of " + fname(r) + " truncated"
		}
		for _, p := range paths {
			for _, e := range p.Events {
				if e.In != call.(ssa.Instruction) || e.Res == nil {
					continue
				}
				seen++
				// the error component of the result
				errTerms := []string{e.Res.String(), e.Res.String() + "#1", e.Res.String() + "#0"}
				okNil, okRet := false, false
				for _, et := range errTerms {
					if v := fact3(p.Facts, eqAtom(et, "nil")); v[1] && v[0] {
						okNil = true
					}
					if p.End == "return" && len(p.Ret) > 0 && errDerives(p.Ret[len(p.Ret)-1], et) {
						okRet = true
					}
				}
				if p.End == "panic" {
					okRet = true
				}
				if !okNil && !okRet {
					return false, "in " + fname(r) + " path " + traceOf(p) + " neither knows this error to be nil nor returns it (returns " + strings.TrimSpace(termsString(p.Ret)) + ")"
				}
			}
		}
	}
	if seen == 0 {
		return false, "the call is not reached on any enumerated path"
	}
	var names []string
	for _, r := range roots {
		names = append(names, fname(r))
	}
	return true, "on every path of " + strings.Join(names, ", ") + " (helpers inlined) this error is known nil or is what the path returns"
}

func termsString(ts []*T) string {
	var s []string
	for _, t := range ts {
		s = append(s, t.String())
	}
	return "[" + strings.Join(s, " ") + "]"
}
