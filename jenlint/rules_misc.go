package main

import (
	"golang.org/x/tools/go/ssa"
)

func init() {
	register("P-COMMENT", "comment.render: text starting with // or /* passes through raw; otherwise line style (\"// \") only for text without a newline and block style (\"/*\\n\" … \"\\n\" \"*/\") exactly for text with one; nothing else is written", 8, rulePXComment)
	register("P-TAG", "tag.render: each pair is written as key:\"quoted value\" (value through %q / strconv.Quote, key verbatim) for the value looked up under that key, pairs joined by one space; the whole is back-quoted only under strconv.CanBackquote and otherwise quoted by strconv.Quote", 6, rulePXTag)
	register("P-DICT", "Dict: a pair is collected iff key and value are non-nil and non-null, with its own key and value; the emission loop writes key, \":\", value of the same pair, and \",\\n\" / a leading \"\\n\" exactly when there are several pairs; Dict.isNull is true iff no pair has both sides non-null", 7, rulePXDict)
}

// ---------------------------------------------------------------------------------------------

// tseg is one segment of a string template: literal text, or a value printed with a verb class
// ("s" verbatim, "q" Go-quoted, "v" default, other verbs as written).
type tseg struct {
	lit  string
	verb string
	val  ssa.Value
	bits int // bit size given to a strconv formatter (0 = not applicable)
}

// ---------------------------------------------------------------------------------------------
