package main

import (
	"fmt"
	"go/token"
	"go/types"
	"strings"

	"golang.org/x/tools/go/ssa"
)

func init() {
	register("P-COMMENT", "comment.render: text starting with // or /* passes through raw; otherwise line style (\"// \") only for text without a newline and block style (\"/*\\n\" … \"\\n\" \"*/\") exactly for text with one; nothing else is written", 8, rulePXComment)
	register("P-TAG", "tag.render: each pair is written as key:\"quoted value\" (value through %q / strconv.Quote, key verbatim) for the value looked up under that key, pairs joined by one space; the whole is back-quoted only under strconv.CanBackquote and otherwise quoted by strconv.Quote", 6, rulePXTag)
	register("P-DICT", "Dict: a pair is collected iff key and value are non-nil and non-null, with its own key and value; the emission loop writes key, \":\", value of the same pair, and \",\\n\" / a leading \"\\n\" exactly when there are several pairs; Dict.isNull is true iff no pair has both sides non-null", 7, rulePXDict)
}

func hasAtom(w Facts, pol bool, pred func(string) bool) bool {
	for atom, p := range w {
		if p == pol && pred(atom) {
			return true
		}
	}
	return false
}

func ruleComment(c *Ctx) []Obligation {
	o := c.newObs("P-COMMENT")
	var f *ssa.Function
	for _, g := range c.codeImpls(c.renderName()) {
		if g.Synthetic == "" && g.Signature.Recv() != nil && types.TypeString(g.Signature.Recv().Type(), shortQual) == "jen.comment" {
			f = g
		}
	}
	if f == nil {
		o.undecided("(jen.comment).render", "anchor", token.NoPos, "anchor lost")
		return o.list
	}
	a := c.FA(f)
	fn := fname(f)
	w := c.writerParam(f)
	// the text field
	text := "recv.comment"
	pfx := func(p string) string { return "strings.HasPrefix(" + text + ", " + p + ")" }
	rawLine, rawBlock := pfx(`"//"`), pfx(`"/*"`)
	hasNL := "strings.Contains(" + text + `, "\n")`
	endsNL := "strings.HasSuffix(" + text + `, "\n")`
	isRaw := func(w Facts) bool { return w.Has(rawLine, true) || w.Has(rawBlock, true) }
	notRaw := func(w Facts) bool { return w.Has(rawLine, false) && w.Has(rawBlock, false) }
	var rawSink, content, lineOpen, blockOpen, nl, blockClose *Sink
	for _, s := range a.Sinks() {
		if stripConv(s.Writer) != ssa.Value(w) {
			o.add(Violated, fn, "write to something other than the writer parameter", s.Call.Pos(), true, "")
			continue
		}
		d := a.DataDesc(s)
		ws := a.WaysTo(s.Call.Block())
		set := func(dst **Sink, name string) {
			if *dst != nil {
				o.add(Violated, fn, "more than one write of "+name, s.Call.Pos(), true, "")
			}
			*dst = s
		}
		switch d {
		case text:
			if ok, _ := allWays(ws, isRaw); ok {
				set(&rawSink, "the raw text")
			} else if ok, _ := allWays(ws, notRaw); ok {
				set(&content, "the comment text")
			} else {
				o.add(Violated, fn, "write of the text neither on the raw nor on the formatted path", s.Call.Pos(), true, "")
			}
		case `"// "`:
			set(&lineOpen, `"// "`)
		case `"/*\n"`:
			set(&blockOpen, `"/*\n"`)
		case `"\n"`:
			set(&nl, `"\n"`)
		case `"*/"`:
			set(&blockClose, `"*/"`)
		default:
			o.add(Violated, fn, "unexpected write "+d, s.Call.Pos(), true, "a comment writes its marker(s) and its text, nothing else")
		}
	}
	if content == nil || lineOpen == nil || blockOpen == nil || blockClose == nil {
		o.add(Violated, fn, "line and block comment forms are both present", f.Pos(), true, "text write: %v, \"// \": %v, \"/*\\n\": %v, \"*/\": %v", content != nil, lineOpen != nil, blockOpen != nil, blockClose != nil)
		return o.list
	}
	chk := func(s *Sink, name string, pred func(Facts) bool) {
		ok, bad := allWays(a.WaysTo(s.Call.Block()), pred)
		o.req(ok, fn, name, s.Call.Pos(), "way %s", bad)
	}
	if rawSink != nil {
		o.req(len(reachableSinks(a, rawSink)) == 0, fn, "raw text is written alone", rawSink.Call.Pos(), "other writes follow the raw pass-through")
	}
	chk(lineOpen, "line style only for text without a newline (and not raw)", func(w Facts) bool { return notRaw(w) && w.Has(hasNL, false) })
	chk(blockOpen, "block style only for text with a newline (and not raw)", func(w Facts) bool { return notRaw(w) && w.Has(hasNL, true) })
	chk(blockClose, "block close only for text with a newline", func(w Facts) bool { return notRaw(w) && w.Has(hasNL, true) })
	if nl != nil {
		chk(nl, "newline before the block close only if the text does not end in one", func(w Facts) bool { return w.Has(hasNL, true) && w.Has(endsNL, false) })
	}
	// whenever: a marker precedes the text
	p := a.Cut(f.Blocks[0], content.Call, []ssa.Instruction{lineOpen.Call, blockOpen.Call}, nil)
	o.req(p == nil, fn, "the text is always preceded by a comment marker", content.Call.Pos(), "path %s writes the text bare: it would become code", pathString(p))
	// whenever multi-line: closed by */ (on every successful return after the text)
	cerr, _ := errValue(content.Call)
	for _, r := range a.returns() {
		if !reachableFrom(content.Call.Block(), nil)[r.Block()] {
			continue
		}
		succ := false
		for _, res := range r.Results {
			if isErrorType(res.Type()) && isNilConst(res) {
				succ = true
			}
		}
		if !succ {
			continue
		}
		ex := []Lit{{hasNL, false}}
		if cerr != nil {
			l := a.nilFact(cerr)
			l.Pol = false
			ex = append(ex, l)
		}
		p := a.Cut(content.Call.Block(), r, []ssa.Instruction{blockClose.Call}, ex)
		o.req(p == nil, fn, "a block comment is always closed", r.Pos(), "path %s", pathString(p))
	}
	if nl != nil {
		p := a.Cut(content.Call.Block(), blockClose.Call, []ssa.Instruction{nl.Call}, []Lit{{endsNL, true}})
		o.req(p == nil, fn, "the block close starts on its own line", blockClose.Call.Pos(), "path %s", pathString(p))
	}
	// order: marker, text, (newline), close
	o.req(reachableFrom(content.Call.Block(), nil)[blockClose.Call.Block()] && !reachableFrom(blockClose.Call.Block(), nil)[content.Call.Block()], fn, "block close follows the text", blockClose.Call.Pos(), "")
	return o.list
}

func reachableSinks(a *FnA, s *Sink) []*Sink {
	var out []*Sink
	r := reachableFrom(s.Call.Block(), nil)
	for _, t := range a.Sinks() {
		if t != s && (r[t.Call.Block()] || (t.Call.Block() == s.Call.Block() && instrIndex(t.Call) > instrIndex(s.Call))) {
			out = append(out, t)
		}
	}
	return out
}

// ---------------------------------------------------------------------------------------------

// tseg is one segment of a string template: literal text, or a value printed with a verb class
// ("s" verbatim, "q" Go-quoted, "v" default, other verbs as written).
type tseg struct {
	lit  string
	verb string
	val  ssa.Value
	bits int // bit size given to a strconv formatter (0 = not applicable)
}

func (t tseg) String() string {
	if t.val == nil {
		return fmt.Sprintf("%q", t.lit)
	}
	if t.bits != 0 {
		return fmt.Sprintf("%%%s/%d(…)", t.verb, t.bits)
	}
	return "%" + t.verb + "(…)"
}

// template normalises a string expression built from concatenation, fmt.Sprintf, strconv.Quote and
// constants into a sequence of segments, so that equivalent spellings compare equal.
func (a *FnA) template(v ssa.Value) []tseg {
	var out []tseg
	add := func(t tseg) {
		if t.val == nil && t.lit == "" {
			return
		}
		if t.val == nil && len(out) > 0 && out[len(out)-1].val == nil {
			out[len(out)-1].lit += t.lit
			return
		}
		out = append(out, t)
	}
	var walk func(v ssa.Value)
	walk = func(v ssa.Value) {
		v = stripConv(v)
		if sv, ok := constString(v); ok {
			add(tseg{lit: sv})
			return
		}
		switch x := v.(type) {
		case *ssa.BinOp:
			if x.Op == token.ADD {
				walk(x.X)
				walk(x.Y)
				return
			}
		case *ssa.Call:
			if sc := x.Call.StaticCallee(); sc != nil {
				switch {
				case sc.String() == "fmt.Sprintf":
					if f, ok := constString(x.Call.Args[0]); ok {
						if va, ok := varargs(x.Call.Args[1]); ok {
							lits, verbs := parseFormat(f)
							if len(verbs) == len(va) {
								for i, vb := range verbs {
									add(tseg{lit: lits[i]})
									add(tseg{verb: vb, val: stripConv(va[i])})
								}
								add(tseg{lit: lits[len(lits)-1]})
								return
							}
						}
					}
				case sc.String() == "fmt.Sprint":
					if va, ok := varargs(x.Call.Args[0]); ok {
						allStr := true
						for _, ar := range va {
							if b, ok := stripConv(ar).Type().Underlying().(*types.Basic); !ok || b.Info()&types.IsString == 0 {
								allStr = false
							}
						}
						if allStr { // fmt.Sprint adds no spaces between string operands
							for _, ar := range va {
								walk(ar)
							}
							return
						}
					}
				case sc.String() == "strconv.Quote":
					add(tseg{verb: "q", val: stripConv(x.Call.Args[0])})
					return
				case sc.String() == "strconv.Itoa" || sc.String() == "strconv.FormatBool":
					vb := "d"
					if sc.String() == "strconv.FormatBool" {
						vb = "t"
					}
					add(tseg{verb: vb, val: x.Call.Args[0]})
					return
				case sc.String() == "strconv.FormatInt" || sc.String() == "strconv.FormatUint":
					if base, ok := constInt(x.Call.Args[1]); ok && base == 10 {
						add(tseg{verb: "d", val: x.Call.Args[0]})
						return
					}
				case sc.String() == "strconv.FormatFloat" || sc.String() == "strconv.FormatComplex":
					f, ok1 := constInt(x.Call.Args[1])
					prec, ok2 := constInt(x.Call.Args[2])
					bits, ok3 := constInt(x.Call.Args[3])
					if ok1 && ok2 && ok3 && f == 'g' && prec == -1 {
						add(tseg{verb: "g", val: x.Call.Args[0], bits: int(bits)})
						return
					}
				}
			}
		}
		add(tseg{verb: "s", val: v})
	}
	walk(v)
	return out
}

// concatParts flattens a string concatenation into its operands.
func concatParts(v ssa.Value) []ssa.Value {
	v = stripConv(v)
	if b, ok := v.(*ssa.BinOp); ok && b.Op == token.ADD {
		return append(concatParts(b.X), concatParts(b.Y)...)
	}
	return []ssa.Value{v}
}

func ruleTag(c *Ctx) []Obligation {
	o := c.newObs("P-TAG")
	var f *ssa.Function
	for _, g := range c.codeImpls(c.renderName()) {
		if g.Synthetic == "" && g.Signature.Recv() != nil && types.TypeString(g.Signature.Recv().Type(), shortQual) == "jen.tag" {
			f = g
		}
	}
	if f == nil {
		o.undecided("(jen.tag).render", "anchor", token.NoPos, "anchor lost")
		return o.list
	}
	a := c.FA(f)
	fn := fname(f)
	w := c.writerParam(f)
	var sinks []*Sink
	for _, s := range a.Sinks() {
		if stripConv(s.Writer) == ssa.Value(w) {
			sinks = append(sinks, s)
		}
	}
	if len(sinks) != 1 {
		o.add(Violated, fn, "the tag is written as one string literal", f.Pos(), true, "%d writes", len(sinks))
		return o.list
	}
	S := sinks[0]
	o.req(!inCycle(S.Call.Block()), fn, "the tag is written once", S.Call.Pos(), "")
	// the text accumulated per pair: the loop-carried string
	var accPhi *ssa.Phi
	for _, b := range f.Blocks {
		for _, in := range b.Instrs {
			phi, ok := in.(*ssa.Phi)
			if !ok {
				continue
			}
			if bt, ok := phi.Type().Underlying().(*types.Basic); !ok || bt.Info()&types.IsString == 0 {
				continue
			}
			if loopHeader(b) == b {
				accPhi = phi
			}
		}
	}
	if accPhi == nil {
		o.undecided(fn, "pair loop", f.Pos(), "no loop-carried string found")
		return o.list
	}
	var next ssa.Value
	for i, e := range accPhi.Edges {
		if accPhi.Block().Dominates(accPhi.Block().Preds[i]) {
			next = e
		} else if sv, ok := constString(e); !ok || sv != "" {
			o.add(Violated, fn, "the tag text starts empty", accPhi.Pos(), true, "initial value %s", a.Desc(e))
		}
	}
	if next == nil {
		o.undecided(fn, "pair loop", accPhi.Pos(), "no back edge value")
		return o.list
	}
	// next = prev [+ " "] + <pair template>
	segs := a.template(next)
	// leading part: the previous text, optionally followed by " " under the non-empty guard
	okSep := false
	sepDetail := fmt.Sprint(segs)
	var pairSegs []tseg
	if len(segs) > 0 && segs[0].val != nil {
		head := segs[0].val
		pairSegs = segs[1:]
		if head == ssa.Value(accPhi) {
			// unconditional concatenation: a space must follow unless empty … not expressible without a guard
			if len(pairSegs) > 0 && pairSegs[0].lit == " " {
				okSep = false
				sepDetail = "a space is written before the first pair too"
			}
		} else if phi, ok := head.(*ssa.Phi); ok && len(phi.Edges) == 2 {
			var plain, spaced ssa.Value
			var spacedPred *ssa.BasicBlock
			for i, e := range phi.Edges {
				if b, ok := e.(*ssa.BinOp); ok && b.Op == token.ADD {
					if sv, ok := constString(b.Y); ok && sv == " " {
						spaced = b.X
						spacedPred = phi.Block().Preds[i]
					}
				} else {
					plain = e
				}
			}
			if plain == ssa.Value(accPhi) && spaced == plain && spacedPred != nil {
				emptyAtom := "empty(" + a.Desc(plain) + ")"
				okSep = a.FactsOnEdge(spacedPred, phi.Block()).Has(emptyAtom, false)
				for i, e := range phi.Edges {
					if e == plain && !a.FactsOnEdge(phi.Block().Preds[i], phi.Block()).Has(emptyAtom, true) {
						okSep = false
					}
				}
			}
		}
	}
	o.req(okSep, fn, "pairs are joined by exactly one space", accPhi.Pos(), "accumulated as %s", sepDetail)
	// the pair template: <key verbatim> ":" <value Go-quoted>
	okPair := len(pairSegs) == 3 && pairSegs[0].val != nil && (pairSegs[0].verb == "s" || pairSegs[0].verb == "v") && pairSegs[1].lit == ":" && pairSegs[2].val != nil && pairSegs[2].verb == "q"
	o.req(okPair, fn, "each pair is key:\"value\" with the value Go-quoted (%q / strconv.Quote)", accPhi.Pos(), "pair text %v — reflect.StructTag needs a Go-quoted value after the colon", pairSegs)
	if okPair {
		k := a.Desc(pairSegs[0].val)
		v := a.Desc(pairSegs[2].val)
		o.req(v == "recv.items["+k+"]" && !strings.Contains(k, "recv.items"), fn, "the value printed is the one stored under the key printed", accPhi.Pos(), "key %s value %s", k, v)
		if u, ok := stripConv(pairSegs[0].val).(*ssa.UnOp); ok {
			if ia, ok := u.X.(*ssa.IndexAddr); ok {
				sorted := false
				for _, r := range nonDebugRefs(ia.X) {
					if ci, ok := r.(ssa.CallInstruction); ok && isSortCall(ci) {
						sorted = true
					}
				}
				o.req(sorted, fn, "keys are taken from the sorted key slice", accPhi.Pos(), "")
			}
		} else {
			o.add(Violated, fn, "keys are taken from the sorted key slice", accPhi.Pos(), true, "key %s is not an element of the sorted slice", k)
		}
	}
	// final quoting
	data := stripConv(S.Data[0])
	phi, ok := data.(*ssa.Phi)
	if !ok {
		parts := concatParts(data)
		if call, isCall := data.(*ssa.Call); isCall && call.Call.StaticCallee() != nil && strings.HasPrefix(call.Call.StaticCallee().String(), "strconv.Quote") {
			o.add(Discharged, fn, "the literal is quoted by strconv.Quote", S.Call.Pos(), true, "always an interpreted string literal")
		} else {
			o.add(Violated, fn, "back-quoted form only if representable", S.Call.Pos(), true, "the literal %v is not chosen by strconv.CanBackquote", len(parts))
		}
		return o.list
	}
	for i, e := range phi.Edges {
		pred := phi.Block().Preds[i]
		fs := a.FactsOnEdge(pred, phi.Block())
		parts := concatParts(e)
		if len(parts) == 3 {
			l, _ := constString(parts[0])
			r, _ := constString(parts[2])
			if l == "`" && r == "`" {
				o.req(fs.Has("strconv.CanBackquote("+a.Desc(parts[1])+")", true), fn, "back-quoted form only if strconv.CanBackquote holds for the text", phi.Pos(), "facts %s", fs)
				continue
			}
		}
		if call, isCall := stripConv(e).(*ssa.Call); isCall && call.Call.StaticCallee() != nil && strings.HasPrefix(call.Call.StaticCallee().String(), "strconv.Quote") {
			o.add(Discharged, fn, "otherwise quoted by strconv.Quote", phi.Pos(), true, "%s", a.Desc(e))
			continue
		}
		o.add(Violated, fn, "tag literal form", phi.Pos(), true, "unrecognised literal construction %s", a.Desc(e))
	}
	return o.list
}

// ---------------------------------------------------------------------------------------------

func ruleDict(c *Ctx) []Obligation {
	o := c.newObs("P-DICT")
	var rf, nf *ssa.Function
	for _, g := range c.codeImpls(c.renderName()) {
		if g.Synthetic == "" && g.Signature.Recv() != nil && types.TypeString(g.Signature.Recv().Type(), shortQual) == "jen.Dict" {
			rf = g
		}
	}
	for _, g := range c.codeImpls(c.nullName()) {
		if g.Synthetic == "" && g.Signature.Recv() != nil && types.TypeString(g.Signature.Recv().Type(), shortQual) == "jen.Dict" {
			nf = g
		}
	}
	if rf == nil || nf == nil {
		o.undecided("(jen.Dict)", "anchor", token.NoPos, "anchor lost: Dict.render / Dict.isNull")
		return o.list
	}
	// ---- isNull
	{
		a := c.FA(nf)
		fn := fname(nf)
		var loop *mapLoop
		for _, ml := range mapLoops(nf) {
			if a.Desc(ml.rng.X) == "recv" {
				loop = ml
			}
		}
		if loop == nil || loop.key == nil || loop.val == nil {
			o.undecided(fn, "pair loop", nf.Pos(), "no range over the Dict with key and value")
		} else {
			excused := c.pairExcuse(a, loop)
			both := func(w Facts) bool { return pairBothLive(a, loop, w) }
			for _, r := range a.returns() {
				bv, isConst := constBool(r.Results[0])
				if !isConst {
					o.undecided(fn, "result", r.Pos(), "returns %s", a.Desc(r.Results[0]))
					continue
				}
				ws := a.WaysTo(r.Block())
				if !bv {
					ok, bad := allWays(ws, both)
					o.req(ok, fn, "not null only if some pair has key and value both non-nil and non-null", r.Pos(), "way %s", bad)
				} else {
					ok, bad := allWays(ws, func(w Facts) bool {
						return w.Has("eq(nil,recv)", true) || w.Has("empty(recv)", true) || w.Has(a.Desc(loop.next)+"#0", false)
					})
					o.req(ok, fn, "null only if empty or after all pairs were examined", r.Pos(), "way %s", bad)
				}
			}
			for _, p := range loop.header.Preds {
				if !loop.blocks[p] {
					continue
				}
				ok, bad := allWays(a.WaysOnEdge(p, loop.header), excused)
				o.req(ok, fn, fmt.Sprintf("the loop moves on only past pairs with a nil / null side (from block %d)", p.Index), loop.rng.Pos(), "way %s", bad)
			}
		}
	}
	// ---- render
	a := c.FA(rf)
	fn := fname(rf)
	var loop *mapLoop
	for _, ml := range mapLoops(rf) {
		if a.Desc(ml.rng.X) == "recv" {
			loop = ml
		}
	}
	if loop == nil || loop.key == nil || loop.val == nil {
		o.undecided(fn, "collection loop", rf.Pos(), "no range over the Dict with key and value")
		return o.list
	}
	// construction site of the collected element
	var elem *ssa.Alloc
	var elemFields map[string]ssa.Value
	for b := range loop.blocks {
		for _, in := range b.Instrs {
			al, ok := in.(*ssa.Alloc)
			if !ok {
				continue
			}
			fs, ok := allocFields(al)
			if !ok {
				continue
			}
			hasK, hasV := false, false
			for _, v := range fs {
				if v == loop.key {
					hasK = true
				}
				if v == loop.val {
					hasV = true
				}
			}
			if hasK || hasV {
				if elem != nil {
					o.undecided(fn, "collected element", al.Pos(), "more than one construction site")
				}
				elem, elemFields = al, fs
				o.req(hasK && hasV, fn, "a collected pair holds its own key and its own value", al.Pos(), "fields: %d, key present %v, value present %v", len(fs), hasK, hasV)
			}
		}
	}
	if elem == nil {
		o.add(Violated, fn, "pairs are collected as (key, value) elements", loop.rng.Pos(), true, "no element holding the range key and value is built in the collection loop (a container indexed by the rendered key text loses pairs whose keys render alike)")
		return o.list
	}
	_ = elemFields
	both := func(w Facts) bool { return pairBothLive(a, loop, w) }
	ok, bad := allWays(a.WaysTo(elem.Block()), both)
	o.req(ok, fn, "a pair is collected only if key and value are non-nil and non-null", elem.Pos(), "way %s", bad)
	// the element reaches the container: a store / append in the same block or dominated
	excused := c.pairExcuse(a, loop)
	for _, p := range loop.header.Preds {
		if !loop.blocks[p] {
			continue
		}
		if p == elem.Block() || elem.Block().Dominates(p) {
			continue
		}
		ok, bad := allWays(a.WaysOnEdge(p, loop.header), excused)
		o.req(ok, fn, fmt.Sprintf("a pair is dropped only if a side is nil / null (from block %d)", p.Index), loop.rng.Pos(), "way %s", bad)
	}
	// the key is rendered to a private buffer for sorting only after the null tests
	for _, ci := range a.invokes(a.c.renderName()) {
		if !loop.blocks[ci.Block()] {
			continue
		}
		ok, bad := allWays(a.WaysTo(ci.Block()), both)
		o.req(ok && ci.Common().Value == loop.key, fn, "inside the collection loop only the key of a live pair is rendered (for sorting)", ci.Pos(), "way %s", bad)
		buf, isLocal := stripConv(ci.Common().Args[1]).(*ssa.Alloc)
		o.req(isLocal && loop.blocks[buf.Block()], fn, "the sort text is rendered into a buffer private to the iteration", ci.Pos(), "")
	}
	// ---- emission loop
	var kR, vR ssa.CallInstruction
	for _, ci := range a.invokes(a.c.renderName()) {
		if loop.blocks[ci.Block()] {
			continue
		}
		d := collectionShape(a, ci.Common().Value)
		switch {
		case strings.HasSuffix(d, ".k") || strings.HasSuffix(d, ".key"):
			kR = ci
		case strings.HasSuffix(d, ".v") || strings.HasSuffix(d, ".value") || strings.HasSuffix(d, ".val"):
			vR = ci
		}
	}
	if kR == nil || vR == nil {
		// fall back: first and second render by dominance
		var rs []ssa.CallInstruction
		for _, ci := range a.invokes(a.c.renderName()) {
			if !loop.blocks[ci.Block()] {
				rs = append(rs, ci)
			}
		}
		if len(rs) == 2 {
			if rs[0].Block().Dominates(rs[1].Block()) {
				kR, vR = rs[0], rs[1]
			} else if rs[1].Block().Dominates(rs[0].Block()) {
				kR, vR = rs[1], rs[0]
			}
		}
	}
	if kR == nil || vR == nil {
		o.undecided(fn, "emission loop", rf.Pos(), "key / value render calls not found")
		return o.list
	}
	kd, vd := a.Desc(kR.Common().Value), a.Desc(vR.Common().Value)
	base := func(s string) string {
		if i := strings.LastIndex(s, "."); i >= 0 {
			return s[:i]
		}
		return s
	}
	o.req(base(kd) == base(vd) && kd != vd, fn, "key and value emitted together belong to the same collected pair", kR.Pos(), "key %s value %s", kd, vd)
	w := c.writerParam(rf)
	o.req(stripConv(kR.Common().Args[1]) == ssa.Value(w) && stripConv(vR.Common().Args[1]) == ssa.Value(w), fn, "pairs are emitted to the writer", kR.Pos(), "")
	hdr := loopHeader(kR.Block())
	if hdr == nil {
		o.undecided(fn, "emission loop", kR.Pos(), "not a loop")
		return o.list
	}
	var colon, commaNL, leadNL *Sink
	for _, s := range a.Sinks() {
		if loop.blocks[s.Call.Block()] || stripConv(s.Writer) != ssa.Value(w) {
			continue
		}
		switch a.DataDesc(s) {
		case `":"`:
			colon = s
		case `",\n"`:
			commaNL = s
		case `"\n"`:
			leadNL = s
		default:
			o.add(Violated, fn, "unexpected write in the emission loop: "+a.DataDesc(s), s.Call.Pos(), true, "")
		}
	}
	if colon == nil || commaNL == nil || leadNL == nil {
		o.add(Violated, fn, "emission writes \":\", \",\\n\" and a leading \"\\n\"", kR.Pos(), true, "colon %v, comma-newline %v, leading newline %v", colon != nil, commaNL != nil, leadNL != nil)
		return o.list
	}
	dom := func(x, y ssa.Instruction) bool {
		return x.Block() == y.Block() && instrIndex(x) < instrIndex(y) || x.Block() != y.Block() && x.Block().Dominates(y.Block())
	}
	o.req(dom(kR, colon.Call) && dom(colon.Call, vR) && dom(vR, commaNL.Call) || (dom(kR, colon.Call) && dom(colon.Call, vR) && reachableFrom(vR.Block(), hdr)[commaNL.Call.Block()]), fn, "order: key, colon, value, then the comma-newline", colon.Call.Pos(), "")
	// several pairs: the container length test
	several := func(w Facts) bool {
		return hasAtom(w, true, func(s string) bool { return strings.HasPrefix(s, "lt(1,builtin.len(") })
	}
	ok, bad = allWays(a.WaysTo(commaNL.Call.Block()), several)
	o.req(ok, fn, "comma-newline only if there are several pairs", commaNL.Call.Pos(), "way %s", bad)
	ok, bad = allWays(a.WaysTo(leadNL.Call.Block()), several)
	o.req(ok, fn, "leading newline only if there are several pairs", leadNL.Call.Pos(), "way %s", bad)
	// whenever several: comma-newline after each value
	var lenAtom string
	for atom, pol := range a.FactsAt(commaNL.Call.Block()) {
		if pol && strings.HasPrefix(atom, "lt(1,builtin.len(") {
			lenAtom = atom
		}
	}
	if lenAtom != "" {
		verr, _ := errValue(vR)
		ex := []Lit{{lenAtom, false}}
		if verr != nil {
			l := a.nilFact(verr)
			l.Pol = false
			ex = append(ex, l)
		}
		for _, p := range hdr.Preds {
			if !(hdr.Dominates(p)) {
				continue
			}
			path := a.FindPath(vR.Block(), p, map[*ssa.BasicBlock]bool{commaNL.Call.Block(): true}, a.excuseBy(ex))
			if p == commaNL.Call.Block() {
				path = nil
			}
			if path != nil {
				last := false
				for i, s := range p.Succs {
					if s == hdr && a.excuseBy(ex)(p, i) {
						last = true
					}
				}
				if last {
					path = nil
				}
			}
			o.req(path == nil, fn, fmt.Sprintf("with several pairs every value is followed by the comma-newline (back edge from block %d)", p.Index), commaNL.Call.Pos(), "path %s", pathString(path))
		}
		// leading newline whenever several, before the first key: excused by first=false
		var first *ssa.Phi
		for _, in := range hdr.Instrs {
			if phi, ok := in.(*ssa.Phi); ok {
				if b, ok := phi.Type().Underlying().(*types.Basic); ok && b.Kind() == types.Bool {
					first = phi
				}
			}
		}
		ex2 := []Lit{{lenAtom, false}}
		if first != nil {
			ex2 = append(ex2, Lit{a.Desc(first), false})
		}
		path := a.Cut(hdr, kR, []ssa.Instruction{leadNL.Call}, ex2)
		o.req(path == nil && first != nil, fn, "with several pairs the first key starts on a new line", leadNL.Call.Pos(), "path %s", pathString(path))
	} else {
		o.undecided(fn, "several-pairs test", commaNL.Call.Pos(), "no len(container) > 1 fact at the comma-newline")
	}
	return o.list
}

// pairBothLive: on this way both sides of the pair are known non-nil and non-null.
func pairBothLive(a *FnA, loop *mapLoop, w Facts) bool {
	k, v := a.Desc(loop.key), a.Desc(loop.val)
	nullOf := func(x string) bool {
		return hasAtom(w, false, func(s string) bool { return strings.HasPrefix(s, "invoke.isNull("+x+", ") })
	}
	return w.Has("eq("+min2(k, "nil")+","+max2(k, "nil")+")", false) && w.Has("eq("+min2(v, "nil")+","+max2(v, "nil")+")", false) && nullOf(k) && nullOf(v)
}

// pairExcuse: on this way some side of the pair is known nil or null.
func (c *Ctx) pairExcuse(a *FnA, loop *mapLoop) func(Facts) bool {
	k, v := a.Desc(loop.key), a.Desc(loop.val)
	return func(w Facts) bool {
		for _, x := range []string{k, v} {
			if w.Has("eq("+min2(x, "nil")+","+max2(x, "nil")+")", true) {
				return true
			}
			if hasAtom(w, true, func(s string) bool { return strings.HasPrefix(s, "invoke.isNull("+x+", ") }) {
				return true
			}
		}
		return false
	}
}
