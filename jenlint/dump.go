package main

import (
	"fmt"
	"os"
	"strings"

	"golang.org/x/tools/go/ssa"
)

// cmdDump prints internal analysis results for debugging the checker itself.
func cmdDump(args []string) int {
	c := Load(repoDir(), "quick", false)
	what := "summaries"
	if len(args) > 0 {
		what = args[0]
	}
	filter := ""
	if len(args) > 1 {
		filter = args[1]
	}
	switch what {
	case "summaries":
		g := c.CG()
		for _, f := range g.Funcs {
			if filter != "" && !strings.Contains(fname(f), filter) {
				continue
			}
			s := g.Sum[f]
			fmt.Printf("%s  returns={%s} funcval=%v\n", fname(f), s.Returns, s.FuncVal)
			for _, e := range s.sortedEffects() {
				fmt.Printf("    %-10s root=%-18s %s  (in %s, %s) field=%s\n", e.Kind, e.Root, e.What, e.Via, c.pos(e.Pos), e.Field)
			}
		}
	case "facts":
		for _, f := range c.allFuncs(c.Jen) {
			if filter != "" && !strings.Contains(fname(f), filter) {
				continue
			}
			a := c.FA(f)
			fmt.Println("==", fname(f))
			for _, b := range f.Blocks {
				fmt.Printf("  block %d (%s): %s\n", b.Index, b.Comment, a.FactsAt(b))
			}
			for _, s := range a.Sinks() {
				fmt.Printf("  sink b%d writer=%s data=%s\n", s.Call.Block().Index, a.Desc(s.Writer), a.DataDesc(s))
			}
		}
	case "paths":
		for _, f := range c.CG().Funcs {
			if filter == "" || fname(f) != filter {
				continue
			}
			ps, trunc := c.Paths(f, PXConfig{SkipErrEdges: os.Getenv("JENLINT_ERR") == "", MaxDepth: 5, Opaque: func(g *ssa.Function) bool {
				for _, r := range append(c.codeImpls(c.renderName()), c.codeImpls(c.nullName())...) {
					if r == g {
						return true
					}
				}
				for _, n := range strings.Split(os.Getenv("JENLINT_OPAQUE"), ",") {
					if n != "" && fname(g) == n {
						return true
					}
				}
				return g == c.registerFn() && fname(g) != filter
			}, MaxVisits: envInt("JENLINT_VISITS", 0), MaxPaths: envInt("JENLINT_MAXPATHS", 0)})
			fmt.Printf("== %s: %d paths (truncated %v)\n", fname(f), len(ps), trunc)
			for i, p := range ps {
				fmt.Printf("-- path %d end=%s ret=%v trace=%s\n   facts %s\n", i, p.End, p.Ret, strings.Join(p.Trace, ">"), p.Facts)
				for _, e := range p.Events {
					switch e.Kind {
					case "write":
						fmt.Printf("   W[%s] %v\n", e.Writer, e.Segs)
					default:
						fmt.Printf("   %s %s recv=%v args=%v\n", e.Kind, e.Name, e.Recv, e.Args)
					}
				}
			}
		}
	default:
		fmt.Fprintln(os.Stderr, "dump summaries|facts|paths [filter]")
		return 2
	}
	return 0
}

func envInt(k string, d int) int {
	if v := os.Getenv(k); v != "" {
		n := 0
		fmt.Sscanf(v, "%d", &n)
		return n
	}
	return d
}
