package main

import (
	"fmt"
	"os"
	"strings"
)

// cmdDump prints internal analysis results for debugging the checker itself.
func cmdDump(args []string) int {
	c := Load(repoDir(), "quick", false)
	what := "summaries"
	if len(args) > 0 {
		what = args[0]
	}
	filter := ""
	if len(args) > 1 {
		filter = args[1]
	}
	switch what {
	case "summaries":
		g := c.CG()
		for _, f := range g.Funcs {
			if filter != "" && !strings.Contains(fname(f), filter) {
				continue
			}
			s := g.Sum[f]
			fmt.Printf("%s  returns={%s} funcval=%v\n", fname(f), s.Returns, s.FuncVal)
			for _, e := range s.sortedEffects() {
				fmt.Printf("    %-10s root=%-18s %s  (in %s, %s) field=%s\n", e.Kind, e.Root, e.What, e.Via, c.pos(e.Pos), e.Field)
			}
		}
	case "facts":
		for _, f := range c.allFuncs(c.Jen) {
			if filter != "" && !strings.Contains(fname(f), filter) {
				continue
			}
			a := c.FA(f)
			fmt.Println("==", fname(f))
			for _, b := range f.Blocks {
				fmt.Printf("  block %d (%s): %s\n", b.Index, b.Comment, a.FactsAt(b))
			}
			for _, s := range a.Sinks() {
				fmt.Printf("  sink b%d writer=%s data=%s\n", s.Call.Block().Index, a.Desc(s.Writer), a.DataDesc(s))
			}
		}
	default:
		fmt.Fprintln(os.Stderr, "dump summaries|facts [filter]")
		return 2
	}
	return 0
}
