package main

import (
	"fmt"
	"go/token"
	"go/types"
	"os"
	"sort"
	"strings"

	"golang.org/x/tools/go/ssa"
)

func init() {
	register("P-NILGUARD", "every method call on a Code value drawn from a user-supplied collection (receiver / parameter elements, Dict keys and values) is guarded by a nil test on that very value; every field access through a pointer obtained by type assertion from a Code is guarded by a nil test of the pointer", 10, rulePXNilGuard)
	register("P-MAPRANGE", "no range over a map has an order-sensitive effect: updates are keyed by the range key, collected slices are sorted before any other read, no output / registration / concatenation happens inside the loop (a loop guarded by len(m)==1 is exempt)", 8, ruleMapRange)
}

func isCodeType(c *Ctx, t types.Type) bool {
	return types.Identical(t, c.codeIface())
}

func nilLit(a *FnA, v ssa.Value) string {
	d := a.Desc(v)
	return "eq(" + min2(d, "nil") + "," + max2(d, "nil") + ")"
}

// typedNilAsserts: typed-nil pointers obtained from a Code by type assertion must be nil-checked
// before a field is read through them.
func (c *Ctx) typedNilAsserts(o *obs) {
	for _, f := range c.allFuncs(c.Jen) {
		a := c.FA(f)
		for _, b := range f.Blocks {
			for _, in := range b.Instrs {
				ta, ok := in.(*ssa.TypeAssert)
				if !ok || !isCodeType(c, ta.X.Type()) {
					continue
				}
				if _, isPtr := ta.AssertedType.Underlying().(*types.Pointer); !isPtr {
					continue
				}
				var ptr ssa.Value = ta
				if ta.CommaOk {
					ptr = nil
					for _, r := range nonDebugRefs(ta) {
						if ex, ok := r.(*ssa.Extract); ok && ex.Index == 0 {
							ptr = ex
						}
					}
					if ptr == nil {
						continue
					}
				}
				n := 0
				for _, r := range nonDebugRefs(ptr) {
					fa, ok := r.(*ssa.FieldAddr)
					if !ok {
						continue
					}
					n++
					facts := a.FactsOf(fa)
					o.req(facts.Has(nilLit(a, ptr), false), fname(f), fmt.Sprintf("field %s of %s obtained by type assertion", fieldName(fa.X.Type(), fa.Field), types.TypeString(ta.AssertedType, shortQual)), fa.Pos(),
						"the API accepts typed-nil *Group / *Statement items; the pointer must be nil-checked before its field is read (facts: %s)", facts)
				}
			}
		}
	}
}

// collectionShape: descriptor with index expressions elided, for stable keys.
func collectionShape(a *FnA, v ssa.Value) string {
	d := a.Desc(v)
	// elide index expressions
	var out strings.Builder
	depth := 0
	for _, r := range d {
		switch r {
		case '[':
			if depth == 0 {
				out.WriteString("[·")
			}
			depth++
		case ']':
			depth--
			if depth == 0 {
				out.WriteRune(']')
			}
		default:
			if depth == 0 {
				out.WriteRune(r)
			}
		}
	}
	s := out.String()
	if i := strings.Index(s, "@"); i >= 0 {
		s = s[:i]
	}
	return s
}

// ---------------------------------------------------------------------------------------------

type mapLoop struct {
	rng    *ssa.Range
	next   *ssa.Next
	header *ssa.BasicBlock
	body   *ssa.BasicBlock
	done   *ssa.BasicBlock
	blocks map[*ssa.BasicBlock]bool // body blocks (one iteration)
	key    ssa.Value
	val    ssa.Value
}

func mapLoops(f *ssa.Function) []*mapLoop {
	var out []*mapLoop
	for _, b := range f.Blocks {
		for _, in := range b.Instrs {
			r, ok := in.(*ssa.Range)
			if !ok {
				continue
			}
			if _, isMap := r.X.Type().Underlying().(*types.Map); !isMap {
				continue
			}
			ml := &mapLoop{rng: r, blocks: map[*ssa.BasicBlock]bool{}}
			for _, ref := range nonDebugRefs(r) {
				if n, ok := ref.(*ssa.Next); ok {
					ml.next = n
				}
			}
			if ml.next == nil {
				continue
			}
			ml.header = ml.next.Block()
			if len(ml.header.Succs) == 2 {
				ml.body, ml.done = ml.header.Succs[0], ml.header.Succs[1]
			}
			for _, ref := range nonDebugRefs(ml.next) {
				if ex, ok := ref.(*ssa.Extract); ok {
					switch ex.Index {
					case 1:
						ml.key = ex
					case 2:
						ml.val = ex
					}
				}
			}
			if ml.body != nil {
				ml.blocks[ml.body] = true
				for x := range reachableFrom(ml.body, ml.header) {
					if x != ml.done && !(ml.done != nil && ml.done.Dominates(x)) {
						ml.blocks[x] = true
					}
				}
				// blocks only reachable after the loop finished are not body; keep those dominated by body
				for x := range ml.blocks {
					if !(x == ml.body || ml.body.Dominates(x)) {
						delete(ml.blocks, x)
					}
				}
			}
			out = append(out, ml)
		}
	}
	return out
}

var sortFuncs = map[string]bool{"sort.Strings": true, "sort.Slice": true, "sort.SliceStable": true, "sort.Sort": true, "sort.Stable": true, "sort.Ints": true,
	"slices.Sort": true, "slices.SortFunc": true, "slices.SortStableFunc": true}

// sortOrderOK: the sort call imposes a total order on the elements' own text / value: sort.Strings /
// sort.Ints, or sort.Slice* / slices.SortFunc with a comparator that is a plain `<` (or `>`) between
// the same field of the two elements. A hand-written comparator that is not a strict weak order
// makes the result depend on the input (map) order.
func sortOrderOK(c *Ctx, ci ssa.CallInstruction) (bool, string) {
	sc := ci.Common().StaticCallee()
	if sc == nil {
		return false, "dynamic"
	}
	n := sc.String()
	if i := strings.Index(n, "["); i >= 0 {
		n = n[:i]
	}
	switch n {
	case "sort.Strings", "sort.Ints", "sort.Float64s", "slices.Sort":
		return true, "natural order"
	case "sort.Slice", "sort.SliceStable", "slices.SortFunc", "slices.SortStableFunc":
		if len(ci.Common().Args) < 2 {
			return false, "no comparator"
		}
		mc, ok := ci.Common().Args[1].(*ssa.MakeClosure)
		var less *ssa.Function
		if ok {
			less, _ = mc.Fn.(*ssa.Function)
		} else if f, ok := ci.Common().Args[1].(*ssa.Function); ok {
			less = f
		}
		if less == nil {
			return false, "comparator is not a function literal"
		}
		return comparatorOK(c, less)
	case "sort.Stable", "sort.Sort":
		// a sort.Interface value: judge the Less method of its dynamic type
		if len(ci.Common().Args) < 1 {
			return false, "no argument"
		}
		mi, ok := ci.Common().Args[0].(*ssa.MakeInterface)
		if !ok {
			return false, "sort.Interface value of unknown dynamic type"
		}
		ms := c.Prog.MethodSets.MethodSet(mi.X.Type())
		for i := 0; i < ms.Len(); i++ {
			if ms.At(i).Obj().Name() == "Less" {
				if less := c.Prog.MethodValue(ms.At(i)); less != nil && less.Blocks != nil {
					return comparatorOK(c, less)
				}
			}
		}
		return false, "no Less method with a body on " + mi.X.Type().String()
	}
	return false, "unrecognised sort routine " + n
}

// comparatorOK: the less function is a single `<` (or Compare) of the same projection of its two
// elements.
func comparatorOK(c *Ctx, less *ssa.Function) (bool, string) {
	{
		a := c.FA(less)
		rs := a.returns()
		if len(rs) != 1 || len(less.Blocks) != 1 {
			// a comparator with a case distinction: accepted as lexicographic when every comparison in it
			// is between the same projection of the two elements and every result is such a comparison
			// or a constant (`if a.x != b.x { return a.x < b.x }; return a.y < b.y`)
			if projs, ok, why := lexComparator(c, less); ok {
				return true, "lexicographic over " + strings.Join(projs, ", ") + " of the two elements"
			} else {
				return false, "comparator has several paths and is not a lexicographic comparison of projections of its two elements (" + why + ")"
			}
		}
		v := rs[0].Results[0]
		if call, ok := v.(*ssa.Call); ok && call.Call.StaticCallee() != nil && isCompareFunc(call.Call.StaticCallee()) {
			return sameFieldOfTwo(a, call.Call.Args[0], call.Call.Args[1])
		}
		b, ok := v.(*ssa.BinOp)
		if !ok || (b.Op != token.LSS && b.Op != token.GTR) {
			return false, "comparator does not return a single `<` comparison: " + a.Desc(v)
		}
		return sameFieldOfTwo(a, b.X, b.Y)
	}
}

// lexComparator: every comparison instruction of less relates the same projection of its two
// elements, and every returned value is one of those comparisons, a boolean constant, or a phi of
// such. Returns the projections compared (as shapes).
func lexComparator(c *Ctx, less *ssa.Function) ([]string, bool, string) {
	a := c.FA(less)
	seen := map[string]bool{}
	var projs []string
	okCmp := map[ssa.Value]bool{}
	for _, b := range less.Blocks {
		for _, in := range b.Instrs {
			var x, y ssa.Value
			switch v := in.(type) {
			case *ssa.BinOp:
				switch v.Op {
				case token.LSS, token.GTR, token.LEQ, token.GEQ, token.EQL, token.NEQ:
					x, y = v.X, v.Y
				default:
					continue
				}
				// comparisons with constants (cmp results against 0) are judged through their operand
				if _, isC := y.(*ssa.Const); isC {
					if call, ok := x.(*ssa.Call); ok && okCmp[call] {
						okCmp[v] = true
						continue
					}
					return nil, false, "compares " + a.Desc(x) + " with a constant"
				}
			case *ssa.Call:
				sc := v.Call.StaticCallee()
				if sc == nil || len(v.Call.Args) != 2 || !isCompareFunc(sc) {
					continue
				}
				x, y = v.Call.Args[0], v.Call.Args[1]
			default:
				continue
			}
			if ok, why := sameFieldOfTwo(a, x, y); !ok {
				return nil, false, why
			}
			okCmp[in.(ssa.Value)] = true
			sh := collectionShape(a, x)
			if !seen[sh] {
				seen[sh] = true
				projs = append(projs, sh)
			}
		}
	}
	if len(projs) == 0 {
		return nil, false, "no comparison of the two elements found"
	}
	var okRes func(v ssa.Value, depth int) bool
	okRes = func(v ssa.Value, depth int) bool {
		if depth > 6 {
			return false
		}
		switch r := v.(type) {
		case *ssa.Const:
			return true
		case *ssa.Phi:
			for _, e := range r.Edges {
				if !okRes(e, depth+1) {
					return false
				}
			}
			return true
		case *ssa.UnOp:
			if r.Op == token.NOT {
				return okRes(r.X, depth+1)
			}
		}
		return okCmp[v]
	}
	for _, r := range a.returns() {
		if len(r.Results) != 1 || !okRes(r.Results[0], 0) {
			return nil, false, "a result is neither a comparison of the two elements nor a constant"
		}
	}
	return projs, true, ""
}

// sameFieldOfTwo: x and y are the same projection of two different elements.
func sameFieldOfTwo(a *FnA, x, y ssa.Value) (bool, string) {
	// key(a) against key(b) where key can only be a projection (a field of its argument)
	if ax, fx, ok1 := projectionCall(a.c, a.fn, x); ok1 {
		if ay, fy, ok2 := projectionCall(a.c, a.fn, y); ok2 && fx == fy {
			if ok, why := sameFieldOfTwo(a, ax, ay); ok {
				return true, why + " (through the key function, field " + fx + ")"
			}
		}
	}
	dx, dy := collectionShape(a, x), collectionShape(a, y)
	if dx == dy && a.Desc(x) != a.Desc(y) {
		return true, "compares " + dx + " of the two elements"
	}
	if _, isP := x.(*ssa.Parameter); isP {
		if _, isQ := y.(*ssa.Parameter); isQ && x != y {
			return true, "compares the two elements"
		}
	}
	// the same field chain of two different element parameters (a comparator func(a, b T) int)
	if px, cx := paramChain(x); px != nil {
		if py, cy := paramChain(y); py != nil && px != py && cx == cy {
			return true, "compares " + cx + " of the two elements"
		}
	}
	return false, "comparator compares " + a.Desc(x) + " with " + a.Desc(y)
}

func isSortCall(ci ssa.CallInstruction) bool {
	sc := ci.Common().StaticCallee()
	if sc == nil {
		return false
	}
	n := sc.String()
	if i := strings.Index(n, "["); i >= 0 { // generic instantiation
		n = n[:i]
	}
	return sortFuncs[n]
}

func ruleMapRange(c *Ctx) []Obligation {
	o := c.newObs("P-MAPRANGE")
	g := c.CG()
	reg := c.registerFn()
	total := 0
	for _, f := range c.allFuncs(c.Jen) {
		a := c.FA(f)
		loops := mapLoops(f)
		seq := map[string]int{}
		for _, ml := range loops {
			total++
			shape := collectionShape(a, ml.rng.X)
			seq[shape]++
			loopName := "range over " + shape
			if seq[shape] > 1 {
				loopName += fmt.Sprintf(" #%d", seq[shape])
			}
			fn := fname(f)
			if ml.body == nil {
				o.undecided(fn, loopName, ml.rng.Pos(), "loop shape not recognised")
				continue
			}
			// exemption: len(m) == 1
			facts := a.FactsOf(ml.rng)
			lenAtom := "eq(1,builtin.len(" + a.Desc(ml.rng.X) + "))"
			if facts.Has(lenAtom, true) {
				o.add(Discharged, fn, loopName, ml.rng.Pos(), true, "loop runs under len(m)==1: a single iteration has no order")
				continue
			}
			bad := 0
			report := func(pos token.Pos, what, why string, args ...interface{}) {
				bad++
				o.add(Violated, fn, loopName+": "+what, pos, true, why, args...)
			}
			// loop-carried values (phis in the header)
			for _, in := range ml.header.Instrs {
				phi, ok := in.(*ssa.Phi)
				if !ok {
					continue
				}
				switch t := phi.Type().Underlying().(type) {
				case *types.Basic:
					if t.Info()&types.IsString != 0 {
						report(phi.Pos(), "string accumulated across iterations ("+phi.Comment+")", "concatenation order follows map iteration order")
					}
				case *types.Slice:
					if ok, why := sortedBeforeRead(a, phi, ml); !ok {
						report(phi.Pos(), "slice collected across iterations ("+phi.Comment+") "+sortComplaint(why), "%s", why)
					}
				case *types.Map, *types.Pointer, *types.Interface:
					// carried reference: fine, effects are judged at the instructions
				}
			}
			var blocks []*ssa.BasicBlock
			for b := range ml.blocks {
				blocks = append(blocks, b)
			}
			sort.Slice(blocks, func(i, j int) bool { return blocks[i].Index < blocks[j].Index })
			// "the first entry that matches": a value of the current entry that leaves the loop through a
			// return or a break — unless the match is an equality with the range key (at most one entry)
			derived := func(v ssa.Value) bool { return derivedFromEntry(v, ml, 0) }
			for _, b := range blocks {
				if ret, ok := b.Instrs[len(b.Instrs)-1].(*ssa.Return); ok && !underKeyEquality(b, ml) {
					for _, res := range ret.Results {
						if derived(res) {
							report(ret.Pos(), "returns a value of the entry found first", "which of several matching entries is found first depends on map iteration order (%s)", a.Desc(res))
							break
						}
					}
				}
				for _, sb := range b.Succs {
					if ml.blocks[sb] || sb == ml.header {
						continue
					}
					for _, in := range sb.Instrs {
						phi, ok := in.(*ssa.Phi)
						if !ok {
							break
						}
						for i, pb := range sb.Preds {
							if pb == b && i < len(phi.Edges) && derived(phi.Edges[i]) && !underKeyEquality(b, ml) {
								report(phi.Pos(), "keeps a value of the entry found first ("+phi.Comment+")", "which of several matching entries is found first depends on map iteration order")
							}
						}
					}
				}
			}
			for _, b := range blocks {
				for _, in := range b.Instrs {
					switch x := in.(type) {
					case *ssa.MapUpdate:
						// the same constant stored under whatever key: iterations that collide store the
						// same thing, so the order does not matter (a set of names)
						idem := false
						if _, isC := x.Value.(*ssa.Const); isC {
							idem = true
						}
						if st, ok := x.Value.Type().Underlying().(*types.Struct); ok && st.NumFields() == 0 {
							idem = true
						}
						if stripConv(x.Key) != ml.key && !idem {
							report(x.Pos(), "map update with a key that is not the range key", "two iterations may collide on key %s; which one survives depends on iteration order", a.Desc(x.Key))
						}
					case *ssa.Store:
						// store into a captured cell / outer variable
						if al := rootAlloc(x.Addr); al != nil {
							if ml.blocks[al.Block()] {
								continue // allocated inside this iteration
							}
							switch al.Type().Underlying().(*types.Pointer).Elem().Underlying().(type) {
							case *types.Slice:
								if ok, why := cellSortedBeforeRead(a, al, ml); !ok {
									report(x.Pos(), "slice collected across iterations ("+al.Comment+") "+sortComplaint(why), "%s", why)
								}
							case *types.Basic:
								if b, ok := al.Type().Underlying().(*types.Pointer).Elem().Underlying().(*types.Basic); ok && b.Info()&types.IsString != 0 {
									if _, isConst := x.Val.(*ssa.Const); !isConst {
										report(x.Pos(), "string variable updated across iterations", "order-dependent")
									}
								}
							}
							continue
						}
						rs := g.roots(f, x.Addr)
						for r := range rs {
							if r.Kind != "fresh" {
								if _, isConst := x.Val.(*ssa.Const); !isConst {
									report(x.Pos(), "store to "+a.obj(x.Addr), "a non-constant store to outer memory inside a map range: the last iteration wins")
								}
							}
						}
					case ssa.CallInstruction:
						cc := x.Common()
						if _, isB := cc.Value.(*ssa.Builtin); isB {
							continue
						}
						if s := sinkOf(x); s != nil {
							w := stripConv(s.Writer)
							if al, ok := w.(*ssa.Alloc); ok && ml.blocks[al.Block()] {
								continue // private buffer of this iteration
							}
							report(x.Pos(), "write to "+a.Desc(s.Writer), "output is produced in map iteration order")
							continue
						}
						callees, known := g.calleesOf(cc)
						if !known && !cc.IsInvoke() && cc.StaticCallee() == nil {
							// a function value that can only be one of the module's own functions
							if ts, ok := g.resolveFuncValue(f, cc.Value, 0, map[ssa.Value]bool{}); ok && len(ts) > 0 {
								all := true
								for _, t := range ts {
									if g.Sum[t] == nil {
										all = false
									}
								}
								if all {
									callees, known = ts, true
								}
							}
						}
						if !known {
							sc := cc.StaticCallee()
							if sc != nil {
								pk := ""
								pk = pkgPathOf(sc)
								n := sc.String()
								if pureExternal[n] || purePkgs[pk] || recvMutExternal[n] || strings.HasPrefix(n, "(*bytes.Buffer).") {
									continue
								}
							}
							if cc.IsInvoke() && (cc.Method.Name() == "Error" || cc.Method.Name() == "String") {
								continue
							}
							report(x.Pos(), "call of "+calleeName(cc), "external / dynamic call inside a map range cannot be shown order-insensitive")
							continue
						}
						for _, cal := range callees {
							if len(callees) == 1 && keyedUpdateHelper(cal, callArgs(cc), ml.key) {
								continue // a helper whose only effect is m[k] = v with k the range key
							}
							if g.Reach(cal)[reg] {
								// the summaries are flow-insensitive (a hook field that is nil in this use counts
								// as callable): for a null test the paths of that implementation get the last word
								if c.isNullImpl(cal) {
									if ok, _ := c.pureOnPaths(cal); ok {
										continue
									}
								}
								// which value is handed to the callee: the range key, the range value, or something else
								onWhat := ""
								if cc.IsInvoke() {
									switch stripConv(cc.Value) {
									case ml.key:
										onWhat = " on the range key"
									case ml.val:
										onWhat = " on the range value"
									default:
										onWhat = " on " + collectionShape(a, cc.Value)
									}
								}
								report(x.Pos(), "call "+calleeName(cc)+onWhat+" may reach the registration function",
									"import names are assigned in registration order; registering inside a map range makes aliases depend on map iteration order (via %s)", fname(cal))
								break
							}
							sum := g.Sum[cal]
							for _, ef := range sum.sortedEffects() {
								switch ef.Kind {
								case "store", "mapupdate", "extmut", "write", "fs":
									// is the affected root confined to this iteration?
									confined := true
									args := callArgs(cc)
									if ef.Root.Kind == "param" && ef.Root.Idx < len(args) {
										arg := stripConv(args[ef.Root.Idx])
										al, ok := arg.(*ssa.Alloc)
										if !ok || !ml.blocks[al.Block()] {
											confined = false
										}
									} else {
										confined = false
									}
									if !confined {
										report(x.Pos(), "call "+calleeName(cc)+" has effect "+ef.Kind+" "+ef.What, "effect on memory from outside the iteration (root %s) in %s", ef.Root, ef.Via)
									}
								}
							}
						}
					}
				}
			}
			if bad == 0 {
				o.add(Discharged, fn, loopName, ml.rng.Pos(), true, "%d body blocks: every effect is keyed by the range key, confined to the iteration, a constant flag / early return, or collected and sorted before use", len(ml.blocks))
			}
		}
	}
	c.stats["map_ranges"] = total
	return o.list
}

// sortedBeforeRead: the slice value carried by phi leaves the loop and is passed to a sort routine
// that dominates every other use outside the loop body.
func sortedBeforeRead(a *FnA, phi *ssa.Phi, ml *mapLoop) (bool, string) {
	var outside []ssa.Instruction
	for _, r := range nonDebugRefs(phi) {
		if ml.blocks[r.Block()] || r.Block() == ml.header {
			continue
		}
		outside = append(outside, r)
	}
	if len(outside) == 0 {
		return true, "never read after the loop"
	}
	return valueSortedBeforeRead(a, a, phi, outside, ml, 0)
}

// valueSortedBeforeRead: every use (given) of the collected slice v in function a is the sort call,
// an order-free use, or dominated by the sort. A slice that is only returned is followed into the
// callers of the function (one level), where the call's result must be sorted before any read.
// la is the analysis of the function that contains the loop ml.
func valueSortedBeforeRead(a, la *FnA, phi ssa.Value, outside []ssa.Instruction, ml *mapLoop, depth int) (bool, string) {
	// only returned?
	allRet := len(outside) > 0
	retIdx := -1
	for _, r := range outside {
		ret, ok := r.(*ssa.Return)
		if !ok {
			allRet = false
			break
		}
		for i, res := range ret.Results {
			if res == phi {
				retIdx = i
			}
		}
	}
	if allRet && retIdx >= 0 && depth == 0 {
		n := 0
		for _, g := range a.c.CG().Funcs {
			ga := a.c.FA(g)
			for _, ci := range ga.callsTo(a.fn) {
				call, ok := ci.(*ssa.Call)
				if !ok {
					return false, "the collected slice is returned unsorted to " + fname(g) + " (deferred / go call)"
				}
				var v ssa.Value = call
				if a.fn.Signature.Results().Len() > 1 {
					v = nil
					for _, r := range nonDebugRefs(call) {
						if ex, ok := r.(*ssa.Extract); ok && ex.Index == retIdx {
							v = ex
						}
					}
					if v == nil {
						continue // result not used
					}
				}
				n++
				var uses []ssa.Instruction
				for _, r := range nonDebugRefs(v.(ssa.Instruction).(ssa.Value)) {
					uses = append(uses, r)
				}
				if len(uses) == 0 {
					continue
				}
				if ok, why := valueSortedBeforeRead(ga, la, v, uses, ml, 1); !ok {
					return false, "returned unsorted to " + fname(g) + ", where " + why
				}
			}
		}
		if n == 0 {
			return false, "the collected slice is returned unsorted and no caller was found"
		}
		return true, "returned to its callers, each of which sorts it before any other read"
	}
	var sortCall ssa.Instruction
	for _, r := range outside {
		if ci, ok := r.(ssa.CallInstruction); ok && isSortCall(ci) && stripConv(ci.Common().Args[0]) == ssa.Value(phi) {
			sortCall = r
		}
		if mi, ok := r.(*ssa.MakeInterface); ok {
			for _, rr := range nonDebugRefs(mi) {
				if ci, ok := rr.(ssa.CallInstruction); ok && isSortCall(ci) {
					sortCall = rr
				}
			}
		}
	}
	// … or handed to a helper of the module that sorts the slice it is given (stableSortBy(items, key))
	var innerSort ssa.CallInstruction
	if sortCall == nil {
		for _, r := range outside {
			ci, ok := r.(ssa.CallInstruction)
			if os.Getenv("JENLINT_DEBUG") != "" {
				fmt.Fprintf(os.Stderr, "sorted? use %T %v call=%v\n", r, r, ok)
			}
			if !ok {
				continue
			}
			sc := ci.Common().StaticCallee()
			if os.Getenv("JENLINT_DEBUG") != "" {
				fmt.Fprintf(os.Stderr, "   callee %v inModule %v\n", sc, sc != nil && a.c.inModule(sc))
			}
			if sc == nil || !a.c.inModule(sc) || sc.Blocks == nil {
				continue
			}
			for k, arg := range callArgs(ci.Common()) {
				if stripConv(arg) != ssa.Value(phi) {
					continue
				}
				if in := helperSorts(a.c, sc, k); in != nil {
					sortCall, innerSort = r, in
				}
			}
		}
	}
	if sortCall == nil {
		return false, "the collected slice is never sorted: its order is the map's iteration order"
	}
	judged := sortCall.(ssa.CallInstruction)
	if innerSort != nil {
		judged = innerSort
	}
	if ok, why := sortOrderOK(a.c, judged); !ok {
		return false, "sorted, but not by a recognisable total order (" + why + "): the result may still depend on the map's iteration order"
	}
	if ok, why := uniqueSortKey(la, ml, judged); !ok {
		return false, "sorted by a key two entries may share (" + why + "): entries that tie keep the map's iteration order"
	}
	for _, r := range outside {
		if r == sortCall {
			continue
		}
		if mi, ok := r.(*ssa.MakeInterface); ok && len(nonDebugRefs(mi)) == 1 && nonDebugRefs(mi)[0] == sortCall {
			continue
		}
		if orderFreeUse(a, r, phi) {
			continue
		}
		sb, rb := sortCall.Block(), r.Block()
		if sb == rb {
			if instrIndex(sortCall) < instrIndex(r) {
				continue
			}
			return false, fmt.Sprintf("use at %s precedes the sort", a.c.pos(r.Pos()))
		}
		if !sb.Dominates(rb) {
			return false, fmt.Sprintf("use at %s is not dominated by the sort", a.c.pos(r.Pos()))
		}
	}
	return true, "sorted before any other read"
}

// cellSortedBeforeRead: same for a slice variable living in a captured cell.
func cellSortedBeforeRead(a *FnA, cell *ssa.Alloc, ml *mapLoop) (bool, string) {
	var loads []*ssa.UnOp
	for _, r := range nonDebugRefs(cell) {
		if ml.blocks[r.Block()] || r.Block() == ml.header {
			continue
		}
		switch x := r.(type) {
		case *ssa.UnOp:
			loads = append(loads, x)
		case *ssa.MakeClosure, *ssa.Store:
		default:
			return false, fmt.Sprintf("unrecognised use %T of the collected slice", r)
		}
	}
	var sortCall ssa.CallInstruction
	for _, l := range loads {
		for _, r := range nonDebugRefs(l) {
			if ci, ok := r.(ssa.CallInstruction); ok && isSortCall(ci) && stripConv(ci.Common().Args[0]) == ssa.Value(l) {
				sortCall = ci
			}
			if mi, ok := r.(*ssa.MakeInterface); ok {
				for _, rr := range nonDebugRefs(mi) {
					if ci, ok := rr.(ssa.CallInstruction); ok && isSortCall(ci) {
						sortCall = ci
					}
				}
			}
		}
	}
	// … or handed to a helper of the module that sorts the slice it is given
	var innerSort ssa.CallInstruction
	if sortCall == nil {
		for _, l := range loads {
			for _, r := range nonDebugRefs(l) {
				ci, ok := r.(ssa.CallInstruction)
				if !ok {
					continue
				}
				sc := ci.Common().StaticCallee()
				if sc == nil || !a.c.inModule(sc) || sc.Blocks == nil {
					continue
				}
				for k, arg := range callArgs(ci.Common()) {
					if stripConv(arg) == ssa.Value(l) {
						if in := helperSorts(a.c, sc, k); in != nil {
							sortCall, innerSort = ci, in
						}
					}
				}
			}
		}
	}
	if sortCall == nil {
		return false, "the collected slice is never sorted: its order is the map's iteration order"
	}
	judgedC := sortCall
	if innerSort != nil {
		judgedC = innerSort
	}
	if ok, why := sortOrderOK(a.c, judgedC); !ok {
		return false, "sorted, but not by a recognisable total order (" + why + "): the result may still depend on the map's iteration order"
	}
	if ok, why := uniqueSortKey(a, ml, judgedC); !ok {
		return false, "sorted by a key two entries may share (" + why + "): entries that tie keep the map's iteration order"
	}
	for _, l := range loads {
		// loads inside the loop prelude (before the loop) are initial empties
		if l.Block().Dominates(ml.header) && l.Block() != ml.header {
			continue
		}
		isSortArg := false
		for _, r := range nonDebugRefs(l) {
			if r == sortCall.(ssa.Instruction) {
				isSortArg = true
			}
			if mi, ok := r.(*ssa.MakeInterface); ok {
				for _, rr := range nonDebugRefs(mi) {
					if rr == sortCall.(ssa.Instruction) {
						isSortArg = true
					}
				}
			}
		}
		if isSortArg {
			continue
		}
		orderFree := len(nonDebugRefs(l)) > 0
		for _, r := range nonDebugRefs(l) {
			if !orderFreeUse(a, r, l) {
				orderFree = false
			}
		}
		if orderFree {
			continue
		}
		sb, lb := sortCall.Block(), l.Block()
		if sb == lb {
			if instrIndex(sortCall) < instrIndex(l) {
				continue
			}
			return false, fmt.Sprintf("read at %s precedes the sort", a.c.pos(l.Pos()))
		}
		if !sb.Dominates(lb) {
			return false, fmt.Sprintf("read at %s is not dominated by the sort", a.c.pos(l.Pos()))
		}
	}
	return true, "sorted before any other read"
}

// keyedUpdateHelper: the callee does nothing but map updates whose key is a parameter bound, at this
// call, to the range key (plus pure computation): distinct iterations touch distinct entries.
func keyedUpdateHelper(cal *ssa.Function, args []ssa.Value, key ssa.Value) bool {
	return keyedUpdateHelperRec(cal, args, key, 0)
}

func keyedUpdateHelperRec(cal *ssa.Function, args []ssa.Value, key ssa.Value, depth int) bool {
	if cal == nil || cal.Blocks == nil || key == nil || depth > 2 {
		return false
	}
	n := 0
	for _, b := range cal.Blocks {
		for _, in := range b.Instrs {
			switch x := in.(type) {
			case *ssa.MapUpdate:
				p, ok := stripConv(x.Key).(*ssa.Parameter)
				if !ok {
					return false
				}
				idx := -1
				for i, q := range cal.Params {
					if q == p {
						idx = i
					}
				}
				if idx < 0 || idx >= len(args) || stripConv(args[idx]) != key {
					return false
				}
				n++
			case *ssa.Store:
				if al := rootAlloc(x.Addr); al == nil {
					return false
				}
			case ssa.CallInstruction:
				if _, isB := x.Common().Value.(*ssa.Builtin); isB {
					continue
				}
				sc := x.Common().StaticCallee()
				if sc == nil {
					return false
				}
				if pureExternal[sc.String()] {
					continue
				}
				// a further helper that is handed the key: judged the same way, the key being the
				// parameter of this function that is bound to the range key
				var keyParam ssa.Value
				for i, q := range cal.Params {
					if i < len(args) && stripConv(args[i]) == key {
						keyParam = q
					}
				}
				if keyParam == nil || !keyedUpdateHelperRec(sc, callArgs(x.Common()), keyParam, depth+1) {
					return false
				}
				n++
			case *ssa.Send, *ssa.Go, *ssa.Defer, *ssa.Panic:
				return false
			}
		}
	}
	return n > 0
}

// sortField: which field of the elements a sort call orders by ("" = the element itself); ok=false
// if that cannot be told.
func sortField(c *Ctx, ci ssa.CallInstruction) (string, bool) {
	sc := ci.Common().StaticCallee()
	if sc == nil {
		return "", false
	}
	n := sc.String()
	if i := strings.Index(n, "["); i >= 0 {
		n = n[:i]
	}
	var less *ssa.Function
	switch n {
	case "sort.Strings", "sort.Ints", "sort.Float64s", "slices.Sort":
		return "", true
	case "sort.Slice", "sort.SliceStable", "slices.SortFunc", "slices.SortStableFunc":
		if len(ci.Common().Args) < 2 {
			return "", false
		}
		if mc, ok := ci.Common().Args[1].(*ssa.MakeClosure); ok {
			less, _ = mc.Fn.(*ssa.Function)
		} else if f, ok := ci.Common().Args[1].(*ssa.Function); ok {
			less = f
		}
	case "sort.Stable", "sort.Sort":
		if mi, ok := ci.Common().Args[0].(*ssa.MakeInterface); ok {
			ms := c.Prog.MethodSets.MethodSet(mi.X.Type())
			for i := 0; i < ms.Len(); i++ {
				if ms.At(i).Obj().Name() == "Less" {
					less = c.Prog.MethodValue(ms.At(i))
				}
			}
		}
	}
	if less == nil || less.Blocks == nil {
		return "", false
	}
	rs := c.FA(less).returns()
	if len(rs) != 1 {
		return "", false
	}
	var x ssa.Value
	switch v := rs[0].Results[0].(type) {
	case *ssa.BinOp:
		x = v.X
	case *ssa.Call:
		if len(v.Call.Args) > 0 {
			x = v.Call.Args[0]
		}
	}
	for x != nil {
		switch y := x.(type) {
		case *ssa.UnOp:
			x = y.X
			continue
		case *ssa.FieldAddr:
			return fieldName(y.X.Type(), y.Field), true
		case *ssa.Field:
			return fieldName(y.X.Type(), y.Field), true
		case *ssa.IndexAddr, *ssa.Index, *ssa.Parameter:
			return "", true
		case *ssa.Call:
			if arg, fld, ok := projectionCall(c, less, y); ok {
				if fld != "" {
					return fld, true
				}
				x = arg
				continue
			}
		}
		break
	}
	return "", false
}

// derivedSortKey: the comparator of this sort has the single form f(a) < f(b) where f is a call
// applied to the element (strings.ToLower(keys[i]) < strings.ToLower(keys[j])): elements with the
// same image tie, and ties keep the order the map range produced (sort.Slice is not even stable).
// Returns a description of f, or "" when the comparator has another form.
func derivedSortKey(c *Ctx, ci ssa.CallInstruction) string {
	less := comparatorOf(c, ci)
	if less == nil || less.Blocks == nil {
		return ""
	}
	rs := c.FA(less).returns()
	if len(rs) != 1 || len(rs[0].Results) != 1 {
		return ""
	}
	bo, ok := rs[0].Results[0].(*ssa.BinOp)
	if !ok || (bo.Op != token.LSS && bo.Op != token.GTR && bo.Op != token.LEQ && bo.Op != token.GEQ) {
		return ""
	}
	cx, okx := bo.X.(*ssa.Call)
	cy, oky := bo.Y.(*ssa.Call)
	if !okx || !oky {
		return ""
	}
	if _, _, isProj := projectionCall(c, less, cx); isProj {
		return ""
	}
	fx, fy := cx.Call.StaticCallee(), cy.Call.StaticCallee()
	if fx == nil || fx != fy || len(cx.Call.Args) == 0 {
		return ""
	}
	// the argument must be an element of the sorted slice (or a field of one)
	isElem := func(v ssa.Value) bool {
		for v != nil {
			switch y := v.(type) {
			case *ssa.UnOp:
				v = y.X
				continue
			case *ssa.FieldAddr:
				v = y.X
				continue
			case *ssa.Field:
				v = y.X
				continue
			case *ssa.IndexAddr, *ssa.Index, *ssa.Parameter:
				return true
			}
			return false
		}
		return false
	}
	if !isElem(cx.Call.Args[0]) || !isElem(cy.Call.Args[0]) {
		return ""
	}
	return fx.String() + "(element)"
}

// comparatorOf: the less function of a sort call (function literal, named function, or the Less
// method of the sort.Interface value), nil for the built-in orders.
func comparatorOf(c *Ctx, ci ssa.CallInstruction) *ssa.Function {
	sc := ci.Common().StaticCallee()
	if sc == nil {
		return nil
	}
	n := sc.String()
	if i := strings.Index(n, "["); i >= 0 {
		n = n[:i]
	}
	switch n {
	case "sort.Slice", "sort.SliceStable", "slices.SortFunc", "slices.SortStableFunc":
		if len(ci.Common().Args) < 2 {
			return nil
		}
		if mc, ok := ci.Common().Args[1].(*ssa.MakeClosure); ok {
			f, _ := mc.Fn.(*ssa.Function)
			return f
		} else if f, ok := ci.Common().Args[1].(*ssa.Function); ok {
			return f
		}
	case "sort.Stable", "sort.Sort":
		if mi, ok := ci.Common().Args[0].(*ssa.MakeInterface); ok {
			ms := c.Prog.MethodSets.MethodSet(mi.X.Type())
			for i := 0; i < ms.Len(); i++ {
				if ms.At(i).Obj().Name() == "Less" {
					return c.Prog.MethodValue(ms.At(i))
				}
			}
		}
	}
	return nil
}

// uniqueSortKey: what the loop collects is ordered by the map's own key (or a field that holds it),
// so no two entries can tie. Only judged when the collection is by append inside the loop and the
// sort field can be told; other shapes are left to the order check alone.
func uniqueSortKey(a *FnA, ml *mapLoop, sortCall ssa.CallInstruction) (bool, string) {
	if d := derivedSortKey(a.c, sortCall); d != "" {
		return false, "the comparator orders the elements by " + d + ", a value computed from them that two different elements may share"
	}
	if less := comparatorOf(a.c, sortCall); less != nil && less.Blocks != nil && (len(less.Blocks) != 1 || len(a.c.FA(less).returns()) != 1) && ml.key != nil {
		// a lexicographic comparator: one of the projections it compares must be the map's own key
		fields, identity := comparedFields(a.c, less)
		for b := range ml.blocks {
			for _, in := range b.Instrs {
				call, ok := in.(*ssa.Call)
				if !ok {
					continue
				}
				bi, ok := call.Call.Value.(*ssa.Builtin)
				if !ok || bi.Name() != "append" || len(call.Call.Args) != 2 {
					continue
				}
				va, ok := varargs(call.Call.Args[1])
				if !ok || len(va) != 1 {
					continue
				}
				el := stripConv(va[0])
				uniq := false
				if fs, isLit := a.structLit(el); isLit {
					for _, f := range fields {
						if v, has := fs[f]; has && stripConv(v) == ml.key {
							uniq = true
						}
					}
				} else if _, isStruct := el.Type().Underlying().(*types.Struct); isStruct {
					uniq = true // cannot tell what the fields hold: left to the order check
				} else {
					uniq = identity && el == ml.key
				}
				if !uniq {
					return false, fmt.Sprintf("none of the projections the comparator compares (%s; the element itself: %v) holds the map's key for the collected values %s", strings.Join(fields, ", "), identity, a.Desc(el))
				}
			}
		}
		return true, ""
	}
	field, ok := sortField(a.c, sortCall)
	if !ok || ml.key == nil {
		return true, ""
	}
	for b := range ml.blocks {
		for _, in := range b.Instrs {
			call, ok := in.(*ssa.Call)
			if !ok {
				continue
			}
			bi, ok := call.Call.Value.(*ssa.Builtin)
			if !ok || bi.Name() != "append" || len(call.Call.Args) != 2 {
				continue
			}
			va, ok := varargs(call.Call.Args[1])
			if !ok || len(va) != 1 {
				continue
			}
			el := stripConv(va[0])
			if field == "" {
				if _, isStruct := el.Type().Underlying().(*types.Struct); isStruct {
					continue
				}
				if el != ml.key {
					return false, "the collected values " + a.Desc(el) + " are not the map's keys"
				}
				continue
			}
			fs, ok := a.structLit(el)
			if !ok {
				continue
			}
			if v, has := fs[field]; has && stripConv(v) != ml.key {
				return false, "field " + field + " = " + a.Desc(v) + " is not the map's key"
			}
		}
	}
	return true, ""
}

func sortComplaint(why string) string {
	if strings.Contains(why, "a value computed from them") {
		return "is sorted by a computed key two entries may share"
	}
	if strings.Contains(why, "sorted by a key two entries may share") {
		return "is sorted by a key two entries may share"
	}
	return "is read before being sorted"
}

// orderFreeUse: a use of the collected (not yet sorted) slice v that cannot observe its order: its
// length, or anything at a point where the slice is known to have exactly one element.
func orderFreeUse(a *FnA, r ssa.Instruction, v ssa.Value) bool {
	if call, ok := r.(*ssa.Call); ok {
		if bi, ok := call.Call.Value.(*ssa.Builtin); ok && (bi.Name() == "len" || bi.Name() == "cap") {
			return true
		}
	}
	d := a.Desc(v)
	w := a.FactsAt(r.Block())
	return w.Has("eq(1,builtin.len("+d+"))", true) || (w.Has("lt(1,builtin.len("+d+"))", false) && w.Has("empty("+d+")", false))
}

// comparedFields: the fields of the elements that the comparisons of less relate (first operand of
// every comparison of two elements), and whether some comparison relates the elements themselves.
func comparedFields(c *Ctx, less *ssa.Function) (fields []string, identity bool) {
	seen := map[string]bool{}
	note := func(x ssa.Value) {
		for x != nil {
			switch y := x.(type) {
			case *ssa.UnOp:
				x = y.X
				continue
			case *ssa.FieldAddr:
				if n := fieldName(y.X.Type(), y.Field); !seen[n] {
					seen[n] = true
					fields = append(fields, n)
				}
				return
			case *ssa.Field:
				if n := fieldName(y.X.Type(), y.Field); !seen[n] {
					seen[n] = true
					fields = append(fields, n)
				}
				return
			case *ssa.IndexAddr, *ssa.Index, *ssa.Parameter:
				identity = true
				return
			case *ssa.Call:
				if arg, fld, ok := projectionCall(c, less, y); ok {
					if fld != "" {
						if !seen[fld] {
							seen[fld] = true
							fields = append(fields, fld)
						}
						return
					}
					x = arg
					continue
				}
			}
			return
		}
	}
	for _, b := range less.Blocks {
		for _, in := range b.Instrs {
			switch v := in.(type) {
			case *ssa.BinOp:
				switch v.Op {
				case token.LSS, token.GTR, token.LEQ, token.GEQ, token.EQL, token.NEQ:
					if _, isC := v.Y.(*ssa.Const); !isC {
						note(v.X)
					}
				}
			case *ssa.Call:
				if sc := v.Call.StaticCallee(); sc != nil && len(v.Call.Args) == 2 && isCompareFunc(sc) {
					note(v.Call.Args[0])
				}
			}
		}
	}
	sort.Strings(fields)
	return
}

// ascendingNaturalOrder: the sort orders the elements ascending by themselves (or by a plain field
// of them): a built-in order, or a comparator all of whose comparisons relate plain projections
// (no call in between) and whose deciding comparisons are `x(i) < x(j)` / `x(j) > x(i)`.
func ascendingNaturalOrder(c *Ctx, ci ssa.CallInstruction) (bool, string) {
	less := comparatorOf(c, ci)
	if less == nil {
		return true, "" // sort.Strings and the like
	}
	if less.Blocks == nil || len(less.Params) < 2 {
		return false, "comparator without a body"
	}
	// which of the comparator's two parameters (or captured indexes) an operand is drawn from
	var side func(v ssa.Value, depth int) (int, bool)
	side = func(v ssa.Value, depth int) (int, bool) {
		if depth > 8 {
			return 0, false
		}
		switch y := v.(type) {
		case *ssa.UnOp:
			return side(y.X, depth+1)
		case *ssa.FieldAddr:
			return side(y.X, depth+1)
		case *ssa.Field:
			return side(y.X, depth+1)
		case *ssa.IndexAddr:
			return side(y.Index, depth+1)
		case *ssa.Index:
			return side(y.Index, depth+1)
		case *ssa.Parameter:
			n := len(less.Params)
			for i, p := range less.Params {
				if p == y {
					return i - (n - 2), i >= n-2 // the last two parameters are i, j (a method has the receiver first)
				}
			}
		case *ssa.Call:
			if arg, _, ok := projectionCall(c, less, y); ok {
				return side(arg, depth+1)
			}
		case *ssa.Alloc:
			if p := allocParam(y); p != nil {
				return side(p, depth+1)
			}
		}
		return 0, false
	}
	a := c.FA(less)
	n := 0
	for _, b := range less.Blocks {
		for _, in := range b.Instrs {
			// a three-way comparison cmp.Compare(x(a), x(b)) / strings.Compare(…): ascending iff the
			// first operand is drawn from the first element
			if call, ok := in.(*ssa.Call); ok {
				if sc := call.Call.StaticCallee(); sc != nil && isCompareFunc(sc) && len(call.Call.Args) == 2 {
					sx, okx := side(call.Call.Args[0], 0)
					sy, oky := side(call.Call.Args[1], 0)
					if !okx || !oky {
						return false, "the comparator compares " + a.Desc(call.Call.Args[0]) + " with " + a.Desc(call.Call.Args[1]) + ", values computed from the elements rather than the elements themselves"
					}
					if !(sx == 0 && sy == 1) {
						return false, "the comparator orders descending (" + baseFuncName(sc) + " of the second element against the first)"
					}
					n++
				}
				continue
			}
			bo, ok := in.(*ssa.BinOp)
			if !ok {
				continue
			}
			switch bo.Op {
			case token.LSS, token.GTR, token.LEQ, token.GEQ, token.EQL, token.NEQ:
			default:
				continue
			}
			if _, isC := bo.Y.(*ssa.Const); isC {
				continue
			}
			sx, okx := side(bo.X, 0)
			sy, oky := side(bo.Y, 0)
			if !okx || !oky {
				return false, "the comparator compares " + a.Desc(bo.X) + " with " + a.Desc(bo.Y) + ", values computed from the elements rather than the elements themselves"
			}
			switch bo.Op {
			case token.LSS, token.LEQ:
				if !(sx == 0 && sy == 1) {
					return false, "the comparator orders descending (" + a.Desc(bo.X) + " < " + a.Desc(bo.Y) + ")"
				}
				n++
			case token.GTR, token.GEQ:
				if !(sx == 1 && sy == 0) {
					return false, "the comparator orders descending (" + a.Desc(bo.X) + " > " + a.Desc(bo.Y) + ")"
				}
				n++
			}
		}
	}
	if n == 0 {
		return false, "no ordering comparison of the two elements found in the comparator"
	}
	return true, ""
}

// projectionCall: v is a call, in fn, of a function value that can only be module functions each of
// which returns one and the same plain field of its single argument (or the argument itself): a key
// function handed to a sorting helper. Returns the argument and the field ("" for the argument).
func projectionCall(c *Ctx, fn *ssa.Function, v ssa.Value) (ssa.Value, string, bool) {
	call, ok := v.(*ssa.Call)
	if !ok || call.Call.IsInvoke() || len(call.Call.Args) != 1 {
		return nil, "", false
	}
	var targets []*ssa.Function
	if sc := call.Call.StaticCallee(); sc != nil {
		if !c.inModule(sc) || sc.Blocks == nil {
			return nil, "", false
		}
		targets = []*ssa.Function{sc}
	} else {
		ts, ok := c.CG().resolveFuncValue(fn, call.Call.Value, 0, map[ssa.Value]bool{})
		if !ok || len(ts) == 0 {
			return nil, "", false
		}
		targets = ts
	}
	field, set := "", false
	for _, t := range targets {
		f, ok := projectionOf(t)
		if !ok || (set && f != field) {
			return nil, "", false
		}
		field, set = f, true
	}
	return call.Call.Args[0], field, set
}

// projectionOf: the function returns a plain field of its only parameter, or the parameter.
func projectionOf(f *ssa.Function) (string, bool) {
	if f == nil || len(f.Blocks) != 1 || len(f.Params) != 1 {
		return "", false
	}
	var ret *ssa.Return
	for _, in := range f.Blocks[0].Instrs {
		if r, ok := in.(*ssa.Return); ok {
			ret = r
		}
	}
	if ret == nil || len(ret.Results) != 1 {
		return "", false
	}
	v := ret.Results[0]
	for {
		switch x := v.(type) {
		case *ssa.Parameter:
			if x == f.Params[0] {
				return "", true
			}
			return "", false
		case *ssa.Field:
			if p, ok := x.X.(*ssa.Parameter); ok && p == f.Params[0] {
				return fieldName(x.X.Type(), x.Field), true
			}
			return "", false
		case *ssa.UnOp:
			if x.Op != token.MUL {
				return "", false
			}
			if fa, ok := x.X.(*ssa.FieldAddr); ok {
				if p, ok := fa.X.(*ssa.Parameter); ok && p == f.Params[0] {
					return fieldName(fa.X.Type(), fa.Field), true
				}
				// a value parameter spilled to a local: *(&local).f where local holds the parameter
				if al, ok := fa.X.(*ssa.Alloc); ok && al.Referrers() != nil {
					for _, r := range *al.Referrers() {
						if st, ok := r.(*ssa.Store); ok && st.Addr == ssa.Value(al) && st.Val == ssa.Value(f.Params[0]) {
							return fieldName(fa.X.Type(), fa.Field), true
						}
					}
				}
			}
			return "", false
		case *ssa.ChangeType:
			v = x.X
			continue
		}
		return "", false
	}
}

// helperSorts: the module function sorts the slice it receives as parameter k: a sort call on that
// parameter lies on every path to a return. Returns that sort call.
func helperSorts(c *Ctx, f *ssa.Function, k int) ssa.CallInstruction {
	if k >= len(f.Params) {
		return nil
	}
	a := c.FA(f)
	for _, ci := range a.calls() {
		if os.Getenv("JENLINT_DEBUG") != "" {
			fmt.Fprintf(os.Stderr, "   helperSorts %s call %v sort=%v\n", fname(f), ci, isSortCall(ci))
		}
		if !isSortCall(ci) || len(ci.Common().Args) == 0 {
			continue
		}
		arg := stripConv(ci.Common().Args[0])
		if mi, ok := arg.(*ssa.MakeInterface); ok {
			arg = stripConv(mi.X)
		}
		// a parameter captured by the comparator lives in a cell: *cell where cell holds the parameter
		if ld, ok := arg.(*ssa.UnOp); ok && ld.Op == token.MUL {
			if al, ok := ld.X.(*ssa.Alloc); ok && al.Referrers() != nil {
				nst := 0
				var stored ssa.Value
				for _, r := range *al.Referrers() {
					if st, ok := r.(*ssa.Store); ok && st.Addr == ssa.Value(al) {
						nst++
						stored = st.Val
					}
				}
				if nst == 1 {
					arg = stored
				}
			}
		}
		if arg != ssa.Value(f.Params[k]) {
			continue
		}
		dom := true
		for _, r := range a.returns() {
			if !(ci.Block() == r.Block() || ci.Block().Dominates(r.Block())) {
				dom = false
			}
		}
		if dom {
			return ci
		}
	}
	return nil
}

func (c *Ctx) isNullImpl(f *ssa.Function) bool {
	for _, g := range c.codeImpls(c.nullName()) {
		if g == f {
			return true
		}
	}
	return false
}

func isCompareFunc(f *ssa.Function) bool {
	switch baseFuncName(f) {
	case "strings.Compare", "bytes.Compare", "cmp.Compare":
		return true
	}
	return false
}

// paramChain: v is a chain of field selections (and loads) on a parameter: the parameter and the
// chain as text ("" for the parameter itself).
func paramChain(v ssa.Value) (*ssa.Parameter, string) {
	chain := ""
	for v != nil {
		switch x := v.(type) {
		case *ssa.Parameter:
			return x, chain
		case *ssa.UnOp:
			if x.Op != token.MUL {
				return nil, ""
			}
			v = x.X
		case *ssa.Field:
			chain = "." + fieldName(x.X.Type(), x.Field) + chain
			v = x.X
		case *ssa.FieldAddr:
			chain = "." + fieldName(x.X.Type(), x.Field) + chain
			v = x.X
		case *ssa.ChangeType:
			v = x.X
		case *ssa.Alloc:
			// a struct parameter spilled to a local so that its fields can be addressed
			if p := allocParam(x); p != nil {
				return p, chain
			}
			return nil, ""
		default:
			return nil, ""
		}
	}
	return nil, ""
}

// allocParam: the local holds a parameter of the function (stored once, at entry).
func allocParam(al *ssa.Alloc) *ssa.Parameter {
	if al.Referrers() == nil {
		return nil
	}
	var p *ssa.Parameter
	n := 0
	for _, r := range *al.Referrers() {
		if st, ok := r.(*ssa.Store); ok && st.Addr == ssa.Value(al) {
			n++
			p, _ = st.Val.(*ssa.Parameter)
		}
	}
	if n == 1 {
		return p
	}
	return nil
}

// derivedFromEntry: v is computed from the key or the value of the current iteration of ml.
func derivedFromEntry(v ssa.Value, ml *mapLoop, depth int) bool {
	if v == nil || depth > 6 {
		return false
	}
	if v == ml.key || v == ml.val || v == ssa.Value(ml.next) {
		return true
	}
	in, ok := v.(ssa.Instruction)
	if !ok || in.Block() == nil || !(ml.blocks[in.Block()] || in.Block() == ml.header) {
		return false
	}
	switch x := v.(type) {
	case *ssa.Extract:
		return derivedFromEntry(x.Tuple, ml, depth+1)
	case *ssa.Field:
		return derivedFromEntry(x.X, ml, depth+1)
	case *ssa.FieldAddr:
		return derivedFromEntry(x.X, ml, depth+1)
	case *ssa.UnOp:
		return derivedFromEntry(x.X, ml, depth+1)
	case *ssa.MakeInterface:
		return derivedFromEntry(x.X, ml, depth+1)
	case *ssa.ChangeType:
		return derivedFromEntry(x.X, ml, depth+1)
	case *ssa.Convert:
		return derivedFromEntry(x.X, ml, depth+1)
	case *ssa.Index:
		return derivedFromEntry(x.X, ml, depth+1)
	case *ssa.IndexAddr:
		return derivedFromEntry(x.X, ml, depth+1)
	case *ssa.Phi:
		for _, e := range x.Edges {
			if derivedFromEntry(e, ml, depth+1) {
				return true
			}
		}
	}
	return false
}

// underKeyEquality: block b of the loop body is reached only through the true edge of a test
// `key == x` of the range key (a map has at most one entry per key, so at most one iteration gets here).
func underKeyEquality(b *ssa.BasicBlock, ml *mapLoop) bool {
	for d := b; d != nil && (ml.blocks[d] || d == ml.header); d = d.Idom() {
		id := d.Idom()
		if id == nil || len(id.Instrs) == 0 {
			continue
		}
		ifi, ok := id.Instrs[len(id.Instrs)-1].(*ssa.If)
		if !ok || len(id.Succs) != 2 {
			continue
		}
		bo, ok := ifi.Cond.(*ssa.BinOp)
		if !ok || bo.Op != token.EQL {
			continue
		}
		if stripConv(bo.X) != ml.key && stripConv(bo.Y) != ml.key {
			continue
		}
		if id.Succs[0] == d || id.Succs[0].Dominates(d) {
			return true
		}
	}
	return false
}
