package main

import (
	"golang.org/x/tools/go/ssa"
)

func init() {
	register("P-REGISTER", "import-name registration, decided on every acyclic path (loop unrolled twice) with a small abstract domain: first registration wins; \"C\" is stored as {\"C\", no alias}; a stored name without alias is a raw hint / standard-library name; guessed or modified (prefixed / numbered) names are aliases; the name stored is the very name that passed the validity test and is the one returned; modifications never touch \".\"; hints, prefix and numbering are never applied to \"C\"", 10, rulePXRegister)
	register("P-VALIDALIAS", "validity predicate: \".\" is accepted unconditionally and first; reserved words are rejected; the candidate is compared with the name of every entry of File.imports (no entry skipped)", 3, rulePXValidAlias)
	register("P-LOCALDOT", "isLocal is exactly string equality with the File's path; isDotImport is exactly hints[path] = {\".\", alias} for an unregistered path and \"registered as .\" for a registered one", 2, rulePXLocalDot)
}

// abstract value
type av struct {
	kind   string // path const hintname hintalias stdname guess prefix mod storedname storedalias valid islocal unknown
	s      string
	b      bool
	isBool bool
	origin ssa.Value
	base   *av
	chain  []ssa.Value
}

type regEvent struct {
	kind  string // store | hintlookup | prefixload | mod | validcall | return
	in    ssa.Instruction
	name  *av
	alias *av
	key   *av
	facts Facts
	vals  map[ssa.Value]bool
	res   *av
}

type regPath struct {
	blocks []*ssa.BasicBlock
	events []regEvent
}

type regEval struct {
	c        *Ctx
	a        *FnA
	fn       *ssa.Function
	valid    *ssa.Function
	guess    *ssa.Function
	isLocal  *ssa.Function
	stdTable string
	npaths   int
	paths    []*regPath
	trunc    bool
}

// ---------------------------------------------------------------------------------------------
