package main

import (
	"fmt"
	"go/token"
	"go/types"
	"sort"
	"strings"

	"golang.org/x/tools/go/ssa"
)

func init() {
	register("P-REGISTER", "import-name registration, decided on every acyclic path (loop unrolled twice) with a small abstract domain: first registration wins; \"C\" is stored as {\"C\", no alias}; a stored name without alias is a raw hint / standard-library name; guessed or modified (prefixed / numbered) names are aliases; the name stored is the very name that passed the validity test and is the one returned; modifications never touch \".\"; hints, prefix and numbering are never applied to \"C\"", 10, rulePXRegister)
	register("P-VALIDALIAS", "validity predicate: \".\" is accepted unconditionally and first; reserved words are rejected; the candidate is compared with the name of every entry of File.imports (no entry skipped)", 3, rulePXValidAlias)
	register("P-LOCALDOT", "isLocal is exactly string equality with the File's path; isDotImport is exactly hints[path] = {\".\", alias}", 2, rulePXLocalDot)
}

// abstract value
type av struct {
	kind   string // path const hintname hintalias stdname guess prefix mod storedname storedalias valid islocal unknown
	s      string
	b      bool
	isBool bool
	origin ssa.Value
	base   *av
	chain  []ssa.Value
}

func (x *av) String() string {
	if x == nil {
		return "<nil>"
	}
	switch x.kind {
	case "const":
		if x.isBool {
			return fmt.Sprintf("const %v", x.b)
		}
		return fmt.Sprintf("const %q", x.s)
	case "mod":
		return "modified(" + x.base.String() + ")"
	}
	return x.kind
}

func (x *av) nameClass() bool {
	switch x.kind {
	case "hintname", "stdname", "guess", "mod", "storedname":
		return true
	}
	return false
}

type regEvent struct {
	kind  string // store | hintlookup | prefixload | mod | validcall | return
	in    ssa.Instruction
	name  *av
	alias *av
	key   *av
	facts Facts
	vals  map[ssa.Value]bool
	res   *av
}

type regPath struct {
	blocks []*ssa.BasicBlock
	events []regEvent
}

type regEval struct {
	c        *Ctx
	a        *FnA
	fn       *ssa.Function
	valid    *ssa.Function
	guess    *ssa.Function
	isLocal  *ssa.Function
	stdTable string
	npaths   int
	paths    []*regPath
	trunc    bool
}

func (e *regEval) fieldOfLookup(v ssa.Value) (which string, field string, ok bool) {
	// v is a load of field F of a struct obtained by map lookup on recv.hints / recv.imports keyed by the path
	u, isU := v.(*ssa.UnOp)
	var fld string
	var src ssa.Value
	if isU && u.Op == token.MUL {
		fa, isFA := u.X.(*ssa.FieldAddr)
		if !isFA {
			return
		}
		fld = fieldName(fa.X.Type(), fa.Field)
		al, isAl := fa.X.(*ssa.Alloc)
		if !isAl {
			return
		}
		src = e.a.singleStore(al)
	} else if f, isF := v.(*ssa.Field); isF {
		fld = fieldName(f.X.Type(), f.Field)
		src = f.X
	} else {
		return
	}
	if src == nil {
		return
	}
	if ex, isEx := src.(*ssa.Extract); isEx && ex.Index == 0 {
		src = ex.Tuple
	}
	lk, isLk := src.(*ssa.Lookup)
	if !isLk {
		return
	}
	m := e.a.Desc(lk.X)
	key := e.a.Desc(lk.Index)
	if key != "p0" {
		return
	}
	switch m {
	case "recv.hints":
		return "hint", fld, true
	case "recv.imports":
		return "stored", fld, true
	}
	return
}

func (e *regEval) eval(env map[ssa.Value]*av, v ssa.Value) *av {
	if x, ok := env[v]; ok {
		return x
	}
	var out *av
	switch x := v.(type) {
	case *ssa.Const:
		if s, ok := constString(x); ok {
			out = &av{kind: "const", s: s}
		} else if b, ok := constBool(x); ok {
			out = &av{kind: "const", b: b, isBool: true}
		} else {
			out = &av{kind: "unknown"}
		}
	case *ssa.Parameter:
		if e.a.paramDesc(x) == "p0" {
			out = &av{kind: "path"}
		} else {
			out = &av{kind: "unknown"}
		}
	case *ssa.MakeInterface:
		return e.eval(env, x.X)
	case *ssa.Convert:
		return e.eval(env, x.X)
	case *ssa.ChangeType:
		return e.eval(env, x.X)
	case *ssa.UnOp:
		if x.Op == token.MUL {
			if which, fld, ok := e.fieldOfLookup(x); ok {
				switch which + "." + fld {
				case "hint.name":
					out = &av{kind: "hintname"}
				case "hint.alias":
					out = &av{kind: "hintalias", isBool: true}
				case "stored.name":
					out = &av{kind: "storedname"}
				case "stored.alias":
					out = &av{kind: "storedalias", isBool: true}
				}
			} else if e.a.Desc(x) == "recv.PackagePrefix" {
				out = &av{kind: "prefix"}
			}
		}
		if x.Op == token.NOT {
			in := e.eval(env, x.X)
			if in.kind == "const" && in.isBool {
				out = &av{kind: "const", isBool: true, b: !in.b}
			}
		}
	case *ssa.Field:
		if which, fld, ok := e.fieldOfLookup(x); ok {
			switch which + "." + fld {
			case "hint.name":
				out = &av{kind: "hintname"}
			case "hint.alias":
				out = &av{kind: "hintalias", isBool: true}
			case "stored.name":
				out = &av{kind: "storedname"}
			case "stored.alias":
				out = &av{kind: "storedalias", isBool: true}
			}
		}
	case *ssa.Lookup:
		if gl, ok := lookupGlobal(x.X); ok && gl == e.stdTable && e.a.Desc(x.Index) == "p0" {
			out = &av{kind: "stdname"}
		}
	case *ssa.Extract:
		if lk, ok := x.Tuple.(*ssa.Lookup); ok && x.Index == 0 {
			if gl, ok := lookupGlobal(lk.X); ok && gl == e.stdTable && e.a.Desc(lk.Index) == "p0" {
				out = &av{kind: "stdname"}
			}
		}
	case *ssa.BinOp:
		if x.Op == token.ADD {
			l, r := e.eval(env, x.X), e.eval(env, x.Y)
			switch {
			case l.nameClass() && r.nameClass():
				out = &av{kind: "unknown"}
			case l.nameClass():
				out = &av{kind: "mod", base: l}
			case r.nameClass():
				out = &av{kind: "mod", base: r}
			case l.kind == "prefix" || r.kind == "prefix":
				out = &av{kind: "prefix"}
			case l.kind == "const" && r.kind == "const" && !l.isBool && !r.isBool:
				out = &av{kind: "const", s: l.s + r.s}
			}
		}
	case *ssa.Call:
		sc := x.Call.StaticCallee()
		switch {
		case sc != nil && sc == e.guess && len(x.Call.Args) == 1 && e.eval(env, x.Call.Args[0]).kind == "path":
			out = &av{kind: "guess"}
		case sc != nil && sc == e.valid:
			out = &av{kind: "valid", isBool: true}
		case sc != nil && sc == e.isLocal:
			out = &av{kind: "islocal", isBool: true}
		case sc != nil && (sc.String() == "fmt.Sprintf" || sc.String() == "fmt.Sprint" || strings.HasPrefix(sc.String(), "strconv.")):
			var names []*av
			args := x.Call.Args
			if len(args) > 0 {
				if va, ok := varargs(args[len(args)-1]); ok {
					args = append(append([]ssa.Value{}, args[:len(args)-1]...), va...)
				}
			}
			for _, ar := range args {
				if n := e.eval(env, ar); n.nameClass() {
					names = append(names, n)
				}
			}
			if len(names) == 1 {
				out = &av{kind: "mod", base: names[0]}
			}
		}
	}
	if out == nil {
		out = &av{kind: "unknown"}
	}
	if out.origin == nil {
		out.origin = v
	}
	out.chain = append(out.chain, v)
	return out
}

func lookupGlobal(m ssa.Value) (string, bool) {
	u, ok := m.(*ssa.UnOp)
	if !ok || u.Op != token.MUL {
		return "", false
	}
	gl, ok := u.X.(*ssa.Global)
	if !ok {
		return "", false
	}
	return gl.Name(), true
}

func (e *regEval) run() {
	visits := map[*ssa.BasicBlock]int{}
	var walk func(b, pred *ssa.BasicBlock, env map[ssa.Value]*av, facts Facts, vals map[ssa.Value]bool, p *regPath)
	walk = func(b, pred *ssa.BasicBlock, env map[ssa.Value]*av, facts Facts, vals map[ssa.Value]bool, p *regPath) {
		if e.npaths > 4000 {
			e.trunc = true
			return
		}
		if visits[b] >= 3 {
			return
		}
		visits[b]++
		defer func() { visits[b]-- }()
		p.blocks = append(p.blocks, b)
		nEvents := len(p.events)
		defer func() { p.blocks = p.blocks[:len(p.blocks)-1]; p.events = p.events[:nEvents] }()
		// copy-on-write env
		local := map[ssa.Value]*av{}
		for k, v := range env {
			local[k] = v
		}
		env = local
		// phis: parallel assignment
		var phiVals []*av
		var phis []*ssa.Phi
		for _, in := range b.Instrs {
			phi, ok := in.(*ssa.Phi)
			if !ok {
				break
			}
			idx := -1
			for i, pp := range b.Preds {
				if pp == pred {
					idx = i
				}
			}
			var val *av
			if idx >= 0 {
				src := e.eval(env, phi.Edges[idx])
				cp := *src
				cp.chain = append(append([]ssa.Value{}, src.chain...), phi)
				val = &cp
			} else {
				val = &av{kind: "unknown", origin: phi}
			}
			phis = append(phis, phi)
			phiVals = append(phiVals, val)
		}
		for i, phi := range phis {
			env[phi] = phiVals[i]
		}
		snapshot := func() (Facts, map[ssa.Value]bool) {
			f := Facts{}
			for k, v := range facts {
				f[k] = v
			}
			vv := map[ssa.Value]bool{}
			for k, v := range vals {
				vv[k] = v
			}
			return f, vv
		}
		for _, in := range b.Instrs {
			switch x := in.(type) {
			case *ssa.Phi, *ssa.DebugRef:
				continue
			case *ssa.MapUpdate:
				if fieldOf(x.Map) != "jen.File.imports" {
					continue
				}
				fs, ok := e.a.structLit(x.Value)
				ev := regEvent{kind: "store", in: in, key: e.eval(env, x.Key)}
				ev.facts, ev.vals = snapshot()
				if ok {
					if n := fs["name"]; n != nil {
						ev.name = e.eval(env, n)
					} else {
						ev.name = &av{kind: "const", s: ""}
					}
					if al := fs["alias"]; al != nil {
						ev.alias = e.eval(env, al)
					} else {
						ev.alias = &av{kind: "const", isBool: true, b: false}
					}
				}
				p.events = append(p.events, ev)
				continue
			case *ssa.Return:
				ev := regEvent{kind: "return", in: in}
				ev.facts, ev.vals = snapshot()
				if len(x.Results) == 1 {
					ev.res = e.eval(env, x.Results[0])
				}
				p.events = append(p.events, ev)
				cp := &regPath{blocks: append([]*ssa.BasicBlock{}, p.blocks...), events: append([]regEvent{}, p.events...)}
				e.paths = append(e.paths, cp)
				e.npaths++
				return
			case *ssa.Panic:
				e.npaths++
				return
			}
			v, isVal := in.(ssa.Value)
			if !isVal {
				continue
			}
			val := e.eval(env, v)
			env[v] = val
			switch val.kind {
			case "hintname", "hintalias":
				ev := regEvent{kind: "hintlookup", in: in}
				ev.facts, ev.vals = snapshot()
				p.events = append(p.events, ev)
			case "prefix":
				ev := regEvent{kind: "prefixload", in: in}
				ev.facts, ev.vals = snapshot()
				p.events = append(p.events, ev)
			case "mod":
				ev := regEvent{kind: "mod", in: in, name: val}
				ev.facts, ev.vals = snapshot()
				p.events = append(p.events, ev)
			case "valid":
				call := in.(*ssa.Call)
				ev := regEvent{kind: "validcall", in: in, name: e.eval(env, call.Call.Args[1])}
				ev.facts, ev.vals = snapshot()
				p.events = append(p.events, ev)
			}
		}
		// successors
		for i, s := range b.Succs {
			nf := Facts{}
			for k, v := range facts {
				nf[k] = v
			}
			nv := map[ssa.Value]bool{}
			for k, v := range vals {
				nv[k] = v
			}
			feasible := true
			if len(b.Succs) == 2 {
				iff := b.Instrs[len(b.Instrs)-1].(*ssa.If)
				for _, l := range e.a.edgeLits(b, i) {
					if old, ok := nf[l.Atom]; ok && old != l.Pol {
						// the same atom with the other polarity: only infeasible if no loop-carried value is involved
						if !strings.Contains(l.Atom, "phi:") && !strings.Contains(l.Atom, "@") {
							feasible = false
						}
					}
					nf[l.Atom] = l.Pol
				}
				cond := iff.Cond
				pol := i == 0
				for {
					if u, ok := cond.(*ssa.UnOp); ok && u.Op == token.NOT {
						cond = u.X
						pol = !pol
						continue
					}
					break
				}
				// constant condition along this path
				cv := e.eval(env, cond)
				if cv.kind == "const" && cv.isBool && cv.b != pol {
					feasible = false
				}
				nv[cond] = pol
				for _, ch := range cv.chain {
					nv[ch] = pol
				}
			}
			if !feasible {
				continue
			}
			walk(s, b, env, nf, nv, p)
		}
	}
	walk(e.fn.Blocks[0], nil, map[ssa.Value]*av{}, Facts{}, map[ssa.Value]bool{}, &regPath{})
}

func (x *av) knownTrue(vals map[ssa.Value]bool) bool {
	if x == nil {
		return false
	}
	if x.kind == "const" && x.isBool {
		return x.b
	}
	for _, v := range x.chain {
		if b, ok := vals[v]; ok && b {
			return true
		}
	}
	return false
}

func (e *regEval) notDot(x *av, facts Facts) bool {
	if x == nil {
		return false
	}
	if x.kind == "guess" {
		return true // T-REGEX: the guesser returns [a-z0-9]+ only
	}
	if x.kind == "const" && !x.isBool {
		return x.s != "."
	}
	for _, v := range x.chain {
		if facts.Has(`eq(".",`+e.a.Desc(v)+`)`, false) {
			return true
		}
	}
	return false
}

func sameOrigin(a, b *av) bool {
	if a == nil || b == nil {
		return false
	}
	if a.kind == "const" && b.kind == "const" && !a.isBool && !b.isBool {
		return a.s == b.s
	}
	return a.origin != nil && a.origin == b.origin
}

func ruleRegister(c *Ctx) []Obligation {
	o := c.newObs("P-REGISTER")
	reg := c.registerFn()
	a := c.FA(reg)
	fn := fname(reg)
	_, stdName, _, okStd := c.stdHintsTable()
	if !okStd {
		o.undecided(fn, "standard-library table", reg.Pos(), "anchor lost")
	}
	e := &regEval{c: c, a: a, fn: reg, valid: c.role("isValidAlias"), guess: c.role("guessAlias"), isLocal: c.role("isLocal"), stdTable: stdName}
	if e.valid == nil || e.guess == nil || e.isLocal == nil {
		o.undecided(fn, "helpers", reg.Pos(), "anchor lost: isValidAlias / guessAlias / isLocal")
		return o.list
	}
	e.run()
	if e.trunc || len(e.paths) == 0 {
		o.undecided(fn, "path enumeration", reg.Pos(), "path enumeration exceeded its bound or found no path (%d)", len(e.paths))
		return o.list
	}
	c.stats["register_paths"] = len(e.paths)
	type verdict struct {
		ok     bool
		detail string
		pos    token.Pos
		n      int
	}
	res := map[string]*verdict{}
	var order []string
	note := func(key string, ok bool, pos token.Pos, detail string, args ...interface{}) {
		v := res[key]
		if v == nil {
			v = &verdict{ok: true, pos: pos}
			res[key] = v
			order = append(order, key)
		}
		v.n++
		if !ok && v.ok {
			v.ok = false
			v.detail = fmt.Sprintf(detail, args...)
			v.pos = pos
		}
	}
	cAtom := `eq("C",p0)`
	for _, p := range e.paths {
		ps := pathString(p.blocks)
		var stores []regEvent
		var lastValid *regEvent
		var ret *regEvent
		for i := range p.events {
			ev := &p.events[i]
			switch ev.kind {
			case "store":
				stores = append(stores, *ev)
			case "validcall":
				lastValid = ev
			case "return":
				ret = ev
			case "hintlookup":
				miss := false
				for atom, pol := range ev.facts {
					if pol && (strings.HasPrefix(atom, "empty(") || strings.HasPrefix(atom, `eq("_",`)) && strings.Contains(atom, "recv.imports") {
						miss = true
					}
				}
				note("hints are consulted only after a miss on File.imports (first registration wins)", miss, ev.in.Pos(), "hint read on path %s without an established miss (facts %s): a later ImportName / ImportAlias would rename an import already used", ps, ev.facts)
				note("hints are never consulted for \"C\"", ev.facts.Has(cAtom, false), ev.in.Pos(), "hint read on path %s without path ≠ \"C\" (facts %s)", ps, ev.facts)
			case "prefixload":
				note("PackagePrefix is never applied to \"C\"", ev.facts.Has(cAtom, false), ev.in.Pos(), "prefix read on path %s without path ≠ \"C\"", ps)
			case "mod":
				// a modification of a candidate name: base must be known ≠ "."
				base := ev.name.base
				for base != nil && base.kind == "mod" {
					base = base.base
				}
				nd := e.notDot(base, ev.facts)
				if !nd {
					// or: the validity predicate has just rejected a candidate built from the same base
					for j := i - 1; j >= 0; j-- {
						pv := p.events[j]
						if pv.kind != "validcall" {
							continue
						}
						rej := false
						if call, ok := pv.in.(*ssa.Call); ok {
							if b, ok := ev.vals[call]; ok && !b {
								rej = true
							}
						}
						arg := pv.name
						ab := arg
						for ab != nil && ab.kind == "mod" {
							ab = ab.base
						}
						if rej && ab != nil && base != nil && ab.origin == base.origin {
							if arg.kind != "mod" {
								nd = true // the unmodified name was rejected, and "." is always accepted
							} else {
								nd = true // a modified candidate exists only where the base was already known ≠ "."
							}
						}
						break
					}
				}
				note("a candidate name is modified (prefix / number) only if it is known not to be \".\"", nd, ev.in.Pos(), "on path %s the name %s is modified without an established ≠ \".\" (facts %s): a dot-import would be rendered as pkg_. or .1", ps, ev.name, ev.facts)
			}
		}
		if ret == nil {
			continue
		}
		switch {
		case len(stores) == 0:
			// no registration on this path: local path or hit
			switch {
			case ret.res.kind == "const" && ret.res.s == "":
				okLocal := false
				for v, b := range ret.vals {
					if call, ok := v.(*ssa.Call); ok && b && call.Call.StaticCallee() == e.isLocal {
						okLocal = true
					}
				}
				note("the empty qualifier is returned only for the local path", okLocal, ret.in.Pos(), "path %s returns \"\" without isLocal(path) being true", ps)
			case ret.res.kind == "storedname":
				okHit := false
				ne, nu := false, false
				for atom, pol := range ret.facts {
					if !pol && strings.HasPrefix(atom, "empty(") && strings.Contains(atom, "recv.imports") {
						ne = true
					}
					if !pol && strings.HasPrefix(atom, `eq("_",`) && strings.Contains(atom, "recv.imports") {
						nu = true
					}
				}
				okHit = ne && nu
				note("a known path returns its stored name, unless that is empty or \"_\"", okHit, ret.in.Pos(), "path %s returns the stored name without having established name ≠ \"\" and name ≠ \"_\" (facts %s): after Anon(path) a reference would be qualified by _", ps, ret.facts)
			default:
				note("every return without registration is the local or the known-path case", false, ret.in.Pos(), "path %s returns %s without storing an import", ps, ret.res)
			}
		case len(stores) > 1:
			note("one registration per call", false, stores[1].in.Pos(), "path %s stores %d entries", ps, len(stores))
		default:
			st := stores[0]
			if st.name == nil || st.alias == nil {
				note("stored entry is a recognisable {name, alias} literal", false, st.in.Pos(), "path %s", ps)
				continue
			}
			// the "C" case
			if st.key.kind == "const" && st.key.s == "C" {
				okC := st.name.kind == "const" && st.name.s == "C" && st.alias.kind == "const" && !st.alias.b && st.facts.Has(cAtom, true) && ret.res.kind == "const" && ret.res.s == "C"
				note("\"C\" is registered as {\"C\", no alias} and referred to as C", okC, st.in.Pos(), "path %s stores {%s, %s} returns %s under %s", ps, st.name, st.alias, ret.res, st.facts)
				continue
			}
			note("the entry is stored under the path being registered", st.key.kind == "path", st.in.Pos(), "path %s stores under key %s", ps, st.key)
			note("nothing but the \"C\" case registers \"C\"", st.facts.Has(cAtom, false), st.in.Pos(), "path %s reaches the general store without path ≠ \"C\": the pseudo-package could be aliased, prefixed or numbered", ps)
			// coherence of name class and alias flag
			aliasTrue := st.alias.knownTrue(st.vals)
			var okCoh bool
			var cls string
			switch st.name.kind {
			case "hintname":
				cls = "raw hint name"
				okCoh = st.alias.kind == "hintalias" || aliasTrue
			case "stdname":
				cls = "raw standard-library name"
				okCoh = true
			case "guess":
				cls = "guessed name"
				okCoh = aliasTrue
			case "mod":
				cls = "modified name"
				okCoh = aliasTrue
			default:
				cls = "unclassified name " + st.name.String()
				okCoh = false
			}
			note("a name stored without alias is the raw hint / standard-library name; guessed or modified names are aliases ("+cls+")", okCoh, st.in.Pos(),
				"path %s stores a %s with alias flag %s not known to be true: the import line would omit the alias although the qualifier is not the package's real name", ps, cls, st.alias)
			// checked = stored = returned
			okChecked := false
			if lastValid != nil {
				if call, ok := lastValid.in.(*ssa.Call); ok {
					if b, ok := st.vals[call]; ok && b && sameOrigin(lastValid.name, st.name) {
						okChecked = true
					}
				}
			}
			lv := "<none>"
			if lastValid != nil {
				lv = lastValid.name.String()
			}
			note("the name stored is the very name that passed the validity test", okChecked, st.in.Pos(), "path %s stores %s but the last accepted candidate was %s: uniqueness / legality was established for a different string (e.g. prefix applied afterwards)", ps, st.name, lv)
			note("the name returned is the name stored", sameOrigin(ret.res, st.name), ret.in.Pos(), "path %s returns %s but stores %s: the qualifier written would not match the import line", ps, ret.res, st.name)
		}
	}
	sort.Strings(order)
	for _, k := range order {
		v := res[k]
		st := Discharged
		d := fmt.Sprintf("holds on all %d path instances (of %d enumerated paths)", v.n, len(e.paths))
		if !v.ok {
			st = Violated
			d = v.detail
		}
		o.add(st, fn, k, v.pos, true, "%s", d)
	}
	// vacuity: the general registration and the C case must both have been seen
	for _, need := range []string{"the name stored is the very name that passed the validity test", "\"C\" is registered as {\"C\", no alias} and referred to as C", "a known path returns its stored name, unless that is empty or \"_\"", "hints are consulted only after a miss on File.imports (first registration wins)"} {
		if res[need] == nil {
			o.add(Violated, fn, need, reg.Pos(), true, "no path of the registration function exhibits this case any more (the mechanism was removed)")
		}
	}
	return o.list
}

// ---------------------------------------------------------------------------------------------

func ruleValidAlias(c *Ctx) []Obligation {
	o := c.newObs("P-VALIDALIAS")
	f := c.role("isValidAlias")
	if f == nil {
		o.undecided("(*jen.File).isValidAlias", "anchor", token.NoPos, "anchor lost")
		return o.list
	}
	a := c.FA(f)
	fn := fname(f)
	dotAtom := `eq(".",p0)`
	resv := c.jenFunc("IsReservedWord")
	var resvCall *ssa.Call
	for _, ci := range a.callsTo(resv) {
		if call, ok := ci.(*ssa.Call); ok && call.Call.Args[0] == ssa.Value(f.Params[1]) {
			resvCall = call
		}
	}
	if resvCall == nil {
		o.add(Violated, fn, "reserved words are rejected", f.Pos(), true, "no call IsReservedWord(candidate)")
	}
	// the loop over File.imports
	var loop *mapLoop
	for _, ml := range mapLoops(f) {
		if a.Desc(ml.rng.X) == "recv.imports" {
			loop = ml
		}
	}
	if loop == nil {
		o.add(Violated, fn, "candidate is compared with every registered name", f.Pos(), true, "no range over File.imports (the map the registration function stores into)")
	}
	nameAtom := ""
	if loop != nil && loop.val != nil {
		nameAtom = "eq(" + min2(a.Desc(loop.val)+".name", "p0") + "," + max2(a.Desc(loop.val)+".name", "p0") + ")"
	}
	for _, r := range a.returns() {
		bv, isConst := constBool(r.Results[0])
		if !isConst {
			o.undecided(fn, "result", r.Pos(), "returns %s", a.Desc(r.Results[0]))
			continue
		}
		ws := a.WaysTo(r.Block())
		if bv {
			ok, bad := allWays(ws, func(w Facts) bool {
				if w.Has(dotAtom, true) {
					// accepted unconditionally: no other fact may have been needed
					return len(w) == 1
				}
				// otherwise: not reserved and loop exhausted
				if resvCall != nil && !w.Has(a.Desc(resvCall), false) {
					return false
				}
				if loop != nil && !w.Has(a.Desc(loop.next)+"#0", false) {
					return false
				}
				return w.Has(dotAtom, false)
			})
			o.req(ok, fn, "accepts \".\" unconditionally; anything else only if not reserved and after all entries were compared", r.Pos(), "way %s", bad)
		} else {
			ok, bad := allWays(ws, func(w Facts) bool {
				if w.Has(dotAtom, true) {
					return false
				}
				if resvCall != nil && w.Has(a.Desc(resvCall), true) {
					return true
				}
				return nameAtom != "" && w.Has(nameAtom, true)
			})
			o.req(ok, fn, "rejects only reserved words and names already registered, never \".\"", r.Pos(), "way %s", bad)
		}
	}
	// whenever reserved: rejected; whenever equal to a registered name: rejected
	if resvCall != nil {
		for _, s := range []int{0} {
			_ = s
			// the true edge of the reserved test leads only to `return false`
			blk := resvCall.Block()
			if iff, ok := blk.Instrs[len(blk.Instrs)-1].(*ssa.If); ok && iff.Cond == ssa.Value(resvCall) {
				t := blk.Succs[0]
				rr, isRet := t.Instrs[len(t.Instrs)-1].(*ssa.Return)
				okr := false
				if isRet {
					if b, ok := constBool(rr.Results[0]); ok && !b {
						okr = true
					}
				}
				o.req(okr, fn, "a reserved candidate is rejected at once", resvCall.Pos(), "")
			} else {
				o.undecided(fn, "a reserved candidate is rejected at once", resvCall.Pos(), "the reserved-word test is not a branch condition of its own")
			}
		}
	}
	if loop != nil {
		// no entry skipped: every way back to the loop head carries name ≠ candidate, and that comparison is the first thing in the body
		for _, p := range loop.header.Preds {
			if !loop.header.Dominates(p) && p != loop.header {
				continue
			}
			ok, bad := allWays(a.WaysOnEdge(p, loop.header), func(w Facts) bool { return nameAtom != "" && w.Has(nameAtom, false) })
			o.req(ok, fn, "the loop moves on only past entries whose name differs (no entry skipped)", loop.rng.Pos(), "way %s — e.g. entries without alias must be compared too", bad)
		}
		o.req(a.Desc(loop.rng.X) == "recv.imports", fn, "the names compared are those of File.imports", loop.rng.Pos(), "ranges over %s", a.Desc(loop.rng.X))
	}
	return o.list
}

func ruleLocalDot(c *Ctx) []Obligation {
	o := c.newObs("P-LOCALDOT")
	if f := c.role("isLocal"); f != nil {
		a := c.FA(f)
		rs := a.returns()
		ok := len(rs) == 1 && len(f.Blocks) == 1
		d := ""
		if ok {
			d = a.Desc(rs[0].Results[0])
			ok = d == "(p0 == recv.path)" || d == "(recv.path == p0)"
		}
		o.req(ok, fname(f), "exactly f.path == path", f.Pos(), "returns %s in %d blocks — a prefix / suffix / case-insensitive comparison would drop the import of a different package", d, len(f.Blocks))
	} else {
		o.undecided("(*jen.File).isLocal", "anchor", token.NoPos, "anchor lost")
	}
	if f := c.role("isDotImport"); f != nil {
		a := c.FA(f)
		fn := fname(f)
		for _, r := range a.returns() {
			v := r.Results[0]
			ws := a.WaysTo(r.Block())
			if b, isConst := constBool(v); isConst {
				if b {
					o.add(Violated, fn, "dot-import test", r.Pos(), true, "returns true unconditionally")
					continue
				}
				ok, bad := allWays(ws, func(w Facts) bool {
					for atom, pol := range w {
						if !pol && strings.HasPrefix(atom, "has(recv.hints,p0)") {
							return true
						}
						if !pol && strings.Contains(atom, "recv.hints[p0]") {
							return true
						}
					}
					return false
				})
				o.req(ok, fn, "false outright only if there is no hint / the hint is no dot alias", r.Pos(), "way %s", bad)
				continue
			}
			// name == "." && alias
			lits := phiConj(a, v)
			hasDot, hasAlias := false, false
			for _, l := range lits {
				if l.Pol && strings.HasPrefix(l.Atom, `eq(".",`) && strings.Contains(l.Atom, "recv.hints[p0]") && strings.HasSuffix(l.Atom, ".name)") {
					hasDot = true
				}
				if l.Pol && strings.Contains(l.Atom, "recv.hints[p0]") && strings.HasSuffix(l.Atom, ".alias") {
					hasAlias = true
				}
			}
			o.req(hasDot && hasAlias && len(lits) == 2, fn, "exactly hints[path].name == \".\" && hints[path].alias", r.Pos(), "returns the conjunction %v", lits)
		}
	} else {
		o.undecided("(*jen.File).isDotImport", "anchor", token.NoPos, "anchor lost")
	}
	_ = types.Typ
	return o.list
}

// phiConj: decompose a boolean value built by && into its conjunct literals.
func phiConj(a *FnA, v ssa.Value) []Lit {
	phi, ok := v.(*ssa.Phi)
	if !ok {
		return a.lits(v, true)
	}
	// a && b : phi [false from the block where a failed, b otherwise]
	var out []Lit
	for i, e := range phi.Edges {
		pred := phi.Block().Preds[i]
		if b, isConst := constBool(e); isConst {
			if b {
				return []Lit{{a.Desc(v), true}}
			}
			// the edge asserts ¬a ; so a is a conjunct
			for _, l := range a.edgeLits(pred, succIndex(pred, phi.Block())) {
				out = append(out, Lit{l.Atom, !l.Pol})
			}
			continue
		}
		out = append(out, phiConj(a, e)...)
	}
	return out
}
