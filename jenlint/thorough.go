package main

import (
	"fmt"
	"os/exec"
	"sort"
	"strings"

	"golang.org/x/tools/go/callgraph"
	"golang.org/x/tools/go/callgraph/cha"
	"golang.org/x/tools/go/callgraph/vta"
	"golang.org/x/tools/go/packages"
	"golang.org/x/tools/go/ssa"
	"golang.org/x/tools/go/ssa/ssautil"
)

// thoroughExtras: breadth added by the thorough tier (DESIGN 1.5): whole-program SSA with a VTA
// call graph as a cross-check of the module-local call graph, and generic analysers as
// cross-references (never part of the verdict).
func thoroughExtras(c *Ctx) map[string]interface{} {
	out := map[string]interface{}{}
	// whole-program load
	cfg := &packages.Config{Mode: packages.LoadAllSyntax, Dir: c.Repo, Env: goEnv()}
	pkgs, err := packages.Load(cfg, "./...")
	if err != nil {
		broken("thorough: packages.Load: %v", err)
	}
	prog, _ := ssautil.AllPackages(pkgs, ssa.InstantiateGenerics)
	prog.Build()
	all := ssautil.AllFunctions(prog)
	g := vta.CallGraph(all, cha.CallGraph(prog))
	out["whole_program_functions"] = len(all)
	out["vta_nodes"] = len(g.Nodes)
	// compare module-to-module edges with the module-local graph
	mine := map[string]map[string]bool{}
	mg := c.CG()
	for _, f := range mg.Funcs {
		set := map[string]bool{}
		for cal := range mg.Sum[f].Callees {
			set[cal.String()] = true
		}
		mine[f.String()] = set
	}
	var missing []string
	edges := 0
	callgraph.GraphVisitEdges(g, func(e *callgraph.Edge) error {
		cf, ce := e.Caller.Func, e.Callee.Func
		if cf == nil || ce == nil {
			return nil
		}
		if !strings.Contains(cf.String(), modulePath) || !strings.Contains(ce.String(), modulePath) {
			return nil
		}
		if cf.Synthetic != "" && mine[cf.String()] == nil {
			return nil
		}
		if strings.HasSuffix(cf.Name(), "_test") || strings.Contains(prog.Fset.Position(cf.Pos()).Filename, "_test.go") {
			return nil
		}
		if e.Site != nil {
			cc := e.Site.Common()
			if !cc.IsInvoke() && cc.StaticCallee() == nil {
				// call of a function value: the module graph records these as the effect
				// "calls a function value" (W-CALLBACK), not as edges
				return nil
			}
		}
		edges++
		set := mine[cf.String()]
		if set == nil {
			return nil // function not in the module-local graph (e.g. init, test helpers)
		}
		if !set[ce.String()] {
			missing = append(missing, cf.String()+" -> "+ce.String())
		}
		return nil
	})
	sort.Strings(missing)
	out["vta_module_edges_checked"] = edges
	out["vta_edges_missing_from_module_graph"] = missing
	// cross-reference analysers
	xref := map[string]interface{}{}
	for _, tool := range [][]string{{"go", "vet", "./..."}, {"staticcheck", "./..."}, {"errcheck", "-blank", "./..."}} {
		cmd := exec.Command(tool[0], tool[1:]...)
		cmd.Dir = c.Repo
		cmd.Env = goEnv()
		b, _ := cmd.CombinedOutput()
		lines := 0
		for _, l := range strings.Split(strings.TrimSpace(string(b)), "\n") {
			if strings.TrimSpace(l) != "" && !strings.HasPrefix(l, "#") {
				lines++
			}
		}
		xref[strings.Join(tool, " ")] = fmt.Sprintf("%d report lines (cross-reference only, not part of the verdict)", lines)
	}
	out["cross_reference"] = xref
	return out
}
