package main

import (
	"fmt"
	"go/token"
	"go/types"
	"strings"

	"golang.org/x/tools/go/ssa"
)

func init() {
	register("P-ATOMIC-WRITE", "in every exported method with an io.Writer parameter the caller's writer is touched only by sink calls (or handed to another such method); every sink is outside loops, unreachable from the error edge of every fallible call, and writes the formatter's result or the private buffer", 10, func(c *Ctx) []Obligation { return rulePXEntries(c, "P-ATOMIC-WRITE") })
	register("P-ERR-PROP", "every call in jen that returns an error has that error tested and, on the non-nil edge, returned (possibly wrapped) or panicked with on every path; ignoring is accepted only for writes into private in-memory buffers", 50, ruleErrProp)
	register("P-FORMAT-GATE", "no path reaches the caller's writer without the success edge of format.Source (File.Render: or the NoFormat edge); the formatter runs once on the private buffer and both modes draw from the same buffer", 8, func(c *Ctx) []Obligation { return rulePXEntries(c, "P-FORMAT-GATE") })
	register("P-FRAGMENT", "RenderWithFile renders with the caller's File; Render delegates to RenderWithFile with a fresh File; GoString delegates to Render on a fresh buffer, panics on error and returns the buffer's text", 7, func(c *Ctx) []Obligation { return rulePXEntries(c, "P-FRAGMENT") })
}

func isErrorType(t types.Type) bool {
	n, ok := t.(*types.Named)
	return ok && n.Obj().Pkg() == nil && n.Obj().Name() == "error"
}

// errResult returns the index of the error result of a call's signature (-1 if none) and the arity.
func errResult(sig *types.Signature) (int, int) {
	r := sig.Results()
	for i := r.Len() - 1; i >= 0; i-- {
		if isErrorType(r.At(i).Type()) {
			return i, r.Len()
		}
	}
	return -1, r.Len()
}

// errValue finds the SSA value holding the error result of a call (nil if it is dropped).
func errValue(ci ssa.CallInstruction) (ssa.Value, bool) {
	sig := ci.Common().Signature()
	idx, n := errResult(sig)
	if idx < 0 {
		return nil, false
	}
	v := callValue(ci)
	if v == nil {
		return nil, true // go/defer: result dropped
	}
	if n == 1 {
		if len(nonDebugRefs(v)) == 0 {
			return nil, true
		}
		return v, true
	}
	for _, r := range nonDebugRefs(v) {
		if ex, ok := r.(*ssa.Extract); ok && ex.Index == idx {
			if len(nonDebugRefs(ex)) == 0 {
				return nil, true
			}
			return ex, true
		}
	}
	return nil, true
}

func nonDebugRefs(v ssa.Value) []ssa.Instruction {
	var out []ssa.Instruction
	if v.Referrers() == nil {
		return nil
	}
	for _, r := range *v.Referrers() {
		if _, ok := r.(*ssa.DebugRef); ok {
			continue
		}
		out = append(out, r)
	}
	return out
}

// errEdges: for error value e, the blocks entered when e != nil / e == nil (from every If testing it).
func (a *FnA) errEdges(e ssa.Value) (errSucc []*ssa.BasicBlock, okSucc []*ssa.BasicBlock) {
	for _, b := range a.fn.Blocks {
		if len(b.Instrs) == 0 || len(b.Succs) != 2 {
			continue
		}
		iff, ok := b.Instrs[len(b.Instrs)-1].(*ssa.If)
		if !ok {
			continue
		}
		pol, ok := nilTest(iff.Cond, e, true)
		if !ok {
			continue
		}
		// pol: the value of (e == nil) when the condition is true
		if pol {
			okSucc = append(okSucc, b.Succs[0])
			errSucc = append(errSucc, b.Succs[1])
		} else {
			errSucc = append(errSucc, b.Succs[0])
			okSucc = append(okSucc, b.Succs[1])
		}
	}
	return
}

// nilTest: is cond a test of e against nil? Returns whether cond==true means e==nil.
func nilTest(cond ssa.Value, e ssa.Value, pol bool) (bool, bool) {
	switch x := cond.(type) {
	case *ssa.UnOp:
		if x.Op == token.NOT {
			return nilTest(x.X, e, !pol)
		}
	case *ssa.BinOp:
		if x.Op != token.EQL && x.Op != token.NEQ {
			return false, false
		}
		if (x.X == e && isNilConst(x.Y)) || (x.Y == e && isNilConst(x.X)) {
			if x.Op == token.NEQ {
				return !pol, true
			}
			return pol, true
		}
	}
	return false, false
}

// derivesFrom: does error value r carry e (itself, wrapped by fmt.Errorf / errors.Join, or via phi)?
func derivesFrom(r, e ssa.Value, depth int) bool {
	if r == e {
		return true
	}
	if depth > 4 {
		return false
	}
	switch x := r.(type) {
	case *ssa.Phi:
		for _, ed := range x.Edges {
			if derivesFrom(ed, e, depth+1) {
				return true
			}
		}
	case *ssa.UnOp:
		// results spilled because of a defer: the value stored last in the same block
		if al, ok := x.X.(*ssa.Alloc); ok && x.Op == token.MUL {
			var last *ssa.Store
			for _, in := range x.Block().Instrs {
				if in == ssa.Instruction(x) {
					break
				}
				if st, ok := in.(*ssa.Store); ok && st.Addr == ssa.Value(al) {
					last = st
				}
			}
			if last != nil {
				return derivesFrom(last.Val, e, depth+1)
			}
		}
	case *ssa.MakeInterface:
		return derivesFrom(x.X, e, depth+1)
	case *ssa.Alloc:
		// &errType{cause: e, …}: a fresh value one of whose fields is given the error
		for _, r := range nonDebugRefs(x) {
			fa, ok := r.(*ssa.FieldAddr)
			if !ok {
				continue
			}
			for _, rr := range nonDebugRefs(fa) {
				if st, ok := rr.(*ssa.Store); ok && st.Addr == ssa.Value(fa) && isErrorType(st.Val.Type()) && (st.Val == e || derivesFrom(st.Val, e, depth+1)) {
					return true
				}
			}
		}
	case *ssa.ChangeInterface:
		return derivesFrom(x.X, e, depth+1)
	case *ssa.Call:
		sc := x.Call.StaticCallee()
		if sc == nil {
			return false
		}
		n := sc.String()
		// a constructor of the module's own error type: the result wraps (stores in a field of a
		// fresh value) the parameter the error is passed for
		if sc.Blocks != nil && depth < 3 {
			for i, ar := range x.Call.Args {
				if !(ar == e || derivesFrom(ar, e, depth+1)) || i >= len(sc.Params) {
					continue
				}
				for _, b := range sc.Blocks {
					if len(b.Instrs) == 0 {
						continue
					}
					if ret, ok := b.Instrs[len(b.Instrs)-1].(*ssa.Return); ok {
						for _, res := range ret.Results {
							if isErrorType(res.Type()) && derivesFrom(res, sc.Params[i], depth+1) {
								return true
							}
						}
					}
				}
			}
		}
		if n == "fmt.Errorf" || strings.HasPrefix(n, "errors.") {
			for _, ar := range x.Call.Args {
				if va, ok := varargs(ar); ok {
					for _, v := range va {
						if derivesFrom(stripConv(v), e, depth+1) || stripConv(v) == e {
							return true
						}
					}
				}
				if derivesFrom(ar, e, depth+1) {
					return true
				}
			}
		}
	}
	return false
}

// handled: from every error edge of e, every path ends in a return carrying e or a panic with e.
func (a *FnA) handled(e ssa.Value) (bool, string) {
	errSucc, _ := a.errEdges(e)
	if len(errSucc) == 0 {
		// returned directly?
		for _, r := range nonDebugRefs(e) {
			if ret, ok := r.(*ssa.Return); ok {
				for _, res := range ret.Results {
					if res == e {
						return true, "returned directly"
					}
				}
			}
		}
		// returned through a phi or passed to panic
		for _, r := range nonDebugRefs(e) {
			switch x := r.(type) {
			case *ssa.Panic:
				return true, "panicked with"
			case *ssa.Phi:
				for _, rr := range nonDebugRefs(x) {
					if _, ok := rr.(*ssa.Return); ok {
						return true, "returned through phi"
					}
				}
			case *ssa.MakeInterface:
				for _, rr := range nonDebugRefs(x) {
					if _, ok := rr.(*ssa.Panic); ok {
						return true, "panicked with"
					}
				}
			}
		}
		return false, "the error is never tested against nil nor returned"
	}
	for _, s := range errSucc {
		seen := map[*ssa.BasicBlock]bool{}
		var bad string
		var walk func(b, pred *ssa.BasicBlock) bool
		walk = func(b, pred *ssa.BasicBlock) bool {
			if seen[b] {
				return true
			}
			seen[b] = true
			if len(b.Instrs) == 0 {
				return true
			}
			switch t := b.Instrs[len(b.Instrs)-1].(type) {
			case *ssa.Return:
				for _, res := range t.Results {
					if !isErrorType(res.Type()) {
						continue
					}
					if derivesFrom(res, e, 0) {
						return true
					}
				}
				bad = fmt.Sprintf("path from the error edge reaches `return` at %s without the error", a.c.pos(t.Pos()))
				return false
			case *ssa.Panic:
				if derivesFrom(stripConv(t.X), e, 0) {
					return true
				}
				if mi, ok := t.X.(*ssa.MakeInterface); ok && derivesFrom(mi.X, e, 0) {
					return true
				}
				bad = "panics without the error"
				return false
			}
			for _, n := range b.Succs {
				if !walk(n, b) {
					return false
				}
			}
			return true
		}
		if !walk(s, nil) {
			return false, bad
		}
	}
	return true, "tested; every path from the error edge returns or panics with it"
}

// errorMatters: the call's error is one the property is about — a write to a writer, a module
// function (render …), the formatter, or the file system.
func (c *Ctx) errorMatters(ci ssa.CallInstruction) bool {
	cc := ci.Common()
	if sinkOf(ci) != nil {
		return true
	}
	if cc.IsInvoke() {
		if _, ok := c.CG().implementations(cc); ok {
			return true
		}
		return cc.Method.Name() == "Close" || cc.Method.Name() == "Flush" || cc.Method.Name() == "Sync"
	}
	sc := cc.StaticCallee()
	if sc == nil {
		return true // function value
	}
	if c.CG().Sum[sc] != nil {
		return true
	}
	n := sc.String()
	pk := ""
	pk = pkgPathOf(sc)
	switch {
	case pk == "go/format", pk == "os", pk == "io", pk == "io/ioutil", pk == "bufio":
		return true
	case strings.HasPrefix(n, "(*os.File)."), strings.HasPrefix(n, "(*bufio.Writer)."), strings.HasPrefix(n, "(*bytes.Buffer)."):
		return true
	}
	return false
}

func isPrivateBufferType(t types.Type) bool {
	s := types.TypeString(t, nil)
	return s == "*bytes.Buffer" || s == "*strings.Builder"
}

func ruleErrProp(c *Ctx) []Obligation {
	o := c.newObs("P-ERR-PROP")
	for _, f := range c.allFuncs(c.Jen) {
		a := c.FA(f)
		seq := map[string]int{}
		for _, ci := range a.calls() {
			e, has := errValue(ci)
			if !has {
				continue
			}
			cn := calleeName(ci.Common())
			if !c.errorMatters(ci) {
				// errors of parsing / conversion helpers may legitimately be handled locally
				o.info(fname(f), "error of "+cn, ci.Pos(), "not an output / file-system / render error: local handling is accepted")
				continue
			}
			seq[cn]++
			construct := fmt.Sprintf("error of %s #%d", cn, seq[cn])
			if e == nil {
				// accepted idiom: cleanup on a path that already carries another error
				if sc := ci.Common().StaticCallee(); sc != nil && (sc.String() == "(*os.File).Close" || sc.String() == "os.Remove") {
					failing := false
					for atom, pol := range a.FactsOf(ci) {
						if !pol && strings.HasPrefix(atom, "eq(") && (strings.HasSuffix(atom, ",nil)") || strings.HasPrefix(atom, "eq(nil,")) && strings.Contains(atom, "@") {
							failing = true
						}
					}
					if failing {
						o.add(Discharged, fname(f), construct, ci.Pos(), false, "cleanup on a path that already returns another error")
						continue
					}
				}
				// accepted idiom: writes into a private in-memory buffer never fail
				if s := sinkOf(ci); s != nil {
					w := stripConv(s.Writer)
					if isPrivateBufferType(w.Type()) {
						if _, local := w.(*ssa.Alloc); local {
							o.add(Discharged, fname(f), construct, ci.Pos(), false, "ignored error of a write into a private in-memory buffer (documented to be always nil)")
							continue
						}
						// a method of *bytes.Buffer / *strings.Builder called on a value of exactly that static
						// type: "err is always nil" is part of the method's documentation, whoever owns the buffer
						if sc := ci.Common().StaticCallee(); sc != nil && (strings.HasPrefix(sc.String(), "(*bytes.Buffer).Write") || strings.HasPrefix(sc.String(), "(*strings.Builder).Write")) && !strings.HasSuffix(sc.String(), ".WriteTo") {
							o.add(Discharged, fname(f), construct, ci.Pos(), false, "ignored error of %s (documented to be always nil)", sc.String())
							continue
						}
					}
				}
				if _, isDefer := ci.(*ssa.Defer); isDefer {
					o.add(Violated, fname(f), construct, ci.Pos(), true, "error result of a deferred call is dropped")
					continue
				}
				if ok2, why2 := c.errHandledOnPaths(f, ci); ok2 {
					o.add(Discharged, fname(f), construct, ci.Pos(), true, "%s", why2)
					continue
				}
				o.add(Violated, fname(f), construct, ci.Pos(), true, "the error result is dropped (never read); errors from the writer / file system / renderer must reach the caller")
				continue
			}
			if sc := ci.Common().StaticCallee(); sc != nil && (strings.HasPrefix(sc.String(), "(*bytes.Buffer).Write") || strings.HasPrefix(sc.String(), "(*strings.Builder).Write")) && !strings.HasSuffix(sc.String(), ".WriteTo") {
				// "err is always nil" is part of these methods' documentation: whatever is done with it is fine
				o.add(Discharged, fname(f), construct, ci.Pos(), false, "error of %s (documented to be always nil)", sc.String())
				continue
			}
			ok, why := a.handled(e)
			if !ok {
				if ok2, why2 := c.errHandledOnPaths(f, ci); ok2 {
					ok, why = true, why2
				}
			}
			o.req(ok, fname(f), construct, ci.Pos(), "%s", why)
		}
	}
	return o.list
}

// ---------------------------------------------------------------------------------------------

func (c *Ctx) writerParam(f *ssa.Function) *ssa.Parameter {
	for _, p := range f.Params {
		if isWriterType(p.Type()) {
			return p
		}
	}
	return nil
}

// ---------------------------------------------------------------------------------------------
