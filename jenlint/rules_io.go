package main

import (
	"fmt"
	"go/token"
	"go/types"
	"strings"

	"golang.org/x/tools/go/ssa"
)

func init() {
	register("P-ATOMIC-WRITE", "in every exported method with an io.Writer parameter the caller's writer is touched only by sink calls (or handed to another such method); every sink is outside loops, unreachable from the error edge of every fallible call, and writes the formatter's result or the private buffer", 10, func(c *Ctx) []Obligation { return rulePXEntries(c, "P-ATOMIC-WRITE") })
	register("P-ERR-PROP", "every call in jen that returns an error has that error tested and, on the non-nil edge, returned (possibly wrapped) or panicked with on every path; ignoring is accepted only for writes into private in-memory buffers", 50, ruleErrProp)
	register("P-FORMAT-GATE", "no path reaches the caller's writer without the success edge of format.Source (File.Render: or the NoFormat edge); the formatter runs once on the private buffer and both modes draw from the same buffer", 8, func(c *Ctx) []Obligation { return rulePXEntries(c, "P-FORMAT-GATE") })
	register("P-FRAGMENT", "RenderWithFile renders with the caller's File; Render delegates to RenderWithFile with a fresh File; GoString delegates to Render on a fresh buffer, panics on error and returns the buffer's text", 7, func(c *Ctx) []Obligation { return rulePXEntries(c, "P-FRAGMENT") })
}

func isErrorType(t types.Type) bool {
	n, ok := t.(*types.Named)
	return ok && n.Obj().Pkg() == nil && n.Obj().Name() == "error"
}

// errResult returns the index of the error result of a call's signature (-1 if none) and the arity.
func errResult(sig *types.Signature) (int, int) {
	r := sig.Results()
	for i := r.Len() - 1; i >= 0; i-- {
		if isErrorType(r.At(i).Type()) {
			return i, r.Len()
		}
	}
	return -1, r.Len()
}

// errValue finds the SSA value holding the error result of a call (nil if it is dropped).
func errValue(ci ssa.CallInstruction) (ssa.Value, bool) {
	sig := ci.Common().Signature()
	idx, n := errResult(sig)
	if idx < 0 {
		return nil, false
	}
	v := callValue(ci)
	if v == nil {
		return nil, true // go/defer: result dropped
	}
	if n == 1 {
		if len(nonDebugRefs(v)) == 0 {
			return nil, true
		}
		return v, true
	}
	for _, r := range nonDebugRefs(v) {
		if ex, ok := r.(*ssa.Extract); ok && ex.Index == idx {
			if len(nonDebugRefs(ex)) == 0 {
				return nil, true
			}
			return ex, true
		}
	}
	return nil, true
}

func nonDebugRefs(v ssa.Value) []ssa.Instruction {
	var out []ssa.Instruction
	if v.Referrers() == nil {
		return nil
	}
	for _, r := range *v.Referrers() {
		if _, ok := r.(*ssa.DebugRef); ok {
			continue
		}
		out = append(out, r)
	}
	return out
}

// errEdges: for error value e, the blocks entered when e != nil / e == nil (from every If testing it).
func (a *FnA) errEdges(e ssa.Value) (errSucc []*ssa.BasicBlock, okSucc []*ssa.BasicBlock) {
	for _, b := range a.fn.Blocks {
		if len(b.Instrs) == 0 || len(b.Succs) != 2 {
			continue
		}
		iff, ok := b.Instrs[len(b.Instrs)-1].(*ssa.If)
		if !ok {
			continue
		}
		pol, ok := nilTest(iff.Cond, e, true)
		if !ok {
			continue
		}
		// pol: the value of (e == nil) when the condition is true
		if pol {
			okSucc = append(okSucc, b.Succs[0])
			errSucc = append(errSucc, b.Succs[1])
		} else {
			errSucc = append(errSucc, b.Succs[0])
			okSucc = append(okSucc, b.Succs[1])
		}
	}
	return
}

// nilTest: is cond a test of e against nil? Returns whether cond==true means e==nil.
func nilTest(cond ssa.Value, e ssa.Value, pol bool) (bool, bool) {
	switch x := cond.(type) {
	case *ssa.UnOp:
		if x.Op == token.NOT {
			return nilTest(x.X, e, !pol)
		}
	case *ssa.BinOp:
		if x.Op != token.EQL && x.Op != token.NEQ {
			return false, false
		}
		if (x.X == e && isNilConst(x.Y)) || (x.Y == e && isNilConst(x.X)) {
			if x.Op == token.NEQ {
				return !pol, true
			}
			return pol, true
		}
	}
	return false, false
}

// nilFact: the literal asserting e == nil.
func (a *FnA) nilFact(e ssa.Value) Lit {
	d := a.Desc(e)
	return Lit{"eq(" + min2(d, "nil") + "," + max2(d, "nil") + ")", true}
}

// derivesFrom: does error value r carry e (itself, wrapped by fmt.Errorf / errors.Join, or via phi)?
func derivesFrom(r, e ssa.Value, depth int) bool {
	if r == e {
		return true
	}
	if depth > 4 {
		return false
	}
	switch x := r.(type) {
	case *ssa.Phi:
		for _, ed := range x.Edges {
			if derivesFrom(ed, e, depth+1) {
				return true
			}
		}
	case *ssa.UnOp:
		// results spilled because of a defer: the value stored last in the same block
		if al, ok := x.X.(*ssa.Alloc); ok && x.Op == token.MUL {
			var last *ssa.Store
			for _, in := range x.Block().Instrs {
				if in == ssa.Instruction(x) {
					break
				}
				if st, ok := in.(*ssa.Store); ok && st.Addr == ssa.Value(al) {
					last = st
				}
			}
			if last != nil {
				return derivesFrom(last.Val, e, depth+1)
			}
		}
	case *ssa.MakeInterface:
		return derivesFrom(x.X, e, depth+1)
	case *ssa.ChangeInterface:
		return derivesFrom(x.X, e, depth+1)
	case *ssa.Call:
		sc := x.Call.StaticCallee()
		if sc == nil {
			return false
		}
		n := sc.String()
		if n == "fmt.Errorf" || strings.HasPrefix(n, "errors.") {
			for _, ar := range x.Call.Args {
				if va, ok := varargs(ar); ok {
					for _, v := range va {
						if derivesFrom(stripConv(v), e, depth+1) || stripConv(v) == e {
							return true
						}
					}
				}
				if derivesFrom(ar, e, depth+1) {
					return true
				}
			}
		}
	}
	return false
}

// handled: from every error edge of e, every path ends in a return carrying e or a panic with e.
func (a *FnA) handled(e ssa.Value) (bool, string) {
	errSucc, _ := a.errEdges(e)
	if len(errSucc) == 0 {
		// returned directly?
		for _, r := range nonDebugRefs(e) {
			if ret, ok := r.(*ssa.Return); ok {
				for _, res := range ret.Results {
					if res == e {
						return true, "returned directly"
					}
				}
			}
		}
		// returned through a phi or passed to panic
		for _, r := range nonDebugRefs(e) {
			switch x := r.(type) {
			case *ssa.Panic:
				return true, "panicked with"
			case *ssa.Phi:
				for _, rr := range nonDebugRefs(x) {
					if _, ok := rr.(*ssa.Return); ok {
						return true, "returned through phi"
					}
				}
			case *ssa.MakeInterface:
				for _, rr := range nonDebugRefs(x) {
					if _, ok := rr.(*ssa.Panic); ok {
						return true, "panicked with"
					}
				}
			}
		}
		return false, "the error is never tested against nil nor returned"
	}
	for _, s := range errSucc {
		seen := map[*ssa.BasicBlock]bool{}
		var bad string
		var walk func(b, pred *ssa.BasicBlock) bool
		walk = func(b, pred *ssa.BasicBlock) bool {
			if seen[b] {
				return true
			}
			seen[b] = true
			if len(b.Instrs) == 0 {
				return true
			}
			switch t := b.Instrs[len(b.Instrs)-1].(type) {
			case *ssa.Return:
				for _, res := range t.Results {
					if !isErrorType(res.Type()) {
						continue
					}
					if derivesFrom(res, e, 0) {
						return true
					}
				}
				bad = fmt.Sprintf("path from the error edge reaches `return` at %s without the error", a.c.pos(t.Pos()))
				return false
			case *ssa.Panic:
				if derivesFrom(stripConv(t.X), e, 0) {
					return true
				}
				if mi, ok := t.X.(*ssa.MakeInterface); ok && derivesFrom(mi.X, e, 0) {
					return true
				}
				bad = "panics without the error"
				return false
			}
			for _, n := range b.Succs {
				if !walk(n, b) {
					return false
				}
			}
			return true
		}
		if !walk(s, nil) {
			return false, bad
		}
	}
	return true, "tested; every path from the error edge returns or panics with it"
}

// errorMatters: the call's error is one the property is about — a write to a writer, a module
// function (render …), the formatter, or the file system.
func (c *Ctx) errorMatters(ci ssa.CallInstruction) bool {
	cc := ci.Common()
	if sinkOf(ci) != nil {
		return true
	}
	if cc.IsInvoke() {
		if _, ok := c.CG().implementations(cc); ok {
			return true
		}
		return cc.Method.Name() == "Close" || cc.Method.Name() == "Flush" || cc.Method.Name() == "Sync"
	}
	sc := cc.StaticCallee()
	if sc == nil {
		return true // function value
	}
	if c.CG().Sum[sc] != nil {
		return true
	}
	n := sc.String()
	pk := ""
	if sc.Pkg != nil {
		pk = sc.Pkg.Pkg.Path()
	}
	switch {
	case pk == "go/format", pk == "os", pk == "io", pk == "io/ioutil", pk == "bufio":
		return true
	case strings.HasPrefix(n, "(*os.File)."), strings.HasPrefix(n, "(*bufio.Writer)."), strings.HasPrefix(n, "(*bytes.Buffer)."):
		return true
	}
	return false
}

func isPrivateBufferType(t types.Type) bool {
	s := types.TypeString(t, nil)
	return s == "*bytes.Buffer" || s == "*strings.Builder"
}

func ruleErrProp(c *Ctx) []Obligation {
	o := c.newObs("P-ERR-PROP")
	for _, f := range c.allFuncs(c.Jen) {
		a := c.FA(f)
		seq := map[string]int{}
		for _, ci := range a.calls() {
			e, has := errValue(ci)
			if !has {
				continue
			}
			cn := calleeName(ci.Common())
			if !c.errorMatters(ci) {
				// errors of parsing / conversion helpers may legitimately be handled locally
				o.info(fname(f), "error of "+cn, ci.Pos(), "not an output / file-system / render error: local handling is accepted")
				continue
			}
			seq[cn]++
			construct := fmt.Sprintf("error of %s #%d", cn, seq[cn])
			if e == nil {
				// accepted idiom: cleanup on a path that already carries another error
				if sc := ci.Common().StaticCallee(); sc != nil && (sc.String() == "(*os.File).Close" || sc.String() == "os.Remove") {
					failing := false
					for atom, pol := range a.FactsOf(ci) {
						if !pol && strings.HasPrefix(atom, "eq(") && (strings.HasSuffix(atom, ",nil)") || strings.HasPrefix(atom, "eq(nil,")) && strings.Contains(atom, "@") {
							failing = true
						}
					}
					if failing {
						o.add(Discharged, fname(f), construct, ci.Pos(), false, "cleanup on a path that already returns another error")
						continue
					}
				}
				// accepted idiom: writes into a private in-memory buffer never fail
				if s := sinkOf(ci); s != nil {
					w := stripConv(s.Writer)
					if isPrivateBufferType(w.Type()) {
						if _, local := w.(*ssa.Alloc); local {
							o.add(Discharged, fname(f), construct, ci.Pos(), false, "ignored error of a write into a private in-memory buffer (documented to be always nil)")
							continue
						}
						// a method of *bytes.Buffer / *strings.Builder called on a value of exactly that static
						// type: "err is always nil" is part of the method's documentation, whoever owns the buffer
						if sc := ci.Common().StaticCallee(); sc != nil && (strings.HasPrefix(sc.String(), "(*bytes.Buffer).Write") || strings.HasPrefix(sc.String(), "(*strings.Builder).Write")) {
							o.add(Discharged, fname(f), construct, ci.Pos(), false, "ignored error of %s (documented to be always nil)", sc.String())
							continue
						}
					}
				}
				if _, isDefer := ci.(*ssa.Defer); isDefer {
					o.add(Violated, fname(f), construct, ci.Pos(), true, "error result of a deferred call is dropped")
					continue
				}
				if ok2, why2 := c.errHandledOnPaths(f, ci); ok2 {
					o.add(Discharged, fname(f), construct, ci.Pos(), true, "%s", why2)
					continue
				}
				o.add(Violated, fname(f), construct, ci.Pos(), true, "the error result is dropped (never read); errors from the writer / file system / renderer must reach the caller")
				continue
			}
			ok, why := a.handled(e)
			if !ok {
				if ok2, why2 := c.errHandledOnPaths(f, ci); ok2 {
					ok, why = true, why2
				}
			}
			o.req(ok, fname(f), construct, ci.Pos(), "%s", why)
		}
	}
	return o.list
}

// ---------------------------------------------------------------------------------------------

func (c *Ctx) writerParam(f *ssa.Function) *ssa.Parameter {
	for _, p := range f.Params {
		if isWriterType(p.Type()) {
			return p
		}
	}
	return nil
}

// dataLeaves expands a written value through phis into its leaf producers.
func dataLeaves(v ssa.Value, seen map[ssa.Value]bool) []ssa.Value {
	v = stripConv(v)
	if seen[v] {
		return nil
	}
	seen[v] = true
	if p, ok := v.(*ssa.Phi); ok {
		var out []ssa.Value
		for _, e := range p.Edges {
			out = append(out, dataLeaves(e, seen)...)
		}
		return out
	}
	return []ssa.Value{v}
}

// bufferBytesOf: v is buf.Bytes() / buf.String() of a buffer allocated in this function.
func bufferBytesOf(v ssa.Value) *ssa.Alloc {
	call, ok := stripConv(v).(*ssa.Call)
	if !ok || call.Call.StaticCallee() == nil {
		return nil
	}
	switch call.Call.StaticCallee().String() {
	case "(*bytes.Buffer).Bytes", "(*bytes.Buffer).String", "(*strings.Builder).String":
		if al, ok := call.Call.Args[0].(*ssa.Alloc); ok {
			return al
		}
	}
	return nil
}

func formatSourceResult(v ssa.Value) *ssa.Call {
	ex, ok := stripConv(v).(*ssa.Extract)
	if !ok || ex.Index != 0 {
		return nil
	}
	call, ok := ex.Tuple.(*ssa.Call)
	if !ok || call.Call.StaticCallee() == nil || call.Call.StaticCallee().String() != "go/format.Source" {
		return nil
	}
	return call
}

func ruleAtomicWrite(c *Ctx) []Obligation {
	o := c.newObs("P-ATOMIC-WRITE")
	entries := c.writerEntryPoints()
	isEntry := map[*ssa.Function]bool{}
	for _, e := range entries {
		isEntry[e] = true
	}
	if len(entries) < 5 {
		o.undecided("jen", "writer entry points", token.NoPos, "expected the 5 exported methods with an io.Writer parameter, found %d", len(entries))
	}
	for _, f := range entries {
		a := c.FA(f)
		w := c.writerParam(f)
		fn := fname(f)
		nsinks := 0
		for _, r := range nonDebugRefs(w) {
			ci, isCall := r.(ssa.CallInstruction)
			if !isCall {
				o.add(Violated, fn, fmt.Sprintf("caller's writer used by %T", r), r.Pos(), true, "the writer may only be written at the very end or handed to a sibling entry point")
				continue
			}
			if s := sinkOf(ci); s != nil && stripConv(s.Writer) == w {
				nsinks++
				construct := fmt.Sprintf("write to the caller's writer #%d", nsinks)
				// (a) not in a cycle
				o.req(!inCycle(ci.Block()), fn, construct+" is not in a loop", ci.Pos(), "the output must be delivered by a single write")
				// (b) unreachable from every error edge
				bad := ""
				for _, cj := range a.calls() {
					if cj == ci {
						continue
					}
					e, has := errValue(cj)
					if !has || e == nil {
						continue
					}
					errSucc, _ := a.errEdges(e)
					for _, s := range errSucc {
						if s == ci.Block() || reachableFrom(s, nil)[ci.Block()] {
							bad = fmt.Sprintf("reachable from the failure edge of %s at %s", calleeName(cj.Common()), c.pos(cj.Pos()))
						}
					}
				}
				o.req(bad == "", fn, construct+" is unreachable from every failure edge", ci.Pos(), "%s", bad)
				// (c) provenance of the data
				okData := true
				var leaves []string
				for _, d := range s.Data {
					for _, l := range dataLeaves(d, map[ssa.Value]bool{}) {
						leaves = append(leaves, a.Desc(l))
						if formatSourceResult(l) == nil && bufferBytesOf(l) == nil {
							okData = false
						}
					}
				}
				if s.Kind != "write" {
					okData = false
				}
				o.req(okData, fn, construct+" delivers the formatter's result or the private buffer, unmodified", ci.Pos(), "data: %s (kind %s)", strings.Join(leaves, " | "), s.Kind)
				continue
			}
			// hand-off to a sibling entry point
			sc := ci.Common().StaticCallee()
			if sc != nil && isEntry[sc] && !ci.Common().IsInvoke() {
				idx := -1
				for i, ar := range ci.Common().Args {
					if ar == w {
						idx = i
					}
				}
				okPos := idx >= 0 && idx < len(sc.Params) && isWriterType(sc.Params[idx].Type())
				_, isCall := ci.(*ssa.Call)
				o.req(okPos && isCall && !inCycle(ci.Block()), fn, "writer handed to "+fname(sc), ci.Pos(), "hand-off to a sibling entry point, once")
				nsinks++
				continue
			}
			o.add(Violated, fn, "caller's writer passed to "+calleeName(ci.Common()), ci.Pos(), true, "the caller's writer must not be given to the internal renderer or any other routine: a later failure would leave partial output behind")
		}
		if nsinks == 0 {
			o.add(Violated, fn, "writes its output", f.Pos(), true, "no write to the caller's writer and no hand-off found: the rendered output is never delivered")
		}
	}
	return o.list
}

func ruleFormatGate(c *Ctx) []Obligation {
	o := c.newObs("P-FORMAT-GATE")
	for _, f := range c.writerEntryPoints() {
		a := c.FA(f)
		w := c.writerParam(f)
		fn := fname(f)
		var sinks []*Sink
		for _, s := range a.Sinks() {
			if stripConv(s.Writer) == w {
				sinks = append(sinks, s)
			}
		}
		if len(sinks) == 0 {
			continue // pure hand-off (Render -> RenderWithFile); checked by P-ATOMIC-WRITE / P-FRAGMENT
		}
		var fcalls []*ssa.Call
		for _, ci := range a.calls() {
			if sc := ci.Common().StaticCallee(); sc != nil && sc.String() == "go/format.Source" {
				if call, ok := ci.(*ssa.Call); ok {
					fcalls = append(fcalls, call)
				}
			}
		}
		if len(fcalls) != 1 {
			o.add(Violated, fn, "exactly one call of format.Source", f.Pos(), true, "found %d calls; output must be gofmt of the raw rendering, applied once", len(fcalls))
			continue
		}
		fc := fcalls[0]
		o.req(!inCycle(fc.Block()), fn, "format.Source is not in a loop", fc.Pos(), "formatted once")
		ferr, _ := errValue(fc)
		if ferr == nil {
			o.add(Violated, fn, "format.Source error is read", fc.Pos(), true, "the formatter's error is dropped")
			continue
		}
		succ := a.nilFact(ferr)
		excuses := []Lit{succ}
		// the NoFormat bypass exists only in methods of File
		noFormat := ""
		isFile := f.Signature.Recv() != nil && types.TypeString(f.Signature.Recv().Type(), shortQual) == "*jen.File"
		if isFile {
			noFormat = "recv.NoFormat"
			excuses = append(excuses, Lit{noFormat, true})
		}
		for i, s := range sinks {
			construct := fmt.Sprintf("write #%d requires formatter success", i+1)
			if isFile {
				construct += " or NoFormat"
			}
			path := a.FindPath(f.Blocks[0], s.Call.Block(), nil, a.excuseBy(excuses))
			o.req(path == nil, fn, construct, s.Call.Pos(), "path reaching the caller's writer without passing format.Source's success edge%s: %s", map[bool]string{true: " or the NoFormat edge", false: ""}[isFile], pathString(path))
			// each data leaf is consistent with the edge it arrives on
			for _, d := range s.Data {
				okLeaves, detail := a.gateLeaves(stripConv(d), fc, succ, noFormat)
				o.req(okLeaves, fn, fmt.Sprintf("write #%d: formatted bytes on the formatting path, raw buffer only on the NoFormat path", i+1), s.Call.Pos(), "%s", detail)
			}
		}
		// the formatter's input is the private buffer (not an already formatted result)
		in := stripConv(fc.Call.Args[0])
		buf := bufferBytesOf(in)
		o.req(buf != nil, fn, "format.Source is applied to the private buffer", fc.Pos(), "argument %s", a.Desc(in))
		if isFile && buf != nil {
			// raw path writes the same buffer
			same := true
			n := 0
			for _, s := range sinks {
				for _, d := range s.Data {
					for _, l := range dataLeaves(d, map[ssa.Value]bool{}) {
						if b := bufferBytesOf(l); b != nil {
							n++
							if b != buf {
								same = false
							}
						}
					}
				}
			}
			o.req(same && n > 0, fn, "NoFormat writes the same buffer that the formatter would read", fc.Pos(), "the bypass must be the only difference between the two modes (raw leaves: %d)", n)
		}
	}
	return o.list
}

// gateLeaves checks the leaves of a written value: a format.Source result must arrive over an edge
// dominated by the formatter's success, a raw buffer only over an edge with NoFormat=true.
func (a *FnA) gateLeaves(v ssa.Value, fc *ssa.Call, succ Lit, noFormat string) (bool, string) {
	var checkF func(leaf ssa.Value, facts Facts) (bool, string)
	check := func(leaf ssa.Value, at *ssa.BasicBlock) (bool, string) {
		return checkF(leaf, a.FactsAt(at))
	}
	checkF = func(leaf ssa.Value, facts Facts) (bool, string) {
		if formatSourceResult(leaf) == fc {
			if facts.Has(succ.Atom, true) {
				return true, ""
			}
			return false, fmt.Sprintf("formatter result used where its success is not established (facts %s)", facts)
		}
		if bufferBytesOf(leaf) != nil {
			if noFormat != "" && facts.Has(noFormat, true) {
				return true, ""
			}
			return false, fmt.Sprintf("raw buffer written where NoFormat is not established (facts %s)", facts)
		}
		return false, "data " + a.Desc(leaf) + " is neither the formatter's result nor the private buffer"
	}
	if p, ok := v.(*ssa.Phi); ok {
		for i, e := range p.Edges {
			pred := p.Block().Preds[i]
			e = stripConv(e)
			if _, nested := e.(*ssa.Phi); nested {
				if ok, d := a.gateLeaves(e, fc, succ, noFormat); !ok {
					return false, d
				}
				continue
			}
			if ok, d := checkF(e, a.FactsOnEdge(pred, p.Block())); !ok {
				return false, d
			}
		}
		return true, "each phi operand matches the edge it arrives on"
	}
	// not a phi: facts at the defining use site are those of the sink; use the value's own block
	if in, ok := v.(ssa.Instruction); ok {
		// use the facts at the sink instead (they dominate)
		_ = in
	}
	// find the sink block: callers pass data of a sink; the value is used there. Use referrers.
	for _, r := range nonDebugRefs(v) {
		if ok, d := check(v, r.Block()); ok {
			return true, d
		}
	}
	return check(v, a.fn.Blocks[0])
}

// ---------------------------------------------------------------------------------------------

func ruleFragment(c *Ctx) []Obligation {
	o := c.newObs("P-FRAGMENT")
	ft := c.fileType()
	for _, tn := range []string{"Statement", "Group"} {
		rwf := c.method(tn, "RenderWithFile")
		rnd := c.method(tn, "Render")
		gos := c.method(tn, "GoString")
		irender := c.method(tn, c.renderName())
		if rwf == nil || rnd == nil || gos == nil || irender == nil {
			o.undecided("jen."+tn, "fragment renderers", token.NoPos, "anchor lost: RenderWithFile / Render / GoString / render not all found")
			continue
		}
		// RenderWithFile: render(file-param, private buffer, ...)
		a := c.FA(rwf)
		var fileParam *ssa.Parameter
		for _, p := range rwf.Params[1:] {
			if pt, ok := p.Type().(*types.Pointer); ok && types.Identical(pt.Elem(), ft) {
				fileParam = p
			}
		}
		calls := a.callsTo(irender)
		okc := len(calls) == 1 && fileParam != nil
		if okc {
			args := calls[0].Common().Args
			_, bufLocal := stripConv(args[2]).(*ssa.Alloc)
			okc = args[0] == rwf.Params[0] && args[1] == fileParam && bufLocal
		}
		o.req(okc, fname(rwf), "renders the receiver with the caller's File into a private buffer", rwf.Pos(), "exactly one call render(file, buf, …) with file = the method's File parameter (imports are shared with that File)")
		// Render: RenderWithFile(w, fresh File)
		a = c.FA(rnd)
		calls = a.callsTo(rwf)
		okc = len(calls) == 1
		if okc {
			args := calls[0].Common().Args
			fresh := false
			if call, ok := args[2].(*ssa.Call); ok {
				if sc := call.Call.StaticCallee(); sc != nil && c.CG().Sum[sc] != nil {
					rs := c.CG().Sum[sc].Returns
					fresh = len(rs) == 1 && rs[Root{Kind: "fresh"}]
				}
			}
			okc = args[0] == rnd.Params[0] && fresh
			for _, r := range a.returns() {
				if r.Results[0] != callValue(calls[0]) {
					okc = false
				}
			}
		}
		o.req(okc, fname(rnd), "delegates to RenderWithFile with a fresh File and returns its result", rnd.Pos(), "Render must equal RenderWithFile with a new File")
		// GoString: Render(fresh buffer); panic(err) on error; return buf.String()
		a = c.FA(gos)
		calls = a.callsTo(rnd)
		okc = len(calls) == 1
		detail := ""
		if okc {
			buf, isLocal := stripConv(calls[0].Common().Args[1]).(*ssa.Alloc)
			e := callValue(calls[0])
			h, why := a.handled(e)
			detail = why
			okc = isLocal && h && calls[0].Common().Args[0] == gos.Params[0]
			for _, r := range a.returns() {
				if bufferBytesOf(r.Results[0]) != buf {
					okc = false
					detail = "returns " + a.Desc(r.Results[0])
				}
			}
		}
		o.req(okc, fname(gos), "renders the receiver into a fresh buffer, panics on error, returns the buffer's text", gos.Pos(), "%s", detail)
	}
	// File.GoString
	if gos, rnd := c.method("File", "GoString"), c.method("File", "Render"); gos != nil && rnd != nil {
		a := c.FA(gos)
		calls := a.callsTo(rnd)
		okc := len(calls) == 1
		detail := ""
		if okc {
			buf, isLocal := stripConv(calls[0].Common().Args[1]).(*ssa.Alloc)
			h, why := a.handled(callValue(calls[0]))
			detail = why
			okc = isLocal && h && calls[0].Common().Args[0] == gos.Params[0]
			for _, r := range a.returns() {
				if bufferBytesOf(r.Results[0]) != buf {
					okc = false
				}
			}
		}
		o.req(okc, fname(gos), "renders the receiver into a fresh buffer, panics on error, returns the buffer's text", gos.Pos(), "%s", detail)
	} else {
		o.undecided("jen.File", "GoString", token.NoPos, "anchor lost")
	}
	return o.list
}
